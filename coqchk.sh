#!/bin/bash
# Re-checks the compiled development with Coq's independent checker and prints the axioms it relies on.
# (about 45 s; expected: "* Axioms: <none>")
cd "$(dirname "$0")/coq"
mods=$(ls Props/C*.v | sed 's#/#.#; s#\.v$##; s#^#FV.#')
exec coqchk -o -silent -Q . FV $mods
