(* M-FMT, part 4: what the flusher leaves in a block and what BlockScanner / BlockRecoverRunner read back.

   Follows
     flusher.rs        a part's data goes to blob_block_offset + part_blob_offset, then the serialized
                       SplitCtx::current_blob_index (ALL entries of the open blob so far, not only this part's)
                       goes to blob_block_offset
     scanner.rs        BlockScanner::next: stop if offset + blob_index_size > block size; read the index page at
                       offset; stop if it does not parse; entries get the address offset + index.offset; the
                       next blob starts at offset + (last.offset + aligned(last.len)), or the scan ends if the
                       page lists nothing
     recover.rs        BlockRecoverRunner::run: entries are taken in scan order until the first one whose
                       sequence is lower than the previously taken one (regress = the remains of the block's
                       previous generation; only page 0 of a reclaimed block is zeroed)

   A block is seen through its index pages only: [rd m stale o] is what a read of the index-page-sized area at
   offset [o] parses to - the latest page the flusher wrote there, else whatever the block held before
   ([stale], arbitrary).  Entry data never lies at an offset the scanner visits (theorem), so it is not part
   of the model.  Model only: no proofs in this file. *)
From Coq Require Import List NArith Bool Arith.
From FV Require Import Disk.Splitter.
Import ListNotations.
Open Scope N_scope.

Record info := mkInfo { n_hash : N; n_seq : N; n_off : N; n_len : N }.   (* EntryInfo: offset inside the block *)

Definition bmem := list (N * list idx).        (* index pages written: (offset, entries), latest first *)

Fixpoint find_off (m : bmem) (o : N) : option (list idx) :=
  match m with
  | [] => None
  | (o', l) :: m' => if o =? o' then Some l else find_off m' o
  end.
Definition rd (m : bmem) (stale : N -> option (list idx)) (o : N) : option (list idx) :=
  match find_off m o with Some l => Some l | None => stale o end.

Fixpoint last_idx (l : list idx) : option idx :=
  match l with
  | [] => None
  | i :: l' => match l' with [] => Some i | _ => last_idx l' end
  end.

Section Scan.
  Variable B I : N.

  (* the flusher writes one part: [open] = SplitCtx::current_blob_index before the part's entries were added;
     it was reset when the previous blob was sealed, i.e. exactly when the part starts right behind the index
     page (part_blob_offset = blob_index_size) *)
  Definition wpart (st : bmem * list idx) (p : part) : bmem * list idx :=
    let '(m, open) := st in
    let open' := (if p_pbo p =? I then [] else open) ++ p_inds p in
    ((p_bbo p, open') :: m, open').
  Definition written (ps : list part) : bmem := fst (fold_left wpart ps ([], [])).

  (* BlockScanner *)
  Definition step (l : list idx) : N :=
    match last_idx l with Some i => i_off i + align (i_len i) | None => B end.
  Fixpoint scan (fuel : nat) (r : N -> option (list idx)) (o : N) : list (N * list idx) :=
    match fuel with
    | O => []
    | S f =>
        if B <? o + I then []
        else match r o with
             | None => []
             | Some l => (o, l) :: scan f r (o + step l)
             end
    end.
  Definition scan_fuel : nat := S (N.to_nat (B / PAGE)).

  Definition infos_at (o : N) (l : list idx) : list info :=
    map (fun i => mkInfo (i_hash i) (i_seq i) (o + i_off i) (i_len i)) l.

  (* BlockRecoverRunner::run: stop at the first sequence regress *)
  Fixpoint cut (lastseq : N) (l : list info) : list info :=
    match l with
    | [] => []
    | x :: l' => if n_seq x <? lastseq then [] else x :: cut (n_seq x) l'
    end.
  Definition recover_block (r : N -> option (list idx)) : list info :=
    cut 0 (concat (map (fun b => infos_at (fst b) (snd b)) (scan scan_fuel r 0))).

  (* what was handed to the flusher for this block, as the addresses the indexer got (flusher.rs: block offset
     = blob_block_offset + index.offset) *)
  Definition infos_of_part (p : part) : list info := infos_at (p_bbo p) (p_inds p).
End Scan.

(* physical blocks: block 0 of a batch is the block the previous batch ended in *)
Fixpoint globalize (base : N) (out : list (list part * N)) : list (N * part) :=
  match out with
  | [] => []
  | (ps, n) :: rest => map (fun p => (base + p_blk p, p)) ps ++ globalize (base + n - 1) rest
  end.
Definition block_parts (g : N) (gl : list (N * part)) : list part :=
  map snd (filter (fun x => fst x =? g) gl).
