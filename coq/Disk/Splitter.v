(* M-FMT, part 3: Splitter::split (foyer-storage/src/engine/block/buffer.rs:323-470) with its SplitCtx
   carried across batches, the physical placement used by the flusher (flusher.rs: data of a part at
   block offset blob_block_offset + part_blob_offset, its index page at blob_block_offset) and
   BlockScanner::next (scanner.rs).  Model only: no proofs in this file. *)
From Coq Require Import List NArith Bool Arith.
Import ListNotations.
Open Scope N_scope.

Definition PAGE : N := 4096.
Definition align (x : N) : N := ((x + PAGE - 1) / PAGE) * PAGE.

Record ent := mkEnt { e_hash : N; e_seq : N; e_len : N }.
Record idx := mkIdx { i_hash : N; i_seq : N; i_off : N; i_len : N }.     (* BlobEntryIndex: offset in the blob *)
Record part := mkPart { p_blk : N; p_bbo : N; p_pbo : N; p_size : N; p_inds : list idx; p_cnt : N }.
  (* p_cnt: entries in the sealed index page written with this part (all entries of the blob so far) *)

(* SplitCtx: current_blob_block_offset, current_part_blob_offset, entries in the open blob index *)
Record sctx := mkCtx { bo : N; po : N; cnt : N }.
(* per-batch accumulator: part_size, indices of the open part, parts emitted (in order), block number *)
Record acc := mkAcc { ps : N; inds : list idx; parts : list part; blk : N }.

Section Split.
  Variable B I : N.                       (* block size, blob index size *)
  Definition icap : N := (I - 12) / 24.   (* BlobIndex::capacity *)

  Definition init_ctx : sctx := mkCtx 0 I 0.

  Definition split_blob (st : sctx * acc) : sctx * acc :=
    let '(c, a) := st in
    match inds a with
    | [] => (mkCtx (bo c + po c) I 0, a)
    | _ => (mkCtx (bo c + po c + ps a) I 0,
            mkAcc 0 [] (parts a ++ [mkPart (blk a) (bo c) (po c) (ps a) (inds a) (cnt c)]) (blk a))
    end.

  Definition split_block (st : sctx * acc) : sctx * acc :=
    let '(c, a) := st in (mkCtx 0 (po c) (cnt c), mkAcc (ps a) (inds a) (parts a) (blk a + 1)).

  (* the 'handle loop for one entry; [None] = the loop did not place the entry within [fuel] rounds *)
  Fixpoint place (fuel : nat) (st : sctx * acc) (e : ent) : option (sctx * acc) :=
    match fuel with
    | O => None
    | S fuel' =>
        let '(c, a) := st in
        if icap <=? cnt c then place fuel' (split_blob st) e
        else if B <? bo c + po c + ps a + align (e_len e) then place fuel' (split_block (split_blob st)) e
        else Some (mkCtx (bo c) (po c) (cnt c + 1),
                   mkAcc (ps a + align (e_len e))
                         (inds a ++ [mkIdx (e_hash e) (e_seq e) (po c + ps a) (e_len e)]) (parts a) (blk a))
    end.

  Definition seal_blob (st : sctx * acc) : sctx * acc :=
    let '(c, a) := st in
    match inds a with
    | [] => st
    | _ =>
        let a' := mkAcc 0 [] (parts a ++ [mkPart (blk a) (bo c) (po c) (ps a) (inds a) (cnt c)]) (blk a) in
        if icap <=? cnt c then (mkCtx (bo c + po c + ps a) I 0, a')
        else (mkCtx (bo c) (po c + ps a) (cnt c), a')
    end.

  Fixpoint place_all (st : sctx * acc) (es : list ent) : option (sctx * acc) :=
    match es with
    | [] => Some st
    | e :: es' => match place 3 st e with Some st' => place_all st' es' | None => None end
    end.

  (* Splitter::split: the new context, the parts in order, the number of blocks of the batch *)
  Definition split (c : sctx) (es : list ent) : option (sctx * list part * N) :=
    if icap <=? cnt c then None        (* assert!(!ctx.current_blob_index.is_full()) *)
    else match place_all (c, mkAcc 0 [] [] 0) es with
         | None => None
         | Some st => let '(c', a') := seal_blob st in Some (c', parts a', blk a' + 1)
         end.

  Fixpoint split_batches (c : sctx) (bs : list (list ent)) : option (sctx * list (list part * N)) :=
    match bs with
    | [] => Some (c, [])
    | b :: bs' =>
        match split c b with
        | None => None
        | Some (c', ps', n) =>
            match split_batches c' bs' with
            | None => None
            | Some (c'', rest) => Some (c'', (ps', n) :: rest)
            end
        end
    end.
End Split.
