(* Glue between M-BIDX (the bytes of an index page, Disk/BlobIndex.v) and M-SCAN (a block seen through its index pages as
   entry lists, Disk/Scan.v): a block whose index-page-sized areas hold sealed pages of the lists M-SCAN speaks of - and
   bytes that BlobIndexReader::read does not accept everywhere else - is scanned and recovered, byte level, exactly as
   M-SCAN says. *)
From Coq Require Import List NArith Bool Arith Lia.
From FV Require Import Disk.Codec Disk.BlobIndex Disk.BlobIndexProofs Disk.Splitter Disk.Scan.
Import ListNotations.
Open Scope N_scope.

Definition idx_of_bent (e : bent) : idx := mkIdx (be_hash e) (be_seq e) (be_off e) (be_len e).
Definition bent_of_idx (i : idx) : bent := mkBent (i_hash i) (i_seq i) (i_off i) (i_len i).
Definition idx_ok (i : idx) : Prop := bent_ok (bent_of_idx i).

(* BlockScanner::next's read + BlobIndexReader::read over a byte device ([dev o] = the index-page-sized area at offset o) *)
Definition rd_bytes (cksum : bytes -> N) (dev : N -> bytes) (o : N) : option (list idx) :=
  match bidx_read cksum (dev o) with BOk es => Some (map idx_of_bent es) | _ => None end.

Lemma idx_bent_id l : map idx_of_bent (map bent_of_idx l) = l.
Proof. induction l as [|i l IH]; [reflexivity|]. cbn [map]. rewrite IH. destruct i; reflexivity. Qed.

Lemma scan_ext B I f r r' : (forall o, r o = r' o) -> forall o, scan B I f r o = scan B I f r' o.
Proof.
  intros He. induction f as [|f IH]; intros o; cbn [scan]; [reflexivity|].
  destruct (B <? o + I); [reflexivity|]. rewrite <- He. destruct (r o) as [l|]; [|reflexivity]. rewrite IH. reflexivity.
Qed.

Lemma recover_block_ext B I r r' : (forall o, r o = r' o) -> recover_block B I r = recover_block B I r'.
Proof. intros He. unfold recover_block. rewrite (scan_ext B I _ r r' He). reflexivity. Qed.

Section Bytes.
  Variable cksum : bytes -> N.
  Hypothesis cksum_range : forall b, cksum b < 256 ^ 8.

  (* [dev] represents [r]: sealed pages where [r] has a list, unacceptable bytes where it has none *)
  Definition represents (dev : N -> bytes) (r : N -> option (list idx)) : Prop :=
    (forall o l, r o = Some l ->
       Forall idx_ok l /\ N.of_nat (length l) < 256 ^ 4 /\ exists rest, dev o = bidx_page cksum (map bent_of_idx l) rest) /\
    (forall o, r o = None -> forall es, bidx_read cksum (dev o) <> BOk es).

  Lemma rd_bytes_represents dev r : represents dev r -> forall o, rd_bytes cksum dev o = r o.
  Proof.
    intros [Hs Hn] o. unfold rd_bytes. destruct (r o) as [l|] eqn:E.
    - destruct (Hs o l E) as (Hok & Hlen & rest & Hd). rewrite Hd.
      rewrite (bidx_roundtrip cksum cksum_range).
      + rewrite idx_bent_id. reflexivity.
      + clear - Hok. induction Hok as [|i l Hi Hl IH]; cbn [map]; constructor; assumption.
      + rewrite map_length. assumption.
    - specialize (Hn o E). destruct (bidx_read cksum (dev o)) as [es| |]; [exfalso; apply (Hn es); reflexivity|reflexivity|reflexivity].
  Qed.

  Theorem recover_block_bytes B I dev r :
    represents dev r -> recover_block B I (rd_bytes cksum dev) = recover_block B I r.
  Proof. intros H. apply recover_block_ext. apply rd_bytes_represents. assumption. Qed.
End Bytes.
