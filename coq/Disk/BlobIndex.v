(* M-BIDX: the blob index page, byte by byte.
   foyer-storage/src/engine/block/buffer.rs: BlobEntryIndex::{write,read}, BlobIndex::{write,seal}, BlobIndexReader::read.
     | checksum (8B, big endian) | count (4B) | index 0 | index 1 | ... |      index = hash 8B, sequence 8B, offset 4B, len 4B
   The checksum covers everything behind itself: the count, the entries and whatever the rest of the page holds (the index
   buffer is reused: BlobIndex::reset only resets the count).  Model only: no proofs in this file. *)
From Coq Require Import List NArith Bool Arith.
From FV Require Import Disk.Codec.
Import ListNotations.
Open Scope N_scope.

Record bent := mkBent { be_hash : N; be_seq : N; be_off : N; be_len : N }.

Definition BENT_LEN : nat := 24.
Definition BIDX_OFFSET : nat := 12.

Definition bent_write (e : bent) : bytes :=
  encode_be 8 (be_hash e) ++ encode_be 8 (be_seq e) ++ encode_be 4 (be_off e) ++ encode_be 4 (be_len e).

Definition bent_read (b : bytes) : bent :=
  mkBent (decode_be (firstn 8 b)) (decode_be (firstn 8 (skipn 8 b)))
         (decode_be (firstn 4 (skipn 16 b))) (decode_be (firstn 4 (skipn 20 b))).

(* chunks_exact(24).map(read) over the first [n] chunks *)
Fixpoint chunks (n : nat) (b : bytes) : list bent :=
  match n with O => [] | S n' => bent_read (firstn BENT_LEN b) :: chunks n' (skipn BENT_LEN b) end.

Inductive bres := BOk (es : list bent) | BReject | BPanic.

Section BlobIndex.
  Variable cksum : bytes -> N.

  (* what seal() leaves in the page: [rest] is the page's content behind the entries *)
  Definition bidx_body (es : list bent) (rest : bytes) : bytes :=
    encode_be 4 (N.of_nat (length es)) ++ concat (map bent_write es) ++ rest.
  Definition bidx_page (es : list bent) (rest : bytes) : bytes :=
    encode_be 8 (cksum (bidx_body es rest)) ++ bidx_body es rest.

  (* BlobIndexReader::read on a page of at least 12 bytes (the scanner reads blob_index_size >= one device page);
     the slice of the entries panics when the count points beyond the page *)
  Definition bidx_read (buf : bytes) : bres :=
    if Nat.ltb (length buf) BIDX_OFFSET then BPanic
    else if negb (cksum (skipn 8 buf) =? decode_be (firstn 8 buf)) then BReject
    else
      let count := N.to_nat (decode_be (firstn 4 (skipn 8 buf))) in
      if Nat.ltb (length buf) (BIDX_OFFSET + count * BENT_LEN) then BPanic
      else BOk (chunks count (skipn BIDX_OFFSET buf)).
End BlobIndex.

Definition bent_ok (e : bent) : Prop :=
  be_hash e < 256 ^ 8 /\ be_seq e < 256 ^ 8 /\ be_off e < 256 ^ 4 /\ be_len e < 256 ^ 4.
