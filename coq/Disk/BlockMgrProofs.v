(* Block manager: every block is in exactly one of the four sets at all times, waiting writers are always being
   served, FIFO reclaim order. *)
From Coq Require Import List NArith Bool Arith Lia Permutation.
From FV Require Import Disk.BlockMgr.
Import ListNotations.
Open Scope N_scope.

Lemma mem_n_in x l : mem_n x l = true <-> In x l.
Proof.
  induction l as [|y l IH]; cbn; [split; [discriminate|tauto]|].
  destruct (N.eqb_spec x y); [subst; tauto|]. rewrite IH. split; [auto|intros [E|H]; [congruence|auto]].
Qed.

Lemma perm_remove x l : In x l -> Permutation l (x :: remove_n x l).
Proof.
  induction l as [|y l IH]; cbn; [tauto|]. intros Hin.
  destruct (N.eqb_spec x y); [subst; reflexivity|].
  destruct Hin as [E|Hin]; [congruence|]. rewrite (IH Hin) at 1. apply perm_swap.
Qed.

(* moving one element between lists permutes their concatenation *)
Lemma perm_snoc (x : N) l : Permutation (l ++ [x]) (x :: l).
Proof. apply Permutation_sym. apply Permutation_cons_append. Qed.

Lemma perm_take (x : N) l1 l2 : In x l1 -> Permutation (l1 ++ l2) (x :: remove_n x l1 ++ l2).
Proof. intros H. rewrite (perm_remove x l1 H) at 1. reflexivity. Qed.

Lemma perm_reclaim c ch s : Permutation (all_blocks (reclaim_if_needed c ch s)) (all_blocks s).
Proof.
  unfold reclaim_if_needed.
  destruct (Nat.ltb (length (clean s)) (threshold c) && Nat.ltb (length (reclaiming s)) (concurrency c)); [|reflexivity].
  destruct (evictable s) as [|b rest] eqn:He; [reflexivity|].
  set (p := if fifo c then b else if mem_n ch (b :: rest) then ch else b).
  assert (Hin : In p (b :: rest)).
  { subst p. destruct (fifo c); [left; auto|]. destruct (mem_n ch (b :: rest)) eqn:Hm; [apply mem_n_in; auto|left; auto]. }
  unfold all_blocks; cbn [clean evictable writing reclaiming]. rewrite He.
  apply Permutation_app_head.
  transitivity (p :: remove_n p (b :: rest) ++ writing s ++ reclaiming s).
  - replace (remove_n p (b :: rest) ++ writing s ++ reclaiming s ++ [p])
      with ((remove_n p (b :: rest) ++ writing s ++ reclaiming s) ++ [p]) by (rewrite <- !app_assoc; reflexivity).
    apply perm_snoc.
  - apply Permutation_sym. apply (perm_take p (b :: rest) (writing s ++ reclaiming s) Hin).
Qed.

Lemma perm_step c s e : Permutation (all_blocks (bstep c s e)) (all_blocks s).
Proof.
  destruct e as [f ch|b ch|b ch]; cbn [bstep].
  - destruct (clean s) as [|b rest] eqn:Hc; rewrite perm_reclaim; unfold all_blocks; cbn [clean evictable writing reclaiming]; rewrite ?Hc.
    + reflexivity.
    + (* rest ++ ev ++ (wr ++ [b]) ++ rc  ~  (b :: rest) ++ ev ++ wr ++ rc *)
      cbn [app].
      transitivity (b :: (rest ++ evictable s ++ writing s) ++ reclaiming s).
      * replace (rest ++ evictable s ++ (writing s ++ [b]) ++ reclaiming s)
          with (((rest ++ evictable s ++ writing s) ++ [b]) ++ reclaiming s) by (rewrite <- !app_assoc; reflexivity).
        change (b :: (rest ++ evictable s ++ writing s) ++ reclaiming s)
          with ((b :: (rest ++ evictable s ++ writing s)) ++ reclaiming s).
        apply Permutation_app_tail. apply perm_snoc.
      * rewrite <- !app_assoc. reflexivity.
  - destruct (mem_n b (writing s)) eqn:Hm; [|reflexivity]. apply mem_n_in in Hm.
    rewrite perm_reclaim. unfold all_blocks; cbn [clean evictable writing reclaiming].
    apply Permutation_app_head.
    (* (ev ++ [b]) ++ remove b wr ++ rc ~ ev ++ wr ++ rc *)
    rewrite <- app_assoc. apply Permutation_app_head. cbn [app].
    apply Permutation_sym. apply (perm_take b (writing s) (reclaiming s) Hm).
  - destruct (mem_n b (reclaiming s)) eqn:Hm; [|reflexivity]. apply mem_n_in in Hm.
    destruct (waiters s) as [|f ws]; rewrite perm_reclaim; unfold all_blocks; cbn [clean evictable writing reclaiming].
    + (* (cl ++ [b]) ++ ev ++ wr ++ remove b rc ~ cl ++ ev ++ wr ++ rc *)
      rewrite <- app_assoc. apply Permutation_app_head. cbn [app].
      transitivity (b :: (evictable s ++ writing s) ++ remove_n b (reclaiming s)).
      * rewrite <- !app_assoc. reflexivity.
      * transitivity ((evictable s ++ writing s) ++ b :: remove_n b (reclaiming s)).
        -- apply Permutation_middle.
        -- rewrite <- app_assoc. apply Permutation_app_head. apply Permutation_app_head.
           apply Permutation_sym. apply perm_remove; auto.
    + (* cl ++ ev ++ (wr ++ [b]) ++ remove b rc ~ cl ++ ev ++ wr ++ rc *)
      apply Permutation_app_head. apply Permutation_app_head. rewrite <- app_assoc. apply Permutation_app_head. cbn [app].
      apply Permutation_sym. apply perm_remove; auto.
Qed.

Lemma perm_run c l : forall s, Permutation (all_blocks (brun c s l)) (all_blocks s).
Proof. induction l as [|e l IH]; intros s; cbn; [reflexivity|]. eapply Permutation_trans; [apply IH|apply perm_step]. Qed.

(* C09: a block is clean, being written, evictable or being reclaimed - exactly one of them, always *)
Theorem blocks_partitioned c blocks l :
  NoDup blocks ->
  NoDup (all_blocks (brun c (init_b blocks) l)) /\
  (forall b, In b (all_blocks (brun c (init_b blocks) l)) <-> In b blocks).
Proof.
  intros Hnd. pose proof (perm_run c l (init_b blocks)) as Hp.
  assert (Hi : all_blocks (init_b blocks) = blocks) by (unfold all_blocks; cbn; apply app_nil_r).
  rewrite Hi in Hp. split.
  - eapply Permutation_NoDup; [apply Permutation_sym; exact Hp|exact Hnd].
  - intros b. split; [apply Permutation_in; exact Hp|apply Permutation_in; apply Permutation_sym; exact Hp].
Qed.

Lemma nodup_app_disjoint {A} (l1 l2 : list A) x : NoDup (l1 ++ l2) -> In x l1 -> ~ In x l2.
Proof.
  induction l1 as [|a l1 IH]; cbn; [tauto|]. intros Hn [E|Hin] H2.
  - subst. inversion Hn; subst. apply H1. apply in_or_app; right; auto.
  - inversion Hn; subst. exact (IH H3 Hin H2).
Qed.

Lemma nodup_app_l {A} (l1 l2 : list A) : NoDup (l1 ++ l2) -> NoDup l1.
Proof. induction l1 as [|a l1 IH]; cbn; intros H; [constructor|]. inversion H; subst. constructor; [intros Hin; apply H2; apply in_or_app; auto|auto]. Qed.
Lemma nodup_app_r {A} (l1 l2 : list A) : NoDup (l1 ++ l2) -> NoDup l2.
Proof. induction l1 as [|a l1 IH]; cbn; intros H; auto. inversion H; subst. auto. Qed.

(* ... so a block being written is not handed out again, not evictable, and is never picked for reclaim;
   a block being reclaimed is not written *)
Corollary writing_exclusive c blocks l b :
  NoDup blocks -> In b (writing (brun c (init_b blocks) l)) ->
  ~ In b (clean (brun c (init_b blocks) l)) /\ ~ In b (evictable (brun c (init_b blocks) l)) /\
  ~ In b (reclaiming (brun c (init_b blocks) l)) /\ NoDup (writing (brun c (init_b blocks) l)).
Proof.
  intros Hnd Hw. destruct (blocks_partitioned c blocks l Hnd) as [Hn _]. set (s := brun c (init_b blocks) l) in *.
  unfold all_blocks in Hn.
  assert (H1 : ~ In b (clean s)).
  { intros Hc. eapply (nodup_app_disjoint _ _ b Hn Hc). apply in_or_app; right. apply in_or_app; left; auto. }
  apply nodup_app_r in Hn.
  assert (H2 : ~ In b (evictable s)).
  { intros Hc. eapply (nodup_app_disjoint _ _ b Hn Hc). apply in_or_app; left; auto. }
  apply nodup_app_r in Hn.
  assert (H3 : ~ In b (reclaiming s)) by (eapply nodup_app_disjoint; eauto).
  repeat split; auto. eapply nodup_app_l; eauto.
Qed.

(* ---- waiting writers are served ---- *)
Record BInv (s : bst) : Prop := mkBInv {
  bW1 : waiters s <> [] -> clean s = [];
  bW3 : clean s = [] -> reclaiming s = [] -> evictable s = [] }.

Lemma reclaim_fields c ch s :
  clean (reclaim_if_needed c ch s) = clean s /\ waiters (reclaim_if_needed c ch s) = waiters s /\
  writing (reclaim_if_needed c ch s) = writing s /\ grants (reclaim_if_needed c ch s) = grants s.
Proof.
  unfold reclaim_if_needed.
  destruct (Nat.ltb (length (clean s)) (threshold c) && Nat.ltb (length (reclaiming s)) (concurrency c)); auto.
  destruct (evictable s); auto.
Qed.

Lemma binv_reclaim c ch s :
  (1 <= threshold c)%nat -> (1 <= concurrency c)%nat -> (waiters s <> [] -> clean s = []) -> BInv (reclaim_if_needed c ch s).
Proof.
  intros Ht Hc HW. destruct (reclaim_fields c ch s) as [E1 [E2 _]]. constructor.
  - rewrite E1, E2. exact HW.
  - rewrite E1. unfold reclaim_if_needed.
    destruct (Nat.ltb (length (clean s)) (threshold c) && Nat.ltb (length (reclaiming s)) (concurrency c)) eqn:Hcond.
    + destruct (evictable s) as [|b rest] eqn:He; [intros; exact He|]. cbn. intros _ Hr. apply app_eq_nil in Hr. destruct Hr as [_ Hr]. discriminate Hr.
    + intros Hcl Hr. exfalso. rewrite Hcl, Hr in Hcond. cbn [length] in Hcond.
      destruct (Nat.ltb_spec 0 (threshold c)); [|lia]. destruct (Nat.ltb_spec 0 (concurrency c)); [discriminate|lia].
Qed.

Lemma binv_step c s e : (1 <= threshold c)%nat -> (1 <= concurrency c)%nat -> BInv s -> BInv (bstep c s e).
Proof.
  intros Ht Hc [W1 W3]. destruct e as [f ch|b ch|b ch]; cbn [bstep].
  - destruct (clean s) as [|b rest] eqn:Hcl; apply binv_reclaim; auto; cbn [waiters clean].
    intros Hw. specialize (W1 Hw). discriminate.
  - destruct (mem_n b (writing s)); [|constructor; auto]. apply binv_reclaim; auto.
  - destruct (mem_n b (reclaiming s)); [|constructor; auto].
    destruct (waiters s) as [|f ws] eqn:Hw; apply binv_reclaim; auto; cbn [waiters clean]; [tauto|].
    intros _. apply W1. discriminate.
Qed.

Lemma binv_run c l : (1 <= threshold c)%nat -> (1 <= concurrency c)%nat -> forall s, BInv s -> BInv (brun c s l).
Proof. intros Ht Hc. induction l as [|e l IH]; intros s H; cbn; auto. apply IH. apply binv_step; auto. Qed.

Lemma binv_init blocks : BInv (init_b blocks).
Proof. constructor; cbn; [tauto|auto]. Qed.

(* C09: a writer that waits for a clean block has a reclaim running for it - unless every block is being written,
   which the engine's configuration check excludes (writers < blocks) *)
Theorem waiting_writer_is_served c blocks l :
  (1 <= threshold c)%nat -> (1 <= concurrency c)%nat -> NoDup blocks ->
  let s := brun c (init_b blocks) l in
  waiters s <> [] -> (length (writing s) < length blocks)%nat -> reclaiming s <> [].
Proof.
  intros Ht Hc Hnd s Hw Hlen Hr.
  pose proof (binv_run c l Ht Hc _ (binv_init blocks)) as [W1 W3]. fold s in W1, W3.
  specialize (W1 Hw). specialize (W3 W1 Hr).
  pose proof (perm_run c l (init_b blocks)) as Hp. fold s in Hp.
  apply Permutation_length in Hp. unfold all_blocks in Hp. rewrite W1, W3, Hr in Hp. cbn in Hp.
  rewrite app_nil_r in Hp. rewrite app_nil_r in Hp. lia.
Qed.

(* ... and when that reclaim finishes the block goes to the last waiter, not back to the clean queue *)
Theorem reclaim_done_serves_waiter c s b ch f ws :
  In b (reclaiming s) -> waiters s = f :: ws ->
  waiters (bstep c s (BReclaimDone b ch)) = ws /\ grants (bstep c s (BReclaimDone b ch)) = grants s ++ [(f, b)] /\
  In b (writing (bstep c s (BReclaimDone b ch))).
Proof.
  intros Hin Hw. cbn [bstep]. apply mem_n_in in Hin. rewrite Hin, Hw.
  destruct (reclaim_fields c ch (mkB (clean s) (evictable s) (writing s ++ [b]) (remove_n b (reclaiming s)) ws
                                     (grants s ++ [(f, b)]) (rlog s) (flog s))) as [_ [E2 [E3 E4]]].
  rewrite E2, E3, E4. cbn. repeat split; auto. apply in_or_app; right; left; auto.
Qed.

(* ---- FIFO: blocks are reclaimed in the order they were filled ---- *)
Lemma fifo_step c s e : fifo c = true -> flog s = rlog s ++ evictable s -> flog (bstep c s e) = rlog (bstep c s e) ++ evictable (bstep c s e).
Proof.
  intros Hf Hinv.
  assert (Hr : forall ch s0, flog s0 = rlog s0 ++ evictable s0 ->
                flog (reclaim_if_needed c ch s0) = rlog (reclaim_if_needed c ch s0) ++ evictable (reclaim_if_needed c ch s0)).
  { intros ch s0 H0. unfold reclaim_if_needed.
    destruct (Nat.ltb (length (clean s0)) (threshold c) && Nat.ltb (length (reclaiming s0)) (concurrency c)); auto.
    destruct (evictable s0) as [|b rest] eqn:He; [rewrite He; exact H0|]. rewrite Hf. cbn [flog rlog evictable remove_n].
    rewrite N.eqb_refl. rewrite H0. rewrite <- app_assoc. reflexivity. }
  destruct e as [f ch|b ch|b ch]; cbn [bstep].
  - destruct (clean s); apply Hr; exact Hinv.
  - destruct (mem_n b (writing s)); auto. apply Hr. cbn [flog rlog evictable]. rewrite Hinv. rewrite app_assoc. reflexivity.
  - destruct (mem_n b (reclaiming s)); auto. destruct (waiters s); apply Hr; exact Hinv.
Qed.

Theorem fifo_reclaim_order c blocks l :
  fifo c = true ->
  let s := brun c (init_b blocks) l in flog s = rlog s ++ evictable s.
Proof.
  intros Hf. cbn zeta.
  assert (H : forall l s0, flog s0 = rlog s0 ++ evictable s0 -> flog (brun c s0 l) = rlog (brun c s0 l) ++ evictable (brun c s0 l)).
  { clear l. induction l as [|e l IH]; intros s0 H0; cbn; auto. apply IH. apply fifo_step; auto. }
  apply H. reflexivity.
Qed.
