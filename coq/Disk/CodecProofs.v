(* Round-trip and rejection theorems for the codecs (C08; reused by C03). *)
From Coq Require Import List NArith Bool Arith Lia.
From FV Require Import Disk.Codec.
Import ListNotations.
Open Scope N_scope.

Arguments N.mul : simpl never.
Arguments N.add : simpl never.
Arguments N.div : simpl never.
Arguments N.modulo : simpl never.
Arguments N.pow : simpl never.
Arguments N.of_nat : simpl never.
Arguments N.to_nat : simpl never.
Arguments N.leb : simpl never.
Arguments N.ltb : simpl never.
Arguments N.eqb : simpl never.

(* ---------------------------------------------------------------- integers *)

Lemma encode_le_length w x : length (encode_le w x) = w.
Proof. revert x; induction w as [|w IH]; intros x; simpl; [reflexivity|]. rewrite IH. reflexivity. Qed.

Lemma encode_le_bytes w x : Forall (fun b => b < 256) (encode_le w x).
Proof.
  revert x; induction w as [|w IH]; intros x; simpl; constructor; [|apply IH].
  apply N.mod_lt. discriminate.
Qed.

Lemma pow256_succ w : 256 ^ N.of_nat (S w) = 256 * 256 ^ N.of_nat w.
Proof. rewrite Nat2N.inj_succ. rewrite N.pow_succ_r'. reflexivity. Qed.

Lemma decode_encode_le w : forall x, x < 256 ^ N.of_nat w -> decode_le (encode_le w x) = x.
Proof.
  induction w as [|w IH]; intros x Hx.
  - simpl in *. change (256 ^ N.of_nat 0) with 1 in Hx. lia.
  - cbn [encode_le decode_le]. rewrite pow256_succ in Hx.
    rewrite IH.
    + pose proof (N.div_mod x 256 ltac:(discriminate)). lia.
    + apply N.div_lt_upper_bound; [discriminate|assumption].
Qed.

Lemma read_exact_app a r : read_exact (length a) (a ++ r) = Some (a, r).
Proof.
  unfold read_exact. rewrite app_length.
  assert (H : Nat.leb (length a) (length a + length r) = true) by (apply Nat.leb_le; lia).
  rewrite H. rewrite firstn_app, Nat.sub_diag, firstn_all, skipn_app, Nat.sub_diag, skipn_all. simpl.
  rewrite app_nil_r. reflexivity.
Qed.

Lemma read_exact_short n r : (length r < n)%nat -> read_exact n r = None.
Proof. intros H. unfold read_exact. destruct (Nat.leb_spec n (length r)); [lia|reflexivity]. Qed.

Lemma decode_int_encode w x r :
  x < 256 ^ N.of_nat w -> decode_int w (encode_le w x ++ r) = Some (x, r).
Proof.
  intros Hx. unfold decode_int.
  pose proof (read_exact_app (encode_le w x) r) as H. rewrite encode_le_length in H. rewrite H.
  rewrite decode_encode_le by assumption. reflexivity.
Qed.

Lemma decode_be_encode w x : x < 256 ^ N.of_nat w -> decode_be (encode_be w x) = x.
Proof. intros H. unfold decode_be, encode_be. rewrite rev_involutive. apply decode_encode_le. assumption. Qed.

Lemma encode_be_length w x : length (encode_be w x) = w.
Proof. unfold encode_be. rewrite rev_length. apply encode_le_length. Qed.

(* a strict prefix of an encoding does not decode *)
Lemma decode_int_prefix w x n : (n < w)%nat -> decode_int w (firstn n (encode_le w x)) = None.
Proof.
  intros H. unfold decode_int. rewrite read_exact_short; [reflexivity|].
  rewrite firstn_length, encode_le_length. lia.
Qed.

(* ---------------------------------------------------------------- bool / vec / string *)

Lemma decode_bool_encode b r : decode_bool (encode_bool b ++ r) = Some (b, r).
Proof. destruct b; reflexivity. Qed.

Lemma decode_bool_garbage x r : 1 < x -> decode_bool (x :: r) = None.
Proof. intros H. unfold decode_bool. destruct x as [|[p|p|]]; try reflexivity; lia. Qed.

Lemma decode_vec_encode v r :
  N.of_nat (length v) < 256 ^ N.of_nat 8 -> decode_vec (encode_vec v ++ r) = Some (v, r).
Proof.
  intros H. unfold decode_vec, encode_vec. rewrite <- app_assoc.
  rewrite decode_int_encode by assumption. rewrite Nat2N.id. apply read_exact_app.
Qed.

Lemma decode_vec_prefix v n :
  N.of_nat (length v) < 256 ^ N.of_nat 8 -> (n < length (encode_vec v))%nat ->
  decode_vec (firstn n (encode_vec v)) = None.
Proof.
  intros Hv Hn. unfold decode_vec, encode_vec in *. rewrite app_length, encode_le_length in Hn.
  destruct (Nat.lt_ge_cases n 8) as [Hlt|Hge].
  - unfold decode_int. rewrite read_exact_short; [reflexivity|].
    rewrite firstn_length, app_length, encode_le_length. lia.
  - rewrite firstn_app, encode_le_length.
    rewrite (firstn_all2 (encode_le 8 _)) by (rewrite encode_le_length; lia).
    rewrite decode_int_encode by assumption. rewrite Nat2N.id.
    apply read_exact_short. rewrite firstn_length. lia.
Qed.

Section Utf8.
  Variable utf8_valid : bytes -> bool.
  Lemma decode_string_encode s r :
    utf8_valid s = true -> N.of_nat (length s) < 256 ^ N.of_nat 8 ->
    decode_string utf8_valid (encode_string s ++ r) = Some (s, r).
  Proof.
    intros Hu Hl. unfold decode_string, encode_string. rewrite decode_vec_encode by assumption.
    rewrite Hu. reflexivity.
  Qed.
  Lemma decode_string_invalid s r :
    utf8_valid s = false -> N.of_nat (length s) < 256 ^ N.of_nat 8 ->
    decode_string utf8_valid (encode_vec s ++ r) = None.
  Proof.
    intros Hu Hl. unfold decode_string. rewrite decode_vec_encode by assumption. rewrite Hu. reflexivity.
  Qed.
End Utf8.

(* ---------------------------------------------------------------- header *)

Definition header_ok (h : header) : Prop :=
  h_key_len h < 256 ^ 4 /\ h_value_len h < 256 ^ 4 /\ h_hash h < 256 ^ 8 /\ h_seq h < 256 ^ 8 /\
  h_checksum h < 256 ^ 8 /\ h_comp h <= 2.

Lemma write_header_length h : length (write_header h) = HEADER_LEN.
Proof. unfold write_header. rewrite !app_length, !encode_be_length. reflexivity. Qed.

Lemma read_exact_be w x r : read_exact w (encode_be w x ++ r) = Some (encode_be w x, r).
Proof. pose proof (read_exact_app (encode_be w x) r) as H. rewrite encode_be_length in H. exact H. Qed.

Lemma read_write_header h r : header_ok h -> read_header (write_header h ++ r) = inl h.
Proof.
  intros (H1 & H2 & H3 & H4 & H5 & H6). unfold read_header, write_header.
  repeat rewrite <- app_assoc.
  rewrite read_exact_be. rewrite read_exact_be. rewrite read_exact_be. rewrite read_exact_be.
  rewrite read_exact_be. rewrite read_exact_be.
  assert (Hm : ENTRY_MAGIC + h_comp h < 256 ^ N.of_nat 4).
  { unfold ENTRY_MAGIC. change (256 ^ N.of_nat 4) with 4294967296. lia. }
  rewrite (decode_be_encode 4 (ENTRY_MAGIC + h_comp h)) by assumption.
  assert (Hd : (ENTRY_MAGIC + h_comp h) / 256 = ENTRY_MAGIC / 256).
  { unfold ENTRY_MAGIC. change 2533566208 with (9896743 * 256).
    rewrite N.add_comm, N.div_add by discriminate. rewrite N.div_small by lia. reflexivity. }
  assert (Hmod : (ENTRY_MAGIC + h_comp h) mod 256 = h_comp h).
  { unfold ENTRY_MAGIC. change 2533566208 with (9896743 * 256).
    rewrite N.add_comm, N.mod_add by discriminate. apply N.mod_small. lia. }
  rewrite Hd, N.eqb_refl. cbn [negb]. rewrite Hmod.
  destruct (N.ltb_spec 2 (h_comp h)); [lia|].
  rewrite !decode_be_encode; [destruct h; reflexivity| | | | |];
    change (N.of_nat 4) with 4; change (N.of_nat 8) with 8; assumption.
Qed.

Lemma read_header_bad_magic (b1 b2 b3 b4 b5 b6 : bytes) r :
  length b1 = 4%nat -> length b2 = 4%nat -> length b3 = 8%nat -> length b4 = 8%nat -> length b5 = 8%nat ->
  length b6 = 4%nat -> decode_be b6 / 256 <> ENTRY_MAGIC / 256 ->
  read_header (b1 ++ b2 ++ b3 ++ b4 ++ b5 ++ b6 ++ r) = inr HMagic.
Proof.
  intros L1 L2 L3 L4 L5 L6 Hm. unfold read_header.
  rewrite <- L1 at 1. rewrite read_exact_app. rewrite <- L2 at 1. rewrite read_exact_app.
  rewrite <- L3 at 1. rewrite read_exact_app. rewrite <- L4 at 1. rewrite read_exact_app.
  rewrite <- L5 at 1. rewrite read_exact_app. rewrite <- L6 at 1. rewrite read_exact_app.
  apply N.eqb_neq in Hm. rewrite Hm. reflexivity.
Qed.

(* ---------------------------------------------------------------- entries *)

Section Entry.
  Variable cksum : bytes -> N.
  Variable compress : N -> bytes -> bytes.
  Variable decompress : N -> bytes -> option bytes.
  (* the compressor round-trips (zstd / lz4; identity for None): the one assumption about them *)
  Hypothesis codec_ok : forall c x, decompress c (compress c x) = Some x.

  (* whatever is accepted decodes to the original key and value encodings; the recorded lengths are
     the bytes actually written *)
  Lemma serialize_roundtrip comp kenc venc cap payload kl vl pad :
    serialize compress comp kenc venc cap = Some (payload, kl, vl) ->
    length payload = (N.to_nat vl + N.to_nat kl)%nat /\ (length payload <= cap)%nat /\
    deserialize cksum decompress (payload ++ pad) kl vl comp (Some (cksum payload)) = inl (kenc, venc).
  Proof.
    unfold serialize. destruct (Nat.leb_spec (length (compress comp venc ++ kenc)) cap) as [Hle|]; [|discriminate].
    intros H; inversion H; subst; clear H. rewrite !Nat2N.id.
    split; [rewrite app_length; reflexivity|]. split; [assumption|].
    unfold deserialize. rewrite !Nat2N.id.
    set (vb := compress comp venc).
    assert (Hlen : Nat.ltb (length ((vb ++ kenc) ++ pad)) (length vb + length kenc) = false).
    { apply Nat.ltb_ge. rewrite !app_length. lia. }
    rewrite Hlen.
    assert (Hf : firstn (length vb + length kenc) ((vb ++ kenc) ++ pad) = vb ++ kenc).
    { rewrite <- app_length. rewrite firstn_app, Nat.sub_diag, firstn_all. simpl. apply app_nil_r. }
    rewrite Hf, N.eqb_refl. cbn [negb].
    assert (Hv : firstn (length vb) ((vb ++ kenc) ++ pad) = vb).
    { rewrite <- app_assoc. rewrite firstn_app, Nat.sub_diag, firstn_all. simpl. apply app_nil_r. }
    rewrite Hv. unfold vb. rewrite codec_ok.
    assert (Hk : firstn (length kenc) (skipn (length (compress comp venc)) ((compress comp venc ++ kenc) ++ pad)) = kenc).
    { rewrite <- app_assoc. rewrite skipn_app, Nat.sub_diag, skipn_all. simpl.
      rewrite firstn_app, Nat.sub_diag, firstn_all. simpl. apply app_nil_r. }
    rewrite Hk. reflexivity.
  Qed.

  (* an entry that does not fit is rejected as a whole *)
  Lemma serialize_reject comp kenc venc cap :
    (cap < length (compress comp venc ++ kenc))%nat -> serialize compress comp kenc venc cap = None.
  Proof. intros H. unfold serialize. destruct (Nat.leb_spec (length (compress comp venc ++ kenc)) cap); [lia|reflexivity]. Qed.

  (* nothing is decoded unless the checksum matches *)
  Lemma deserialize_checksum_first buffer kl vl comp c :
    (N.to_nat vl + N.to_nat kl <= length buffer)%nat ->
    c <> cksum (firstn (N.to_nat vl + N.to_nat kl) buffer) ->
    deserialize cksum decompress buffer kl vl comp (Some c) = inr DChecksum.
  Proof.
    intros Hl Hc. unfold deserialize.
    destruct (Nat.ltb_spec (length buffer) (N.to_nat vl + N.to_nat kl)); [lia|].
    apply N.eqb_neq in Hc. rewrite Hc. reflexivity.
  Qed.

  Lemma deserialize_out_of_range buffer kl vl comp c :
    (length buffer < N.to_nat vl + N.to_nat kl)%nat ->
    deserialize cksum decompress buffer kl vl comp c = inr DOutOfRange.
  Proof.
    intros Hl. unfold deserialize.
    destruct (Nat.ltb_spec (length buffer) (N.to_nat vl + N.to_nat kl)); [reflexivity|lia].
  Qed.

  (* anything deserialize returns passed the checksum over exactly the recorded lengths *)
  Lemma deserialize_sound buffer kl vl comp c kenc venc :
    deserialize cksum decompress buffer kl vl comp (Some c) = inl (kenc, venc) ->
    c = cksum (firstn (N.to_nat vl + N.to_nat kl) buffer) /\
    decompress comp (firstn (N.to_nat vl) buffer) = Some venc /\
    kenc = firstn (N.to_nat kl) (skipn (N.to_nat vl) buffer).
  Proof.
    unfold deserialize. destruct (Nat.ltb _ _); [discriminate|].
    destruct (N.eqb_spec c (cksum (firstn (N.to_nat vl + N.to_nat kl) buffer))) as [->|]; cbn [negb]; [|discriminate].
    destruct (decompress comp (firstn (N.to_nat vl) buffer)) as [v|]; [|discriminate].
    intros H; inversion H; subst. auto.
  Qed.

  (* ---------------------------------------------------------------- Buffer::push *)

  Lemma push_rejects_whole b kenc venc hash seq comp b' :
    buffer_push cksum compress b kenc venc hash seq comp = (b', false) -> b' = b.
  Proof.
    unfold buffer_push. destruct (_ <? _); [intros H; inversion H; reflexivity|].
    destruct (serialize _ _ _ _ _) as [[[p kl] vl]|]; [|intros H; inversion H; reflexivity].
    destruct (_ <? _); intros H; inversion H; reflexivity.
  Qed.

  Lemma push_commits b kenc venc hash seq comp b' :
    buffer_push cksum compress b kenc venc hash seq comp = (b', true) ->
    exists payload kl vl,
      serialize compress comp kenc venc (N.to_nat (bf_cap b - bf_written b) - HEADER_LEN) = Some (payload, kl, vl) /\
      let len := N.of_nat HEADER_LEN + kl + vl in
      align_up len <= bf_max b /\
      bf_written b' = bf_written b + align_up len /\
      bf_infos b' = bf_infos b ++ [mkBinfo hash seq (bf_written b) len] /\
      bf_data b' = bf_data b ++ [(bf_written b, write_header (mkHeader kl vl hash seq (cksum payload) comp) ++ payload)] /\
      bf_cap b' = bf_cap b /\ bf_max b' = bf_max b.
  Proof.
    unfold buffer_push. destruct (_ <? _); [intros H; inversion H|].
    destruct (serialize _ _ _ _ _) as [[[p kl] vl]|] eqn:E; [|intros H; inversion H].
    destruct (N.ltb_spec (bf_max b) (align_up (N.of_nat HEADER_LEN + kl + vl))) as [Hlt|Hge]; intros H; inversion H; subst.
    exists p, kl, vl. cbn [bf_written bf_infos bf_data bf_cap bf_max]. repeat split; auto.
  Qed.

  (* what push committed loads back: header, checksum and both encodings *)
  Lemma load_pushed payload kl vl hash seq comp kenc venc cap pad :
    serialize compress comp kenc venc cap = Some (payload, kl, vl) ->
    header_ok (mkHeader kl vl hash seq (cksum payload) comp) ->
    load_entry cksum decompress (write_header (mkHeader kl vl hash seq (cksum payload) comp) ++ payload ++ pad) =
    Some (mkHeader kl vl hash seq (cksum payload) comp, kenc, venc).
  Proof.
    intros Hs Hok. unfold load_entry. rewrite read_write_header by assumption.
    cbn [h_key_len h_value_len h_comp h_checksum].
    assert (Hsk : skipn HEADER_LEN (write_header (mkHeader kl vl hash seq (cksum payload) comp) ++ payload ++ pad) = payload ++ pad).
    { rewrite <- (write_header_length (mkHeader kl vl hash seq (cksum payload) comp)).
      rewrite skipn_app, Nat.sub_diag, skipn_all. reflexivity. }
    rewrite Hsk. destruct (serialize_roundtrip _ _ _ _ _ _ _ pad Hs) as (_ & _ & Hd). rewrite Hd. reflexivity.
  Qed.
End Entry.
