(* What Store::load accepts, for ARBITRARY bytes read from the device (C03): an entry is handed out only if the
   header's magic and compression tag are valid and the checksum stored in the header equals the checksum of
   exactly the bytes that are then decoded as value and key. *)
From Coq Require Import List NArith Bool Arith Lia.
From FV Require Import Disk.Codec.
Import ListNotations.
Open Scope N_scope.

Lemma skipn_add {A} (n m : nat) (l : list A) : skipn n (skipn m l) = skipn (m + n) l.
Proof. revert l. induction m as [|m IH]; intros l; cbn; auto. destruct l; [destruct n; reflexivity|apply IH]. Qed.

Lemma read_header_sound raw h :
  read_header raw = inl h ->
  (HEADER_LEN <= length raw)%nat /\ h_comp h <= 2 /\
  decode_be (firstn 4 (skipn 32 raw)) / 256 = ENTRY_MAGIC / 256.
Proof.
  unfold read_header, read_exact.
  destruct (Nat.leb 4 (length raw)) eqn:L1; [|discriminate].
  set (r1 := skipn 4 raw).
  destruct (Nat.leb 4 (length r1)) eqn:L2; [|discriminate].
  set (r2 := skipn 4 r1).
  destruct (Nat.leb 8 (length r2)) eqn:L3; [|discriminate].
  set (r3 := skipn 8 r2).
  destruct (Nat.leb 8 (length r3)) eqn:L4; [|discriminate].
  set (r4 := skipn 8 r3).
  destruct (Nat.leb 8 (length r4)) eqn:L5; [|discriminate].
  set (r5 := skipn 8 r4).
  destruct (Nat.leb 4 (length r5)) eqn:L6; [|discriminate].
  set (v := decode_be (firstn 4 r5)).
  destruct (negb (v / 256 =? ENTRY_MAGIC / 256)) eqn:M; [discriminate|].
  destruct (2 <? v mod 256) eqn:T; [discriminate|].
  intros E. inversion E; subst. clear E. cbn [h_comp].
  apply Nat.leb_le in L1, L2, L3, L4, L5, L6.
  subst r1 r2 r3 r4 r5. rewrite !skipn_length in *.
  assert (Hr5 : skipn 8 (skipn 8 (skipn 8 (skipn 4 (skipn 4 raw)))) = skipn 32 raw).
  { rewrite !skipn_add. reflexivity. }
  split; [unfold HEADER_LEN; lia|]. split.
  - apply N.ltb_ge in T. exact T.
  - apply negb_false_iff in M. apply N.eqb_eq in M. subst v. rewrite Hr5 in M. exact M.
Qed.

Section Load.
  Variable cksum : bytes -> N.
  Variable decompress : N -> bytes -> option bytes.

  Theorem load_entry_sound raw h kenc venc :
    load_entry cksum decompress raw = Some (h, kenc, venc) ->
    read_header raw = inl h /\
    let kl := N.to_nat (h_key_len h) in
    let vl := N.to_nat (h_value_len h) in
    let body := skipn HEADER_LEN raw in
    (vl + kl <= length body)%nat /\
    cksum (firstn (vl + kl) body) = h_checksum h /\
    kenc = firstn kl (skipn vl body) /\
    decompress (h_comp h) (firstn vl body) = Some venc.
  Proof.
    unfold load_entry. destruct (read_header raw) as [h0|e] eqn:Hh; [|discriminate].
    unfold deserialize.
    destruct (Nat.ltb (length (skipn HEADER_LEN raw)) (N.to_nat (h_value_len h0) + N.to_nat (h_key_len h0))) eqn:L; [discriminate|].
    destruct (negb (h_checksum h0 =? cksum (firstn (N.to_nat (h_value_len h0) + N.to_nat (h_key_len h0)) (skipn HEADER_LEN raw)))) eqn:C;
      [discriminate|].
    destruct (decompress (h_comp h0) (firstn (N.to_nat (h_value_len h0)) (skipn HEADER_LEN raw))) as [ve|] eqn:D; [|discriminate].
    intros E. inversion E; subst. clear E. split; auto.
    apply Nat.ltb_ge in L. apply negb_false_iff in C. apply N.eqb_eq in C.
    repeat split; auto.
  Qed.

  (* damage anywhere in the decoded region that changes its checksum is rejected *)
  Corollary damaged_payload_rejected raw h :
    read_header raw = inl h ->
    cksum (firstn (N.to_nat (h_value_len h) + N.to_nat (h_key_len h)) (skipn HEADER_LEN raw)) <> h_checksum h ->
    load_entry cksum decompress raw = None.
  Proof.
    intros Hh Hc. destruct (load_entry cksum decompress raw) as [[[h0 k] v]|] eqn:E; auto.
    exfalso. destruct (load_entry_sound _ _ _ _ E) as [Hh0 [_ [Hck _]]]. rewrite Hh in Hh0. inversion Hh0; subst. auto.
  Qed.

  (* bytes without a valid header (wrong magic, unknown compression tag, too short) are rejected *)
  Corollary bad_header_rejected raw e : read_header raw = inr e -> load_entry cksum decompress raw = None.
  Proof. intros Hh. unfold load_entry. rewrite Hh. reflexivity. Qed.
End Load.
