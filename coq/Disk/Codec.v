(* M-FMT, part 1: byte-level codecs.
   foyer-common/src/code.rs (Code for numeric types, bool, Vec<u8>, String, Bytes),
   foyer-storage/src/engine/block/serde.rs (EntryHeader),
   foyer-storage/src/serde.rs (EntrySerializer / EntryDeserializer),
   foyer-storage/src/engine/block/buffer.rs (Buffer::push).
   Bytes are [N] (values below 256).  Model only: no proofs in this file. *)
From Coq Require Import List NArith Bool Arith.
Import ListNotations.
Open Scope N_scope.

Definition bytes := list N.

(* ---------------------------------------------------------------- integers *)

(* to_le_bytes for a [w]-byte integer (signed and float types: through their bit patterns) *)
Fixpoint encode_le (w : nat) (x : N) : bytes :=
  match w with O => [] | S w' => (x mod 256) :: encode_le w' (x / 256) end.

Fixpoint decode_le (bs : bytes) : N :=
  match bs with [] => 0 | b :: bs' => b + 256 * decode_le bs' end.

Definition encode_be (w : nat) (x : N) : bytes := rev (encode_le w x).
Definition decode_be (bs : bytes) : N := decode_le (rev bs).

(* Read::read_exact on a slice reader *)
Definition read_exact (n : nat) (r : bytes) : option (bytes * bytes) :=
  if Nat.leb n (length r) then Some (firstn n r, skipn n r) else None.

Definition decode_int (w : nat) (r : bytes) : option (N * bytes) :=
  match read_exact w r with
  | Some (b, r') => Some (decode_le b, r')
  | None => None
  end.

(* ---------------------------------------------------------------- bool, Vec<u8>, String *)

Definition encode_bool (b : bool) : bytes := [if b then 1 else 0].
Definition decode_bool (r : bytes) : option (bool * bytes) :=
  match r with
  | 0 :: r' => Some (false, r')
  | 1 :: r' => Some (true, r')
  | _ => None
  end.

(* length prefix: usize = 8 bytes little endian *)
Definition encode_vec (v : bytes) : bytes := encode_le 8 (N.of_nat (length v)) ++ v.
Definition decode_vec (r : bytes) : option (bytes * bytes) :=
  match decode_int 8 r with
  | Some (len, r') => read_exact (N.to_nat len) r'
  | None => None
  end.

Section Utf8.
  (* String::from_utf8's validity check (core library); Rust Strings satisfy it by construction *)
  Variable utf8_valid : bytes -> bool.
  Definition encode_string (s : bytes) : bytes := encode_vec s.
  Definition decode_string (r : bytes) : option (bytes * bytes) :=
    match decode_vec r with
    | Some (v, r') => if utf8_valid v then Some (v, r') else None
    | None => None
    end.
End Utf8.

(* ---------------------------------------------------------------- entry header *)

Definition ENTRY_MAGIC : N := 2533566208.        (* 0x97_03_27_00 *)
Definition HEADER_LEN : nat := 36.

Record header := mkHeader {
  h_key_len : N; h_value_len : N; h_hash : N; h_seq : N; h_checksum : N; h_comp : N }.
  (* h_comp: 0 none, 1 zstd, 2 lz4 *)

Definition write_header (h : header) : bytes :=
  encode_be 4 (h_key_len h) ++ encode_be 4 (h_value_len h) ++ encode_be 8 (h_hash h) ++
  encode_be 8 (h_seq h) ++ encode_be 8 (h_checksum h) ++ encode_be 4 (ENTRY_MAGIC + h_comp h).

Inductive herr := HMagic | HCompression | HShort.

Definition read_header (r : bytes) : header + herr :=
  match read_exact 4 r with None => inr HShort | Some (b1, r) =>
  match read_exact 4 r with None => inr HShort | Some (b2, r) =>
  match read_exact 8 r with None => inr HShort | Some (b3, r) =>
  match read_exact 8 r with None => inr HShort | Some (b4, r) =>
  match read_exact 8 r with None => inr HShort | Some (b5, r) =>
  match read_exact 4 r with None => inr HShort | Some (b6, r) =>
    let v := decode_be b6 in
    (* v & 0xFFFFFF00 = MAGIC ; tag = v as u8 *)
    if negb (N.eqb (v / 256) (ENTRY_MAGIC / 256)) then inr HMagic else
    let tag := v mod 256 in
    if 2 <? tag then inr HCompression else
    inl (mkHeader (decode_be b1) (decode_be b2) (decode_be b3) (decode_be b4) (decode_be b5) tag)
  end end end end end end.

(* ---------------------------------------------------------------- entry payload *)

Section Entry.
  (* XXH64 and the compressors are external code *)
  Variable cksum : bytes -> N.
  Variable compress : N -> bytes -> bytes.
  Variable decompress : N -> bytes -> option bytes.

  (* EntrySerializer::serialize into a writer with [cap] bytes of room: value first, then key.
     [kenc] / [venc] are the Code::encode outputs of key and value. *)
  Definition serialize (comp : N) (kenc venc : bytes) (cap : nat) : option (bytes * N * N) :=
    let vb := compress comp venc in
    let payload := vb ++ kenc in
    if Nat.leb (length payload) cap
    then Some (payload, N.of_nat (length kenc), N.of_nat (length vb))
    else None.                       (* ErrorKind::BufferSizeLimit: nothing is committed *)

  Inductive derr := DOutOfRange | DChecksum | DDecompress.

  (* EntryDeserializer::deserialize: length check, then checksum, only then decoding *)
  Definition deserialize (buffer : bytes) (key_len value_len comp : N) (checksum : option N)
    : (bytes * bytes) + derr :=
    let kl := N.to_nat key_len in let vl := N.to_nat value_len in
    if Nat.ltb (length buffer) (vl + kl) then inr DOutOfRange else
    let payload := firstn (vl + kl) buffer in
    let ok := match checksum with Some c => N.eqb c (cksum payload) | None => true end in
    if negb ok then inr DChecksum else
    match decompress comp (firstn vl buffer) with
    | None => inr DDecompress
    | Some venc => inl (firstn kl (skipn vl buffer), venc)
    end.

  (* ---------------------------------------------------------------- Buffer::push *)

  Definition PAGE : N := 4096.
  Definition align_up (x : N) : N := ((x + PAGE - 1) / PAGE) * PAGE.

  Record binfo := mkBinfo { b_hash : N; b_seq : N; b_offset : N; b_len : N }.

  Record buffer := mkBuffer {
    bf_cap : N;                    (* bytes.len() *)
    bf_written : N;
    bf_infos : list binfo;
    bf_max : N;                    (* max_entry_size *)
    bf_data : list (N * bytes) }.  (* committed entries: offset, bytes (header ++ payload) *)

  Definition buffer_push (b : buffer) (kenc venc : bytes) (hash seq comp : N) : buffer * bool :=
    let room := bf_cap b - bf_written b in
    if room <? N.of_nat HEADER_LEN then (b, false) else
    match serialize comp kenc venc (N.to_nat room - HEADER_LEN) with
    | None => (b, false)
    | Some (payload, kl, vl) =>
        let len := N.of_nat HEADER_LEN + kl + vl in
        let aligned := align_up len in
        if bf_max b <? aligned then (b, false) else
        let hdr := write_header (mkHeader kl vl hash seq (cksum payload) comp) in
        (mkBuffer (bf_cap b) (bf_written b + aligned)
                  (bf_infos b ++ [mkBinfo hash seq (bf_written b) len]) (bf_max b)
                  (bf_data b ++ [(bf_written b, hdr ++ payload)]), true)
    end.

  (* Store::load's validation of a loaded entry, as far as the bytes are concerned *)
  Definition load_entry (raw : bytes) : option (header * bytes * bytes) :=
    match read_header raw with
    | inr _ => None
    | inl h =>
        match deserialize (skipn HEADER_LEN raw) (h_key_len h) (h_value_len h) (h_comp h) (Some (h_checksum h)) with
        | inl (kenc, venc) => Some (h, kenc, venc)
        | inr _ => None
        end
    end.
End Entry.
