(* M-BLOCKS: the block manager's bookkeeping (foyer-storage/src/engine/block/manager.rs): every block is clean,
   being written, evictable or being reclaimed; get_clean_block / on_writing_finish / on_reclaim_finish and
   reclaim_if_needed with a picker.  The FIFO picker (picker/utils.rs FifoPicker) picks the block that became
   evictable first; any other picker is an oracle choice ([BPick]).  Model only: no proofs in this file. *)
From Coq Require Import List NArith Bool.
Import ListNotations.
Open Scope N_scope.

Record bcfg := mkBC {
  threshold : nat;       (* clean_block_threshold *)
  concurrency : nat;     (* reclaimers *)
  fifo : bool }.         (* FifoPicker decides (no block reaches another picker's bar) *)

Record bst := mkB {
  clean : list N;            (* clean_blocks, a queue *)
  evictable : list N;        (* evictable_blocks, in the order they became evictable *)
  writing : list N;
  reclaiming : list N;
  waiters : list N;          (* clean_block_waiters: flushers waiting, last in first served (Vec::pop) *)
  grants : list (N * N);     (* (flusher, block) handed out, in order *)
  rlog : list N;             (* blocks in the order their reclaim started *)
  flog : list N }.           (* blocks in the order they were finished (became evictable) *)

Fixpoint remove_n (x : N) (l : list N) : list N :=
  match l with [] => [] | y :: l' => if x =? y then l' else y :: remove_n x l' end.
Fixpoint mem_n (x : N) (l : list N) : bool :=
  match l with [] => false | y :: l' => if x =? y then true else mem_n x l' end.

Definition init_b (blocks : list N) : bst := mkB blocks [] [] [] [] [] [] [].

(* reclaim_if_needed; [choice] is what a non-FIFO picker would pick (ignored under FIFO, and if it is not evictable) *)
Definition reclaim_if_needed (c : bcfg) (choice : N) (s : bst) : bst :=
  if Nat.ltb (length (clean s)) (threshold c) && Nat.ltb (length (reclaiming s)) (concurrency c) then
    match evictable s with
    | [] => s
    | b :: rest =>
        let p := if fifo c then b else if mem_n choice (evictable s) then choice else b in
        mkB (clean s) (remove_n p (evictable s)) (writing s) (reclaiming s ++ [p]) (waiters s) (grants s)
            (rlog s ++ [p]) (flog s)
    end
  else s.

Inductive bev :=
| BGet (f : N) (choice : N)            (* get_clean_block by flusher f *)
| BFinish (b : N) (choice : N)         (* on_writing_finish *)
| BReclaimDone (b : N) (choice : N).   (* on_reclaim_finish (the ReclaimingBlock is dropped) *)

Definition bstep (c : bcfg) (s : bst) (e : bev) : bst :=
  match e with
  | BGet f ch =>
      match clean s with
      | b :: rest =>
          reclaim_if_needed c ch (mkB rest (evictable s) (writing s ++ [b]) (reclaiming s) (waiters s)
                                      (grants s ++ [(f, b)]) (rlog s) (flog s))
      | [] =>
          reclaim_if_needed c ch (mkB [] (evictable s) (writing s) (reclaiming s) (f :: waiters s) (grants s) (rlog s) (flog s))
      end
  | BFinish b ch =>
      if mem_n b (writing s) then
        reclaim_if_needed c ch (mkB (clean s) (evictable s ++ [b]) (remove_n b (writing s)) (reclaiming s) (waiters s)
                                    (grants s) (rlog s) (flog s ++ [b]))
      else s
  | BReclaimDone b ch =>
      if mem_n b (reclaiming s) then
        match waiters s with
        | f :: ws =>
            reclaim_if_needed c ch (mkB (clean s) (evictable s) (writing s ++ [b]) (remove_n b (reclaiming s)) ws
                                        (grants s ++ [(f, b)]) (rlog s) (flog s))
        | [] =>
            reclaim_if_needed c ch (mkB (clean s ++ [b]) (evictable s) (writing s) (remove_n b (reclaiming s)) []
                                        (grants s) (rlog s) (flog s))
        end
      else s
  end.

Definition brun (c : bcfg) (s : bst) (l : list bev) : bst := fold_left (bstep c) l s.

Definition all_blocks (s : bst) : list N := clean s ++ evictable s ++ writing s ++ reclaiming s.
