(* Scan exactness (C07): what BlockScanner + the regress check of BlockRecoverRunner read back from a block
   is exactly what the flusher wrote into it, entry by entry, address by address.

   Part A: for any list of parts that is "well chained" ([wf]: a part either continues the open blob right
           behind its last entry or starts a new blob right behind the previous one), written over arbitrary
           older content whose sequences are all lower.
   Part B: the parts Splitter::split produces for any physical block, over any sequence of batches, are well
           chained. *)
From Coq Require Import List NArith ZArith Bool Arith Lia Sorted.
From FV Require Import Disk.Splitter Disk.SplitterProofs Disk.Scan.
Import ListNotations.
Open Scope N_scope.

Ltac Zify.zify_post_hook ::= Z.div_mod_to_equations.

Arguments N.add : simpl never.
Arguments N.mul : simpl never.
Arguments N.div : simpl never.
Arguments N.sub : simpl never.
Arguments N.leb : simpl never.
Arguments N.ltb : simpl never.
Arguments N.eqb : simpl never.

Notation cur := (N * list idx)%type (only parsing).

Definition bend (l : list idx) : N :=
  match last_idx l with Some i => i_off i + align (i_len i) | None => 0 end.

Lemma last_idx_some l : l <> [] -> exists i, last_idx l = Some i /\ In i l.
Proof.
  induction l as [|a l IH]; [congruence|intros _].
  destruct l as [|b l'].
  - exists a. split; [reflexivity|left; reflexivity].
  - destruct IH as [i [Hi Hin]]; [discriminate|]. exists i. split; [exact Hi|right; exact Hin].
Qed.

Lemma last_idx_app l i : last_idx (l ++ [i]) = Some i.
Proof.
  induction l as [|a l IH]; [reflexivity|].
  change ((a :: l) ++ [i]) with (a :: (l ++ [i])). cbn [last_idx].
  destruct (l ++ [i]) eqn:E; [destruct l; discriminate|]. exact IH.
Qed.

Lemma last_idx_app2 l1 l2 : l2 <> [] -> last_idx (l1 ++ l2) = last_idx l2.
Proof.
  intros Hne. induction l1 as [|a l1 IH]; [reflexivity|].
  change ((a :: l1) ++ l2) with (a :: (l1 ++ l2)). cbn [last_idx].
  destruct (l1 ++ l2) eqn:E; [destruct l1; [cbn in E; congruence|discriminate]|]. exact IH.
Qed.

Section A.
  Variable B I : N.
  Hypothesis HI : pa I.
  Hypothesis HIB : I < B.
  Hypothesis Hcap : 0 < icap I.

  Lemma page_le_I : PAGE <= I.
  Proof. destruct HI as [k Hk]. unfold icap, PAGE in *. lia. Qed.

  Definition good (l : list idx) : Prop := Forall (fun i => I <= i_off i) l.

  Lemma bend_ge l : l <> [] -> good l -> I <= bend l.
  Proof.
    intros Hne Hg. destruct (last_idx_some l Hne) as [i [Hi Hin]]. unfold bend. rewrite Hi.
    unfold good in Hg. rewrite Forall_forall in Hg. specialize (Hg i Hin). lia.
  Qed.

  Lemma step_bend l : l <> [] -> step B l = bend l.
  Proof. intros Hne. destruct (last_idx_some l Hne) as [i [Hi _]]. unfold step, bend. rewrite Hi. reflexivity. Qed.

  Definition wstep_ok (c : cur) (p : part) : Prop :=
    if p_pbo p =? I then p_bbo p = fst c + bend (snd c)
    else snd c <> [] /\ p_bbo p = fst c /\ p_pbo p = bend (snd c).
  Definition wnext (c : cur) (p : part) : cur :=
    if p_pbo p =? I then (p_bbo p, p_inds p) else (fst c, snd c ++ p_inds p).
  Fixpoint wf (c : cur) (ps : list part) : Prop :=
    match ps with [] => True | p :: ps' => wstep_ok c p /\ wf (wnext c p) ps' end.
  Fixpoint cursors (c : cur) (ps : list part) : list cur :=
    match ps with [] => [] | p :: ps' => wnext c p :: cursors (wnext c p) ps' end.
  Fixpoint group (c : cur) (ps : list part) : list cur :=
    match ps with
    | [] => [c]
    | p :: ps' => if p_pbo p =? I then c :: group (wnext c p) ps' else group (wnext c p) ps'
    end.
  Definition wend (c : cur) (ps : list part) : cur := fold_left wnext ps c.

  Lemma wf_app c ps qs : wf c (ps ++ qs) <-> wf c ps /\ wf (wend c ps) qs.
  Proof.
    revert c. induction ps as [|p ps IH]; intros c; cbn [app wf wend fold_left].
    - tauto.
    - rewrite IH. unfold wend. tauto.
  Qed.
  Lemma wend_app c ps qs : wend c (ps ++ qs) = wend (wend c ps) qs.
  Proof. unfold wend. apply fold_left_app. Qed.

  (* what the flusher wrote is the list of successive cursors *)
  Lemma written_cursors ps : forall c m, wf c ps ->
    fold_left (wpart I) ps (m, snd c) = (rev (cursors c ps) ++ m, snd (wend c ps)).
  Proof.
    induction ps as [|p ps IH]; intros c m Hwf; cbn [fold_left cursors wend rev app].
    - reflexivity.
    - destruct Hwf as [Hs Hwf].
      assert (E : wpart I (m, snd c) p = (wnext c p :: m, snd (wnext c p))).
      { unfold wpart, wnext, wstep_ok in *. destruct (p_pbo p =? I).
        - reflexivity.
        - destruct Hs as (_ & Hb & _). rewrite Hb. reflexivity. }
      rewrite E. etransitivity; [exact (IH (wnext c p) (wnext c p :: m) Hwf)|].
      f_equal. rewrite <- app_assoc. reflexivity.
  Qed.

  Definition pgood (p : part) : Prop := p_inds p <> [] /\ good (p_inds p) /\ p_bbo p + I <= B.
  Definition cgood (c : cur) : Prop := snd c <> [] /\ good (snd c) /\ fst c + I <= B.

  Lemma part_ok_pgood p : part_ok B I p -> pgood p.
  Proof.
    intros (_ & H2 & H3 & H4 & _ & H6). unfold pgood, good. split; [exact H6|]. split.
    - eapply Forall_impl; [|exact H4]. intros i (Hi & _). exact Hi.
    - unfold pend in H3. lia.
  Qed.

  Lemma cgood_next c p : cgood c -> pgood p -> wstep_ok c p -> cgood (wnext c p).
  Proof.
    intros (C1 & C2 & C3) (P1 & P2 & P3) Hs. unfold wnext, wstep_ok, cgood in *.
    destruct (p_pbo p =? I); cbn [fst snd].
    - auto.
    - split; [destruct (snd c); [congruence|discriminate]|]. split; [apply Forall_app; split; assumption|assumption].
  Qed.

  Lemma next_ge c p : wstep_ok c p -> fst c <= fst (wnext c p).
  Proof. unfold wstep_ok, wnext. destruct (p_pbo p =? I); cbn [fst]; intros H; [lia|lia]. Qed.
  Lemma next_gt c p : cgood c -> wstep_ok c p -> (p_pbo p =? I) = true -> fst c < fst (wnext c p).
  Proof.
    intros (C1 & C2 & _) Hs E. unfold wstep_ok, wnext in *. rewrite E in *. cbn [fst].
    pose proof (bend_ge _ C1 C2). pose proof page_le_I. unfold PAGE in *. lia.
  Qed.

  Lemma cursors_ge ps : forall c, wf c ps -> cgood c -> Forall pgood ps ->
    forall x, In x (cursors c ps) -> fst c <= fst x.
  Proof.
    induction ps as [|p ps IH]; intros c Hwf Hc Hps x Hin; cbn [cursors] in Hin; [contradiction|].
    destruct Hwf as [Hs Hwf]. inversion Hps as [|? ? Hp Hps']; subst.
    pose proof (next_ge c p Hs) as Hge.
    destruct Hin as [<-|Hin]; [exact Hge|].
    pose proof (IH _ Hwf (cgood_next c p Hc Hp Hs) Hps' x Hin). lia.
  Qed.

  Lemma find_off_app m1 m2 o :
    find_off (m1 ++ m2) o = match find_off m1 o with Some l => Some l | None => find_off m2 o end.
  Proof.
    induction m1 as [|[o' l] m1 IH]; cbn [app find_off]; [reflexivity|].
    destruct (o =? o'); [reflexivity|exact IH].
  Qed.
  Lemma find_off_none m o : (forall x, In x m -> fst x <> o) -> find_off m o = None.
  Proof.
    induction m as [|[o' l] m IH]; intros H; cbn [find_off]; [reflexivity|].
    destruct (N.eqb_spec o o') as [->|_].
    - exfalso. apply (H (o', l)); [left; reflexivity|reflexivity].
    - apply IH. intros x Hx. apply H. right; exact Hx.
  Qed.

  (* reading a blob's offset yields its final index page *)
  Lemma read_group ps : forall c m0, wf c ps -> cgood c -> Forall pgood ps ->
    forall b, In b (group c ps) -> find_off (rev (c :: cursors c ps) ++ m0) (fst b) = Some (snd b).
  Proof.
    induction ps as [|p ps IH]; intros c m0 Hwf Hc Hps b Hin.
    - cbn [group] in Hin. destruct Hin as [<-|[]]. cbn [cursors rev app]. destruct c as [o l]. cbn [find_off fst snd].
      rewrite N.eqb_refl. reflexivity.
    - destruct Hwf as [Hs Hwf]. inversion Hps as [|? ? Hp Hps']; subst.
      pose proof (cgood_next c p Hc Hp Hs) as Hc1.
      assert (E : rev (c :: cursors c (p :: ps)) ++ m0 = rev (wnext c p :: cursors (wnext c p) ps) ++ (c :: m0)).
      { cbn [cursors]. change (rev (c :: wnext c p :: cursors (wnext c p) ps))
          with (rev (wnext c p :: cursors (wnext c p) ps) ++ [c]). rewrite <- app_assoc. reflexivity. }
      rewrite E. cbn [group] in Hin. destruct (p_pbo p =? I) eqn:Enew.
      + destruct Hin as [<-|Hin]; [|apply IH; assumption].
        rewrite find_off_app. rewrite find_off_none.
        * destruct c as [o l]. cbn [find_off fst snd]. rewrite N.eqb_refl. reflexivity.
        * intros x Hx. apply in_rev in Hx. pose proof (next_gt c p Hc Hs Enew) as Hgt.
          destruct Hx as [<-|Hx]; [lia|].
          pose proof (cursors_ge ps _ Hwf Hc1 Hps' x Hx). lia.
      + apply IH; assumption.
  Qed.

  Fixpoint chained (o : N) (bl : list cur) : Prop :=
    match bl with [] => True | b :: bl' => fst b = o /\ chained (o + bend (snd b)) bl' end.
  Fixpoint gend (o : N) (bl : list cur) : N :=
    match bl with [] => o | b :: bl' => gend (fst b + bend (snd b)) bl' end.

  Lemma group_chained ps : forall c, wf c ps -> chained (fst c) (group c ps).
  Proof.
    induction ps as [|p ps IH]; intros c Hwf; cbn [group].
    - cbn [chained]. auto.
    - destruct Hwf as [Hs Hwf]. specialize (IH _ Hwf). unfold wstep_ok, wnext in *.
      destruct (p_pbo p =? I); cbn [fst snd chained] in *.
      + split; [reflexivity|]. rewrite <- Hs. exact IH.
      + exact IH.
  Qed.

  Lemma group_good ps : forall c, wf c ps -> cgood c -> Forall pgood ps -> Forall cgood (group c ps).
  Proof.
    induction ps as [|p ps IH]; intros c Hwf Hc Hps; cbn [group].
    - constructor; [exact Hc|constructor].
    - destruct Hwf as [Hs Hwf]. inversion Hps as [|? ? Hp Hps']; subst.
      pose proof (IH _ Hwf (cgood_next c p Hc Hp Hs) Hps') as Hr.
      destruct (p_pbo p =? I); [constructor; assumption|assumption].
  Qed.

  (* every offset ever written is the offset of a blob of the final grouping *)
  Lemma cursor_in_group ps : forall c, wf c ps ->
    forall x, In x (c :: cursors c ps) -> In (fst x) (map fst (group c ps)).
  Proof.
    induction ps as [|p ps IH]; intros c Hwf x Hin.
    - cbn [cursors] in Hin. destruct Hin as [<-|[]]. left; reflexivity.
    - destruct Hwf as [Hs Hwf]. specialize (IH _ Hwf). cbn [cursors] in Hin. cbn [group].
      unfold wstep_ok in Hs. destruct (p_pbo p =? I) eqn:E.
      + destruct Hin as [<-|Hin]; [left; reflexivity|right; apply IH; exact Hin].
      + destruct Hin as [<-|Hin]; [|apply IH; exact Hin].
        assert (Hf : fst c = fst (wnext c p)) by (unfold wnext; rewrite E; reflexivity).
        rewrite Hf. apply IH. left; reflexivity.
  Qed.

  Lemma gend_ge bl : forall o, chained o bl -> o <= gend o bl.
  Proof.
    induction bl as [|a bl IH]; intros o Hc; cbn [gend]; [lia|].
    destruct Hc as [Ha Hc]. specialize (IH _ Hc). rewrite Ha. lia.
  Qed.

  Lemma chained_lt bl : forall o, chained o bl -> Forall cgood bl ->
    forall b, In b bl -> fst b < gend o bl.
  Proof.
    induction bl as [|a bl IH]; intros o Hch Hg b Hin; [contradiction|].
    destruct Hch as [Ha Hch]. inversion Hg as [|? ? Hga Hg']; subst. cbn [gend].
    destruct Hin as [<-|Hin].
    - pose proof (gend_ge _ _ Hch). destruct Hga as (G1 & G2 & _). pose proof (bend_ge _ G1 G2).
      pose proof page_le_I. unfold PAGE in *. lia.
    - apply (IH _ Hch Hg' b Hin).
  Qed.

  (* the scanner walks the chain *)
  Lemma scan_chain r bl : forall o f, chained o bl -> Forall cgood bl ->
    (forall b, In b bl -> r (fst b) = Some (snd b)) ->
    scan B I (length bl + f) r o = bl ++ scan B I f r (gend o bl).
  Proof.
    induction bl as [|b bl IH]; intros o f Hch Hg Hr; [reflexivity|].
    destruct Hch as [Hb Hch]. inversion Hg as [|? ? Hgb Hg']; subst.
    cbn [length plus scan gend app]. destruct Hgb as (G1 & G2 & G3).
    destruct (N.ltb_spec B (fst b + I)) as [Habs|_]; [lia|].
    rewrite (Hr b (or_introl eq_refl)). rewrite (step_bend _ G1).
    rewrite (IH _ f Hch Hg' (fun x Hx => Hr x (or_intror Hx))).
    destruct b; reflexivity.
  Qed.

  Lemma chained_count bl : forall o, chained o bl -> Forall cgood bl -> bl <> [] ->
    o + N.of_nat (length bl) * I <= B.
  Proof.
    induction bl as [|b bl IH]; intros o Hch Hg Hne; [congruence|].
    destruct Hch as [Hb Hch]. inversion Hg as [|? ? Hgb Hg']; subst. destruct Hgb as (G1 & G2 & G3).
    destruct bl as [|b2 bl].
    - cbn [length]. lia.
    - specialize (IH _ Hch Hg'). pose proof (bend_ge _ G1 G2).
      assert (Hn : b2 :: bl <> []) by discriminate. specialize (IH Hn).
      change (length (b :: b2 :: bl)) with (S (length (b2 :: bl))). rewrite Nat2N.inj_succ. lia.
  Qed.

  Lemma infos_at_app o l1 l2 : infos_at o (l1 ++ l2) = infos_at o l1 ++ infos_at o l2.
  Proof. unfold infos_at. apply map_app. Qed.

  Lemma group_infos ps : forall c, wf c ps ->
    concat (map (fun b => infos_at (fst b) (snd b)) (group c ps)) =
    infos_at (fst c) (snd c) ++ concat (map infos_of_part ps).
  Proof.
    induction ps as [|p ps IH]; intros c Hwf; cbn [group map concat].
    - reflexivity.
    - destruct Hwf as [Hs Hwf]. specialize (IH _ Hwf). unfold wstep_ok, wnext in *.
      destruct (p_pbo p =? I); cbn [map concat fst snd] in *.
      + rewrite IH. reflexivity.
      + rewrite IH. destruct Hs as (_ & Hb & _). rewrite infos_at_app. rewrite <- app_assoc.
        unfold infos_of_part. rewrite Hb. reflexivity.
  Qed.

  (* the regress check *)
  Fixpoint nondec (s : N) (l : list info) : Prop :=
    match l with [] => True | x :: l' => s <= n_seq x /\ nondec (n_seq x) l' end.
  Fixpoint lastseq (s : N) (l : list info) : N :=
    match l with [] => s | x :: l' => lastseq (n_seq x) l' end.

  Lemma cut_app l : forall s j, nondec s l -> cut s (l ++ j) = l ++ cut (lastseq s l) j.
  Proof.
    induction l as [|x l IH]; intros s j Hn; cbn [app cut lastseq]; [reflexivity|].
    destruct Hn as [Hx Hn]. destruct (N.ltb_spec (n_seq x) s) as [Habs|_]; [lia|].
    rewrite (IH _ j Hn). reflexivity.
  Qed.
  Lemma lastseq_in l : forall s, l <> [] -> exists x, In x l /\ lastseq s l = n_seq x.
  Proof.
    induction l as [|x l IH]; intros s Hne; [congruence|]. cbn [lastseq].
    destruct l as [|y l].
    - exists x. split; [left; reflexivity|reflexivity].
    - destruct (IH (n_seq x)) as [z [Hz Hl]]; [discriminate|]. exists z. split; [right; exact Hz|exact Hl].
  Qed.

  Definition all_infos (ps : list part) : list info := concat (map infos_of_part ps).

  Theorem scan_written ps stale :
    ps <> [] -> wf (0, []) ps -> Forall (part_ok B I) ps ->
    nondec 0 (all_infos ps) ->
    (forall o l i x, stale o = Some l -> In i l -> In x (all_infos ps) -> i_seq i < n_seq x) ->
    recover_block B I (rd (written I ps) stale) = all_infos ps.
  Proof.
    intros Hne Hwf Hok Hnd Hst.
    destruct ps as [|p ps]; [congruence|]. clear Hne.
    destruct Hwf as [Hs Hwf]. inversion Hok as [|? ? Hp Hok']; subst.
    assert (Hps : Forall pgood ps) by (eapply Forall_impl; [|exact Hok']; apply part_ok_pgood).
    pose proof (part_ok_pgood _ Hp) as (P1 & P2 & P3).
    (* the first part starts the first blob at offset 0 *)
    unfold wstep_ok in Hs. cbn [fst snd] in Hs.
    destruct (p_pbo p =? I) eqn:Enew; [|destruct Hs as (Habs & _); congruence].
    unfold bend in Hs. cbn [last_idx] in Hs.
    assert (Hb0 : p_bbo p = 0) by lia. clear Hs.
    set (c1 := (p_bbo p, p_inds p)).
    assert (Hn1 : wnext (0, []) p = c1) by (unfold wnext; rewrite Enew; reflexivity).
    rewrite Hn1 in Hwf.
    assert (Hc1 : cgood c1) by (unfold cgood, c1; cbn [fst snd]; auto).
    assert (Hw : written I (p :: ps) = rev (c1 :: cursors c1 ps)).
    { unfold written. cbn [fold_left].
      assert (E : wpart I ([], []) p = ([c1], snd c1)).
      { unfold wpart. rewrite Enew. reflexivity. }
      rewrite E. pose proof (written_cursors ps c1 [c1] Hwf) as X.
      etransitivity; [apply (f_equal fst); exact X|]. cbn [fst rev]. reflexivity. }
    set (bl := group c1 ps).
    assert (Hch : chained 0 bl) by (rewrite <- Hb0; exact (group_chained ps c1 Hwf)).
    assert (Hg : Forall cgood bl) by (apply group_good; assumption).
    set (r := rd (written I (p :: ps)) stale).
    assert (Hr : forall b, In b bl -> r (fst b) = Some (snd b)).
    { intros b Hb. unfold r, rd. rewrite Hw.
      pose proof (read_group ps c1 [] Hwf Hc1 Hps b Hb) as Hf. rewrite app_nil_r in Hf. rewrite Hf. reflexivity. }
    assert (Hblne : bl <> []).
    { unfold bl. destruct ps as [|q qs]; cbn [group]; [discriminate|].
      destruct (p_pbo q =? I); [discriminate|]. clear. generalize (wnext c1 q). induction qs as [|q' qs IH]; intros c; cbn [group]; [discriminate|].
      destruct (p_pbo q' =? I); [discriminate|apply IH]. }
    (* fuel *)
    pose proof (chained_count bl 0 Hch Hg Hblne) as Hcnt.
    assert (Hfuel : exists f, scan_fuel B = (length bl + S f)%nat).
    { unfold scan_fuel. pose proof page_le_I as HP.
      assert (Hl : N.of_nat (length bl) * PAGE <= B).
      { apply N.le_trans with (N.of_nat (length bl) * I); [apply N.mul_le_mono_l; exact HP|lia]. }
      assert (Hq : N.of_nat (length bl) <= B / PAGE).
      { apply N.div_le_lower_bound; [unfold PAGE; lia|]. rewrite N.mul_comm. exact Hl. }
      exists (N.to_nat (B / PAGE) - length bl)%nat. lia. }
    destruct Hfuel as [f Hf].
    unfold recover_block. fold r. rewrite Hf. rewrite (scan_chain r bl 0 (S f) Hch Hg Hr).
    rewrite map_app, concat_app.
    assert (Hnews : concat (map (fun b => infos_at (fst b) (snd b)) bl) = all_infos (p :: ps)).
    { unfold bl. rewrite (group_infos ps c1 Hwf). unfold all_infos. cbn [map concat]. reflexivity. }
    rewrite Hnews. rewrite (cut_app _ 0 _ Hnd).
    assert (Hnn : all_infos (p :: ps) <> []).
    { unfold all_infos. cbn [map concat]. unfold infos_of_part, infos_at. destruct (p_inds p); [congruence|discriminate]. }
    destruct (lastseq_in (all_infos (p :: ps)) 0 Hnn) as [z [Hz Hl]]. rewrite Hl.
    (* what follows the last blob *)
    set (e := gend 0 bl).
    assert (Hjunk : cut (n_seq z) (concat (map (fun b => infos_at (fst b) (snd b)) (scan B I (S f) r e))) = []).
    { cbn [scan]. destruct (B <? e + I); [reflexivity|].
      assert (Hre : r e = stale e).
      { unfold r, rd. rewrite find_off_none; [reflexivity|].
        intros x Hx. rewrite Hw in Hx. apply in_rev in Hx.
        pose proof (cursor_in_group ps c1 Hwf x Hx) as Hin. apply in_map_iff in Hin.
        destruct Hin as [b [Hfb Hb]]. pose proof (chained_lt bl 0 Hch Hg b Hb). fold bl in Hb. unfold e. lia. }
      rewrite Hre. destruct (stale e) as [l|] eqn:Est; [|reflexivity].
      destruct l as [|i l].
      - cbn [map concat fst snd]. unfold infos_at at 1. cbn [map app]. unfold step. cbn [last_idx].
        destruct f as [|f']; [reflexivity|]. cbn [scan].
        destruct (N.ltb_spec B (e + B + I)) as [_|Habs]; [reflexivity|].
        pose proof page_le_I. unfold PAGE in *. lia.
      - pose proof (Hst e (i :: l) i z Est (or_introl eq_refl) Hz) as Hlt.
        cbn [map concat fst snd]. unfold infos_at at 1. cbn [map app cut n_seq].
        destruct (N.ltb_spec (i_seq i) (n_seq z)) as [_|Habs]; [reflexivity|lia]. }
    rewrite Hjunk. apply app_nil_r.
  Qed.
End A.

(* ---------------------------------------------------------------------------------------------------- *)
(* Part B: Splitter::split chains its parts well, in every physical block, over any sequence of batches *)

Section Bsec.
  Variable B I : N.
  Hypothesis HB : pa B.
  Hypothesis HI : pa I.
  Hypothesis HIB : I < B.
  Hypothesis Hcap : 0 < icap I.

  Lemma chain_le o l o' : chain o l o' -> o <= o'.
  Proof.
    revert o. induction l as [|i l IH]; intros o; cbn [chain].
    - intros ->. lia.
    - intros [_ Hc]. specialize (IH _ Hc). lia.
  Qed.
  Lemma chain_bend l : forall o o', chain o l o' -> l <> [] -> bend l = o'.
  Proof.
    induction l as [|i l IH]; intros o o' Hc Hne; [congruence|].
    destruct Hc as [Hi Hc]. destruct l as [|j l].
    - cbn [chain] in Hc. unfold bend. cbn [last_idx]. lia.
    - assert (Hn : j :: l <> []) by discriminate. specialize (IH _ _ Hc Hn).
      unfold bend in *. cbn [last_idx] in *. exact IH.
  Qed.

  Definition here (st : sctx * acc) (e : ent) : sctx * acc :=
    (mkCtx (bo (fst st)) (po (fst st)) (cnt (fst st) + 1),
     mkAcc (ps (snd st) + align (e_len e))
           (inds (snd st) ++ [mkIdx (e_hash e) (e_seq e) (po (fst st) + ps (snd st)) (e_len e)])
           (parts (snd st)) (blk (snd st))).

  (* the three ways the 'handle loop places an entry *)
  Lemma place_cases lo c a e st' :
    Inv B I lo c a -> eok B I e -> place B I 3 (c, a) e = Some st' ->
    (cnt c < icap I /\ st' = here (c, a) e) \/
    (icap I <= cnt c /\ st' = here (split_blob I (c, a)) e) \/
    st' = here (mkCtx 0 I 0, mkAcc 0 [] (parts (snd (split_blob I (c, a)))) (blk a + 1)) e.
  Proof.
    intros HI0 He. pose proof He as [He1 He2].
    cbn [place].
    pose proof (split_blob_spec B I HIB Hcap lo c a HI0) as Hsb.
    destruct (split_blob I (c, a)) as [c1 a1] eqn:E1.
    destruct Hsb as (S1 & S2 & S3 & S4 & S5 & S6 & S7 & S8 & S9 & S10 & S11 & S12).
    cbn [snd].
    destruct (N.leb_spec (icap I) (cnt c)) as [Hfull|Hroom].
    - cbn [place]. rewrite S3. destruct (N.leb_spec (icap I) 0) as [Habs|_]; [lia|].
      destruct (N.ltb_spec B (bo c1 + po c1 + ps a1 + align (e_len e))) as [Hover|Hfits].
      + assert (Hsb2 : split_blob I (c1, a1) = (mkCtx (bo c1 + po c1) I 0, a1)).
        { unfold split_blob. rewrite S5. reflexivity. }
        rewrite Hsb2. cbn [split_block po cnt ps inds parts blk bo place]. rewrite S4, S5, S6.
        destruct (N.leb_spec (icap I) 0) as [Habs|_]; [lia|].
        destruct (N.ltb_spec B (0 + I + 0 + align (e_len e))) as [Habs|_]; [lia|].
        intros Hpl. inversion Hpl; subst st'. right; right. unfold here. cbn [fst snd bo po cnt ps inds parts blk]. reflexivity.
      + intros Hpl. inversion Hpl; subst st'. right; left. split; [exact Hfull|]. unfold here. cbn [fst snd]. rewrite S3. reflexivity.
    - destruct (N.ltb_spec B (bo c + po c + ps a + align (e_len e))) as [Hover|Hfits].
      + cbn [split_block]. rewrite S2, S3, S4, S5, S6. cbn [place cnt bo po ps inds parts blk].
        destruct (N.leb_spec (icap I) 0) as [Habs|_]; [lia|].
        destruct (N.ltb_spec B (0 + I + 0 + align (e_len e))) as [Habs|_]; [lia|].
        intros Hpl. inversion Hpl; subst st'. right; right. unfold here. cbn [fst snd bo po cnt ps inds parts blk]. reflexivity.
      + intros Hpl. inversion Hpl; subst st'. left. split; [exact Hroom|reflexivity].
  Qed.

  Local Notation wfI := (wf I).
  Local Notation wendI := (wend I).

  Definition Cur (cs : cur) (c : sctx) (a : acc) : Prop :=
    (po c = I /\ bo c = fst cs + bend (snd cs) /\ cnt c = N.of_nat (length (inds a))) \/
    (po c <> I /\ bo c = fst cs /\ snd cs <> [] /\ po c = bend (snd cs)).

  (* [em]: every part written so far with its physical block number; [g]: the block being filled *)
  Record G (em : list (N * part)) (g : N) (c : sctx) (a : acc) : Prop := {
    g_wf : forall g', wfI (0, []) (block_parts g' em);
    g_cur : Cur (wendI (0, []) (block_parts g em)) c a;
    g_le : forall x, In x em -> fst x <= g;
    g_ps : inds a <> [] -> PAGE <= ps a }.

  Lemma block_parts_app g em1 em2 : block_parts g (em1 ++ em2) = block_parts g em1 ++ block_parts g em2.
  Proof. unfold block_parts. rewrite filter_app, map_app. reflexivity. Qed.
  Lemma block_parts_one_same g q : block_parts g [(g, q)] = [q].
  Proof. unfold block_parts. cbn [filter fst]. rewrite N.eqb_refl. reflexivity. Qed.
  Lemma block_parts_one_other g g' q : g <> g' -> block_parts g' [(g, q)] = [].
  Proof. intros H. unfold block_parts. cbn [filter fst]. destruct (N.eqb_spec g g'); [congruence|reflexivity]. Qed.
  Lemma block_parts_above g em : (forall x, In x em -> fst x <= g) -> block_parts (g + 1) em = [].
  Proof.
    intros H. unfold block_parts. induction em as [|x em IH]; [reflexivity|]. cbn [filter].
    destruct (N.eqb_spec (fst x) (g + 1)) as [E|_].
    - pose proof (H x (or_introl eq_refl)). lia.
    - apply IH. intros y Hy. apply H. right; exact Hy.
  Qed.

  (* placing an entry into the open part *)
  Lemma G_here em g c a e :
    G em g c a -> eok B I e -> G em g (fst (here (c, a) e)) (snd (here (c, a) e)).
  Proof.
    intros [H1 H2 H3 H4] [He1 He2]. unfold here. cbn [fst snd bo po cnt ps inds parts blk].
    constructor; cbn [bo po cnt ps inds parts blk]; auto.
    - destruct H2 as [(A & Bq & Cq)|(A & Bq & Cq & D)]; [left|right]; cbn [bo po cnt inds]; auto.
      split; [exact A|]. split; [exact Bq|]. rewrite app_length. cbn [length]. lia.
    - intros _. pose proof (align_pos (e_len e) He1). unfold PAGE in *. lia.
  Qed.

  (* emitting the open part [q] into block [g] *)
  Lemma G_emit lo em g c a :
    G em g c a -> Inv B I lo c a -> inds a <> [] ->
    let q := mkPart (blk a) (bo c) (po c) (ps a) (inds a) (cnt c) in
    let em' := em ++ [(g, q)] in
    (forall g', wfI (0, []) (block_parts g' em')) /\
    (forall x, In x em' -> fst x <= g) /\
    fst (wendI (0, []) (block_parts g em')) = bo c /\
    snd (wendI (0, []) (block_parts g em')) <> [] /\
    bend (snd (wendI (0, []) (block_parts g em'))) = po c + ps a.
  Proof.
    intros [H1 H2 H3 H4] HInv Hne q em'.
    pose proof (v_chain B I lo c a HInv) as Hch.
    pose proof (chain_bend _ _ _ Hch Hne) as Hbend.
    set (cs := wendI (0, []) (block_parts g em)) in *.
    assert (Hstep : wstep_ok I cs q).
    { unfold wstep_ok, q. cbn [p_pbo p_bbo].
      destruct H2 as [(A & Bq & _)|(A & Bq & Cq & D)].
      - rewrite A, N.eqb_refl. exact Bq.
      - destruct (N.eqb_spec (po c) I); [congruence|]. auto. }
    assert (Hbp : block_parts g em' = block_parts g em ++ [q]).
    { unfold em'. rewrite block_parts_app, block_parts_one_same. reflexivity. }
    split; [|split].
    - intros g'. unfold em'. rewrite block_parts_app. destruct (N.eq_dec g g') as [<-|Hne'].
      + rewrite block_parts_one_same. apply wf_app. split; [apply H1|]. cbn [wf]. split; [exact Hstep|exact Logic.I].
      + rewrite (block_parts_one_other g g' q Hne'). rewrite app_nil_r. apply H1.
    - intros x Hx. unfold em' in Hx. apply in_app_iff in Hx. destruct Hx as [Hx|[<-|[]]]; [auto|cbn [fst]; lia].
    - rewrite Hbp. rewrite wend_app. fold cs. unfold wend at 1 2 3. cbn [fold_left].
      unfold wnext, q. cbn [p_pbo p_bbo p_inds].
      destruct H2 as [(A & Bq & _)|(A & Bq & Cq & D)].
      + rewrite A, N.eqb_refl. cbn [fst snd]. repeat split; auto. rewrite <- A. exact Hbend.
      + destruct (N.eqb_spec (po c) I); [congruence|]. cbn [fst snd]. repeat split.
        * auto.
        * destruct (snd cs); [congruence|discriminate].
        * unfold bend. rewrite (last_idx_app2 _ _ Hne). exact Hbend.
  Qed.

  Definition glob (g0 : N) (p : part) : N * part := (g0 + p_blk p, p).
  Definition EM (prev : list (N * part)) (g0 : N) (a : acc) : list (N * part) := prev ++ map (glob g0) (parts a).
  Definition GG (prev : list (N * part)) (g0 : N) (c : sctx) (a : acc) : Prop := G (EM prev g0 a) (g0 + blk a) c a.

  Lemma GG_here prev g0 c a e : GG prev g0 c a -> eok B I e -> GG prev g0 (fst (here (c, a) e)) (snd (here (c, a) e)).
  Proof. intros H He. exact (G_here _ _ c a e H He). Qed.

  Lemma bend_nil : bend [] = 0.
  Proof. reflexivity. Qed.

  (* split_blob inside a block: only when the blob index is full *)
  Lemma GG_split_blob prev g0 lo c a :
    GG prev g0 c a -> Inv B I lo c a -> icap I <= cnt c ->
    GG prev g0 (fst (split_blob I (c, a))) (snd (split_blob I (c, a))).
  Proof.
    intros HG HInv Hfull. unfold split_blob. destruct (inds a) as [|i0 l0] eqn:E.
    - cbn [fst snd]. destruct HG as [H1 H2 H3 H4]. constructor; auto.
      destruct H2 as [(A & Bq & Cq)|(A & Bq & Cq & D)].
      + rewrite E in Cq. cbn [length] in Cq. lia.
      + left. cbn [po bo cnt]. split; [reflexivity|]. split; [lia|]. rewrite E. reflexivity.
    - assert (Hne : inds a <> []) by (rewrite E; discriminate).
      destruct (G_emit lo _ _ c a HG HInv Hne) as (W1 & W2 & W3 & W4 & W5).
      cbn [fst snd]. unfold GG, EM. cbn [parts blk]. rewrite map_app, app_assoc. cbn [map]. unfold glob at 2. cbn [p_blk].
      rewrite <- E. constructor; cbn [inds ps]; auto; [|congruence].
      left. cbn [po bo cnt inds]. split; [reflexivity|]. split; [|reflexivity].
      unfold EM in W3, W5. rewrite W3, W5. lia.
  Qed.

  (* split_blob followed by split_block: a fresh block *)
  Lemma GG_new_block prev g0 lo c a :
    GG prev g0 c a -> Inv B I lo c a ->
    GG prev g0 (mkCtx 0 I 0) (mkAcc 0 [] (parts (snd (split_blob I (c, a)))) (blk a + 1)).
  Proof.
    intros HG HInv. unfold split_blob. destruct (inds a) as [|i0 l0] eqn:E.
    - cbn [snd]. destruct HG as [H1 H2 H3 H4]. unfold GG, EM in *. cbn [parts blk].
      rewrite N.add_assoc. constructor; cbn [inds]; auto; [| |congruence].
      + rewrite (block_parts_above _ _ H3). left. cbn [po bo cnt inds length wend fold_left fst snd].
        rewrite bend_nil. repeat split; reflexivity.
      + intros x Hx. specialize (H3 x Hx). lia.
    - assert (Hne : inds a <> []) by (rewrite E; discriminate).
      destruct (G_emit lo _ _ c a HG HInv Hne) as (W1 & W2 & W3 & W4 & W5).
      cbn [snd]. unfold GG, EM in *. cbn [parts blk]. rewrite map_app, app_assoc. cbn [map]. unfold glob at 2. cbn [p_blk].
      rewrite <- E. rewrite N.add_assoc. constructor; cbn [inds]; auto; [| |congruence].
      + rewrite (block_parts_above _ _ W2). left. cbn [po bo cnt inds length wend fold_left fst snd].
        rewrite bend_nil. repeat split; reflexivity.
      + intros x Hx. specialize (W2 x Hx). lia.
  Qed.

  Lemma GG_place prev g0 lo c a e c' a' :
    GG prev g0 c a -> Inv B I lo c a -> eok B I e -> place B I 3 (c, a) e = Some (c', a') -> GG prev g0 c' a'.
  Proof.
    intros HG HInv He Hpl.
    destruct (place_cases lo c a e (c', a') HInv He Hpl) as [[_ E]|[[Hfull E]|E]].
    - pose proof (GG_here prev g0 c a e HG He) as H. rewrite <- E in H. exact H.
    - pose proof (GG_split_blob prev g0 lo c a HG HInv Hfull) as H1.
      destruct (split_blob I (c, a)) as [c1 a1]. cbn [fst snd] in H1.
      pose proof (GG_here prev g0 c1 a1 e H1 He) as H. rewrite <- E in H. exact H.
    - pose proof (GG_new_block prev g0 lo c a HG HInv) as H1.
      pose proof (GG_here prev g0 _ _ e H1 He) as H. rewrite <- E in H. exact H.
  Qed.

  Lemma GG_place_all prev g0 lo es : forall c a c' a',
    GG prev g0 c a -> Inv B I lo c a -> Forall (eok B I) es -> place_all B I (c, a) es = Some (c', a') ->
    GG prev g0 c' a' /\ Inv B I lo c' a'.
  Proof.
    induction es as [|e es IH]; intros c a c' a' HG HInv Hes; cbn [place_all].
    - intros H; inversion H; subst. split; assumption.
    - inversion Hes as [|? ? He Hes']; subst.
      destruct (place_ok B I HI HIB Hcap lo c a e HInv He) as (c1 & a1 & Hp & HI1). rewrite Hp.
      intros H. apply (IH c1 a1 c' a'); auto. eapply GG_place; eauto.
  Qed.

  (* between batches: nothing open *)
  Definition GB (em : list (N * part)) (g : N) (c : sctx) : Prop := G em g c (mkAcc 0 [] [] 0).

  Lemma G_acc_irrelevant em g c a a' : inds a = [] -> inds a' = [] -> G em g c a -> G em g c a'.
  Proof.
    intros E E' [H1 H2 H3 H4]. constructor; auto; [|congruence].
    destruct H2 as [(A & Bq & Cq)|H2]; [left|right; exact H2]. rewrite E in Cq. rewrite E'. auto.
  Qed.

  Lemma GG_seal prev g0 lo c a :
    GG prev g0 c a -> Inv B I lo c a ->
    GB (EM prev g0 (snd (seal_blob I (c, a)))) (g0 + blk (snd (seal_blob I (c, a)))) (fst (seal_blob I (c, a))).
  Proof.
    intros HG HInv. unfold seal_blob. destruct (inds a) as [|i0 l0] eqn:E.
    - cbn [fst snd]. unfold GB. eapply G_acc_irrelevant; [exact E|reflexivity|exact HG].
    - assert (Hne : inds a <> []) by (rewrite E; discriminate).
      destruct (G_emit lo _ _ c a HG HInv Hne) as (W1 & W2 & W3 & W4 & W5).
      pose proof (g_ps _ _ _ _ HG Hne) as Hps. pose proof (v_I B I lo c a HInv) as HIpo.
      assert (Eem : EM prev g0 (mkAcc 0 [] (parts a ++ [mkPart (blk a) (bo c) (po c) (ps a) (i0 :: l0) (cnt c)]) (blk a)) =
                    EM prev g0 a ++ [(g0 + blk a, mkPart (blk a) (bo c) (po c) (ps a) (inds a) (cnt c))]).
      { unfold EM. cbn [parts]. rewrite map_app, app_assoc. cbn [map]. unfold glob at 2. cbn [p_blk]. rewrite E. reflexivity. }
      destruct (icap I <=? cnt c); cbn [fst snd blk]; rewrite Eem; unfold GB; constructor; cbn [inds]; auto; try congruence.
      + left. cbn [po bo cnt inds length]. split; [reflexivity|]. split; [|reflexivity]. rewrite W3, W5. lia.
      + right. cbn [po bo]. split; [unfold PAGE in *; lia|]. split; [symmetry; exact W3|]. split; [exact W4|]. symmetry. exact W5.
  Qed.

  Lemma inv_start c : CtxInv I c -> Inv B I (bo c + po c) c (mkAcc 0 [] [] 0).
  Proof.
    intros [X1 X2 X3 X5].
    constructor; cbn [ps inds parts blk]; try (intros q0 []; fail); auto using pa_0; try lia;
      try congruence; try (simpl; lia); try constructor.
  Qed.

  Lemma split_G prev g c es c' ps' n :
    GB prev g c -> CtxInv I c -> Forall (eok B I) es -> split B I c es = Some (c', ps', n) ->
    GB (prev ++ map (glob g) ps') (g + n - 1) c'.
  Proof.
    intros HG Hc Hes. unfold split. destruct (icap I <=? cnt c); [discriminate|].
    destruct (place_all B I (c, mkAcc 0 [] [] 0) es) as [[c1 a1]|] eqn:Hp; [|discriminate].
    assert (HG0 : GG prev g c (mkAcc 0 [] [] 0)).
    { unfold GG, EM. cbn [parts blk map]. rewrite app_nil_r, N.add_0_r. exact HG. }
    destruct (GG_place_all prev g _ es c _ c1 a1 HG0 (inv_start c Hc) Hes Hp) as [HG1 HI1].
    pose proof (GG_seal prev g _ c1 a1 HG1 HI1) as Hs.
    destruct (seal_blob I (c1, a1)) as [c2 a2]. cbn [fst snd] in Hs.
    intros H; inversion H; subst. unfold EM in Hs.
    replace (g + (blk a2 + 1) - 1) with (g + blk a2) by lia. exact Hs.
  Qed.

  Lemma GB_init : GB [] 0 (init_ctx I).
  Proof.
    unfold GB, init_ctx. constructor; cbn [inds]; try (intros x []; fail); try congruence.
    - intros g'. exact Logic.I.
    - left. cbn [po bo cnt inds length block_parts filter map wend fold_left fst snd]. rewrite bend_nil. repeat split; reflexivity.
  Qed.

  Lemma split_batches_G bs : forall prev g c c' out,
    GB prev g c -> CtxInv I c -> Forall (Forall (eok B I)) bs -> split_batches B I c bs = Some (c', out) ->
    forall g', wfI (0, []) (block_parts g' (prev ++ globalize g out)).
  Proof.
    induction bs as [|b bs IH]; intros prev g c c' out HG Hc Hbs; cbn [split_batches].
    - intros H; inversion H; subst. cbn [globalize]. rewrite app_nil_r. exact (g_wf _ _ _ _ HG).
    - inversion Hbs as [|? ? Hb Hbs']; subst.
      destruct (split_ok B I HI HIB Hcap c b Hc Hb) as (c1 & ps1 & n1 & Hs & Hc1 & _).
      rewrite Hs. destruct (split_batches B I c1 bs) as [[c2 rest]|] eqn:Hs2; [|discriminate].
      intros H; inversion H; subst. cbn [globalize]. rewrite app_assoc.
      apply (IH _ _ c1 c' rest); auto. eapply split_G; eauto.
  Qed.

  (* every physical block, over any sequence of batches, is well chained *)
  Theorem split_batches_chained bs c out :
    Forall (Forall (eok B I)) bs -> split_batches B I (init_ctx I) bs = Some (c, out) ->
    forall g, wfI (0, []) (block_parts g (globalize 0 out)).
  Proof.
    intros Hbs Hs g. pose proof (split_batches_G bs [] 0 (init_ctx I) c out GB_init (ctx_init B I HI HIB Hcap) Hbs Hs g) as H.
    exact H.
  Qed.

  Lemma globalize_part_ok bs : forall c c' out g,
    CtxInv I c -> Forall (Forall (eok B I)) bs -> split_batches B I c bs = Some (c', out) ->
    forall x, In x (globalize g out) -> part_ok B I (snd x).
  Proof.
    induction bs as [|b bs IH]; intros c c' out g Hc Hbs; cbn [split_batches].
    - intros H; inversion H; subst. intros x [].
    - inversion Hbs as [|? ? Hb Hbs']; subst.
      destruct (split_ok B I HI HIB Hcap c b Hc Hb) as (c1 & ps1 & n1 & Hs & Hc1 & Hok & _).
      rewrite Hs. destruct (split_batches B I c1 bs) as [[c2 rest]|] eqn:Hs2; [|discriminate].
      intros H; inversion H; subst. cbn [globalize]. intros x Hx. apply in_app_iff in Hx. destruct Hx as [Hx|Hx].
      + apply in_map_iff in Hx. destruct Hx as [p [<- Hp]]. cbn [snd]. rewrite Forall_forall in Hok. auto.
      + eapply (IH c1 c' rest); eauto.
  Qed.

  (* C07, scan exactness: whatever sequence of batches the flusher was given, for every physical block that
     received entries: what BlockScanner + the regress check read back from it - over whatever the block held before,
     as long as that is older - is exactly the list of entries written into it, in order, at the addresses the indexer
     was given *)
  Theorem scan_exact bs c out g stale :
    Forall (Forall (eok B I)) bs -> split_batches B I (init_ctx I) bs = Some (c, out) ->
    let ps := block_parts g (globalize 0 out) in
    ps <> [] ->
    nondec 0 (all_infos ps) ->
    (forall o l i x, stale o = Some l -> In i l -> In x (all_infos ps) -> i_seq i < n_seq x) ->
    recover_block B I (rd (written I ps) stale) = all_infos ps.
  Proof.
    intros Hbs Hs ps Hne Hnd Hst.
    apply (scan_written B I HI HIB Hcap); auto.
    - exact (split_batches_chained bs c out Hbs Hs g).
    - apply Forall_forall. intros p Hp. unfold ps, block_parts in Hp. apply in_map_iff in Hp.
      destruct Hp as [x [<- Hx]]. apply filter_In in Hx. destruct Hx as [Hx _].
      exact (globalize_part_ok bs _ c out 0 (ctx_init B I HI HIB Hcap) Hbs Hs x Hx).
  Qed.
End Bsec.
