(* Proofs about the blob index page (Disk/BlobIndex.v). *)
From Coq Require Import List NArith Bool Arith Lia.
From FV Require Import Disk.Codec Disk.CodecProofs Disk.BlobIndex.
Import ListNotations.
Open Scope N_scope.

Lemma firstn_app_exact {A} (a r : list A) n : length a = n -> firstn n (a ++ r) = a.
Proof. intros <-. rewrite firstn_app, Nat.sub_diag, firstn_all. cbn. apply app_nil_r. Qed.

Lemma skipn_app_exact {A} (a r : list A) n : length a = n -> skipn n (a ++ r) = r.
Proof. intros <-. rewrite skipn_app, Nat.sub_diag, skipn_all. reflexivity. Qed.

Lemma bent_write_length e : length (bent_write e) = BENT_LEN.
Proof. unfold bent_write. rewrite !app_length, !encode_be_length. reflexivity. Qed.

Lemma bent_read_write e : bent_ok e -> bent_read (bent_write e) = e.
Proof.
  intros (H1 & H2 & H3 & H4). unfold bent_read, bent_write.
  set (a := encode_be 8 (be_hash e)). set (b := encode_be 8 (be_seq e)).
  set (c := encode_be 4 (be_off e)). set (d := encode_be 4 (be_len e)).
  assert (La : length a = 8%nat) by apply encode_be_length.
  assert (Lb : length b = 8%nat) by apply encode_be_length.
  assert (Lc : length c = 4%nat) by apply encode_be_length.
  assert (Ld : length d = 4%nat) by apply encode_be_length.
  rewrite (firstn_app_exact a _ 8 La).
  rewrite (skipn_app_exact a _ 8 La).
  rewrite (firstn_app_exact b _ 8 Lb).
  replace (skipn 16 (a ++ b ++ c ++ d)) with (c ++ d).
  2:{ rewrite app_assoc. symmetry. apply skipn_app_exact. rewrite app_length. lia. }
  replace (skipn 20 (a ++ b ++ c ++ d)) with d.
  2:{ rewrite !app_assoc. symmetry. rewrite <- (app_nil_r d) at 1.
      replace (((a ++ b) ++ c) ++ d) with (((a ++ b) ++ c) ++ d ++ []) by (rewrite app_nil_r; reflexivity).
      rewrite skipn_app_exact; [rewrite app_nil_r; reflexivity|rewrite !app_length; lia]. }
  rewrite (firstn_app_exact c _ 4 Lc).
  rewrite <- (app_nil_r d). rewrite (firstn_app_exact d _ 4 Ld).
  subst a b c d. rewrite !decode_be_encode by assumption. destruct e; reflexivity.
Qed.

Lemma chunks_concat es rest :
  Forall bent_ok es -> chunks (length es) (concat (map bent_write es) ++ rest) = es.
Proof.
  induction es as [|e es IH]; intros Hok; [reflexivity|].
  inversion Hok as [|? ? He Hes]; subst.
  cbn [length chunks map concat]. rewrite <- app_assoc.
  rewrite (firstn_app_exact _ _ _ (bent_write_length e)).
  rewrite (skipn_app_exact _ _ _ (bent_write_length e)).
  rewrite bent_read_write by assumption. rewrite IH by assumption. reflexivity.
Qed.

Section BlobIndex.
  Variable cksum : bytes -> N.
  Hypothesis cksum_range : forall b, cksum b < 256 ^ 8.

  (* what seal() writes, BlobIndexReader::read returns: exactly the entries, whatever the rest of the page holds *)
  Theorem bidx_roundtrip es rest :
    Forall bent_ok es -> N.of_nat (length es) < 256 ^ 4 ->
    bidx_read cksum (bidx_page cksum es rest) = BOk es.
  Proof.
    intros Hok Hn. unfold bidx_read, bidx_page.
    set (body := bidx_body es rest).
    assert (Lc : length (encode_be 8 (cksum body)) = 8%nat) by apply encode_be_length.
    assert (Lb : (length body = 4 + (length es * BENT_LEN + length rest))%nat).
    { unfold body, bidx_body. rewrite !app_length, encode_be_length. f_equal. f_equal.
      clear. induction es as [|e es IH]; [reflexivity|]. cbn [map concat length]. rewrite app_length, bent_write_length, IH. unfold BENT_LEN. lia. }
    rewrite app_length, Lc, Lb.
    replace (Nat.ltb (8 + (4 + (length es * BENT_LEN + length rest))) BIDX_OFFSET) with false
      by (symmetry; apply Nat.ltb_ge; unfold BIDX_OFFSET; lia).
    rewrite (skipn_app_exact _ _ 8 Lc), (firstn_app_exact _ _ 8 Lc).
    rewrite decode_be_encode by apply cksum_range. rewrite N.eqb_refl. cbn [negb].
    assert (F4 : firstn 4 body = encode_be 4 (N.of_nat (length es))).
    { unfold body, bidx_body. apply firstn_app_exact. apply encode_be_length. }
    rewrite F4. rewrite decode_be_encode by assumption. rewrite Nat2N.id.
    replace (Nat.ltb (8 + (4 + (length es * BENT_LEN + length rest))) (BIDX_OFFSET + length es * BENT_LEN)) with false
      by (symmetry; apply Nat.ltb_ge; unfold BIDX_OFFSET; lia).
    f_equal.
    replace (skipn BIDX_OFFSET (encode_be 8 (cksum body) ++ body)) with (concat (map bent_write es) ++ rest).
    - apply chunks_concat. assumption.
    - unfold body, bidx_body. rewrite app_assoc. symmetry. apply skipn_app_exact.
      rewrite app_length, !encode_be_length. reflexivity.
  Qed.
End BlobIndex.

Lemma chunks_length n b : length (chunks n b) = n.
Proof. revert b. induction n as [|n IH]; intros b; cbn [chunks length]; auto. Qed.

Section Arbitrary.
  Variable cksum : bytes -> N.

  (* ARBITRARY bytes: entries are handed to recovery only if the stored checksum equals the checksum of everything behind
     it - count and entries included - and they are exactly the first [count] 24-byte chunks *)
  Theorem bidx_accept_means_verified buf es :
    bidx_read cksum buf = BOk es ->
    cksum (skipn 8 buf) = decode_be (firstn 8 buf) /\
    let count := N.to_nat (decode_be (firstn 4 (skipn 8 buf))) in
    (BIDX_OFFSET + count * BENT_LEN <= length buf)%nat /\ length es = count /\
    es = chunks count (skipn BIDX_OFFSET buf).
  Proof.
    unfold bidx_read.
    destruct (Nat.ltb (length buf) BIDX_OFFSET); [discriminate|].
    destruct (negb (cksum (skipn 8 buf) =? decode_be (firstn 8 buf))) eqn:C; [discriminate|].
    destruct (Nat.ltb (length buf) (BIDX_OFFSET + N.to_nat (decode_be (firstn 4 (skipn 8 buf))) * BENT_LEN)) eqn:L; [discriminate|].
    intros E. inversion E; subst. clear E.
    apply negb_false_iff, N.eqb_eq in C. apply Nat.ltb_ge in L.
    split; [exact C|]. split; [exact L|]. split; [apply chunks_length|reflexivity].
  Qed.

  (* damage anywhere behind the checksum field - the count, an entry, the unused rest - that changes the checksum, or
     damage of the checksum field itself: the page is rejected, the scan of the block ends there *)
  Theorem bidx_damage_rejected buf :
    (BIDX_OFFSET <= length buf)%nat -> cksum (skipn 8 buf) <> decode_be (firstn 8 buf) -> bidx_read cksum buf = BReject.
  Proof.
    intros Hl Hc. unfold bidx_read.
    replace (Nat.ltb (length buf) BIDX_OFFSET) with false by (symmetry; apply Nat.ltb_ge; assumption).
    apply N.eqb_neq in Hc. rewrite Hc. reflexivity.
  Qed.

  (* the reader can only panic on a page whose checksum verifies (so not on damage short of a checksum collision) *)
  Theorem bidx_panic_only_if_verified buf :
    (BIDX_OFFSET <= length buf)%nat -> bidx_read cksum buf = BPanic -> cksum (skipn 8 buf) = decode_be (firstn 8 buf).
  Proof.
    intros Hl. unfold bidx_read.
    replace (Nat.ltb (length buf) BIDX_OFFSET) with false by (symmetry; apply Nat.ltb_ge; assumption).
    destruct (negb (cksum (skipn 8 buf) =? decode_be (firstn 8 buf))) eqn:C; [discriminate|].
    intros _. apply negb_false_iff, N.eqb_eq in C. exact C.
  Qed.
End Arbitrary.
