(* The tombstone log keeps every appended tombstone across any number of open/append sessions (within
   its capacity): C10. *)
From Coq Require Import List NArith Bool Arith Lia.
From FV Require Import Disk.Tombstone.
Import ListNotations.
Open Scope N_scope.

Arguments N.add : simpl never.
Arguments N.mul : simpl never.
Arguments N.div : simpl never.
Arguments N.modulo : simpl never.
Arguments N.leb : simpl never.
Arguments N.eqb : simpl never.
Arguments N.of_nat : simpl never.
Arguments N.to_nat : simpl never.

(* sequences handed out by the engine: positive and strictly increasing *)
Fixpoint increasing (lo : N) (ts : list tomb) : Prop :=
  match ts with
  | [] => True
  | t :: ts' => lo < t_seq t /\ increasing (t_seq t) ts'
  end.

Lemma last_indep {A} (l : list A) : forall y d d', last (y :: l) d = last (y :: l) d'.
Proof. induction l as [|z l IH]; intros y d d'; [reflexivity|]. change (last (z :: l) d = last (z :: l) d'). apply IH. Qed.

Lemma last_cons {A} (x : A) l d : last (x :: l) d = last l x.
Proof. destruct l as [|y l]; [reflexivity|]. change (last (y :: l) d = last (y :: l) x). apply last_indep. Qed.

Lemma increasing_app lo a b :
  increasing lo (a ++ b) <-> increasing lo a /\ increasing (last (map t_seq a) lo) b.
Proof.
  revert lo. induction a as [|t a IH]; intros lo; [simpl; tauto|].
  cbn [app increasing map]. rewrite last_cons. rewrite IH. tauto.
Qed.

Lemma increasing_weaken lo lo' ts : lo' <= lo -> increasing lo ts -> increasing lo' ts.
Proof. destruct ts as [|t ts]; simpl; [tauto|]. intros H [A B]. split; [lia|assumption]. Qed.

Lemma increasing_last_ge lo ts : increasing lo ts -> lo <= last (map t_seq ts) lo.
Proof.
  revert lo. induction ts as [|t ts IH]; intros lo; [simpl; lia|].
  cbn [increasing map]. intros [A B]. specialize (IH _ B). rewrite last_cons. lia.
Qed.

(* the device after n appends into a fresh log: slot 0 unused, slots 1..n in order, the rest empty *)
Definition layout (ts : list tomb) (pad : nat) : list tomb := empty_tomb :: ts ++ repeat empty_tomb pad.

Lemma argmax_pad i pad bs bl : argmax_from i (repeat empty_tomb pad) bs bl = (bs, bl).
Proof. revert i. induction pad as [|p IH]; intros i; simpl; [reflexivity|]. apply IH. Qed.

Lemma argmax_increasing ts : forall i pad bs bl,
  increasing bs ts -> ts <> [] ->
  argmax_from i (ts ++ repeat empty_tomb pad) bs bl =
  (last (map t_seq ts) bs, i + N.of_nat (length ts) - 1).
Proof.
  induction ts as [|t ts IH]; intros i pad bs bl Hinc Hne; [congruence|].
  simpl in Hinc. destruct Hinc as [Hlt Hinc].
  cbn [app argmax_from].
  destruct (N.eqb_spec (t_seq t) 0) as [Hz|Hz]; [lia|].
  destruct (N.leb_spec bs (t_seq t)) as [_|Hgt]; [|lia].
  destruct ts as [|t2 ts].
  - cbn [app]. rewrite argmax_pad. cbn [map last length]. f_equal. lia.
  - rewrite IH; [|assumption|discriminate]. f_equal.
    + cbn [map]. rewrite !last_cons. reflexivity.
    + cbn [length]. rewrite !Nat2N.inj_succ. lia.
Qed.

Lemma argmax_layout ts pad :
  increasing 0 ts ->
  argmax_from 0 (layout ts pad) 0 0 = (last (map t_seq ts) 0, N.of_nat (length ts)).
Proof.
  intros Hinc. unfold layout. cbn [argmax_from empty_tomb t_seq]. rewrite N.eqb_refl.
  destruct ts as [|t ts].
  - cbn [app]. rewrite argmax_pad. reflexivity.
  - rewrite argmax_increasing; [|assumption|discriminate]. f_equal. lia.
Qed.

Lemma recovered_layout ts pad : increasing 0 ts -> recovered (layout ts pad) = ts.
Proof.
  intros Hinc. unfold recovered, layout. cbn [filter empty_tomb t_seq]. rewrite N.eqb_refl. cbn [negb].
  rewrite filter_app.
  assert (H1 : forall lo l, increasing lo l -> filter (fun t => negb (t_seq t =? 0)) l = l).
  { intros lo l. revert lo. induction l as [|t l IH]; intros lo; simpl; [reflexivity|].
    intros [A B]. destruct (N.eqb_spec (t_seq t) 0); [lia|]. cbn [negb]. f_equal. eapply IH; eauto. }
  rewrite (H1 0 ts Hinc).
  assert (H2 : filter (fun t => negb (t_seq t =? 0)) (repeat empty_tomb pad) = []).
  { induction pad as [|p IH]; simpl; [reflexivity|]. exact IH. }
  rewrite H2. apply app_nil_r.
Qed.

Lemma set_nth_app {A} (a : list A) x y b : set_nth (length a) x (a ++ y :: b) = a ++ x :: b.
Proof. induction a as [|z a IH]; simpl; [reflexivity|]. rewrite IH. reflexivity. Qed.

Lemma slot_index_small pages s : s < pages * SLOTS_PER_PAGE -> slot_index pages s = s.
Proof.
  intros H. unfold slot_index, SLOTS_PER_PAGE in *.
  assert (Hd : s / 256 < pages) by (apply N.div_lt_upper_bound; lia).
  rewrite (N.mod_small _ _ Hd). pose proof (N.div_mod s 256 ltac:(discriminate)). lia.
Qed.

(* appending k tombstones at tail n+1 fills slots n+1 .. n+k *)
Lemma tappend_layout pages : forall ts' ts pad,
  N.of_nat (length ts) + N.of_nat (length ts') + 1 <= pages * SLOTS_PER_PAGE ->
  (length ts' <= pad)%nat ->
  tappend (mkTlog pages (layout ts pad) (N.of_nat (length ts) + 1)) ts' =
  mkTlog pages (layout (ts ++ ts') (pad - length ts')) (N.of_nat (length (ts ++ ts')) + 1).
Proof.
  induction ts' as [|t ts' IH]; intros ts pad Hcap Hpad.
  - simpl. rewrite app_nil_r, Nat.sub_0_r. reflexivity.
  - cbn [tappend fold_left]. unfold tappend1 at 2. cbn [l_pages l_tail l_slots].
    cbn [length] in Hcap, Hpad. rewrite Nat2N.inj_succ in Hcap.
    rewrite slot_index_small by lia.
    destruct pad as [|pad]; [lia|].
    assert (Hset : set_nth (N.to_nat (N.of_nat (length ts) + 1)) t (layout ts (S pad)) = layout (ts ++ [t]) pad).
    { unfold layout. replace (N.to_nat (N.of_nat (length ts) + 1)) with (S (length ts)) by lia.
      cbn [set_nth repeat]. f_equal.
      rewrite set_nth_app. rewrite <- app_assoc. reflexivity. }
    rewrite Hset.
    replace (N.of_nat (length ts) + 1 + 1) with (N.of_nat (length (ts ++ [t])) + 1)
      by (rewrite app_length; cbn [length]; lia).
    fold (tappend (mkTlog pages (layout (ts ++ [t]) pad) (N.of_nat (length (ts ++ [t])) + 1)) ts').
    rewrite IH.
    + rewrite <- app_assoc. cbn [app length]. reflexivity.
    + rewrite app_length. cbn [length]. lia.
    + lia.
Qed.

(* any number of open / append sessions within the capacity: the device holds every tombstone ever
   appended, in order, and the next open returns all of them *)
Lemma sessions_layout pages : forall batches ts pad,
  increasing 0 (ts ++ concat batches) ->
  N.of_nat (length ts) + N.of_nat (length (concat batches)) + 1 <= pages * SLOTS_PER_PAGE ->
  (length (concat batches) <= pad)%nat ->
  sessions false pages (layout ts pad) batches =
  layout (ts ++ concat batches) (pad - length (concat batches)).
Proof.
  induction batches as [|b bs IH]; intros ts pad Hinc Hcap Hpad.
  - simpl. rewrite app_nil_r, Nat.sub_0_r. reflexivity.
  - cbn [sessions concat] in *. unfold topen.
    assert (Hts : increasing 0 ts) by (apply increasing_app in Hinc; tauto).
    rewrite argmax_layout by assumption.
    rewrite app_length in Hcap, Hpad.
    rewrite tappend_layout; [|lia|lia]. cbn [l_slots].
    rewrite IH.
    + rewrite <- app_assoc. rewrite (app_length b (concat bs)). f_equal. lia.
    + rewrite <- app_assoc. assumption.
    + rewrite app_length. lia.
    + lia.
Qed.

Theorem all_tombstones_survive pages batches :
  increasing 0 (concat batches) ->
  N.of_nat (length (concat batches)) + 1 <= pages * SLOTS_PER_PAGE ->
  let dev := sessions false pages (fresh_device pages) batches in
  snd (topen false pages dev) = concat batches /\
  l_tail (fst (topen false pages dev)) = N.of_nat (length (concat batches)) + 1.
Proof.
  intros Hinc Hcap.
  set (cap := N.to_nat (pages * SLOTS_PER_PAGE)).
  assert (Hfresh : fresh_device pages = layout [] (cap - 1)).
  { unfold fresh_device, layout. fold cap. destruct cap as [|c] eqn:E; [lia|]. cbn [repeat app]. f_equal. f_equal. lia. }
  cbv zeta. rewrite Hfresh.
  rewrite sessions_layout; [| assumption | cbn [length]; lia | lia ].
  cbn [app]. unfold topen. rewrite argmax_layout by assumption. cbn [fst snd l_tail].
  split; [apply recovered_layout; assumption|reflexivity].
Qed.
