(* The tombstone log keeps every appended tombstone across any number of open/append sessions (within
   its capacity): C10. *)
From Coq Require Import List NArith Bool Arith Lia.
From FV Require Import Disk.Tombstone.
Import ListNotations.
Open Scope N_scope.

Arguments N.add : simpl never.
Arguments N.mul : simpl never.
Arguments N.div : simpl never.
Arguments N.modulo : simpl never.
Arguments N.leb : simpl never.
Arguments N.eqb : simpl never.
Arguments N.of_nat : simpl never.
Arguments N.to_nat : simpl never.

(* sequences handed out by the engine: positive and strictly increasing *)
Fixpoint increasing (lo : N) (ts : list tomb) : Prop :=
  match ts with
  | [] => True
  | t :: ts' => lo < t_seq t /\ increasing (t_seq t) ts'
  end.

Lemma last_indep {A} (l : list A) : forall y d d', last (y :: l) d = last (y :: l) d'.
Proof. induction l as [|z l IH]; intros y d d'; [reflexivity|]. change (last (z :: l) d = last (z :: l) d'). apply IH. Qed.

Lemma last_cons {A} (x : A) l d : last (x :: l) d = last l x.
Proof. destruct l as [|y l]; [reflexivity|]. change (last (y :: l) d = last (y :: l) x). apply last_indep. Qed.

Lemma increasing_app lo a b :
  increasing lo (a ++ b) <-> increasing lo a /\ increasing (last (map t_seq a) lo) b.
Proof.
  revert lo. induction a as [|t a IH]; intros lo; [simpl; tauto|].
  cbn [app increasing map]. rewrite last_cons. rewrite IH. tauto.
Qed.

Lemma increasing_weaken lo lo' ts : lo' <= lo -> increasing lo ts -> increasing lo' ts.
Proof. destruct ts as [|t ts]; simpl; [tauto|]. intros H [A B]. split; [lia|assumption]. Qed.

Lemma increasing_last_ge lo ts : increasing lo ts -> lo <= last (map t_seq ts) lo.
Proof.
  revert lo. induction ts as [|t ts IH]; intros lo; [simpl; lia|].
  cbn [increasing map]. intros [A B]. specialize (IH _ B). rewrite last_cons. lia.
Qed.

(* all that open() needs of the sequences: none is 0 (0 marks an empty slot).  Their ORDER in the log is arbitrary:
   with several flushers the log is written batch by batch, not in sequence order *)
Definition nonzero (ts : list tomb) : Prop := Forall (fun t => t_seq t <> 0) ts.

Lemma increasing_nonzero lo ts : increasing lo ts -> nonzero ts.
Proof.
  revert lo. induction ts as [|t ts IH]; intros lo H; [constructor|]. destruct H as [A B].
  constructor; [lia|eapply IH; eauto].
Qed.

(* the device after n appends into a fresh log: slot 0 unused, slots 1..n in order, the rest empty *)
Definition layout (ts : list tomb) (pad : nat) : list tomb := empty_tomb :: ts ++ repeat empty_tomb pad.

Lemma argmax_pad i pad bs bl : argmax_from i (repeat empty_tomb pad) bs bl = (bs, bl).
Proof. revert i. induction pad as [|p IH]; intros i; simpl; [reflexivity|]. apply IH. Qed.

(* the newest tombstone sits in one of the slots 1..n (slot 0 if there is none) *)
Lemma argmax_range ts : forall i pad bs bl,
  snd (argmax_from i (ts ++ repeat empty_tomb pad) bs bl) = bl \/
  (i <= snd (argmax_from i (ts ++ repeat empty_tomb pad) bs bl) < i + N.of_nat (length ts)).
Proof.
  induction ts as [|t ts IH]; intros i pad bs bl; cbn [app].
  - rewrite argmax_pad. left; reflexivity.
  - cbn [argmax_from length]. rewrite Nat2N.inj_succ.
    destruct (t_seq t =? 0).
    + destruct (IH (i + 1) pad bs bl) as [E|E]; [left; exact E|right; lia].
    + destruct (bs <=? t_seq t).
      * destruct (IH (i + 1) pad (t_seq t) i) as [E|E]; [right; rewrite E; lia|right; lia].
      * destruct (IH (i + 1) pad bs bl) as [E|E]; [left; exact E|right; lia].
Qed.

Lemma argmax_layout_range ts pad :
  snd (argmax_from 0 (layout ts pad) 0 0) <= N.of_nat (length ts).
Proof.
  unfold layout. cbn [argmax_from empty_tomb t_seq]. rewrite N.eqb_refl. change (0 + 1) with 1.
  destruct (argmax_range ts 1 pad 0 0) as [E|E]; lia.
Qed.

Lemma nth_layout_in ts pad j : (j < length ts)%nat -> nth (S j) (layout ts pad) empty_tomb = nth j ts empty_tomb.
Proof. intros H. unfold layout. cbn [nth]. apply app_nth1. exact H. Qed.
Lemma nth_layout_pad ts pad : nth (S (length ts)) (layout ts pad) empty_tomb = empty_tomb.
Proof.
  unfold layout. cbn [nth]. rewrite app_nth2 by lia. rewrite Nat.sub_diag. destruct pad; reflexivity.
Qed.

(* skipping from any slot p <= n stops at slot n: the slots p+1..n are occupied, the next one is empty *)
Lemma skip_layout pages ts pad : nonzero ts ->
  N.of_nat (length ts) + 1 <= pages * SLOTS_PER_PAGE ->
  N.of_nat (length (layout ts pad)) = pages * SLOTS_PER_PAGE ->
  forall k fuel p, (p + k = length ts)%nat -> (k < fuel)%nat ->
  skip_occupied fuel (pages * SLOTS_PER_PAGE) (layout ts pad) (N.of_nat p) = Some (N.of_nat (length ts)).
Proof.
  intros Hnz Hcap Hlen. induction k as [|k IH]; intros fuel p Hp Hf; (destruct fuel as [|fuel]; [lia|]); cbn [skip_occupied].
  - (* p = n: the next slot is empty (slot n+1, or slot 0 when the log is exactly full) *)
    assert (p = length ts) by lia. subst p.
    destruct (N.eq_dec (N.of_nat (length ts) + 1) (pages * SLOTS_PER_PAGE)) as [E|E].
    + rewrite E, N.mod_same by lia. cbn [N.to_nat nth layout empty_tomb t_seq]. rewrite N.eqb_refl. reflexivity.
    + rewrite N.mod_small by lia.
      replace (N.to_nat (N.of_nat (length ts) + 1)) with (S (length ts)) by lia.
      rewrite nth_layout_pad. cbn [empty_tomb t_seq]. rewrite N.eqb_refl. reflexivity.
  - rewrite N.mod_small by lia.
    replace (N.to_nat (N.of_nat p + 1)) with (S p) by lia.
    rewrite nth_layout_in by lia.
    assert (Hin : In (nth p ts empty_tomb) ts) by (apply nth_In; lia).
    unfold nonzero in Hnz. rewrite Forall_forall in Hnz. specialize (Hnz _ Hin).
    destruct (N.eqb_spec (t_seq (nth p ts empty_tomb)) 0) as [Habs|_]; [congruence|].
    replace (N.of_nat p + 1) with (N.of_nat (S p)) by lia. apply IH; lia.
Qed.

(* open() on a log holding ts in slots 1..n, in ANY order of sequences: all of them, tail right behind the last *)
Lemma topen_layout pages ts pad : nonzero ts ->
  N.of_nat (length ts) + 1 <= pages * SLOTS_PER_PAGE ->
  N.of_nat (length (layout ts pad)) = pages * SLOTS_PER_PAGE ->
  l_tail (fst (topen false pages (layout ts pad))) = N.of_nat (length ts) + 1.
Proof.
  intros Hnz Hcap Hlen. unfold topen.
  pose proof (argmax_layout_range ts pad) as Hr.
  destruct (argmax_from 0 (layout ts pad) 0 0) as [bs latest]. cbn [snd] in Hr. cbn [fst l_tail].
  set (p := N.to_nat latest).
  assert (Hp : latest = N.of_nat p) by (unfold p; lia).
  rewrite Hp. rewrite (skip_layout pages ts pad Hnz Hcap Hlen (length ts - p) (N.to_nat (pages * SLOTS_PER_PAGE)) p); [reflexivity|lia|lia].
Qed.

Lemma recovered_layout ts pad : nonzero ts -> recovered (layout ts pad) = ts.
Proof.
  intros Hnz. unfold recovered, layout. cbn [filter empty_tomb t_seq]. rewrite N.eqb_refl. cbn [negb].
  rewrite filter_app.
  assert (H1 : forall l, nonzero l -> filter (fun t => negb (t_seq t =? 0)) l = l).
  { induction l as [|t l IH]; intros H; simpl; [reflexivity|]. inversion H; subst.
    destruct (N.eqb_spec (t_seq t) 0); [congruence|]. cbn [negb]. f_equal. apply IH; assumption. }
  rewrite (H1 ts Hnz).
  assert (H2 : filter (fun t => negb (t_seq t =? 0)) (repeat empty_tomb pad) = []).
  { induction pad as [|p IH]; simpl; [reflexivity|]. exact IH. }
  rewrite H2. apply app_nil_r.
Qed.

Lemma set_nth_app {A} (a : list A) x y b : set_nth (length a) x (a ++ y :: b) = a ++ x :: b.
Proof. induction a as [|z a IH]; simpl; [reflexivity|]. rewrite IH. reflexivity. Qed.

Lemma slot_index_small pages s : s < pages * SLOTS_PER_PAGE -> slot_index pages s = s.
Proof.
  intros H. unfold slot_index, SLOTS_PER_PAGE in *.
  assert (Hd : s / 256 < pages) by (apply N.div_lt_upper_bound; lia).
  rewrite (N.mod_small _ _ Hd). pose proof (N.div_mod s 256 ltac:(discriminate)). lia.
Qed.

(* appending k tombstones at tail n+1 fills slots n+1 .. n+k *)
Lemma tappend_layout pages : forall ts' ts pad,
  N.of_nat (length ts) + N.of_nat (length ts') + 1 <= pages * SLOTS_PER_PAGE ->
  (length ts' <= pad)%nat ->
  tappend (mkTlog pages (layout ts pad) (N.of_nat (length ts) + 1)) ts' =
  mkTlog pages (layout (ts ++ ts') (pad - length ts')) (N.of_nat (length (ts ++ ts')) + 1).
Proof.
  induction ts' as [|t ts' IH]; intros ts pad Hcap Hpad.
  - simpl. rewrite app_nil_r, Nat.sub_0_r. reflexivity.
  - cbn [tappend fold_left]. unfold tappend1 at 2. cbn [l_pages l_tail l_slots].
    cbn [length] in Hcap, Hpad. rewrite Nat2N.inj_succ in Hcap.
    rewrite slot_index_small by lia.
    destruct pad as [|pad]; [lia|].
    assert (Hset : set_nth (N.to_nat (N.of_nat (length ts) + 1)) t (layout ts (S pad)) = layout (ts ++ [t]) pad).
    { unfold layout. replace (N.to_nat (N.of_nat (length ts) + 1)) with (S (length ts)) by lia.
      cbn [set_nth repeat]. f_equal.
      rewrite set_nth_app. rewrite <- app_assoc. reflexivity. }
    rewrite Hset.
    replace (N.of_nat (length ts) + 1 + 1) with (N.of_nat (length (ts ++ [t])) + 1)
      by (rewrite app_length; cbn [length]; lia).
    fold (tappend (mkTlog pages (layout (ts ++ [t]) pad) (N.of_nat (length (ts ++ [t])) + 1)) ts').
    rewrite IH.
    + rewrite <- app_assoc. cbn [app length]. reflexivity.
    + rewrite app_length. cbn [length]. lia.
    + lia.
Qed.

(* any number of open / append sessions within the capacity: the device holds every tombstone ever
   appended, in the order written, and the next open returns all of them *)
Lemma layout_length ts pad : length (layout ts pad) = S (length ts + pad).
Proof. unfold layout. cbn [length]. rewrite app_length, repeat_length. reflexivity. Qed.

Lemma sessions_layout pages : forall batches ts pad,
  nonzero (ts ++ concat batches) ->
  N.of_nat (length ts) + N.of_nat (length (concat batches)) + 1 <= pages * SLOTS_PER_PAGE ->
  N.of_nat (length (layout ts pad)) = pages * SLOTS_PER_PAGE ->
  (length (concat batches) <= pad)%nat ->
  sessions false pages (layout ts pad) batches =
  layout (ts ++ concat batches) (pad - length (concat batches)).
Proof.
  induction batches as [|b bs IH]; intros ts pad Hnz Hcap Hlen Hpad.
  - simpl. rewrite app_nil_r, Nat.sub_0_r. reflexivity.
  - cbn [sessions concat] in *.
    assert (Hts : nonzero ts) by (unfold nonzero in *; apply Forall_app in Hnz; tauto).
    rewrite app_length in Hcap, Hpad.
    pose proof (topen_layout pages ts pad Hts ltac:(lia) Hlen) as Htail.
    assert (Hopen : topen false pages (layout ts pad) =
                    (mkTlog pages (layout ts pad) (N.of_nat (length ts) + 1), recovered (layout ts pad))).
    { revert Htail. unfold topen. destruct (argmax_from 0 (layout ts pad) 0 0) as [bs0 latest]. cbn [fst l_tail].
      intros E. rewrite E. reflexivity. }
    rewrite Hopen.
    rewrite tappend_layout; [|lia|lia]. cbn [l_slots].
    rewrite IH.
    + rewrite <- app_assoc. rewrite (app_length b (concat bs)). f_equal. lia.
    + rewrite <- app_assoc. assumption.
    + rewrite app_length. lia.
    + rewrite layout_length in *. rewrite app_length. rewrite <- Hlen. lia.
    + lia.
Qed.

Theorem all_tombstones_survive pages batches :
  nonzero (concat batches) ->
  N.of_nat (length (concat batches)) + 1 <= pages * SLOTS_PER_PAGE ->
  let dev := sessions false pages (fresh_device pages) batches in
  snd (topen false pages dev) = concat batches /\
  l_tail (fst (topen false pages dev)) = N.of_nat (length (concat batches)) + 1.
Proof.
  intros Hnz Hcap.
  set (cap := N.to_nat (pages * SLOTS_PER_PAGE)).
  assert (Hfresh : fresh_device pages = layout [] (cap - 1)).
  { unfold fresh_device, layout. fold cap. destruct cap as [|c] eqn:E; [lia|]. cbn [repeat app]. f_equal. f_equal. lia. }
  assert (Hlen0 : N.of_nat (length (layout [] (cap - 1))) = pages * SLOTS_PER_PAGE).
  { rewrite layout_length. cbn [length]. unfold cap. lia. }
  cbv zeta. rewrite Hfresh.
  rewrite sessions_layout; [| assumption | cbn [length]; lia | exact Hlen0 | unfold cap; lia ].
  cbn [app].
  assert (Hlen1 : N.of_nat (length (layout (concat batches) (cap - 1 - length (concat batches)))) = pages * SLOTS_PER_PAGE).
  { rewrite layout_length. unfold cap. lia. }
  split.
  - unfold topen. destruct (argmax_from 0 _ 0 0). cbn [snd]. apply recovered_layout; assumption.
  - apply topen_layout; assumption.
Qed.
