(* M-FMT, part 2: the tombstone log (foyer-storage/src/engine/block/tombstone.rs).
   A ring of 16-byte slots (hash, sequence), 256 per page; [open] scans every page, returns every slot
   with a non-zero sequence and resumes writing behind the last occupied slot that follows the slot holding the
   highest sequence.
   [bug_tail] reproduces defect F5 of the pinned snapshot: the recovered address of that slot lacks the
   page offset, so the tail is always resumed in page 0.  Model only: no proofs in this file. *)
From Coq Require Import List NArith Bool Arith.
Import ListNotations.
Open Scope N_scope.

Definition SLOTS_PER_PAGE : N := 256.

Record tomb := mkTomb { t_hash : N; t_seq : N }.
Definition empty_tomb := mkTomb 0 0.

Record tlog := mkTlog {
  l_pages : N;                (* pages of the log device *)
  l_slots : list tomb;        (* device content, slot by slot (length = pages * 256) *)
  l_tail : N }.               (* next slot to write (inner.slot); only meaningful while open *)

Definition fresh_device (pages : N) : list tomb := repeat empty_tomb (N.to_nat (pages * SLOTS_PER_PAGE)).

Fixpoint set_nth {A} (n : nat) (x : A) (l : list A) : list A :=
  match l, n with
  | [], _ => []
  | _ :: l', O => x :: l'
  | y :: l', S n' => y :: set_nth n' x l'
  end.

(* scan: (slot index, best sequence so far, slot of the best) *)
Fixpoint argmax_from (i : N) (l : list tomb) (best_seq best_slot : N) : N * N :=
  match l with
  | [] => (best_seq, best_slot)
  | t :: l' =>
      (* `reduce(|a, b| if a.seq > b.seq { a } else { b })`: on ties the later one wins *)
      if (t_seq t =? 0) then argmax_from (i + 1) l' best_seq best_slot
      else if best_seq <=? t_seq t then argmax_from (i + 1) l' (t_seq t) i
      else argmax_from (i + 1) l' best_seq best_slot
  end.

Definition recovered (l : list tomb) : list tomb := filter (fun t => negb (t_seq t =? 0)) l.

(* from the slot of the newest tombstone on, skip the occupied slots (ring order): with several flushers the log is
   not written in sequence order and the newest tombstone need not be the last one written (repair 0eebaad);
   [None] = occupied all the way round *)
Fixpoint skip_occupied (fuel : nat) (total : N) (dev : list tomb) (last : N) : option N :=
  match fuel with
  | O => None
  | S f =>
      if t_seq (nth (N.to_nat ((last + 1) mod total)) dev empty_tomb) =? 0 then Some last
      else skip_occupied f total dev (last + 1)
  end.

(* TombstoneLog::open: the recovered tombstones and the resumed tail *)
Definition topen (bug_tail : bool) (pages : N) (dev : list tomb) : tlog * list tomb :=
  let '(_, latest) := argmax_from 0 dev 0 0 in
  let total := pages * SLOTS_PER_PAGE in
  let last :=
    if bug_tail then latest mod SLOTS_PER_PAGE     (* the pinned snapshot: F5, and no skipping *)
    else match skip_occupied (N.to_nat total) total dev latest with Some l => l | None => latest end in
  (mkTlog pages dev (last + 1), recovered dev).

(* calculate_slot_addr: page = (slot / 256) mod pages, in-page slot = slot mod 256 *)
Definition slot_index (pages slot : N) : N :=
  ((slot / SLOTS_PER_PAGE) mod pages) * SLOTS_PER_PAGE + slot mod SLOTS_PER_PAGE.

Definition tappend1 (g : tlog) (t : tomb) : tlog :=
  mkTlog (l_pages g) (set_nth (N.to_nat (slot_index (l_pages g) (l_tail g))) t (l_slots g)) (l_tail g + 1).

Definition tappend (g : tlog) (ts : list tomb) : tlog := fold_left tappend1 ts g.

(* a session: open, append, close (= keep the device), any number of times *)
Fixpoint sessions (bug_tail : bool) (pages : N) (dev : list tomb) (batches : list (list tomb)) : list tomb :=
  match batches with
  | [] => dev
  | b :: bs => let '(g, _) := topen bug_tail pages dev in sessions bug_tail pages (l_slots (tappend g b)) bs
  end.
