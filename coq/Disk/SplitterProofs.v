(* Splitter::split: the 'handle loop needs at most three rounds, the context invariant is preserved
   across batches, every placed entry is page aligned, behind its blob's index page and inside the block,
   and the parts of one block are laid out in increasing, non-overlapping order (C07). *)
From Coq Require Import List NArith ZArith Bool Arith Lia Sorted.
From FV Require Import Disk.Splitter.
Import ListNotations.
Open Scope N_scope.

Ltac Zify.zify_post_hook ::= Z.div_mod_to_equations.

Arguments N.add : simpl never.
Arguments N.mul : simpl never.
Arguments N.div : simpl never.
Arguments N.sub : simpl never.
Arguments N.leb : simpl never.
Arguments N.ltb : simpl never.

(* page aligned *)
Definition pa (x : N) : Prop := exists k, x = k * PAGE.

Lemma pa_0 : pa 0. Proof. exists 0. reflexivity. Qed.
Lemma pa_add a b : pa a -> pa b -> pa (a + b).
Proof. intros [k ->] [j ->]. exists (k + j). lia. Qed.
Lemma pa_align x : pa (align x).
Proof. unfold align. eexists. reflexivity. Qed.
Lemma align_ge x : x <= align x.
Proof. unfold align, PAGE. lia. Qed.
Lemma align_pos x : 1 <= x -> PAGE <= align x.
Proof. unfold align, PAGE. lia. Qed.

Section Proofs.
  Variable B I : N.
  Hypothesis HB : pa B.
  Hypothesis HI : pa I.
  Hypothesis HIB : I < B.
  Hypothesis Hcap : 0 < icap I.          (* the index page holds at least one entry *)

  Definition eok (e : ent) : Prop := 1 <= e_len e /\ align (e_len e) <= B - I.

  Definition pend (p : part) : N := p_bbo p + p_pbo p + p_size p.

  (* an index entry of a blob that starts at [b]: behind the index page, aligned, inside the block *)
  Definition idx_ok (b : N) (i : idx) : Prop :=
    I <= i_off i /\ pa (b + i_off i) /\ b + i_off i + align (i_len i) <= B.

  (* consecutive layout of the entries of a part: from offset [o] to offset [o'] *)
  Fixpoint chain (o : N) (l : list idx) (o' : N) : Prop :=
    match l with
    | [] => o = o'
    | i :: l' => i_off i = o /\ chain (o + align (i_len i)) l' o'
    end.

  Lemma chain_app o l o1 i :
    chain o l o1 -> i_off i = o1 -> chain o (l ++ [i]) (o1 + align (i_len i)).
  Proof.
    revert o. induction l as [|j l IH]; intros o; simpl.
    - intros <- Hi. split; [assumption|reflexivity].
    - intros [A Bc] Hi. split; [assumption|]. apply IH; assumption.
  Qed.

  Definition part_ok (p : part) : Prop :=
    pa (p_bbo p) /\ I <= p_pbo p /\ pend p <= B /\
    Forall (idx_ok (p_bbo p)) (p_inds p) /\ chain (p_pbo p) (p_inds p) (p_pbo p + p_size p) /\ p_inds p <> [].

  (* parts are emitted block by block, and inside a block in increasing, non-overlapping order:
     a later part's blob (index page included) starts at or after the end of an earlier part's data *)
  Definition before (p q : part) : Prop :=
    p_blk p < p_blk q \/ (p_blk p = p_blk q /\ pend p <= p_bbo q).

  Section Batch.
  Variable lo : N.      (* where the batch started in its first block: bo + po of the incoming context *)

  Record Inv (c : sctx) (a : acc) : Prop := {
    v_bo : pa (bo c); v_po : pa (po c); v_ps : pa (ps a);
    v_I : I <= po c;
    v_fit : inds a <> [] -> bo c + po c + ps a <= B;
    v_cnt : cnt c <= icap I;
    v_empty : inds a = [] -> ps a = 0;
    v_inds : Forall (idx_ok (bo c)) (inds a);
    v_chain : chain (po c) (inds a) (po c + ps a);
    v_parts : Forall part_ok (parts a);
    v_sorted : StronglySorted before (parts a);
    v_water : forall p, In p (parts a) -> p_blk p < blk a \/ (p_blk p = blk a /\ pend p <= bo c);
    v_cnt0 : inds a = [] -> cnt c < icap I;
    v_low_parts : forall p, In p (parts a) -> p_blk p = 0 -> lo <= p_bbo p + p_pbo p;
    v_low_open : blk a = 0 -> lo <= bo c + po c }.

  Lemma sorted_snoc l q :
    StronglySorted before l -> (forall p, In p l -> before p q) -> StronglySorted before (l ++ [q]).
  Proof.
    induction l as [|x l IH]; intros Hs Hb; simpl.
    - constructor; constructor.
    - inversion Hs as [|? ? Hs' Hall]; subst. constructor.
      + apply IH; [assumption|]. intros p Hp. apply Hb. right; assumption.
      + apply Forall_app. split; [assumption|]. constructor; [|constructor]. apply Hb. left; reflexivity.
  Qed.

  (* emitting the open part [q] and moving the watermark to [w] (at or behind q's end) *)
  Lemma emit c a w :
    Inv c a -> inds a <> [] -> pend (mkPart (blk a) (bo c) (po c) (ps a) (inds a) (cnt c)) <= w ->
    let q := mkPart (blk a) (bo c) (po c) (ps a) (inds a) (cnt c) in
    Forall part_ok (parts a ++ [q]) /\ StronglySorted before (parts a ++ [q]) /\
    (forall p, In p (parts a ++ [q]) -> p_blk p < blk a \/ (p_blk p = blk a /\ pend p <= w)) /\
    (forall p, In p (parts a ++ [q]) -> p_blk p = 0 -> lo <= p_bbo p + p_pbo p).
  Proof.
    intros [H1 H2 H3 H4 H5 H6 H7 H8 H9 H10 H11 H12 H13 H14 H15] Hne Hw q.
    assert (Hq : part_ok q).
    { unfold part_ok, q, pend; cbn [p_bbo p_pbo p_size p_inds]. repeat split; auto. }
    unfold pend in Hw; cbn [p_bbo p_pbo p_size] in Hw.
    repeat split.
    - apply Forall_app. split; [assumption|]. constructor; [assumption|constructor].
    - apply sorted_snoc; [assumption|]. intros p Hp. unfold before, q; cbn [p_blk p_bbo].
      destruct (H12 p Hp) as [A|[A Bq]]; [left; assumption|right; split; assumption].
    - intros p Hp. apply in_app_iff in Hp. destruct Hp as [Hp|[<-|[]]].
      + destruct (H12 p Hp) as [A|[A Bq]]; [left; assumption|right; split; [assumption|]].
        specialize (H5 Hne). lia.
      + right. unfold q, pend; cbn [p_blk p_bbo p_pbo p_size]. split; [reflexivity|lia].
    - intros p Hp Hb. apply in_app_iff in Hp. destruct Hp as [Hp|[<-|[]]]; [auto|].
      unfold q; cbn [p_bbo p_pbo]. apply H15. exact Hb.
  Qed.

  (* the state right after split_blob (both branches agree because an empty part has size 0) *)
  Lemma split_blob_spec c a :
    Inv c a ->
    let '(c1, a1) := split_blob I (c, a) in
    bo c1 = bo c + po c + ps a /\ po c1 = I /\ cnt c1 = 0 /\ ps a1 = 0 /\ inds a1 = [] /\ blk a1 = blk a /\
    pa (bo c1) /\ Forall part_ok (parts a1) /\ StronglySorted before (parts a1) /\
    (forall p, In p (parts a1) -> p_blk p < blk a1 \/ (p_blk p = blk a1 /\ pend p <= bo c1)) /\
    (forall p, In p (parts a1) -> p_blk p = 0 -> lo <= p_bbo p + p_pbo p) /\
    (blk a1 = 0 -> lo <= bo c1 + po c1).
  Proof.
    intros HI0. pose proof HI0 as [H1 H2 H3 H4 H5 H6 H7 H8 H9 H10 H11 H12 H13 H14 H15]. unfold split_blob.
    destruct (inds a) as [|i l] eqn:E.
    - cbn [bo po cnt ps inds blk parts]. rewrite (H7 eq_refl) in *.
      repeat split; auto; try lia;
        try (replace (bo c + po c + 0) with (bo c + po c) by lia; apply pa_add; assumption);
        try (intros p Hp; destruct (H12 p Hp) as [A|[A Bq]]; [left; assumption|right; split; [assumption|lia]]);
        try (intros Hb; specialize (H15 Hb); lia).
    - cbn [bo po cnt ps inds blk parts].
      assert (Hne : inds a <> []) by (rewrite E; discriminate).
      destruct (emit c a (bo c + po c + ps a) HI0 Hne) as (A1 & A2 & A3 & A4).
      { unfold pend; cbn [p_bbo p_pbo p_size]. lia. }
      rewrite E in *.
      repeat split; auto;
        try (apply pa_add; [apply pa_add|]; assumption);
        try (intros Hb; specialize (H15 Hb); lia).
  Qed.

  (* placing into a state that has room *)
  Lemma place_here c a e :
    Inv c a -> eok e -> cnt c < icap I -> bo c + po c + ps a + align (e_len e) <= B ->
    Inv (mkCtx (bo c) (po c) (cnt c + 1))
        (mkAcc (ps a + align (e_len e)) (inds a ++ [mkIdx (e_hash e) (e_seq e) (po c + ps a) (e_len e)]) (parts a) (blk a)).
  Proof.
    intros [H1 H2 H3 H4 H5 H6 H7 H8 H9 H10 H11 H12 H13 H14 H15] [He1 He2] Hc Hf.
    constructor; cbn [bo po cnt ps inds parts blk]; auto.
    - apply pa_add; [assumption|apply pa_align].
    - intros _. lia.
    - lia.
    - intros Habs. destruct (inds a); discriminate.
    - apply Forall_app. split; [assumption|]. constructor; [|constructor].
      unfold idx_ok; cbn [i_off i_len]. split; [lia|]. split; [|lia].
      replace (bo c + (po c + ps a)) with (bo c + po c + ps a) by lia.
      apply pa_add; [apply pa_add|]; assumption.
    - replace (po c + (ps a + align (e_len e))) with (po c + ps a + align (e_len e)) by lia.
      apply (chain_app (po c) (inds a) (po c + ps a) (mkIdx (e_hash e) (e_seq e) (po c + ps a) (e_len e))); [assumption|reflexivity].
    - intros Habs. destruct (inds a); discriminate.
  Qed.

  (* a fresh block: (0, I, 0) with nothing open *)
  Lemma fresh_block_inv ps0 n :
    Forall part_ok ps0 -> StronglySorted before ps0 -> (forall p, In p ps0 -> p_blk p < n) ->
    (forall p, In p ps0 -> p_blk p = 0 -> lo <= p_bbo p + p_pbo p) -> 0 < n ->
    Inv (mkCtx 0 I 0) (mkAcc 0 [] ps0 n).
  Proof.
    intros A Bs D L Hn. constructor; cbn [bo po cnt ps inds parts blk]; auto using pa_0; try lia;
      try congruence; try (simpl; lia); try (intros p Hp; left; auto).
  Qed.

  (* c07_no_fuel + invariant: three rounds of the 'handle loop always place the entry *)
  Lemma place_ok c a e :
    Inv c a -> eok e -> exists c' a', place B I 3 (c, a) e = Some (c', a') /\ Inv c' a'.
  Proof.
    intros HI0 He. pose proof He as [He1 He2].
    cbn [place].
    pose proof (split_blob_spec c a HI0) as Hsb.
    destruct (split_blob I (c, a)) as [c1 a1] eqn:E1.
    destruct Hsb as (S1 & S2 & S3 & S4 & S5 & S6 & S7 & S8 & S9 & S10 & S11 & S12).
    assert (Hnext : Inv (mkCtx 0 I 0) (mkAcc 0 [] (parts a1) (blk a1 + 1))).
    { apply fresh_block_inv; auto; [|lia]. intros p Hp. destruct (S10 p Hp) as [A|[A _]]; lia. }
    assert (Hnew : forall x, place B I (S x) (mkCtx 0 I 0, mkAcc 0 [] (parts a1) (blk a1 + 1)) e =
                   Some (mkCtx 0 I 1, mkAcc (0 + align (e_len e)) ([] ++ [mkIdx (e_hash e) (e_seq e) (I + 0) (e_len e)]) (parts a1) (blk a1 + 1))).
    { intros x. cbn [place cnt bo po ps inds parts blk].
      destruct (N.leb_spec (icap I) 0) as [Habs|_]; [lia|].
      destruct (N.ltb_spec B (0 + I + 0 + align (e_len e))) as [Habs|_]; [lia|]. reflexivity. }
    assert (Hnew_inv : Inv (mkCtx 0 I 1) (mkAcc (0 + align (e_len e)) ([] ++ [mkIdx (e_hash e) (e_seq e) (I + 0) (e_len e)]) (parts a1) (blk a1 + 1))).
    { pose proof (place_here _ _ e Hnext He) as Hp. cbn [bo po cnt ps inds parts blk] in Hp. apply Hp; lia. }
    destruct (N.leb_spec (icap I) (cnt c)) as [Hfull|Hroom].
    - (* index full: split the blob *)
      cbn [place]. rewrite S3. destruct (N.leb_spec (icap I) 0) as [Habs|_]; [lia|].
      destruct (N.ltb_spec B (bo c1 + po c1 + ps a1 + align (e_len e))) as [Hover|Hfits].
      + (* does not fit behind the new blob's index either: next block *)
        assert (Hsb2 : split_blob I (c1, a1) = (mkCtx (bo c1 + po c1) I 0, a1)).
        { unfold split_blob. rewrite S5. reflexivity. }
        rewrite Hsb2. cbn [split_block po cnt ps inds parts blk bo]. rewrite S4, S5.
        destruct (N.leb_spec (icap I) 0) as [Habs|_]; [lia|].
        destruct (N.ltb_spec B (0 + I + 0 + align (e_len e))) as [Habs|_]; [lia|].
        eexists _, _. split; [reflexivity|exact Hnew_inv].
      + eexists _, _. split; [reflexivity|].
        assert (Hf : Inv c1 a1).
        { constructor; auto; try lia; rewrite ?S2, ?S4, ?S5, ?S6; auto using pa_0;
            try (intros Hx; exfalso; apply Hx; reflexivity); try constructor; try (simpl; lia). }
        pose proof (place_here c1 a1 e Hf He) as Hp. rewrite S3 in Hp. apply Hp; lia.
    - destruct (N.ltb_spec B (bo c + po c + ps a + align (e_len e))) as [Hover|Hfits].
      + (* block full: split blob and block *)
        cbn [split_block]. rewrite S2, S3, S4, S5. cbn [place cnt bo po ps inds parts blk].
        destruct (N.leb_spec (icap I) 0) as [Habs|_]; [lia|].
        destruct (N.ltb_spec B (0 + I + 0 + align (e_len e))) as [Habs|_]; [lia|].
        eexists _, _. split; [reflexivity|exact Hnew_inv].
      + eexists _, _. split; [reflexivity|apply place_here; auto].
  Qed.

  Lemma place_all_ok es : forall c a,
    Inv c a -> Forall eok es -> exists c' a', place_all B I (c, a) es = Some (c', a') /\ Inv c' a'.
  Proof.
    induction es as [|e es IH]; intros c a HI0 Hes; cbn [place_all].
    - eexists _, _. split; [reflexivity|assumption].
    - inversion Hes as [|? ? He Hes']; subst.
      destruct (place_ok c a e HI0 He) as (c1 & a1 & Hp & HI1). rewrite Hp.
      apply IH; assumption.
  Qed.
  End Batch.

  (* between batches *)
  Record CtxInv (c : sctx) : Prop := {
    x_bo : pa (bo c); x_po : pa (po c); x_I : I <= po c; x_cnt : cnt c < icap I }.

  Lemma ctx_init : CtxInv (init_ctx I).
  Proof. constructor; cbn [init_ctx bo po cnt]; auto using pa_0; lia. Qed.

  Theorem split_ok c es :
    CtxInv c -> Forall eok es ->
    exists c' ps' n, split B I c es = Some (c', ps', n) /\ CtxInv c' /\
      Forall part_ok ps' /\ StronglySorted before ps' /\
      (* everything of this batch in its first block lies behind what the context already covered *)
      (forall p, In p ps' -> p_blk p = 0 -> bo c + po c <= p_bbo p + p_pbo p) /\
      (* the new context's cursor is behind everything the batch wrote into its last block *)
      (forall p, In p ps' -> p_blk p + 1 = n -> pend p <= bo c' + po c') /\
      (* and, if the batch stayed in the block it started in, the cursor did not move backwards *)
      (n = 1 -> bo c + po c <= bo c' + po c').
  Proof.
    intros [X1 X2 X3 X5] Hes. unfold split.
    destruct (N.leb_spec (icap I) (cnt c)) as [Habs|_]; [lia|].
    set (lo := bo c + po c).
    assert (H0 : Inv lo c (mkAcc 0 [] [] 0)).
    { constructor; cbn [ps inds parts blk]; try (intros q0 []; fail); auto using pa_0; try lia;
        try congruence; try (simpl; lia); try (unfold lo; lia); try constructor. }
    destruct (place_all_ok lo es c (mkAcc 0 [] [] 0) H0 Hes) as (c1 & a1 & Hp & HI1). rewrite Hp.
    pose proof HI1 as [H1 H2 H3 H4 H5 H6 H7 H8 H9 H10 H11 H12 H13 H14 H15].
    unfold seal_blob. destruct (inds a1) as [|i l] eqn:E.
    - (* nothing open: the context is as the loop left it *)
      assert (Hps : ps a1 = 0) by (apply H7; reflexivity).
      eexists _, _, _. split; [reflexivity|].
      split; [constructor; auto|]. split; [assumption|]. split; [assumption|]. split; [assumption|].
      split.
      + intros p Hin Hn. destruct (H12 p Hin) as [A|[A Bq]]; lia.
      + intros Hn. apply H15. lia.
    - assert (Hne : inds a1 <> []) by (rewrite E; discriminate).
      destruct (N.leb_spec (icap I) (cnt c1)) as [Hfull|Hroom].
      + destruct (emit lo c1 a1 (bo c1 + po c1 + ps a1) HI1 Hne) as (A1 & A2 & A3 & A4).
        { unfold pend; cbn [p_bbo p_pbo p_size]. lia. }
        rewrite E in *. eexists _, _, _. split; [reflexivity|]. cbn [parts blk bo po cnt].
        split; [constructor; cbn [bo po cnt]; auto; try lia; apply pa_add; [apply pa_add|]; assumption|].
        split; [assumption|]. split; [assumption|]. split; [assumption|]. split.
        * intros p Hin Hn. destruct (A3 p Hin) as [A|[A Bq]]; lia.
        * intros Hn. assert (Hb : blk a1 = 0) by lia. specialize (H15 Hb). lia.
      + destruct (emit lo c1 a1 (bo c1 + po c1 + ps a1) HI1 Hne) as (A1 & A2 & A3 & A4).
        { unfold pend; cbn [p_bbo p_pbo p_size]. lia. }
        rewrite E in *. eexists _, _, _. split; [reflexivity|]. cbn [parts blk bo po cnt].
        split; [constructor; cbn [bo po cnt]; auto; try lia; apply pa_add; assumption|].
        split; [assumption|]. split; [assumption|]. split; [assumption|]. split.
        * intros p Hin Hn. destruct (A3 p Hin) as [A|[A Bq]]; lia.
        * intros Hn. assert (Hb : blk a1 = 0) by lia. specialize (H15 Hb). lia.
  Qed.

  (* any number of batches: the context invariant carries over, so every batch is laid out correctly *)
  Theorem split_batches_ok bs : forall c,
    CtxInv c -> Forall (Forall eok) bs ->
    exists c' out, split_batches B I c bs = Some (c', out) /\ CtxInv c' /\
      Forall (fun r => Forall part_ok (fst r) /\ StronglySorted before (fst r)) out.
  Proof.
    induction bs as [|b bs IH]; intros c Hc Hbs; cbn [split_batches].
    - eexists _, _. split; [reflexivity|]. split; [assumption|constructor].
    - inversion Hbs as [|? ? Hb Hbs']; subst.
      destruct (split_ok c b Hc Hb) as (c1 & ps1 & n1 & Hs & Hc1 & P1 & P2 & _).
      rewrite Hs. destruct (IH c1 Hc1 Hbs') as (c2 & out & Hs2 & Hc2 & Hout). rewrite Hs2.
      eexists _, _. split; [reflexivity|]. split; [assumption|]. constructor; [split; assumption|assumption].
  Qed.
End Proofs.
