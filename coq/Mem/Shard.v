(* M-MEM: one shard of foyer-memory's RawCache as a sequential machine.
   Follows foyer-memory/src/raw.rs (RawCacheShard::{evict,emplace,remove,get_inner,clear},
   RawCache::{insert_inner,get,touch,remove,clear,resize,evict_all,flush},
   RawCacheEntry::{drop,clone}).  Model only: no proofs in this file.

   The eviction container is abstracted to what the generic properties need:
   - a record is in the container iff it is in the indexer (true at every quiescent
     point of the code: emplace pushes what it indexes, evict/remove/replace/clear
     take a record out of both),
   - [pinned]: LRU's [is_pinned] flag (only set when [pins cfg = true]),
   - the victims of every eviction loop are an *input* ([vs], the keys the
     implementation evicted, in order); the model checks that each was admissible
     (resident, not pinned, and evicted only while usage > target, and that the loop
     did not stop early).  The concrete algorithms (Algo*.v) predict [vs]. *)
From Coq Require Import List NArith Bool Arith.
Import ListNotations.
Open Scope N_scope.

Definition id := nat.

Record rec := mkRec {
  rkey : N; rval : N; rweight : N; rhash : N; rphantom : bool; rlow : bool }.

Definition dummy_rec := mkRec 0 0 0 0 false false.

Inductive event := EvEvict | EvReplace | EvRemove | EvClear.

Definition event_eqb (a b : event) : bool :=
  match a, b with
  | EvEvict, EvEvict | EvReplace, EvReplace | EvRemove, EvRemove | EvClear, EvClear => true
  | _, _ => false
  end.

(* Static configuration of a shard model. [bug_clear] / [bug_touch] reproduce two
   defects of the pinned snapshot (F4: clear keeps usage; F8: touch leaks a reference);
   the property theorems are about [bug_* = false], the refutations about [true]. *)
Record cfg := mkCfg {
  pins : bool;        (* the algorithm pins looked-up records (LRU) *)
  piped : bool;       (* a pipe is installed and enabled *)
  bug_clear : bool;
  bug_touch : bool }.

Record shard := mkShard {
  arena : list rec;          (* every record ever created; id = position; append-only *)
  idx : list (N * id);       (* indexer: key -> id (most recent first) *)
  pinned : list id;          (* records whose LRU is_pinned flag is set *)
  refs : list N;             (* per id, parallel to arena *)
  handles : list (N * id);   (* live external handles: handle name -> id *)
  usage : N;
  entries : N;
  capacity : N;
  elog : list (event * id);  (* every on_leave notification so far, in order *)
  plog : list id }.          (* every record offered to the pipe so far, in order *)

Definition init_shard (cap : N) : shard :=
  mkShard [] [] [] [] [] 0 0 cap [] [].

(* ---- small list utilities ---- *)

Fixpoint lookup (k : N) (l : list (N * id)) : option id :=
  match l with
  | [] => None
  | (k', i) :: l' => if N.eqb k k' then Some i else lookup k l'
  end.

Fixpoint remove_key (k : N) (l : list (N * id)) : list (N * id) :=
  match l with
  | [] => []
  | (k', i) :: l' => if N.eqb k k' then remove_key k l' else (k', i) :: remove_key k l'
  end.

Fixpoint memb (i : id) (l : list id) : bool :=
  match l with
  | [] => false
  | j :: l' => Nat.eqb i j || memb i l'
  end.

Fixpoint remove_id (i : id) (l : list id) : list id :=
  match l with
  | [] => []
  | j :: l' => if Nat.eqb i j then remove_id i l' else j :: remove_id i l'
  end.

Fixpoint upd {A} (i : nat) (f : A -> A) (l : list A) : list A :=
  match l, i with
  | [], _ => []
  | x :: l', O => f x :: l'
  | x :: l', S i' => x :: upd i' f l'
  end.

Fixpoint hlookup (h : N) (l : list (N * id)) : option id :=
  match l with
  | [] => None
  | (h', i) :: l' => if N.eqb h h' then Some i else hlookup h l'
  end.

Fixpoint hremove (h : N) (l : list (N * id)) : list (N * id) :=
  match l with
  | [] => []
  | (h', i) :: l' => if N.eqb h h' then l' else (h', i) :: hremove h l'
  end.

Definition get_rec (s : shard) (i : id) : rec := nth i (arena s) dummy_rec.
Definition get_ref (s : shard) (i : id) : N := nth i (refs s) 0.
Definition indexed (s : shard) (i : id) : bool := memb i (map snd (idx s)).
Definition weight_of (s : shard) (i : id) : N := rweight (get_rec s i).

(* ---- field updates ---- *)

Definition set_idx (s : shard) x := mkShard (arena s) x (pinned s) (refs s) (handles s) (usage s) (entries s) (capacity s) (elog s) (plog s).
Definition set_pinned (s : shard) x := mkShard (arena s) (idx s) x (refs s) (handles s) (usage s) (entries s) (capacity s) (elog s) (plog s).
Definition set_refs (s : shard) x := mkShard (arena s) (idx s) (pinned s) x (handles s) (usage s) (entries s) (capacity s) (elog s) (plog s).
Definition set_handles (s : shard) x := mkShard (arena s) (idx s) (pinned s) (refs s) x (usage s) (entries s) (capacity s) (elog s) (plog s).
Definition set_usage (s : shard) x := mkShard (arena s) (idx s) (pinned s) (refs s) (handles s) x (entries s) (capacity s) (elog s) (plog s).
Definition set_entries (s : shard) x := mkShard (arena s) (idx s) (pinned s) (refs s) (handles s) (usage s) x (capacity s) (elog s) (plog s).
Definition set_capacity (s : shard) x := mkShard (arena s) (idx s) (pinned s) (refs s) (handles s) (usage s) (entries s) x (elog s) (plog s).
Definition add_event (s : shard) (e : event) (i : id) := mkShard (arena s) (idx s) (pinned s) (refs s) (handles s) (usage s) (entries s) (capacity s) (elog s ++ [(e, i)]) (plog s).
Definition add_pipe (c : cfg) (s : shard) (i : id) :=
  if piped c then mkShard (arena s) (idx s) (pinned s) (refs s) (handles s) (usage s) (entries s) (capacity s) (elog s) (plog s ++ [i]) else s.
Definition alloc (s : shard) (r : rec) : shard :=
  mkShard (arena s ++ [r]) (idx s) (pinned s) (refs s ++ [0]) (handles s) (usage s) (entries s) (capacity s) (elog s) (plog s).

Definition inc_ref (s : shard) (i : id) : shard := set_refs s (upd i (fun n => n + 1) (refs s)).
Definition dec_ref (s : shard) (i : id) : shard := set_refs s (upd i (fun n => n - 1) (refs s)).
Definition add_handle (s : shard) (h : N) (i : id) : shard := set_handles s ((h, i) :: handles s).

(* Eviction::acquire / Eviction::release as far as the generic model sees them
   (lru.rs: both are guarded by is_in_eviction and by the is_pinned flag). *)
Definition acquire (c : cfg) (s : shard) (i : id) : shard :=
  if pins c && indexed s i && negb (memb i (pinned s)) then set_pinned s (i :: pinned s) else s.
Definition release (c : cfg) (s : shard) (i : id) : shard :=
  if pins c && indexed s i && memb i (pinned s) then set_pinned s (remove_id i (pinned s)) else s.

(* the record [i] (key [k]) leaves the indexer and the eviction container *)
Definition unindex (s : shard) (k : N) (i : id) : shard :=
  set_usage (set_idx s (remove_key k (idx s))) (usage s - weight_of s i).

(* one iteration of RawCacheShard::evict (raw.rs:119-137) for the victim the
   implementation chose *)
Definition evict_one (c : cfg) (s : shard) (k : N) (i : id) : shard :=
  let s := unindex s k i in
  let s := set_entries s (entries s - 1) in
  add_pipe c (add_event s EvEvict i) i.

Definition all_pinned (s : shard) : bool :=
  forallb (fun p => memb (snd p) (pinned s)) (idx s).

(* RawCacheShard::evict with the victims given: [None] = the implementation's choice
   is not one the code's loop could have made. *)
Fixpoint evict_oracle (c : cfg) (target : N) (vs : list N) (s : shard) : option shard :=
  match vs with
  | [] => if (usage s <=? target) || all_pinned s then Some s else None
  | k :: vs' =>
      if usage s <=? target then None else
      match lookup k (idx s) with
      | None => None
      | Some i =>
          if memb i (pinned s) then None
          else evict_oracle c target vs' (evict_one c s k i)
      end
  end.

(* RawCacheShard::emplace (raw.rs:141-215) + the tail of insert_inner *)
Definition insert (c : cfg) (s : shard) (k v w hsh : N) (low ph : bool) (h : N) (vs : list N)
  : option shard :=
  let i := length (arena s) in
  let s := alloc s (mkRec k v w hsh ph low) in
  if ph then
    match vs with
    | _ :: _ => None
    | [] =>
      let s := match lookup k (idx s) with
               | Some o => add_event (set_entries (unindex s k o) (entries s - 1)) EvReplace o
               | None => s
               end in
      Some (add_handle (add_event (inc_ref s i) EvRemove i) h i)
    end
  else
    match evict_oracle c (capacity s - w) vs s with
    | None => None
    | Some s =>
      let s := match lookup k (idx s) with
               | Some o => add_event (unindex s k o) EvReplace o
               | None => set_entries s (entries s + 1)
               end in
      let s := set_idx s ((k, i) :: idx s) in
      let s := set_usage s (usage s + w) in
      Some (add_handle (inc_ref s i) h i)
    end.

Definition get (c : cfg) (s : shard) (k h : N) : shard :=
  match lookup k (idx s) with
  | None => s
  | Some i => add_handle (acquire c (inc_ref s i) i) h i
  end.

(* RawCacheEntry::drop *)
Definition drop (c : cfg) (s : shard) (h : N) : shard :=
  match hlookup h (handles s) with
  | None => s
  | Some i =>
      let s := set_handles s (hremove h (handles s)) in
      let s := dec_ref s i in
      if N.eqb (get_ref s i) 0 then
        if rphantom (get_rec s i) then add_pipe c (add_event s EvEvict i) i
        else release c s i
      else s
  end.

(* RawCache::touch.  Pinned snapshot (bug_touch): get_inner + acquire, the Arc is
   thrown away without a handle, so the reference is never returned.  Repaired:
   a lookup whose handle is dropped at once. *)
Definition touch (c : cfg) (s : shard) (k h : N) : shard :=
  if bug_touch c then
    match lookup k (idx s) with
    | None => s
    | Some i => acquire c (inc_ref s i) i
    end
  else drop c (get c s k h) h.

Definition remove (c : cfg) (s : shard) (k h : N) : shard :=
  match lookup k (idx s) with
  | None => s
  | Some i =>
      let s := set_entries (unindex s k i) (entries s - 1) in
      add_handle (add_event (inc_ref s i) EvRemove i) h i
  end.

Definition clear (c : cfg) (s : shard) : shard :=
  let s' := fold_left (fun s p => add_event s EvClear (snd p)) (idx s) s in
  let s' := set_entries (set_idx s' []) 0 in
  if bug_clear c then s' else set_usage s' 0.

Definition resize (c : cfg) (s : shard) (cap : N) (vs : list N) : option shard :=
  evict_oracle c cap vs (set_capacity s cap).

Definition evict_all (c : cfg) (s : shard) (vs : list N) : option shard :=
  evict_oracle c 0 vs s.

(* RawCache::flush (raw.rs, after repair 92930ee): evict(0), then every record that is still resident - those the
   algorithm does not offer as victims while they are referenced (LRU pins them) and zero-weight ones the loop never
   reaches.  The keys come in the implementation's order; the second phase takes them in hash-table order. *)
Fixpoint flush_oracle (c : cfg) (vs : list N) (s : shard) : option shard :=
  match vs with
  | [] => match idx s with [] => Some s | _ :: _ => None end
  | k :: vs' =>
      match lookup k (idx s) with
      | None => None
      | Some i =>
          if (usage s <=? 0) || all_pinned s then flush_oracle c vs' (evict_one c s k i)
          else if memb i (pinned s) then None
          else flush_oracle c vs' (evict_one c s k i)
      end
  end.
Definition flush (c : cfg) (s : shard) (vs : list N) : option shard := flush_oracle c vs s.

Definition clone (c : cfg) (s : shard) (h h' : N) : shard :=
  match hlookup h (handles s) with
  | None => s
  | Some i => add_handle (inc_ref s i) h' i
  end.

Inductive op :=
| OInsert (k v w hsh : N) (low ph : bool) (h : N) (vs : list N)
| OGet (k h : N)
| OTouch (k h : N)
| OContains (k : N)
| ORemove (k h : N)
| OClear
| OResize (cap : N) (vs : list N)
| OEvictAll (vs : list N)
| OFlush (vs : list N)
| OClone (h h' : N)
| ODrop (h : N).

Definition step (c : cfg) (s : shard) (o : op) : option shard :=
  match o with
  | OInsert k v w hsh low ph h vs => insert c s k v w hsh low ph h vs
  | OGet k h => Some (get c s k h)
  | OTouch k h => Some (touch c s k h)
  | OContains _ => Some s
  | ORemove k h => Some (remove c s k h)
  | OClear => Some (clear c s)
  | OResize cap vs => resize c s cap vs
  | OEvictAll vs => evict_all c s vs
  | OFlush vs => flush c s vs
  | OClone h h' => Some (clone c s h h')
  | ODrop h => Some (drop c s h)
  end.

Fixpoint run (c : cfg) (s : shard) (ops : list op) : option shard :=
  match ops with
  | [] => Some s
  | o :: ops' => match step c s o with None => None | Some s' => run c s' ops' end
  end.

(* ---- observations ---- *)

Definition findable (s : shard) : list N := map fst (idx s).
Definition sum_weights (s : shard) : N :=
  fold_right (fun p acc => weight_of s (snd p) + acc) 0 (idx s).
Definition handle_count (s : shard) (i : id) : N :=
  N.of_nat (length (filter (fun p => Nat.eqb (snd p) i) (handles s))).
Definition is_outdated (s : shard) (i : id) : bool := negb (indexed s i).
Definition event_count (s : shard) (i : id) : nat :=
  length (filter (fun p => Nat.eqb (snd p) i) (elog s)).
