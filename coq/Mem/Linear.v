(* C02: per-key linearizability against "an atomic register whose reads may additionally miss", and a checker for
   concurrent histories that is proved never to reject a linearizable history.
   An event is one completed operation on one key: its kind, and the stamps of its invocation and response taken
   from a global clock. *)
From Coq Require Import List NArith Bool Lia Permutation.
Import ListNotations.
Open Scope N_scope.

Inductive kind := KWrite (v : N) | KDelete | KRead (r : option N).
Record ev := mkEv { eid : N; ekind : kind; einv : N; eret : N }.

Definition is_upd (e : ev) : bool := match ekind e with KWrite _ | KDelete => true | KRead _ => false end.

(* the sequential specification *)
Definition apply (st : option N) (e : ev) : option N :=
  match ekind e with KWrite v => Some v | KDelete => None | KRead _ => st end.
Definition legal (st : option N) (e : ev) : Prop :=
  match ekind e with KRead (Some v) => st = Some v | _ => True end.
Fixpoint seq_ok (st : option N) (l : list ev) : Prop :=
  match l with [] => True | e :: l' => legal st e /\ seq_ok (apply st e) l' end.

(* real-time order: an operation that responded before another was invoked comes first *)
Definition rt_ok (lin : list ev) : Prop :=
  forall l1 a l2 b l3, lin = l1 ++ a :: l2 ++ b :: l3 -> ~ (eret b < einv a).

Definition linearizable (h : list ev) : Prop :=
  exists lin, Permutation lin h /\ rt_ok lin /\ seq_ok None lin.

(* the checker: a read of v needs a write of v that was invoked before the read responded and that no other update,
   invoked after that write responded, has followed with a response before the read was invoked *)
Definition shadowed (h : list ev) (w r : ev) : bool :=
  existsb (fun o => is_upd o && negb (eid o =? eid w) && (eret w <? einv o) && (eret o <? einv r)) h.
Definition read_ok (h : list ev) (r : ev) : bool :=
  match ekind r with
  | KRead (Some v) =>
      existsb (fun w => match ekind w with
                        | KWrite v' => (v' =? v) && (einv w <=? eret r) && negb (shadowed h w r)
                        | _ => false
                        end) h
  | _ => true
  end.
Definition check (h : list ev) : bool := forallb (read_ok h) h.

(* ---- soundness of the checker ---- *)

Fixpoint run (st : option N) (l : list ev) : option N :=
  match l with [] => st | e :: l' => run (apply st e) l' end.

Lemma seq_ok_app st l1 l2 : seq_ok st (l1 ++ l2) <-> seq_ok st l1 /\ seq_ok (run st l1) l2.
Proof. revert st. induction l1 as [|e l1 IH]; intros st; cbn; [tauto|]. rewrite IH. tauto. Qed.

(* the state after a run is Some v only because of a last update which is a write of v *)
Lemma run_some st l v :
  run st l = Some v ->
  (st = Some v /\ forallb (fun e => negb (is_upd e)) l = true) \/
  exists l1 w l2, l = l1 ++ w :: l2 /\ ekind w = KWrite v /\ forallb (fun e => negb (is_upd e)) l2 = true.
Proof.
  revert st. induction l as [|e l IH]; intros st H; cbn in *; [left; auto|].
  destruct (IH _ H) as [[Hs Hn]|[l1 [w [l2 [E [Hw Hn]]]]]].
  - unfold apply in Hs. unfold is_upd. destruct (ekind e) as [v'| |r] eqn:Hk.
    + inversion Hs; subst. right. exists [], e, l. repeat split; auto.
    + discriminate.
    + left. cbn. auto.
  - right. exists (e :: l1), w, l2. subst. repeat split; auto.
Qed.

Lemma perm_in_both (lin h : list ev) x : Permutation lin h -> In x h -> In x lin.
Proof. intros Hp Hin. eapply Permutation_in; [apply Permutation_sym; exact Hp|exact Hin]. Qed.

Lemma in_split_two (l : list ev) a b :
  In a l -> In b l -> a <> b ->
  (exists l1 l2 l3, l = l1 ++ a :: l2 ++ b :: l3) \/ (exists l1 l2 l3, l = l1 ++ b :: l2 ++ a :: l3).
Proof.
  intros Ha Hb Hne. apply in_split in Ha. destruct Ha as [l1 [l2 E]]. subst.
  apply in_app_or in Hb. destruct Hb as [Hb|[Hb|Hb]]; [|congruence|].
  - apply in_split in Hb. destruct Hb as [m1 [m2 E]]. subst. right. exists m1, m2, l2. rewrite <- app_assoc. reflexivity.
  - apply in_split in Hb. destruct Hb as [m1 [m2 E]]. subst. left. exists l1, m1, m2. reflexivity.
Qed.

Theorem check_sound h :
  NoDup (map eid h) -> linearizable h -> check h = true.
Proof.
  intros Hnd [lin [Hp [Hrt Hseq]]]. unfold check. apply forallb_forall. intros r Hr.
  unfold read_ok. destruct (ekind r) as [| |[v|]] eqn:Hk; auto.
  (* r reads v: split the linearization at r *)
  pose proof (perm_in_both lin h r Hp Hr) as Hrl. apply in_split in Hrl. destruct Hrl as [p1 [p2 El]].
  rewrite El in Hseq. apply seq_ok_app in Hseq. destruct Hseq as [_ Hs2]. cbn in Hs2. destruct Hs2 as [Hleg _].
  unfold legal in Hleg. rewrite Hk in Hleg.
  destruct (run_some _ _ _ Hleg) as [[Hn _]|[l1 [w [l2 [E1 [Hw Hnu]]]]]]; [discriminate|].
  assert (Hnd_lin : NoDup (map eid lin)).
  { eapply Permutation_NoDup; [apply Permutation_map; apply Permutation_sym; exact Hp|exact Hnd]. }
  assert (Hwl : In w lin) by (rewrite El, E1; apply in_or_app; left; apply in_or_app; right; left; auto).
  assert (Hwh : In w h) by (eapply Permutation_in; eauto).
  apply existsb_exists. exists w. split; auto. rewrite Hw. rewrite N.eqb_refl. cbn [andb].
  assert (Hlin : lin = l1 ++ w :: l2 ++ r :: p2) by (rewrite El, E1; rewrite <- app_assoc; reflexivity).
  apply andb_true_iff. split.
  - (* w was invoked before r responded *)
    apply N.leb_le. pose proof (Hrt _ _ _ _ _ Hlin) as H1. lia.
  - (* no update o strictly between *)
    apply negb_true_iff. unfold shadowed. apply not_true_is_false. intros Hex.
    apply existsb_exists in Hex. destruct Hex as [o [Hoh Hc]].
    apply andb_true_iff in Hc. destruct Hc as [Hc Hc4]. apply andb_true_iff in Hc. destruct Hc as [Hc Hc3].
    apply andb_true_iff in Hc. destruct Hc as [Hc1 Hc2].
    apply N.ltb_lt in Hc3, Hc4. apply negb_true_iff in Hc2. apply N.eqb_neq in Hc2.
    assert (Hol : In o lin) by (eapply perm_in_both; eauto).
    assert (How : o <> w) by (intros E; subst; auto).
    assert (Hor : o <> r).
    { intros E; subst. unfold is_upd in Hc1. rewrite Hk in Hc1. discriminate. }
    (* where is o in lin = l1 ++ w :: l2 ++ r :: p2 ? *)
    rewrite Hlin in Hol. apply in_app_or in Hol. destruct Hol as [Ho|[Ho|Ho]]; [|congruence|].
    + (* before w: contradicts real time (w responded before o was invoked) *)
      apply in_split in Ho. destruct Ho as [m1 [m2 E]].
      apply (Hrt m1 o m2 w (l2 ++ r :: p2)); [|exact Hc3].
      rewrite Hlin, E. rewrite <- app_assoc. reflexivity.
    + apply in_app_or in Ho. destruct Ho as [Ho|[Ho|Ho]]; [|congruence|].
      * (* between w and r: but nothing there is an update *)
        rewrite forallb_forall in Hnu. specialize (Hnu _ Ho). rewrite Hc1 in Hnu. discriminate.
      * (* after r: contradicts real time (o responded before r was invoked) *)
        apply in_split in Ho. destruct Ho as [m1 [m2 E]].
        apply (Hrt (l1 ++ w :: l2) r m1 o m2); [|exact Hc4].
        rewrite Hlin, E. rewrite <- app_assoc. reflexivity.
Qed.

(* a sequential history (one operation at a time) that follows the specification passes, of course *)
Example check_accepts :
  check [mkEv 1 (KWrite 7) 1 2; mkEv 2 (KRead (Some 7)) 3 4; mkEv 3 KDelete 5 6; mkEv 4 (KRead None) 7 8;
         mkEv 5 (KWrite 9) 9 12; mkEv 6 (KRead (Some 9)) 10 11] = true.
Proof. reflexivity. Qed.
(* a read of a value overwritten by an insert that completed before the read started is rejected; so is a removed one *)
Example check_rejects_stale :
  check [mkEv 1 (KWrite 7) 1 2; mkEv 2 (KWrite 8) 3 4; mkEv 3 (KRead (Some 7)) 5 6] = false /\
  check [mkEv 1 (KWrite 7) 1 2; mkEv 2 KDelete 3 4; mkEv 3 (KRead (Some 7)) 5 6] = false /\
  check [mkEv 3 (KRead (Some 7)) 1 2; mkEv 1 (KWrite 7) 3 4] = false.
Proof. repeat split; reflexivity. Qed.

(* The mechanism: if every operation takes effect atomically at one point between its invocation and its response
   (the shard lock's critical section), and the effects in that order follow the register-with-misses specification,
   then the concurrent history is linearizable. *)
Fixpoint points_ok (last : N) (l : list (ev * N)) : Prop :=
  match l with
  | [] => True
  | (e, p) :: l' => last < p /\ einv e <= p /\ p <= eret e /\ points_ok p l'
  end.

Lemma points_later last l e p : points_ok last l -> In (e, p) l -> last < p.
Proof.
  revert last. induction l as [|[e0 p0] l IH]; intros last H Hin; cbn in *; [contradiction|].
  destruct H as [H1 [H2 [H3 H4]]]. destruct Hin as [E|Hin]; [inversion E; subst; auto|].
  specialize (IH _ H4 Hin). lia.
Qed.

Theorem atomic_points_linearizable (l : list (ev * N)) :
  points_ok 0 l -> seq_ok None (map fst l) -> linearizable (map fst l).
Proof.
  intros Hp Hs. exists (map fst l). split; [reflexivity|]. split; auto.
  intros l1 a l2 b l3 E Hlt.
  (* a precedes b in effect order: a's point is before b's, so b cannot have responded before a was invoked *)
  assert (H : forall last l l1 a l2 b l3, points_ok last l -> map fst l = l1 ++ a :: l2 ++ b :: l3 ->
              exists pa pb, einv a <= pa /\ pa < pb /\ pb <= eret b).
  { clear. intros last l. revert last. induction l as [|[e p] l IH]; intros last l1 a l2 b l3 Hp E; cbn in *.
    - destruct l1; discriminate.
    - destruct Hp as [H1 [H2 [H3 H4]]]. destruct l1 as [|x l1]; cbn in E; inversion E; subst.
      + (* a = e: b is later in l *)
        assert (Hb : exists pb, In (b, pb) l).
        { assert (In b (map fst l)) by (rewrite H5; apply in_or_app; right; left; auto).
          apply in_map_iff in H. destruct H as [[b' pb] [Eb Hin]]. cbn in Eb. subst. eauto. }
        destruct Hb as [pb Hb]. pose proof (points_later _ _ _ _ H4 Hb) as Hl.
        exists p, pb. repeat split; auto.
        clear - H4 Hb. revert p H4. induction l as [|[e0 p0] l IH]; intros p H4; cbn in *; [contradiction|].
        destruct H4 as [_ [_ [G3 G4]]]. destruct Hb as [Eb|Hb]; [inversion Eb; subst; auto|eauto].
      + eapply IH; eauto. }
  destruct (H 0 l l1 a l2 b l3 Hp E) as [pa [pb [G1 [G2 G3]]]]. lia.
Qed.
