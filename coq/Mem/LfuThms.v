(* w-TinyLFU (Mem/Algo.v, foyer-memory/src/eviction/lfu.rs): the rules of the three segments, for every state. *)
From Coq Require Import List NArith Bool Arith Lia Permutation.
From FV Require Import Base.ListX Mem.Shard Mem.Algo.
Import ListNotations.
Open Scope N_scope.

Definition wsum (l : list ent) : N := fold_right (fun e a => ew e + a) 0 l.

Lemma wsum_app a b : wsum (a ++ b) = wsum a + wsum b.
Proof. induction a as [|e a IH]; cbn [wsum app fold_right]; [reflexivity|]. fold (wsum (a ++ b)) (wsum a). rewrite IH. lia. Qed.

Section Lfu.
  Variable bucket : N -> list nat.

  (* pop is total: only an empty cache yields no victim *)
  Theorem lfu_pop_none s :
    lfu_pop bucket s = None <-> f_window s = [] /\ f_probation s = [] /\ f_protected s = [].
  Proof.
    unfold lfu_pop. split.
    - destruct (f_window s) as [|ew0 w'], (f_probation s) as [|ep p']; try discriminate.
      + destruct (f_protected s); [auto|discriminate].
      + destruct (_ <? _); discriminate.
    - intros (Hw & Hp & Ht). rewrite Hw, Hp, Ht. reflexivity.
  Qed.

  (* the admission duel: with both a window candidate and a probation victim, the candidate is evicted iff its estimated
     frequency is strictly lower; otherwise the probation head goes.  The protected segment is touched only when the
     other two are empty. *)
  Theorem lfu_victim_rule s e s' :
    lfu_pop bucket s = Some (e, s') ->
    match f_window s, f_probation s with
    | ewin :: _, epro :: _ =>
        (lfu_freq bucket s (eh ewin) < lfu_freq bucket s (eh epro) -> e = ewin /\ f_probation s' = f_probation s) /\
        (lfu_freq bucket s (eh epro) <= lfu_freq bucket s (eh ewin) -> e = epro /\ f_window s' = f_window s)
    | ewin :: _, [] => e = ewin
    | [], epro :: _ => e = epro
    | [], [] => exists t', f_protected s = e :: t'
    end /\ (f_window s <> [] \/ f_probation s <> [] -> f_protected s' = f_protected s).
  Proof.
    unfold lfu_pop.
    destruct (f_window s) as [|ewin w'] eqn:Hw, (f_probation s) as [|epro p'] eqn:Hp.
    - destruct (f_protected s) as [|e0 t'] eqn:Ht; [discriminate|]. intros H; inversion H; subst. split; [eauto|]. intros [F|F]; congruence.
    - intros H; inversion H; subst. split; [reflexivity|]. intros _. reflexivity.
    - intros H; inversion H; subst. split; [reflexivity|]. intros _. reflexivity.
    - destruct (lfu_freq bucket s (eh ewin) <? lfu_freq bucket s (eh epro)) eqn:C; intros H; inversion H; subst; cbn [lfu_set f_window f_probation f_protected].
      + apply N.ltb_lt in C. split; [|intros _; reflexivity]. split; [intros _; split; reflexivity|intros Hle; lia].
      + apply N.ltb_ge in C. split; [|intros _; reflexivity]. split; [intros Hlt; lia|intros _; split; reflexivity].
  Qed.

  (* window overflow (push): the oldest window records move to the back of probation, in order, until the window fits
     its capacity (or is empty); nothing else moves, weights follow *)
  Theorem lfu_win_overflow_rule : forall w p ww pw cap w' p' ww' pw',
    lfu_win_overflow w p ww pw cap = (w', p', ww', pw') -> ww = wsum w ->
    p' ++ w' = p ++ w /\ (exists moved, p' = p ++ moved /\ w = moved ++ w') /\
    ww' = wsum w' /\ pw' = pw + (wsum w - wsum w') /\ (ww' <= cap \/ w' = []).
  Proof.
    induction w as [|e w IH]; intros p ww pw cap w' p' ww' pw' H Hww; cbn [lfu_win_overflow] in H.
    - destruct (ww <=? cap) eqn:C; inversion H; subst; cbn [wsum fold_right].
      + split; [reflexivity|]. split; [exists []; rewrite app_nil_r; auto|]. split; [reflexivity|]. split; [lia|]. right; reflexivity.
      + split; [reflexivity|]. split; [exists []; rewrite app_nil_r; auto|]. split; [reflexivity|]. split; [lia|]. right; reflexivity.
    - destruct (ww <=? cap) eqn:C.
      + inversion H; subst. apply N.leb_le in C.
        split; [reflexivity|]. split; [exists []; rewrite app_nil_r; auto|]. split; [reflexivity|]. split; [lia|]. left; exact C.
      + assert (Hw2 : ww - ew e = wsum w) by (subst ww; cbn [wsum fold_right]; fold (wsum w); lia).
        destruct (IH _ _ _ _ _ _ _ _ H Hw2) as (Ho & (moved & Hm1 & Hm2) & Hs & Hp & Hc).
        split; [rewrite Ho, <- app_assoc; reflexivity|].
        split; [exists (e :: moved); subst p' w; rewrite <- app_assoc; auto|].
        split; [exact Hs|]. split; [|exact Hc].
        subst pw'. cbn [wsum fold_right]. fold (wsum w).
        assert (wsum w' <= wsum w) by (rewrite Hm2, wsum_app; lia). lia.
  Qed.
End Lfu.

(* the count-min sketch: counting a hash never lowers anybody's estimate, and raises the counted hash's own estimate
   by exactly one (below the cap [acc]) *)
Lemma nth_upd_same (b : nat) (f : N -> N) (r : list N) : (b < length r)%nat -> nth b (upd b f r) 0 = f (nth b r 0).
Proof. revert b. induction r as [|x r IH]; intros [|b] H; cbn in *; try lia; auto. apply IH. lia. Qed.

Lemma nth_upd_ge (b b' : nat) (r : list N) : nth b' r 0 <= nth b' (upd b (fun n => n + 1) r) 0.
Proof.
  revert b b'. induction r as [|x r IH]; intros [|b] [|b']; cbn; try lia; auto.
Qed.

Lemma sk_estimate_mono_acc rows bs a a' : a <= a' -> sk_estimate rows bs a <= sk_estimate rows bs a'.
Proof.
  revert bs a a'. induction rows as [|r rows IH]; intros [|b bs] a a' H; cbn [sk_estimate]; auto.
  apply IH. lia.
Qed.

Theorem sk_update_never_lowers rows bs bs' acc :
  sk_estimate rows bs' acc <= sk_estimate (sk_update rows bs) bs' acc.
Proof.
  revert bs bs' acc. induction rows as [|r rows IH]; intros [|b bs] [|b' bs'] acc; cbn [sk_update sk_estimate]; try lia.
  etransitivity; [apply IH|]. apply sk_estimate_mono_acc.
  pose proof (nth_upd_ge b b' r). lia.
Qed.

Lemma sk_estimate_min rows bs a c : sk_estimate rows bs (N.min a c) = N.min (sk_estimate rows bs a) c.
Proof.
  revert bs a. induction rows as [|r rows IH]; intros [|b bs] a; cbn [sk_estimate]; auto.
  rewrite <- IH. f_equal. lia.
Qed.

Lemma sk_estimate_succ rows bs a :
  Forall2 (fun r b => (b < length r)%nat) rows bs ->
  sk_estimate (sk_update rows bs) bs (a + 1) = sk_estimate rows bs a + 1.
Proof.
  intros H. revert a. induction H as [|r b rows bs Hb Hr IH]; intros a; cbn [sk_update sk_estimate]; [reflexivity|].
  rewrite nth_upd_same by assumption. rewrite N.add_min_distr_r. apply IH.
Qed.

Theorem sk_update_counts_one rows bs cap :
  Forall2 (fun r b => (b < length r)%nat) rows bs ->
  sk_estimate (sk_update rows bs) bs cap = N.min cap (sk_estimate rows bs cap + 1).
Proof.
  intros H.
  assert (E : cap = N.min (cap + 1) cap) by lia.
  rewrite E at 1. rewrite sk_estimate_min. rewrite (sk_estimate_succ _ _ _ H). lia.
Qed.
