(* RawCache::flush (the offload at HybridCache::close): after it the shard is empty, and every record that was
   resident - referenced or not, whatever it weighs - got exactly the Evict step (event + hand-off to the pipe).
   The pinned snapshot's flush was evict_all: with LRU a record whose handle is alive is not offered as a victim and
   stayed behind (finding F19, repaired by 92930ee). *)
From Coq Require Import List NArith Bool Arith Lia.
From FV Require Import Base.ListX Mem.Shard Mem.ShardLemmas Mem.ShardInv.
Import ListNotations.
Open Scope N_scope.

Lemma evict_one_elog c s k i : elog (evict_one c s k i) = elog s ++ [(EvEvict, i)].
Proof. unfold evict_one, add_pipe; destruct (piped c); reflexivity. Qed.
Lemma evict_one_plog c s k i : plog (evict_one c s k i) = if piped c then plog s ++ [i] else plog s.
Proof. unfold evict_one, add_pipe; destruct (piped c); reflexivity. Qed.

Lemma NoDup_map_fst_inj {A B} (l : list (A * B)) k i j :
  NoDup (map fst l) -> In (k, i) l -> In (k, j) l -> i = j.
Proof.
  induction l as [|[k0 i0] l IH]; intros Hnd Hi Hj; [contradiction|].
  cbn [map fst] in Hnd. inversion Hnd as [|? ? Hnot Hnd']; subst.
  destruct Hi as [Hi|Hi]; destruct Hj as [Hj|Hj].
  - congruence.
  - inversion Hi; subst. exfalso. apply Hnot. apply in_map_iff. exists (k, j). auto.
  - inversion Hj; subst. exfalso. apply Hnot. apply in_map_iff. exists (k, i). auto.
  - eauto.
Qed.

Lemma flush_oracle_logs_grow c vs : forall s s', flush_oracle c vs s = Some s' ->
  (forall x, In x (elog s) -> In x (elog s')) /\ (forall x, In x (plog s) -> In x (plog s')).
Proof.
  induction vs as [|k vs IH]; intros s s'; simpl.
  - destruct (idx s); intros H; inversion H; subst; auto.
  - destruct (lookup k (idx s)) as [i|] eqn:Hl; [|discriminate].
    assert (Hstep : flush_oracle c vs (evict_one c s k i) = Some s' ->
      (forall x, In x (elog s) -> In x (elog s')) /\ (forall x, In x (plog s) -> In x (plog s'))).
    { intros H. destruct (IH _ _ H) as [A B]. split.
      - intros x Hx. apply A. rewrite evict_one_elog. apply in_or_app; left; exact Hx.
      - intros x Hx. apply B. rewrite evict_one_plog. destruct (piped c); [apply in_or_app; left|]; exact Hx. }
    destruct (_ || _); [exact Hstep|]. destruct (memb i (pinned s)); [discriminate|exact Hstep].
Qed.

(* every resident record is evicted and handed to the pipe *)
Theorem flush_takes_everything c vs : forall s s',
  IdxInv s -> flush_oracle c vs s = Some s' ->
  idx s' = [] /\
  forall k i, In (k, i) (idx s) -> In (EvEvict, i) (elog s') /\ (piped c = true -> In i (plog s')).
Proof.
  induction vs as [|k vs IH]; intros s s' HI; simpl.
  - destruct (idx s) eqn:E; intros H; inversion H; subst. split; [exact E|]. intros k i Hin. rewrite ?E in Hin. contradiction.
  - destruct (lookup k (idx s)) as [i|] eqn:Hl; [|discriminate].
    assert (Hstep : flush_oracle c vs (evict_one c s k i) = Some s' ->
      idx s' = [] /\
      forall k0 i0, In (k0, i0) (idx s) -> In (EvEvict, i0) (elog s') /\ (piped c = true -> In i0 (plog s'))).
    { intros H. pose proof (IdxInv_evict_one c s k i HI Hl) as HI1.
      destruct (IH _ _ HI1 H) as [E Hall]. split; [exact E|].
      intros k0 i0 Hin. destruct (N.eq_dec k0 k) as [->|Hne].
      - (* the record evicted in this step *)
        assert (i0 = i).
        { apply lookup_In in Hl. pose proof (ii_keys s HI) as Hnd.
          eapply (NoDup_map_fst_inj (idx s) k); eauto. }
        subst i0. destruct (flush_oracle_logs_grow _ _ _ _ H) as [A B]. split.
        + apply A. rewrite evict_one_elog. apply in_or_app; right; left; reflexivity.
        + intros Hp. apply B. rewrite evict_one_plog, Hp. apply in_or_app; right; left; reflexivity.
      - apply (Hall k0 i0). rewrite evict_one_idx. apply remove_key_In. split; [exact Hin|exact Hne]. }
    destruct (_ || _); [exact Hstep|]. destruct (memb i (pinned s)); [discriminate|exact Hstep].
Qed.
