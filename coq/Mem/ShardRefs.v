(* Reference-count / handle invariant, pin invariant, and the eviction-loop specification. *)
From Coq Require Import List NArith Bool Arith Lia.
From FV Require Import Base.ListX Mem.Shard Mem.ShardLemmas Mem.ShardInv.
Import ListNotations.
Open Scope N_scope.

Arguments N.add : simpl never.
Arguments N.sub : simpl never.
Arguments N.leb : simpl never.
Arguments N.eqb : simpl never.
Arguments N.of_nat : simpl never.

(* ================================================================ refs = live handles *)

Record RefInv (s : shard) : Prop := {
  ri_len : length (refs s) = length (arena s);
  ri_refs : forall i, (i < length (arena s))%nat -> get_ref s i = hcount (handles s) i;
  ri_bound : forall h i, In (h, i) (handles s) -> (i < length (arena s))%nat }.

Lemma RefInv_init cap : RefInv (init_shard cap).
Proof. constructor; simpl; intros; try lia; try tauto. Qed.

Lemma RefInv_frame s s' :
  arena s' = arena s -> refs s' = refs s -> handles s' = handles s -> RefInv s -> RefInv s'.
Proof.
  intros A B C [H1 H2 H3]. constructor; unfold get_ref in *; rewrite ?A, ?B, ?C; auto.
Qed.

Lemma hcount_zero hs i : (forall h, ~ In (h, i) hs) -> hcount hs i = 0.
Proof.
  induction hs as [|[h j] hs IH]; intros H; [reflexivity|].
  rewrite hcount_cons. destruct (Nat.eqb_spec j i) as [->|Hne].
  - exfalso. apply (H h). left; reflexivity.
  - rewrite IH; [reflexivity|]. intros h' Hin. apply (H h'). right; assumption.
Qed.

Lemma hcount_out_of_range s i :
  RefInv s -> (length (arena s) <= i)%nat -> hcount (handles s) i = 0.
Proof.
  intros [_ _ H3] Hle. apply hcount_zero. intros h Hin. specialize (H3 h i Hin). lia.
Qed.

Lemma RefInv_alloc s r : RefInv s -> RefInv (alloc s r).
Proof.
  intros HR. pose proof HR as [H1 H2 H3].
  constructor; cbn [arena refs handles alloc].
  - rewrite !app_length. simpl. lia.
  - intros i Hi. rewrite app_length in Hi; simpl in Hi. unfold get_ref; cbn [refs alloc].
    destruct (Nat.eq_dec i (length (arena s))) as [->|Hne].
    + rewrite <- H1. rewrite nth_app_last. rewrite H1. symmetry. apply hcount_out_of_range; auto.
    + rewrite nth_app_left by lia. apply H2. lia.
  - intros h i Hin. rewrite app_length; simpl. specialize (H3 h i Hin). lia.
Qed.

(* one more handle [h] to record [i] *)
Lemma RefInv_inc_add s s' i h :
  RefInv s -> (i < length (arena s))%nat ->
  arena s' = arena s -> refs s' = upd i (fun n => n + 1) (refs s) -> handles s' = (h, i) :: handles s ->
  RefInv s'.
Proof.
  intros [H1 H2 H3] Hi A B C.
  constructor; unfold get_ref in *; rewrite ?A, ?B, ?C.
  - rewrite upd_length. assumption.
  - intros j Hj. rewrite hcount_cons. destruct (Nat.eqb_spec i j) as [->|Hne].
    + rewrite nth_upd_same by lia. rewrite H2 by assumption. lia.
    + rewrite nth_upd_other by assumption. rewrite H2 by assumption. lia.
  - intros h' j [Heq|Hin]; [inversion Heq; subst; assumption | eauto].
Qed.

Lemma RefInv_evict_oracle c target vs s s' :
  RefInv s -> evict_oracle c target vs s = Some s' -> RefInv s'.
Proof.
  intros HR He. destruct (evict_oracle_frame _ _ _ _ _ He) as (A & _ & C & D & _).
  eapply RefInv_frame; eauto.
Qed.

Lemma RefInv_insert c s k v w hsh low ph h vs s' :
  IdxInv s -> RefInv s -> insert c s k v w hsh low ph h vs = Some s' -> RefInv s'.
Proof.
  intros HI HR. unfold insert.
  pose proof (RefInv_alloc s (mkRec k v w hsh ph low) HR) as HA.
  set (sa := alloc s (mkRec k v w hsh ph low)) in *.
  assert (Hlt : (length (arena s) < length (arena sa))%nat).
  { unfold sa; cbn [arena alloc]. rewrite app_length; simpl; lia. }
  destruct ph.
  - destruct vs; [|discriminate].
    destruct (lookup k (idx sa)); intros H; inversion H; subst; clear H;
      eapply (RefInv_inc_add sa _ (length (arena s)) h HA Hlt); reflexivity.
  - destruct (evict_oracle c (capacity sa - w) vs sa) as [se|] eqn:He; [|discriminate].
    pose proof (RefInv_evict_oracle _ _ _ _ _ HA He) as HE.
    destruct (evict_oracle_frame _ _ _ _ _ He) as (Har & _).
    intros H; inversion H; subst; clear H.
    destruct (lookup k (idx se));
      eapply (RefInv_inc_add se _ (length (arena s)) h HE); try reflexivity; rewrite Har; exact Hlt.
Qed.

Lemma RefInv_get c s k h : IdxInv s -> RefInv s -> RefInv (get c s k h).
Proof.
  intros HI HR. unfold get. destruct (lookup k (idx s)) as [i|] eqn:Hl; [|assumption].
  apply lookup_In in Hl. destruct (ii_ok s HI k i Hl) as [Hlt _].
  eapply (RefInv_inc_add s _ i h HR Hlt); unfold acquire; destruct (_ && _); reflexivity.
Qed.

Lemma RefInv_remove c s k h : IdxInv s -> RefInv s -> RefInv (remove c s k h).
Proof.
  intros HI HR. unfold remove. destruct (lookup k (idx s)) as [i|] eqn:Hl; [|assumption].
  apply lookup_In in Hl. destruct (ii_ok s HI k i Hl) as [Hlt _].
  eapply (RefInv_inc_add s _ i h HR Hlt); reflexivity.
Qed.

Lemma RefInv_clone c s h h' : RefInv s -> RefInv (clone c s h h').
Proof.
  intros HR. unfold clone. destruct (hlookup h (handles s)) as [i|] eqn:Hl; [|assumption].
  apply hlookup_In in Hl. pose proof (ri_bound s HR h i Hl) as Hlt.
  eapply (RefInv_inc_add s _ i h' HR Hlt); reflexivity.
Qed.

(* the state of [drop] right after the handle was taken out and the count decremented *)
Definition dropped (s : shard) (h : N) (i : id) : shard :=
  dec_ref (set_handles s (hremove h (handles s))) i.

Lemma RefInv_dropped s h i : RefInv s -> hlookup h (handles s) = Some i -> RefInv (dropped s h i).
Proof.
  intros [H1 H2 H3] Hl. pose proof (hlookup_In _ _ _ Hl) as Hin. pose proof (H3 h i Hin) as Hlt.
  constructor; unfold dropped, get_ref in *; cbn [arena refs handles dec_ref set_refs set_handles].
  - rewrite upd_length. assumption.
  - intros j Hj. pose proof (hcount_hremove h (handles s) i j Hl) as Hc.
    destruct (Nat.eqb_spec i j) as [->|Hne].
    + rewrite nth_upd_same by lia. rewrite H2 by assumption. lia.
    + rewrite nth_upd_other by assumption. rewrite H2 by assumption. lia.
  - intros h' j Hin'. apply hremove_In in Hin'. eauto.
Qed.

Lemma drop_unfold c s h :
  drop c s h =
  match hlookup h (handles s) with
  | None => s
  | Some i =>
      let s1 := dropped s h i in
      if N.eqb (get_ref s1 i) 0 then
        if rphantom (get_rec s1 i) then add_pipe c (add_event s1 EvEvict i) i else release c s1 i
      else s1
  end.
Proof. reflexivity. Qed.

Lemma RefInv_drop c s h : RefInv s -> RefInv (drop c s h).
Proof.
  intros HR. rewrite drop_unfold. destruct (hlookup h (handles s)) as [i|] eqn:Hl; [|assumption].
  pose proof (RefInv_dropped s h i HR Hl) as HD. cbv zeta.
  destruct (N.eqb _ 0); [|assumption].
  destruct (rphantom _).
  - eapply RefInv_frame; [| | |exact HD]; unfold add_pipe; destruct (piped c); reflexivity.
  - eapply RefInv_frame; [| | |exact HD]; unfold release; destruct (_ && _); reflexivity.
Qed.

Lemma RefInv_clear c s : RefInv s -> RefInv (clear c s).
Proof.
  intros HR. unfold clear.
  destruct (fold_add_event_frame (idx s) s) as (A & _ & _ & _ & _ & F & G & _).
  eapply RefInv_frame; [| | |exact HR]; destruct (bug_clear c); cbn [arena refs handles set_usage set_entries set_idx]; assumption.
Qed.

Lemma RefInv_step c s o s' :
  bug_touch c = false -> IdxInv s -> RefInv s -> step c s o = Some s' -> RefInv s'.
Proof.
  intros Ht HI HR. destruct o; simpl; intros H.
  - eapply RefInv_insert; eauto.
  - inversion H; subst. apply RefInv_get; assumption.
  - inversion H; subst. unfold touch. rewrite Ht. apply RefInv_drop. apply RefInv_get; assumption.
  - inversion H; subst. assumption.
  - inversion H; subst. apply RefInv_remove; assumption.
  - inversion H; subst. apply RefInv_clear; assumption.
  - unfold resize in H. eapply RefInv_evict_oracle; [|exact H].
    eapply RefInv_frame; [| | |exact HR]; reflexivity.
  - unfold evict_all in H. eapply RefInv_evict_oracle; eauto.
  - unfold flush in H. destruct (flush_oracle_frame _ _ _ _ H) as (A & _ & C & D & _).
    eapply RefInv_frame; eauto.
  - inversion H; subst. apply RefInv_clone; assumption.
  - inversion H; subst. apply RefInv_drop; assumption.
Qed.

(* ================================================================ eviction loop = its specification *)

(* "evicts only while usage exceeds the target, never a pinned or absent record, and stops
   as soon as usage no longer exceeds the target or nothing evictable is left" *)
Inductive evicts (c : cfg) (target : N) : shard -> list N -> shard -> Prop :=
| ev_stop s : usage s <= target \/ all_pinned s = true -> evicts c target s [] s
| ev_step s k i vs s' :
    target < usage s -> lookup k (idx s) = Some i -> memb i (pinned s) = false ->
    evicts c target (evict_one c s k i) vs s' -> evicts c target s (k :: vs) s'.

Lemma evict_oracle_spec c target vs : forall s s',
  evict_oracle c target vs s = Some s' <-> evicts c target s vs s'.
Proof.
  induction vs as [|k vs IH]; intros s s'; simpl.
  - split.
    + destruct (usage s <=? target) eqn:E1; simpl.
      * intros H; inversion H; subst. constructor. left. apply N.leb_le. assumption.
      * destruct (all_pinned s) eqn:E2; intros H; inversion H; subst. constructor. right. assumption.
    + intros H. inversion H; subst.
      match goal with Hd : _ \/ _ |- _ => destruct Hd as [Hd1|Hd2] end.
      * apply N.leb_le in Hd1. rewrite Hd1. reflexivity.
      * rewrite Hd2. rewrite orb_true_r. reflexivity.
  - split.
    + destruct (usage s <=? target) eqn:E1; [discriminate|].
      destruct (lookup k (idx s)) as [i|] eqn:E2; [|discriminate].
      destruct (memb i (pinned s)) eqn:E3; [discriminate|].
      intros H. apply IH in H. econstructor; eauto. apply N.leb_gt. assumption.
    + intros H. inversion H; subst.
      match goal with Hlt : target < usage s |- _ => apply N.leb_gt in Hlt; rewrite Hlt end.
      match goal with Hl : lookup k (idx s) = Some _ |- _ => rewrite Hl end.
      match goal with Hm : memb _ (pinned s) = false |- _ => rewrite Hm end.
      apply IH. assumption.
Qed.

Lemma evicts_end c target s vs s' :
  evicts c target s vs s' -> usage s' <= target \/ all_pinned s' = true.
Proof. induction 1; auto. Qed.

(* ================================================================ pins *)

Record PinInv (c : cfg) (s : shard) : Prop := {
  pi_nopins : pins c = false -> pinned s = [];
  pi_live : forall i, In i (pinned s) -> In i (map snd (idx s)) -> 0 < get_ref s i;
  pi_bound : forall i, In i (pinned s) -> (i < length (arena s))%nat }.

Lemma PinInv_init c cap : PinInv c (init_shard cap).
Proof. constructor; simpl; intros; tauto. Qed.

Lemma indexed_In s i : indexed s i = true <-> In i (map snd (idx s)).
Proof. unfold indexed. apply memb_In. Qed.

Lemma PinInv_shrink c s s' :
  PinInv c s -> pinned s' = pinned s -> refs s' = refs s -> arena s' = arena s ->
  (forall i, In i (map snd (idx s')) -> In i (map snd (idx s))) -> PinInv c s'.
Proof.
  intros [H1 H2 H3] A B D E. constructor; unfold get_ref in *; rewrite ?A, ?B, ?D; auto.
Qed.

Lemma PinInv_evict_oracle c target vs s s' :
  PinInv c s -> evict_oracle c target vs s = Some s' -> PinInv c s'.
Proof.
  intros HP He. destruct (evict_oracle_frame _ _ _ _ _ He) as (A & _ & C & _ & E & F).
  eapply PinInv_shrink; eauto.
  intros i Hin. apply in_map_iff in Hin. destruct Hin as [p [Hp Hin]]. apply in_map_iff. exists p. auto.
Qed.

Lemma get_ref_inc_same s i : (i < length (refs s))%nat -> get_ref (inc_ref s i) i = get_ref s i + 1.
Proof. intros H. unfold get_ref, inc_ref; cbn [refs set_refs]. rewrite nth_upd_same by assumption. reflexivity. Qed.

Lemma get_ref_inc_other s i j : i <> j -> get_ref (inc_ref s i) j = get_ref s j.
Proof. intros H. unfold get_ref, inc_ref; cbn [refs set_refs]. apply nth_upd_other. assumption. Qed.

Lemma get_ref_inc_ge s i j : get_ref s j <= get_ref (inc_ref s i) j.
Proof.
  destruct (Nat.eq_dec i j) as [->|Hne].
  - destruct (Nat.lt_ge_cases j (length (refs s))) as [Hlt|Hge].
    + rewrite get_ref_inc_same by assumption. lia.
    + unfold get_ref, inc_ref; cbn [refs set_refs]. rewrite !nth_overflow; [lia | | lia].
      rewrite upd_length. lia.
  - rewrite get_ref_inc_other by assumption. lia.
Qed.

Ltac refs_mono H2 i Hp Hi :=
  eapply N.lt_le_trans; [apply (H2 i Hp Hi)|];
  (etransitivity; [|apply get_ref_inc_ge]); unfold get_ref; sproj; apply N.le_refl.

Lemma PinInv_insert c s k v w hsh low ph h vs s' :
  IdxInv s -> RefInv s -> PinInv c s -> insert c s k v w hsh low ph h vs = Some s' -> PinInv c s'.
Proof.
  intros HI HR HP. unfold insert.
  set (sa := alloc s (mkRec k v w hsh ph low)) in *.
  assert (HPa : PinInv c sa).
  { destruct HP as [H1 H2 H3]. constructor; unfold sa; cbn [pinned idx arena alloc]; auto.
    - intros i Hp Hi. unfold get_ref; cbn [refs alloc]. specialize (H2 i Hp Hi). specialize (H3 i Hp).
      rewrite nth_app_left; [exact H2|]. rewrite (ri_len s HR). assumption.
    - intros i Hp. rewrite app_length; simpl. specialize (H3 i Hp). lia. }
  assert (Hnotpin : ~ In (length (arena s)) (pinned sa)).
  { intros Hin. unfold sa in Hin; cbn [pinned alloc] in Hin. pose proof (pi_bound c s HP _ Hin). lia. }
  destruct ph.
  - destruct vs; [|discriminate].
    destruct (lookup k (idx sa)) as [o|]; intros H; inversion H; subst; clear H.
    + destruct HPa as [H1 H2 H3]. constructor; sproj; auto.
      intros i Hp Hi. apply remove_key_map_snd_incl in Hi.
      refs_mono H2 i Hp Hi.
    + destruct HPa as [H1 H2 H3]. constructor; sproj; auto.
      intros i Hp Hi. refs_mono H2 i Hp Hi.
  - destruct (evict_oracle c (capacity sa - w) vs sa) as [se|] eqn:He; [|discriminate].
    pose proof (PinInv_evict_oracle _ _ _ _ _ HPa He) as HE.
    destruct (evict_oracle_frame _ _ _ _ _ He) as (Har & _ & _ & _ & Hpin & _).
    intros H; inversion H; subst; clear H.
    destruct HE as [H1 H2 H3].
    destruct (lookup k (idx se)) as [o|]; constructor; sproj; auto.
    + intros i Hp [Hi|Hi].
      * subst i. exfalso. apply Hnotpin. rewrite <- Hpin. assumption.
      * apply remove_key_map_snd_incl in Hi.
        refs_mono H2 i Hp Hi.
    + intros i Hp [Hi|Hi].
      * subst i. exfalso. apply Hnotpin. rewrite <- Hpin. assumption.
      * refs_mono H2 i Hp Hi.
Qed.

Lemma PinInv_get c s k h : IdxInv s -> RefInv s -> PinInv c s -> PinInv c (get c s k h).
Proof.
  intros HI HR [H1 H2 H3]. unfold get. destruct (lookup k (idx s)) as [i|] eqn:Hl; [|constructor; assumption].
  apply lookup_In in Hl. destruct (ii_ok s HI k i Hl) as [Hlt _].
  unfold acquire. destruct (pins c) eqn:Ep; cbn [andb].
  - destruct (indexed (inc_ref s i) i && negb (memb i (pinned (inc_ref s i)))) eqn:E.
    + constructor; sproj.
      * intros; congruence.
      * intros j [->|Hp] Hj.
        -- unfold get_ref; sproj. rewrite nth_upd_same; [lia|]. rewrite (ri_len s HR). assumption.
        -- refs_mono H2 j Hp Hj.
      * intros j [->|Hp]; auto.
    + constructor; sproj; auto; try (intros; congruence).
      intros j Hp Hj. refs_mono H2 j Hp Hj.
  - constructor; sproj; auto; try (intros; congruence).
    intros j Hp Hj. refs_mono H2 j Hp Hj.
Qed.

Lemma PinInv_remove c s k h : PinInv c s -> PinInv c (remove c s k h).
Proof.
  intros [H1 H2 H3]. unfold remove. destruct (lookup k (idx s)) as [i|]; [|constructor; assumption].
  constructor; sproj; auto.
  intros j Hp Hj. apply remove_key_map_snd_incl in Hj.
  refs_mono H2 j Hp Hj.
Qed.

Lemma PinInv_clone c s h h' : PinInv c s -> PinInv c (clone c s h h').
Proof.
  intros [H1 H2 H3]. unfold clone. destruct (hlookup h (handles s)) as [i|]; [|constructor; assumption].
  constructor; sproj; auto.
  intros j Hp Hj. refs_mono H2 j Hp Hj.
Qed.

Lemma PinInv_clear c s : PinInv c s -> PinInv c (clear c s).
Proof.
  intros [H1 H2 H3]. unfold clear.
  destruct (fold_add_event_frame (idx s) s) as (A & _ & _ & _ & _ & F & _ & H & _).
  constructor; destruct (bug_clear c); cbn [pinned idx arena refs set_usage set_entries set_idx map];
    rewrite ?H, ?A; auto; intros i _ [].
Qed.

Lemma dropped_frame s h i :
  arena (dropped s h i) = arena s /\ idx (dropped s h i) = idx s /\ pinned (dropped s h i) = pinned s /\
  (forall j, j <> i -> get_ref (dropped s h i) j = get_ref s j).
Proof.
  unfold dropped; sproj. repeat split.
  intros j Hne. unfold get_ref; sproj. apply nth_upd_other. auto.
Qed.

Lemma PinInv_dropped c s h i :
  PinInv c s ->
  (In i (pinned s) -> In i (map snd (idx s)) -> 0 < get_ref (dropped s h i) i) ->
  PinInv c (dropped s h i).
Proof.
  intros [H1 H2 H3] Hi. destruct (dropped_frame s h i) as (A & B & C & D).
  constructor; rewrite ?A, ?B, ?C; auto.
  intros j Hp Hj. destruct (Nat.eq_dec j i) as [->|Hne]; [auto|].
  rewrite (D j Hne). auto.
Qed.

Lemma PinInv_drop c s h : IdxInv s -> RefInv s -> PinInv c s -> PinInv c (drop c s h).
Proof.
  intros HI HR HP. rewrite drop_unfold. destruct (hlookup h (handles s)) as [i|] eqn:Hl; [|assumption].
  cbv zeta. destruct (dropped_frame s h i) as (A & B & C & D).
  destruct (N.eqb (get_ref (dropped s h i) i) 0) eqn:Ez.
  - destruct (rphantom (get_rec (dropped s h i) i)) eqn:Eph.
    + (* phantom records are never indexed *)
      assert (Hni : ~ In i (map snd (idx s))).
      { intros Hin. apply in_map_iff in Hin. destruct Hin as [[k' i'] [Heq Hin]]. simpl in Heq; subst i'.
        destruct (ii_ok s HI k' i Hin) as (_ & _ & Hp). unfold get_rec in *. rewrite A in Eph. congruence. }
      assert (HP1 : PinInv c (dropped s h i)).
      { apply PinInv_dropped; [assumption|]. intros _ Hin. contradiction. }
      eapply PinInv_shrink; [exact HP1| | | |]; unfold add_pipe; destruct (piped c); sproj; auto.
    + pose proof HP as [H1 H2 H3]. unfold release. destruct (pins c) eqn:Ep; cbn [andb].
      * destruct (indexed (dropped s h i) i && memb i (pinned (dropped s h i))) eqn:E.
        -- constructor; sproj; rewrite ?A, ?B, ?C.
           ++ intros; congruence.
           ++ intros j Hp Hj. apply remove_id_In in Hp. destruct Hp as [Hp Hne].
              unfold get_ref in *. sproj. rewrite (D j Hne). apply (H2 j Hp Hj).
           ++ intros j Hp. apply remove_id_In in Hp. apply H3. tauto.
        -- apply PinInv_dropped; [exact HP|].
           intros Hp Hin. exfalso. apply andb_false_iff in E. destruct E as [E|E].
           ++ apply not_true_iff_false in E. apply E. apply indexed_In. rewrite B. assumption.
           ++ apply memb_false in E. apply E. rewrite C. assumption.
      * apply PinInv_dropped; [exact HP|].
        intros Hp _. rewrite (H1 eq_refl) in Hp. destruct Hp.
  - apply PinInv_dropped; [assumption|]. intros _ _. apply N.eqb_neq in Ez. lia.
Qed.

Lemma PinInv_step c s o s' :
  bug_touch c = false -> IdxInv s -> RefInv s -> PinInv c s -> step c s o = Some s' -> PinInv c s'.
Proof.
  intros Ht HI HR HP. destruct o; simpl; intros H.
  - eapply PinInv_insert; eauto.
  - inversion H; subst. apply PinInv_get; assumption.
  - inversion H; subst. unfold touch. rewrite Ht.
    apply PinInv_drop; [apply IdxInv_get | apply RefInv_get | apply PinInv_get]; assumption.
  - inversion H; subst. assumption.
  - inversion H; subst. apply PinInv_remove; assumption.
  - inversion H; subst. apply PinInv_clear; assumption.
  - unfold resize in H. eapply PinInv_evict_oracle; [|exact H].
    destruct HP as [H1 H2 H3]. constructor; sproj; auto.
  - unfold evict_all in H. eapply PinInv_evict_oracle; eauto.
  - unfold flush in H. destruct (flush_oracle_frame _ _ _ _ H) as (A & _ & C & _ & E & F).
    eapply PinInv_shrink; eauto. rewrite F. intros i [].
  - inversion H; subst. apply PinInv_clone; assumption.
  - inversion H; subst. apply PinInv_drop; assumption.
Qed.

(* ================================================================ everything together *)

Record Inv (c : cfg) (s : shard) : Prop := {
  inv_idx : IdxInv s; inv_ref : RefInv s; inv_pin : PinInv c s }.

Lemma Inv_init c cap : Inv c (init_shard cap).
Proof. constructor; [apply IdxInv_init | apply RefInv_init | apply PinInv_init]. Qed.

Lemma Inv_step c s o s' :
  bug_clear c = false -> bug_touch c = false -> Inv c s -> step c s o = Some s' -> Inv c s'.
Proof.
  intros Hc Ht [A B D] H. constructor.
  - eapply IdxInv_step; eauto.
  - eapply RefInv_step; eauto.
  - eapply PinInv_step; eauto.
Qed.

Lemma Inv_run c ops : forall s s',
  bug_clear c = false -> bug_touch c = false -> Inv c s -> run c s ops = Some s' -> Inv c s'.
Proof.
  induction ops as [|o ops IH]; intros s s' Hc Ht HI; simpl.
  - intros H; inversion H; subst; assumption.
  - destruct (step c s o) as [s1|] eqn:Hs; [|discriminate].
    intros H. apply (IH s1 s' Hc Ht); [|exact H]. eapply Inv_step; eauto.
Qed.
