(* Theorems about the generic shard model that the property files (Props/C05, C17, C18) cite. *)
From Coq Require Import List NArith Bool Arith Lia.
From FV Require Import Base.ListX Mem.Shard Mem.Cache Mem.ShardLemmas Mem.ShardInv Mem.ShardRefs.
Import ListNotations.
Open Scope N_scope.

Arguments N.add : simpl never.
Arguments N.sub : simpl never.
Arguments N.leb : simpl never.
Arguments N.ltb : simpl never.
Arguments N.eqb : simpl never.
Arguments N.of_nat : simpl never.
Arguments N.div : simpl never.
Arguments N.modulo : simpl never.

Definition good (c : cfg) : Prop := bug_clear c = false /\ bug_touch c = false.

Lemma reach_inv c cap ops s : good c -> run c (init_shard cap) ops = Some s -> Inv c s.
Proof. intros [Hc Ht] H. eapply Inv_run; eauto. apply Inv_init. Qed.

(* ---------------------------------------------------------------- C05 *)

Lemma exact_of_inv c s : Inv c s ->
  usage s = sum_weights s /\ entries s = N.of_nat (length (findable s)).
Proof.
  intros [[_ _ _ H4 H5] _ _]. split; [rewrite sum_weights_eq; assumption|].
  unfold findable. rewrite map_length. assumption.
Qed.

Lemma exact_reach c cap ops s : good c -> run c (init_shard cap) ops = Some s ->
  usage s = sum_weights s /\ entries s = N.of_nat (length (findable s)).
Proof. intros Hg H. eapply exact_of_inv. eapply reach_inv; eauto. Qed.

(* capacities of the shards add up to the configured capacity *)
Lemma capacities_from_sum total shards : forall n index,
  fold_right N.add 0 (capacities_from total shards index n) =
  N.of_nat n * (total / shards) + (N.min (total mod shards) (index + N.of_nat n) - N.min (total mod shards) index).
Proof.
  induction n as [|n IH]; intros index; cbn [capacities_from fold_right].
  - rewrite N.add_0_r. lia.
  - rewrite IH. unfold shard_capacity_for. rewrite Nat2N.inj_succ, N.mul_succ_l.
    generalize (total / shards) (total mod shards) (N.of_nat n). intros b r m.
    generalize (m * b). intros mb. destruct (N.ltb_spec index r); lia.
Qed.

Lemma capacities_sum total n : (0 < n)%nat -> fold_right N.add 0 (capacities total n) = total.
Proof.
  intros Hn. unfold capacities. rewrite capacities_from_sum.
  assert (Hs : N.of_nat n <> 0) by lia.
  pose proof (N.mod_lt total (N.of_nat n) Hs) as Hlt.
  pose proof (N.div_mod total (N.of_nat n) Hs) as Hdm.
  revert Hlt Hdm. generalize (total / N.of_nat n) (total mod N.of_nat n). intros q r.
  generalize (N.of_nat n * q). intros nq Hlt Hdm. lia.
Qed.

Lemma init_cache_capacity total n : (0 < n)%nat -> ccapacity (init_cache total n) = total.
Proof.
  intros Hn. unfold init_cache.
  assert (H : forall l, ccapacity (map init_shard l) = fold_right N.add 0 l).
  { induction l as [|x l IH]; simpl; [reflexivity|]. rewrite IH. reflexivity. }
  rewrite H. apply capacities_sum. assumption.
Qed.

(* after an insert the shard is within capacity, or the new entry alone is larger than the shard,
   or every other resident is pinned *)
Lemma insert_bounded c s k v w hsh low h vs s' :
  insert c s k v w hsh low false h vs = Some s' ->
  capacity s' = capacity s /\
  (usage s' <= capacity s' \/ capacity s' < w \/
   forall k' i', In (k', i') (idx s') -> i' <> length (arena s) -> In i' (pinned s')).
Proof.
  unfold insert. set (sa := alloc s (mkRec k v w hsh false low)).
  destruct (evict_oracle c (capacity sa - w) vs sa) as [se|] eqn:He; [|discriminate].
  destruct (evict_oracle_frame _ _ _ _ _ He) as (_ & Hcap & _ & _ & _ & _).
  pose proof (proj1 (evict_oracle_spec _ _ _ _ _) He) as Hev. apply evicts_end in Hev.
  assert (Hc : capacity sa = capacity s) by reflexivity.
  intros H; inversion H; subst; clear H.
  destruct (lookup k (idx se)) as [o|] eqn:Hl; sproj; (split; [congruence|]).
  - destruct Hev as [Hle|Hall].
    + destruct (N.le_gt_cases w (capacity s)); [left|right; left]; lia.
    + right; right. intros k' i' [Heq|Hin] Hne; [inversion Heq; subst; contradiction|].
      apply remove_key_In in Hin. destruct Hin as [Hin _].
      unfold all_pinned in Hall. rewrite forallb_forall in Hall. apply memb_In. apply (Hall (k', i') Hin).
  - destruct Hev as [Hle|Hall].
    + destruct (N.le_gt_cases w (capacity s)); [left|right; left]; lia.
    + right; right. intros k' i' [Heq|Hin] Hne; [inversion Heq; subst; contradiction|].
      unfold all_pinned in Hall. rewrite forallb_forall in Hall. apply memb_In. apply (Hall (k', i') Hin).
Qed.

Lemma clear_zero c s : bug_clear c = false -> usage (clear c s) = 0 /\ entries (clear c s) = 0 /\ idx (clear c s) = [].
Proof. intros Hb. unfold clear. rewrite Hb. repeat split. Qed.

Lemma resize_bounded c s cap vs s' :
  resize c s cap vs = Some s' ->
  capacity s' = cap /\ (usage s' <= cap \/ forall k i, In (k, i) (idx s') -> In i (pinned s')).
Proof.
  unfold resize. intros He.
  destruct (evict_oracle_frame _ _ _ _ _ He) as (_ & Hcap & _).
  pose proof (proj1 (evict_oracle_spec _ _ _ _ _) He) as Hev. apply evicts_end in Hev.
  split; [rewrite Hcap; reflexivity|].
  destruct Hev as [Hle|Hall]; [left; assumption|right].
  intros k i Hin. unfold all_pinned in Hall. rewrite forallb_forall in Hall. apply memb_In. apply (Hall (k, i) Hin).
Qed.

(* ---------------------------------------------------------------- C18 *)

(* with no outstanding handle nothing is pinned, so the insert re-establishes the bound *)
Lemma insert_no_leak c s k v w hsh low h vs s' :
  Inv c s -> handles s = [] -> insert c s k v w hsh low false h vs = Some s' ->
  usage s' <= capacity s' \/ capacity s' < w.
Proof.
  intros HI Hh Hins.
  assert (HI' : Inv c s').
  { destruct HI as [A B D]. constructor.
    - eapply IdxInv_insert; eauto.
    - eapply RefInv_insert; eauto.
    - eapply PinInv_insert; eauto. }
  destruct (insert_bounded _ _ _ _ _ _ _ _ _ _ Hins) as [Hcap [H|[H|H]]]; auto.
  (* every other resident pinned: but a pinned resident has a live handle, and the only handle is the new one *)
  assert (Hhs : handles s' = [(h, length (arena s))]).
  { revert Hins. unfold insert.
    destruct (evict_oracle c _ vs _) as [se|] eqn:He; [|discriminate].
    destruct (evict_oracle_frame _ _ _ _ _ He) as (_ & _ & _ & Hhe & _).
    intros Hx; inversion Hx; subst; clear Hx.
    destruct (lookup k (idx se)); sproj; rewrite Hhe; cbn [handles alloc]; rewrite Hh; reflexivity. }
  assert (Honly : forall k' i', In (k', i') (idx s') -> i' = length (arena s)).
  { intros k' i' Hin. destruct (Nat.eq_dec i' (length (arena s))) as [|Hne]; [assumption|exfalso].
    pose proof (H k' i' Hin Hne) as Hp.
    destruct HI' as [HIi HR HP].
    assert (Hi : In i' (map snd (idx s'))) by (apply in_map_iff; exists (k', i'); auto).
    pose proof (pi_live c s' HP i' Hp Hi) as Hpos.
    destruct (ii_ok s' HIi k' i' Hin) as [Hlt _].
    rewrite (ri_refs s' HR i' Hlt) in Hpos. rewrite Hhs in Hpos.
    rewrite hcount_cons in Hpos. destruct (Nat.eqb_spec (length (arena s)) i'); [congruence|].
    unfold hcount in Hpos; simpl in Hpos. lia. }
  (* then the index holds only the new record, whose weight is w *)
  destruct HI' as [[K1 K2 K3 K4 K5] _ _].
  assert (Hidx : idx s' = [(k, length (arena s))]).
  { revert Hins K2 Honly. unfold insert.
    destruct (evict_oracle c _ vs _) as [se|] eqn:He; [|discriminate].
    intros Hx; inversion Hx; subst; clear Hx.
    destruct (lookup k (idx se)); sproj; cbn [map snd]; intros K2 Honly.
    - destruct (remove_key k (idx se)) as [|[k2 i2] l]; [reflexivity|exfalso].
      inversion K2 as [|? ? Hnot _]; subst. apply Hnot. left. simpl.
      apply (Honly k2 i2). right; left; reflexivity.
    - destruct (idx se) as [|[k2 i2] l]; [reflexivity|exfalso].
      inversion K2 as [|? ? Hnot _]; subst. apply Hnot. left. simpl.
      apply (Honly k2 i2). right; left; reflexivity. }
  assert (Hw : rweight (nth (length (arena s)) (arena s') dummy_rec) = w).
  { revert Hins. unfold insert.
    destruct (evict_oracle c _ vs _) as [se|] eqn:He; [|discriminate].
    destruct (evict_oracle_frame _ _ _ _ _ He) as (Har & _).
    intros Hx; inversion Hx; subst; clear Hx.
    destruct (lookup k (idx se)); sproj; rewrite Har; cbn [arena alloc]; rewrite nth_app_last; reflexivity. }
  rewrite K4, Hidx. cbn [sumw fold_right snd]. rewrite Hw.
  destruct (N.le_gt_cases w (capacity s')); [left; lia|right; assumption].
Qed.

(* the arena is append-only: what a handle points to never changes *)
Lemma step_arena_prefix c s o s' : step c s o = Some s' -> exists l, arena s' = arena s ++ l.
Proof.
  destruct o; simpl; intros H.
  - revert H. unfold insert. destruct ph.
    + destruct vs; [|discriminate]. destruct (lookup k _); intros H; inversion H; subst; sproj; eexists; reflexivity.
    + destruct (evict_oracle c _ vs _) as [se|] eqn:He; [|discriminate].
      destruct (evict_oracle_frame _ _ _ _ _ He) as (Har & _).
      intros H; inversion H; subst. destruct (lookup k (idx se)); sproj; rewrite Har; eexists; reflexivity.
  - inversion H; subst. destruct (get_frame c s k h) as (A & _). rewrite A. exists []. rewrite app_nil_r. reflexivity.
  - inversion H; subst. exists []. rewrite app_nil_r. unfold touch.
    destruct (bug_touch c).
    + destruct (lookup k (idx s)); [|reflexivity]. unfold acquire. destruct (_ && _); reflexivity.
    + destruct (drop_frame c (get c s k h) h) as (A & _). rewrite A. apply (proj1 (get_frame c s k h)).
  - inversion H; subst. exists []. rewrite app_nil_r. reflexivity.
  - inversion H; subst. exists []. rewrite app_nil_r. unfold remove. destruct (lookup k (idx s)); reflexivity.
  - inversion H; subst. exists []. rewrite app_nil_r. unfold clear.
    destruct (fold_add_event_frame (idx s) s) as (A & _). destruct (bug_clear c); sproj; assumption.
  - unfold resize in H. destruct (evict_oracle_frame _ _ _ _ _ H) as (Har & _). exists []. rewrite app_nil_r. exact Har.
  - unfold evict_all in H. destruct (evict_oracle_frame _ _ _ _ _ H) as (Har & _). exists []. rewrite app_nil_r. exact Har.
  - unfold flush in H. destruct (flush_oracle_frame _ _ _ _ H) as (Har & _). exists []. rewrite app_nil_r. exact Har.
  - inversion H; subst. exists []. rewrite app_nil_r. unfold clone. destruct (hlookup h (handles s)); reflexivity.
  - inversion H; subst. exists []. rewrite app_nil_r. apply (proj1 (drop_frame c s h)).
Qed.

Lemma step_record_stable c s o s' i :
  step c s o = Some s' -> (i < length (arena s))%nat -> get_rec s' i = get_rec s i.
Proof.
  intros H Hi. destruct (step_arena_prefix _ _ _ _ H) as [l Hl]. unfold get_rec. rewrite Hl.
  apply nth_app_left. assumption.
Qed.

Lemma run_record_stable c ops : forall s s' i,
  run c s ops = Some s' -> (i < length (arena s))%nat -> get_rec s' i = get_rec s i.
Proof.
  induction ops as [|o ops IH]; intros s s' i; simpl.
  - intros H; inversion H; reflexivity.
  - destruct (step c s o) as [s1|] eqn:Hs; [|discriminate]. intros H Hi.
    rewrite (IH s1 s' i H).
    + eapply step_record_stable; eauto.
    + destruct (step_arena_prefix _ _ _ _ Hs) as [l Hl]. rewrite Hl, app_length. lia.
Qed.

Lemma outdated_iff s i : IdxInv s ->
  (is_outdated s i = true <-> lookup (rkey (get_rec s i)) (idx s) <> Some i).
Proof.
  intros [K1 K2 K3 _ _]. unfold is_outdated. rewrite negb_true_iff. split.
  - intros Hn Hl. apply lookup_In in Hl.
    assert (indexed s i = true); [|congruence].
    apply indexed_In. apply in_map_iff. eexists; split; [|exact Hl]. reflexivity.
  - intros Hne. destruct (indexed s i) eqn:E; [|reflexivity]. exfalso. apply Hne.
    apply indexed_In in E. apply in_map_iff in E. destruct E as [[k' i'] [Heq Hin]]. simpl in Heq; subst i'.
    destruct (K3 k' i Hin) as (_ & Hk & _). rewrite Hk. apply In_lookup; assumption.
Qed.

(* LRU: a looked-up record is pinned, stays pinned while it is referenced, and pinned records are
   never victims *)
Lemma get_pins c s k h i :
  pins c = true -> lookup k (idx s) = Some i -> In i (pinned (get c s k h)).
Proof.
  intros Hp Hl. unfold get. rewrite Hl. unfold acquire. rewrite Hp. cbn [andb].
  assert (Hix : indexed (inc_ref s i) i = true).
  { apply indexed_In. sproj. apply lookup_In in Hl. apply in_map_iff. exists (k, i). auto. }
  rewrite Hix. cbn [andb]. destruct (memb i (pinned (inc_ref s i))) eqn:E; cbn [negb]; sproj.
  - apply memb_In. exact E.
  - left; reflexivity.
Qed.

Lemma victim_not_pinned c target vs s s' :
  evicts c target s vs s' -> forall k, In k vs ->
  exists i, lookup k (idx s) = Some i /\ ~ In i (pinned s).
Proof.
  induction 1 as [|s k i vs s' Hlt Hl Hm Hev IH]; intros k0 Hin; [destruct Hin|].
  destruct Hin as [->|Hin].
  - exists i. split; [assumption|]. apply memb_false. assumption.
  - destruct (IH k0 Hin) as [i0 [Hl0 Hp0]]. rewrite evict_one_idx in Hl0. rewrite evict_one_pinned in Hp0.
    exists i0. split; [|assumption].
    destruct (N.eq_dec k0 k) as [->|Hne].
    + rewrite lookup_remove_key_same in Hl0. discriminate.
    + rewrite lookup_remove_key_other in Hl0 by assumption. assumption.
Qed.

Lemma pinned_persists c s o s' i :
  step c s o = Some s' -> In i (pinned s) -> In i (pinned s') \/ get_ref s' i = 0.
Proof.
  intros H Hp. destruct o; simpl in H.
  - left. revert H. unfold insert. destruct ph.
    + destruct vs; [|discriminate]. destruct (lookup k _); intros H; inversion H; subst; sproj; assumption.
    + destruct (evict_oracle c _ vs _) as [se|] eqn:He; [|discriminate].
      destruct (evict_oracle_frame _ _ _ _ _ He) as (_ & _ & _ & _ & Hpin & _).
      intros H; inversion H; subst. destruct (lookup k (idx se)); sproj; rewrite Hpin; assumption.
  - left. inversion H; subst. unfold get. destruct (lookup k (idx s)); [|assumption].
    unfold acquire. destruct (_ && _); sproj; [right|]; assumption.
  - inversion H; subst. unfold touch. destruct (bug_touch c).
    + left. destruct (lookup k (idx s)); [|assumption]. unfold acquire. destruct (_ && _); sproj; [right|]; assumption.
    + assert (Hp1 : In i (pinned (get c s k h))).
      { unfold get. destruct (lookup k (idx s)); [|assumption].
        unfold acquire. destruct (_ && _); sproj; [right|]; assumption. }
      revert Hp1. generalize (get c s k h). intros s1 Hp1. rewrite drop_unfold.
      destruct (hlookup h (handles s1)) as [j|]; [|left; assumption]. cbv zeta.
      destruct (N.eqb (get_ref (dropped s1 h j) j) 0) eqn:Ez; [|left; assumption].
      destruct (rphantom _).
      * left. unfold add_pipe; destruct (piped c); sproj; assumption.
      * unfold release. destruct (_ && _); [|left; assumption]. sproj.
        destruct (Nat.eq_dec i j) as [->|Hne].
        -- right. apply N.eqb_eq in Ez. unfold get_ref in *; sproj. assumption.
        -- left. apply remove_id_In. split; assumption.
  - left. inversion H; subst. assumption.
  - left. inversion H; subst. unfold remove. destruct (lookup k (idx s)); [|assumption]. sproj. assumption.
  - left. inversion H; subst. unfold clear.
    destruct (fold_add_event_frame (idx s) s) as (_ & _ & _ & _ & _ & _ & _ & Hpin & _).
    destruct (bug_clear c); sproj; rewrite Hpin; assumption.
  - left. unfold resize in H. destruct (evict_oracle_frame _ _ _ _ _ H) as (_ & _ & _ & _ & Hpin & _).
    rewrite Hpin. assumption.
  - left. unfold evict_all in H. destruct (evict_oracle_frame _ _ _ _ _ H) as (_ & _ & _ & _ & Hpin & _).
    rewrite Hpin. assumption.
  - left. unfold flush in H. destruct (flush_oracle_frame _ _ _ _ H) as (_ & _ & _ & _ & Hpin & _).
    rewrite Hpin. assumption.
  - left. inversion H; subst. unfold clone. destruct (hlookup h (handles s)); [|assumption]. sproj. assumption.
  - inversion H; subst. rewrite drop_unfold.
    destruct (hlookup h (handles s)) as [j|]; [|left; assumption]. cbv zeta.
    destruct (N.eqb (get_ref (dropped s h j) j) 0) eqn:Ez; [|left; assumption].
    destruct (rphantom _).
    + left. unfold add_pipe; destruct (piped c); sproj; assumption.
    + unfold release. destruct (_ && _); [|left; assumption]. sproj.
      destruct (Nat.eq_dec i j) as [->|Hne].
      * right. apply N.eqb_eq in Ez. unfold get_ref in *; sproj. assumption.
      * left. apply remove_id_In. split; assumption.
Qed.

(* ---------------------------------------------------------------- C17 *)

Lemma lookup_own_key c s k i : Inv c s -> lookup k (idx s) = Some i ->
  rkey (get_rec s i) = k /\ rphantom (get_rec s i) = false.
Proof.
  intros [HI _ _] Hl. apply lookup_In in Hl. destruct (ii_ok s HI k i Hl) as (_ & A & B). auto.
Qed.

Lemma evict_oracle_other_keys c target vs : forall s s' k,
  evict_oracle c target vs s = Some s' -> ~ In k vs -> lookup k (idx s') = lookup k (idx s).
Proof.
  induction vs as [|k0 vs IH]; intros s s' k; simpl.
  - destruct (_ || _); intros H; inversion H; subst; reflexivity.
  - destruct (usage s <=? target); [discriminate|].
    destruct (lookup k0 (idx s)) as [i|] eqn:Hl; [|discriminate].
    destruct (memb i (pinned s)); [discriminate|].
    intros H Hn. rewrite (IH _ _ k H) by tauto. rewrite evict_one_idx.
    apply lookup_remove_key_other. intros ->. apply Hn. left; reflexivity.
Qed.

(* inserting one key leaves every other key alone unless that key is itself chosen as a victim *)
Lemma insert_other_key c s k v w hsh low ph h vs s' k' :
  insert c s k v w hsh low ph h vs = Some s' -> k' <> k -> ~ In k' vs ->
  lookup k' (idx s') = lookup k' (idx s).
Proof.
  unfold insert. intros H Hne Hn. destruct ph.
  - destruct vs; [|discriminate]. revert H.
    destruct (lookup k (idx (alloc s _))); intros H; inversion H; subst; sproj; [|reflexivity].
    apply lookup_remove_key_other. assumption.
  - destruct (evict_oracle c _ vs _) as [se|] eqn:He; [|discriminate].
    pose proof (evict_oracle_other_keys _ _ _ _ _ k' He Hn) as Hk. cbn [idx alloc] in Hk.
    inversion H; subst; clear H.
    destruct (lookup k (idx se)); sproj; cbn [lookup];
      (destruct (N.eqb_spec k' k); [congruence|]); rewrite <- Hk; [apply lookup_remove_key_other; assumption|reflexivity].
Qed.

Lemma insert_finds_new c s k v w hsh low h vs s' :
  insert c s k v w hsh low false h vs = Some s' -> lookup k (idx s') = Some (length (arena s)).
Proof.
  unfold insert. destruct (evict_oracle c _ vs _) as [se|] eqn:He; [|discriminate].
  intros H; inversion H; subst. destruct (lookup k (idx se)); sproj; cbn [lookup]; rewrite N.eqb_refl; reflexivity.
Qed.

(* ---------------------------------------------------------------- cache level (any hash function) *)

Definition CInv (c : cfg) (cs : cache) : Prop := Forall (Inv c) cs.

Lemma upd_opt_Forall (P : shard -> Prop) i f : forall cs cs',
  Forall P cs -> (forall s s', P s -> f s = Some s' -> P s') -> upd_opt i f cs = Some cs' -> Forall P cs'.
Proof.
  induction i as [|i IH]; intros [|x l] cs' HF Hf; simpl; try discriminate.
  - destruct (f x) as [x'|] eqn:E; [|discriminate]. intros H; inversion H; subst.
    inversion HF; subst. constructor; eauto.
  - destruct (upd_opt i f l) as [l'|] eqn:E; [|discriminate]. intros H; inversion H; subst.
    inversion HF; subst. constructor; eauto.
Qed.

Lemma map_opt_from_Forall (P : shard -> Prop) f : forall cs i cs',
  Forall P cs -> (forall j s s', P s -> f j s = Some s' -> P s') -> map_opt_from i f cs = Some cs' -> Forall P cs'.
Proof.
  induction cs as [|x l IH]; intros i cs' HF Hf; simpl.
  - intros H; inversion H; constructor.
  - destruct (f i x) as [x'|] eqn:E; [|discriminate].
    destruct (map_opt_from (S i) f l) as [l'|] eqn:E2; [|discriminate].
    intros H; inversion H; subst. inversion HF; subst. constructor; eauto.
Qed.

Lemma CInv_cstep hash c cs o cs' : good c -> CInv c cs -> cstep hash c cs o = Some cs' -> CInv c cs'.
Proof.
  intros [Hc Ht] HI. unfold CInv in *.
  assert (Hstep : forall o s s', Inv c s -> step c s o = Some s' -> Inv c s')
    by (intros; eapply Inv_step; eauto).
  destruct o; cbn [cstep]; intros H.
  1-5: (eapply upd_opt_Forall; [exact HI| |exact H]; intros s s' Hs Hf; cbv beta in Hf; eapply Hstep; eauto).
  1-4: (eapply map_opt_from_Forall; [exact HI| |exact H]; cbv beta; intros j s s' Hs Hf; eapply Hstep; eauto).
  - eapply map_opt_from_Forall; [exact HI| |exact H]. cbv beta. intros j s s' Hs.
    destruct (has_handle h s); [intros Hf; eapply Hstep; eauto|intros Hf; inversion Hf; subst; assumption].
  - eapply map_opt_from_Forall; [exact HI| |exact H]. cbv beta. intros j s s' Hs.
    destruct (has_handle h s); [intros Hf; eapply Hstep; eauto|intros Hf; inversion Hf; subst; assumption].
Qed.

Lemma CInv_init c total n : CInv c (init_cache total n).
Proof.
  unfold CInv, init_cache. apply Forall_forall. intros s Hin. apply in_map_iff in Hin.
  destruct Hin as [cap [<- _]]. apply Inv_init.
Qed.

Lemma CInv_crun hash c ops : forall cs cs', good c -> CInv c cs -> crun hash c cs ops = Some cs' -> CInv c cs'.
Proof.
  induction ops as [|o ops IH]; intros cs cs' Hg HI; simpl.
  - intros H; inversion H; subst; assumption.
  - destruct (cstep hash c cs o) as [cs1|] eqn:Hs; [|discriminate].
    intros H. apply (IH cs1 cs' Hg); [|exact H]. eapply CInv_cstep; eauto.
Qed.

Lemma cache_exact c cs : CInv c cs ->
  cusage cs = fold_right (fun s a => sum_weights s + a) 0 cs /\
  centries cs = fold_right (fun s a => N.of_nat (length (findable s)) + a) 0 cs.
Proof.
  induction 1 as [|s l Hs Hl [IH1 IH2]]; simpl; [split; reflexivity|].
  destruct (exact_of_inv c s Hs) as [A B]. rewrite A, B, IH1, IH2. split; reflexivity.
Qed.
