(* The five eviction containers of foyer-memory/src/eviction/*.rs as executable
   models.  Intrusive lists are [list ent]; per-record state (LRU in_high/is_pinned,
   SIEVE visited, S3-FIFO frequency, LFU queue tag) is stored beside the entry in
   the queue it is linked into.  Model only: no proofs in this file. *)
From Coq Require Import List NArith Bool Arith.
From FV Require Import Mem.Shard.
Import ListNotations.
Open Scope N_scope.

Record ent := mkEnt { eid : id; ew : N; eh : N }.

Definition ent_is (i : id) (e : ent) : bool := Nat.eqb (eid e) i.

Fixpoint take_out {A} (p : A -> bool) (l : list A) : option (A * list A) :=
  match l with
  | [] => None
  | x :: l' => if p x then Some (x, l')
               else match take_out p l' with
                    | Some (y, l'') => Some (y, x :: l'')
                    | None => None
                    end
  end.

(* ------------------------------------------------------------------ FIFO *)
Definition fifo := list ent.
Definition fifo_push (q : fifo) (e : ent) : fifo := q ++ [e].
Definition fifo_pop (q : fifo) : option (ent * fifo) :=
  match q with [] => None | e :: q' => Some (e, q') end.
Definition fifo_remove (q : fifo) (i : id) : fifo :=
  match take_out (ent_is i) q with Some (_, q') => q' | None => q end.

(* ------------------------------------------------------------------ LRU *)
Record lru := mkLru {
  l_low : list ent;
  l_high : list ent;
  l_pin : list (ent * bool);       (* pinned record, its in_high_priority_pool flag *)
  l_hpw : N;                       (* high_priority_weight (unpinned high records) *)
  l_hpcap : N }.                   (* high_priority_weight_capacity *)

(* may_overflow_high_priority_pool (lru.rs:84-97) *)
Fixpoint lru_overflow (high low : list ent) (hpw cap : N) : list ent * list ent * N :=
  if hpw <=? cap then (high, low, hpw) else
  match high with
  | [] => (high, low, hpw)         (* the code would panic on unwrap; unreachable (LruInv) *)
  | e :: high' => lru_overflow high' (low ++ [e]) (hpw - ew e) cap
  end.

Definition lru_settle (s : lru) : lru :=
  let '(h, l, w) := lru_overflow (l_high s) (l_low s) (l_hpw s) (l_hpcap s) in
  mkLru l h (l_pin s) w (l_hpcap s).

Definition lru_push (s : lru) (e : ent) (low : bool) : lru :=
  if low then mkLru (l_low s ++ [e]) (l_high s) (l_pin s) (l_hpw s) (l_hpcap s)
  else lru_settle (mkLru (l_low s) (l_high s ++ [e]) (l_pin s) (l_hpw s + ew e) (l_hpcap s)).

Definition lru_pop (s : lru) : option (ent * lru) :=
  match l_low s with
  | e :: low' => Some (e, mkLru low' (l_high s) (l_pin s) (l_hpw s) (l_hpcap s))
  | [] =>
      match l_high s with
      | e :: high' => Some (e, mkLru [] high' (l_pin s) (l_hpw s - ew e) (l_hpcap s))
      | [] => None
      end
  end.

Definition lru_remove (s : lru) (i : id) : lru :=
  match take_out (fun p => ent_is i (fst p)) (l_pin s) with
  | Some (_, pin') => mkLru (l_low s) (l_high s) pin' (l_hpw s) (l_hpcap s)
  | None =>
      match take_out (ent_is i) (l_high s) with
      | Some (e, high') => mkLru (l_low s) high' (l_pin s) (l_hpw s - ew e) (l_hpcap s)
      | None =>
          match take_out (ent_is i) (l_low s) with
          | Some (_, low') => mkLru low' (l_high s) (l_pin s) (l_hpw s) (l_hpcap s)
          | None => s
          end
      end
  end.

Definition lru_acquire (s : lru) (i : id) : lru :=
  if existsb (fun p => ent_is i (fst p)) (l_pin s) then s else
  match take_out (ent_is i) (l_high s) with
  | Some (e, high') => mkLru (l_low s) high' (l_pin s ++ [(e, true)]) (l_hpw s - ew e) (l_hpcap s)
  | None =>
      match take_out (ent_is i) (l_low s) with
      | Some (e, low') => mkLru low' (l_high s) (l_pin s ++ [(e, false)]) (l_hpw s) (l_hpcap s)
      | None => s                  (* not in eviction: acquire returns early *)
      end
  end.

Definition lru_release (s : lru) (i : id) : lru :=
  match take_out (fun p => ent_is i (fst p)) (l_pin s) with
  | None => s                      (* not in eviction, or not pinned *)
  | Some ((e, true), pin') =>
      lru_settle (mkLru (l_low s) (l_high s ++ [e]) pin' (l_hpw s + ew e) (l_hpcap s))
  | Some ((e, false), pin') => mkLru (l_low s ++ [e]) (l_high s) pin' (l_hpw s) (l_hpcap s)
  end.

Definition lru_update (s : lru) (hpcap : N) : lru :=
  lru_settle (mkLru (l_low s) (l_high s) (l_pin s) (l_hpw s) hpcap).

Definition lru_clear (s : lru) : lru := mkLru [] [] [] 0 (l_hpcap s).

(* ------------------------------------------------------------------ SIEVE *)
Record sieve := mkSieve {
  v_q : list (ent * bool);         (* record, visited *)
  v_hand : option id }.

Fixpoint index_of (i : id) (q : list (ent * bool)) : option nat :=
  match q with
  | [] => None
  | (e, _) :: q' => if ent_is i e then Some O
                    else match index_of i q' with Some n => Some (S n) | None => None end
  end.

Fixpoint set_visited (n : nat) (b : bool) (q : list (ent * bool)) : list (ent * bool) :=
  match q, n with
  | [], _ => []
  | (e, _) :: q', O => (e, b) :: q'
  | x :: q', S n' => x :: set_visited n' b q'
  end.

Fixpoint remove_nth {A} (n : nat) (l : list A) : list A :=
  match l, n with
  | [], _ => []
  | _ :: l', O => l'
  | x :: l', S n' => x :: remove_nth n' l'
  end.

(* the scan loop of Sieve::pop (sieve.rs:123-138): position of the first
   unvisited record from [p], clearing visited bits on the way, wrapping at the tail *)
Fixpoint sieve_scan (fuel : nat) (p : nat) (q : list (ent * bool)) : option (nat * list (ent * bool)) :=
  match fuel with
  | O => None
  | S fuel' =>
      match nth_error q p with
      | None => None
      | Some (_, false) => Some (p, q)
      | Some (_, true) =>
          let q' := set_visited p false q in
          if Nat.eqb (S p) (length q) then sieve_scan fuel' O q' else sieve_scan fuel' (S p) q'
      end
  end.

Definition sieve_pop (s : sieve) : option (ent * sieve) :=
  let start := match v_hand s with
               | Some h => match index_of h (v_q s) with Some n => n | None => O end
               | None => O
               end in
  match sieve_scan (2 * length (v_q s) + 1) start (v_q s) with
  | None => None
  | Some (p, q) =>
      match nth_error q p with
      | None => None
      | Some (e, _) =>
          let hand := match nth_error q (S p) with Some (e', _) => Some (eid e') | None => None end in
          Some (e, mkSieve (remove_nth p q) hand)
      end
  end.

Definition sieve_push (s : sieve) (e : ent) : sieve := mkSieve (v_q s ++ [(e, false)]) (v_hand s).

Definition sieve_remove (s : sieve) (i : id) : sieve :=
  let hand := match v_hand s with
              | Some h => if Nat.eqb h i then None else Some h
              | None => None
              end in
  match index_of i (v_q s) with
  | Some n => mkSieve (remove_nth n (v_q s)) hand
  | None => mkSieve (v_q s) hand
  end.

Definition sieve_acquire (s : sieve) (i : id) : sieve :=
  match index_of i (v_q s) with
  | Some n => mkSieve (set_visited n true (v_q s)) (v_hand s)
  | None => s
  end.

(* Eviction::clear default: pop until empty *)
Fixpoint sieve_clear_loop (fuel : nat) (s : sieve) : sieve :=
  match fuel with
  | O => s
  | S f => match sieve_pop s with Some (_, s') => sieve_clear_loop f s' | None => s end
  end.
Definition sieve_clear (s : sieve) : sieve := sieve_clear_loop (S (length (v_q s))) s.

(* ------------------------------------------------------------------ S3-FIFO *)
Record s3 := mkS3 {
  s_small : list (ent * N);        (* record, frequency *)
  s_main : list (ent * N);
  s_gq : list (N * N);             (* ghost queue: (hash, weight), oldest first *)
  s_gset : list N;                 (* ghost HashSet<u64> *)
  s_gcap : N; s_gw : N;
  s_scap : N;                      (* small_weight_capacity *)
  s_sw : N; s_mw : N;
  s_thr : N }.

Definition nmem (x : N) (l : list N) : bool := existsb (N.eqb x) l.
Fixpoint nremove (x : N) (l : list N) : list N :=
  match l with [] => [] | y :: l' => if N.eqb x y then l' else y :: nremove x l' end.

Definition ghost_pop (gq : list (N * N)) (gset : list N) (gw : N) :=
  match gq with
  | [] => (gq, gset, gw)
  | (h, w) :: gq' => (gq', nremove h gset, gw - w)
  end.

(* while weight + extra > cap && weight > 0 { pop } *)
Fixpoint ghost_shrink (fuel : nat) (extra cap : N) (gq : list (N * N)) (gset : list N) (gw : N) :=
  match fuel with
  | O => (gq, gset, gw)
  | S f =>
      if (cap <? gw + extra) && (0 <? gw) then
        let '(gq', gset', gw') := ghost_pop gq gset gw in
        ghost_shrink f extra cap gq' gset' gw'
      else (gq, gset, gw)
  end.

Definition ghost_push (s : s3) (h w : N) : s3 :=
  if N.eqb (s_gcap s) 0 then s else
  let '(gq, gset, gw) := ghost_shrink (S (length (s_gq s))) w (s_gcap s) (s_gq s) (s_gset s) (s_gw s) in
  mkS3 (s_small s) (s_main s) (gq ++ [(h, w)]) (if nmem h gset then gset else h :: gset)
       (s_gcap s) (gw + w) (s_scap s) (s_sw s) (s_mw s) (s_thr s).

Definition s3_with_queues (s : s3) small main sw mw : s3 :=
  mkS3 small main (s_gq s) (s_gset s) (s_gcap s) (s_gw s) (s_scap s) sw mw (s_thr s).

(* evict_small (s3fifo.rs:153-173): promotes records whose frequency reached the
   threshold, evicts the first other one; the state is returned in both cases *)
Fixpoint s3_evict_small (small : list (ent * N)) (s : s3) : option ent * s3 :=
  match small with
  | [] => (None, s)
  | (e, f) :: small' =>
      if s_thr s <=? f then
        s3_evict_small small'
          (s3_with_queues s small' (s_main s ++ [(e, f)]) (s_sw s - ew e) (s_mw s + ew e))
      else
        (Some e, ghost_push (s3_with_queues s small' (s_main s) (s_sw s - ew e) (s_mw s)) (eh e) (ew e))
  end.

(* evict_main (s3fifo.rs:175-188); dec_frequency returns the previous value *)
Fixpoint s3_evict_main (fuel : nat) (s : s3) : option (ent * s3) :=
  match fuel with
  | O => None
  | S fuel' =>
      match s_main s with
      | [] => None
      | (e, f) :: main' =>
          if 0 <? f then s3_evict_main fuel' (s3_with_queues s (s_small s) (main' ++ [(e, f - 1)]) (s_sw s) (s_mw s))
          else Some (e, s3_with_queues s (s_small s) main' (s_sw s) (s_mw s - ew e))
      end
  end.

Definition s3_evict_small_force (s : s3) : option (ent * s3) :=
  match s_small s with
  | [] => None
  | (e, _) :: small' => Some (e, s3_with_queues s small' (s_main s) (s_sw s - ew e) (s_mw s))
  end.

Definition s3_pop (s : s3) : option (ent * s3) :=
  let '(r, s) := if s_scap s <? s_sw s then s3_evict_small (s_small s) s else (None, s) in
  match r with
  | Some e => Some (e, s)
  | None =>
      match s3_evict_main (4 * length (s_main s) + 1) s with
      | Some r => Some r
      | None => s3_evict_small_force s
      end
  end.

Definition s3_push (s : s3) (e : ent) : s3 :=
  if nmem (eh e) (s_gset s) then s3_with_queues s (s_small s) (s_main s ++ [(e, 0)]) (s_sw s) (s_mw s + ew e)
  else s3_with_queues s (s_small s ++ [(e, 0)]) (s_main s) (s_sw s + ew e) (s_mw s).

Definition s3_remove (s : s3) (i : id) : s3 :=
  match take_out (fun p => ent_is i (fst p)) (s_main s) with
  | Some ((e, _), main') => s3_with_queues s (s_small s) main' (s_sw s) (s_mw s - ew e)
  | None =>
      match take_out (fun p => ent_is i (fst p)) (s_small s) with
      | Some ((e, _), small') => s3_with_queues s small' (s_main s) (s_sw s - ew e) (s_mw s)
      | None => s
      end
  end.

Definition bump (i : id) (l : list (ent * N)) : list (ent * N) :=
  map (fun p => if ent_is i (fst p) then (fst p, N.min 3 (snd p + 1)) else p) l.

Definition s3_acquire (s : s3) (i : id) : s3 :=
  s3_with_queues s (bump i (s_small s)) (bump i (s_main s)) (s_sw s) (s_mw s).

Definition s3_update (s : s3) (gcap scap : N) : s3 :=
  let '(gq, gset, gw) :=
    if N.eqb gcap 0 then (s_gq s, s_gset s, s_gw s)
    else ghost_shrink (S (length (s_gq s))) 0 gcap (s_gq s) (s_gset s) (s_gw s) in
  mkS3 (s_small s) (s_main s) gq gset gcap gw scap (s_sw s) (s_mw s) (s_thr s).

Fixpoint s3_clear_loop (fuel : nat) (s : s3) : s3 :=
  match fuel with
  | O => s
  | S f => match s3_pop s with Some (_, s') => s3_clear_loop f s' | None => s end
  end.
Definition s3_clear (s : s3) : s3 :=
  s3_clear_loop (S (length (s_small s) + length (s_main s))) s.

(* ------------------------------------------------------------------ w-TinyLFU *)
Record lfu := mkLfu {
  f_window : list ent; f_probation : list ent; f_protected : list ent;
  f_ww : N; f_pw : N; f_tw : N;            (* window / probation / protected weights *)
  f_wcap : N; f_tcap : N;                  (* window / protected weight capacity *)
  f_sketch : list (list N);                (* rows of counters *)
  f_step : N; f_decay : N }.

Section Lfu.
  (* bucket of [hash] in each row of the count-min sketch (MurmurHash3 in datasketches;
     supplied by the harness for the hashes in play) *)
  Variable bucket : N -> list nat.

  Fixpoint sk_update (rows : list (list N)) (bs : list nat) : list (list N) :=
    match rows, bs with
    | r :: rows', b :: bs' => upd b (fun n => n + 1) r :: sk_update rows' bs'
    | _, _ => rows
    end.

  Fixpoint sk_estimate (rows : list (list N)) (bs : list nat) (acc : N) : N :=
    match rows, bs with
    | r :: rows', b :: bs' => sk_estimate rows' bs' (N.min acc (nth b r 0))
    | _, _ => acc
    end.

  Definition sk_halve (rows : list (list N)) : list (list N) :=
    map (map (fun n => n / 2)) rows.

  Definition lfu_freq (s : lfu) (h : N) : N := sk_estimate (f_sketch s) (bucket h) 65535.

  Definition lfu_set (s : lfu) w p t ww pw tw : lfu :=
    mkLfu w p t ww pw tw (f_wcap s) (f_tcap s) (f_sketch s) (f_step s) (f_decay s).

  Definition lfu_touch_sketch (s : lfu) (h : N) : lfu :=
    let sk := sk_update (f_sketch s) (bucket h) in
    let st := f_step s + 1 in
    if f_decay s <=? st
    then mkLfu (f_window s) (f_probation s) (f_protected s) (f_ww s) (f_pw s) (f_tw s) (f_wcap s) (f_tcap s) (sk_halve sk) (st / 2) (f_decay s)
    else mkLfu (f_window s) (f_probation s) (f_protected s) (f_ww s) (f_pw s) (f_tw s) (f_wcap s) (f_tcap s) sk st (f_decay s).

  (* while window_weight > capacity: window front -> probation back *)
  Fixpoint lfu_win_overflow (w p : list ent) (ww pw cap : N) :=
    if ww <=? cap then (w, p, ww, pw) else
    match w with
    | [] => (w, p, ww, pw)
    | e :: w' => lfu_win_overflow w' (p ++ [e]) (ww - ew e) (pw + ew e) cap
    end.

  Fixpoint lfu_prot_overflow (t p : list ent) (tw pw cap : N) :=
    if tw <=? cap then (t, p, tw, pw) else
    match t with
    | [] => (t, p, tw, pw)
    | e :: t' => lfu_prot_overflow t' (p ++ [e]) (tw - ew e) (pw + ew e) cap
    end.

  Definition lfu_push (s : lfu) (e : ent) : lfu :=
    let s := lfu_touch_sketch s (eh e) in
    let '(w, p, ww, pw) := lfu_win_overflow (f_window s ++ [e]) (f_probation s) (f_ww s + ew e) (f_pw s) (f_wcap s) in
    lfu_set s w p (f_protected s) ww pw (f_tw s).

  Definition lfu_pop (s : lfu) : option (ent * lfu) :=
    match f_window s, f_probation s with
    | [], [] =>
        match f_protected s with
        | [] => None
        | e :: t' => Some (e, lfu_set s [] [] t' (f_ww s) (f_pw s) (f_tw s - ew e))
        end
    | [], e :: p' => Some (e, lfu_set s [] p' (f_protected s) (f_ww s) (f_pw s - ew e) (f_tw s))
    | e :: w', [] => Some (e, lfu_set s w' [] (f_protected s) (f_ww s - ew e) (f_pw s) (f_tw s))
    | ewin :: w', epro :: p' =>
        if lfu_freq s (eh ewin) <? lfu_freq s (eh epro)
        then Some (ewin, lfu_set s w' (f_probation s) (f_protected s) (f_ww s - ew ewin) (f_pw s) (f_tw s))
        else Some (epro, lfu_set s (f_window s) p' (f_protected s) (f_ww s) (f_pw s - ew epro) (f_tw s))
    end.

  Definition lfu_remove (s : lfu) (i : id) : lfu :=
    match take_out (ent_is i) (f_window s) with
    | Some (e, w') => lfu_set s w' (f_probation s) (f_protected s) (f_ww s - ew e) (f_pw s) (f_tw s)
    | None =>
        match take_out (ent_is i) (f_probation s) with
        | Some (e, p') => lfu_set s (f_window s) p' (f_protected s) (f_ww s) (f_pw s - ew e) (f_tw s)
        | None =>
            match take_out (ent_is i) (f_protected s) with
            | Some (e, t') => lfu_set s (f_window s) (f_probation s) t' (f_ww s) (f_pw s) (f_tw s - ew e)
            | None => s
            end
        end
    end.

  (* acquire: [h] is the record's hash (the sketch is updated even if the record is
     not in the container) *)
  Definition lfu_acquire (s : lfu) (i : id) (h : N) : lfu :=
    let s := lfu_touch_sketch s h in
    match take_out (ent_is i) (f_window s) with
    | Some (e, w') => lfu_set s (w' ++ [e]) (f_probation s) (f_protected s) (f_ww s) (f_pw s) (f_tw s)
    | None =>
        match take_out (ent_is i) (f_probation s) with
        | Some (e, p') =>
            let '(t, p, tw, pw) :=
              lfu_prot_overflow (f_protected s ++ [e]) p' (f_tw s + ew e) (f_pw s - ew e) (f_tcap s) in
            lfu_set s (f_window s) p t (f_ww s) pw tw
        | None =>
            match take_out (ent_is i) (f_protected s) with
            | Some (e, t') => lfu_set s (f_window s) (f_probation s) (t' ++ [e]) (f_ww s) (f_pw s) (f_tw s)
            | None => s
            end
        end
    end.

  Definition lfu_update (s : lfu) (wcap tcap : N) : lfu :=
    mkLfu (f_window s) (f_probation s) (f_protected s) (f_ww s) (f_pw s) (f_tw s) wcap tcap (f_sketch s) (f_step s) (f_decay s).

  Fixpoint lfu_clear_loop (fuel : nat) (s : lfu) : lfu :=
    match fuel with
    | O => s
    | S f => match lfu_pop s with Some (_, s') => lfu_clear_loop f s' | None => s end
    end.
  Definition lfu_clear (s : lfu) : lfu :=
    lfu_clear_loop (S (length (f_window s) + length (f_probation s) + length (f_protected s))) s.
End Lfu.

(* ------------------------------------------------------------------ sum type *)
Inductive algo :=
| AFifo (q : fifo)
| ALru (s : lru)
| ASieve (s : sieve)
| AS3 (s : s3)
| ALfu (s : lfu).

(* derived capacities are inputs: the harness evaluates the code's own
   `(capacity as f64 * ratio) as usize` and passes the integers *)
Record derived := mkDerived { d1 : N; d2 : N }.
   (* LRU: d1 = high_priority_weight_capacity
      S3-FIFO: d1 = ghost capacity, d2 = small_weight_capacity
      LFU: d1 = window capacity, d2 = protected capacity *)

Section Dispatch.
  Variable bucket : N -> list nat.

  Definition a_push (a : algo) (e : ent) (low : bool) : algo :=
    match a with
    | AFifo q => AFifo (fifo_push q e)
    | ALru s => ALru (lru_push s e low)
    | ASieve s => ASieve (sieve_push s e)
    | AS3 s => AS3 (s3_push s e)
    | ALfu s => ALfu (lfu_push bucket s e)
    end.

  Definition a_pop (a : algo) : option (ent * algo) :=
    match a with
    | AFifo q => match fifo_pop q with Some (e, q') => Some (e, AFifo q') | None => None end
    | ALru s => match lru_pop s with Some (e, s') => Some (e, ALru s') | None => None end
    | ASieve s => match sieve_pop s with Some (e, s') => Some (e, ASieve s') | None => None end
    | AS3 s => match s3_pop s with Some (e, s') => Some (e, AS3 s') | None => None end
    | ALfu s => match lfu_pop bucket s with Some (e, s') => Some (e, ALfu s') | None => None end
    end.

  Definition a_remove (a : algo) (i : id) : algo :=
    match a with
    | AFifo q => AFifo (fifo_remove q i)
    | ALru s => ALru (lru_remove s i)
    | ASieve s => ASieve (sieve_remove s i)
    | AS3 s => AS3 (s3_remove s i)
    | ALfu s => ALfu (lfu_remove s i)
    end.

  Definition a_clear (a : algo) : algo :=
    match a with
    | AFifo _ => AFifo []
    | ALru s => ALru (lru_clear s)
    | ASieve s => ASieve (sieve_clear s)
    | AS3 s => AS3 (s3_clear s)
    | ALfu s => ALfu (lfu_clear bucket s)
    end.

  (* called on every successful lookup *)
  Definition a_acquire (a : algo) (i : id) (h : N) : algo :=
    match a with
    | AFifo q => a
    | ALru s => ALru (lru_acquire s i)
    | ASieve s => ASieve (sieve_acquire s i)
    | AS3 s => AS3 (s3_acquire s i)
    | ALfu s => ALfu (lfu_acquire bucket s i h)
    end.

  (* called when the last handle of a non-phantom record drops *)
  Definition a_release (a : algo) (i : id) : algo :=
    match a with
    | ALru s => ALru (lru_release s i)
    | _ => a
    end.

  Definition a_update (a : algo) (d : derived) : algo :=
    match a with
    | ALru s => ALru (lru_update s (d1 d))
    | AS3 s => AS3 (s3_update s (d1 d) (d2 d))
    | ALfu s => ALfu (lfu_update s (d1 d) (d2 d))
    | _ => a
    end.
End Dispatch.

Definition a_members (a : algo) : list id :=
  match a with
  | AFifo q => map eid q
  | ALru s => map eid (l_low s) ++ map eid (l_high s) ++ map (fun p => eid (fst p)) (l_pin s)
  | ASieve s => map (fun p => eid (fst p)) (v_q s)
  | AS3 s => map (fun p => eid (fst p)) (s_small s) ++ map (fun p => eid (fst p)) (s_main s)
  | ALfu s => map eid (f_window s) ++ map eid (f_probation s) ++ map eid (f_protected s)
  end.
