(* The leave-notification log (C13): every admitted record is either findable or has exactly one
   event; phantom records get Remove at insertion and Evict at their last drop; the pipe log is the
   Evict events. *)
From Coq Require Import List NArith Bool Arith Lia.
From FV Require Import Base.ListX Mem.Shard Mem.ShardLemmas Mem.ShardInv Mem.ShardRefs.
Import ListNotations.
Open Scope N_scope.

Arguments N.add : simpl never.
Arguments N.sub : simpl never.
Arguments N.leb : simpl never.
Arguments N.eqb : simpl never.
Arguments N.of_nat : simpl never.

Definition ecount (l : list (event * id)) (i : id) : nat :=
  length (filter (fun p : event * id => Nat.eqb (snd p) i) l).

Definition evicted_ids (l : list (event * id)) : list id :=
  map snd (filter (fun p : event * id => event_eqb (fst p) EvEvict) l).

Lemma event_count_eq s i : event_count s i = ecount (elog s) i.
Proof. reflexivity. Qed.

Lemma ecount_app l l' i : ecount (l ++ l') i = (ecount l i + ecount l' i)%nat.
Proof. unfold ecount. rewrite filter_app, app_length. reflexivity. Qed.

Lemma ecount_one e j i : ecount [(e, j)] i = if Nat.eqb j i then 1%nat else 0%nat.
Proof. unfold ecount. simpl. destruct (Nat.eqb j i); reflexivity. Qed.

Lemma ecount_zero l i : (forall e, ~ In (e, i) l) -> ecount l i = 0%nat.
Proof.
  induction l as [|[e j] l IH]; intros H; [reflexivity|].
  change ((e, j) :: l) with ([(e, j)] ++ l). rewrite ecount_app, ecount_one.
  destruct (Nat.eqb_spec j i) as [->|Hne].
  - exfalso. apply (H e). left; reflexivity.
  - rewrite IH; [reflexivity|]. intros e' Hin. apply (H e'). right; assumption.
Qed.

Lemma evicted_ids_app l l' : evicted_ids (l ++ l') = evicted_ids l ++ evicted_ids l'.
Proof. unfold evicted_ids. rewrite filter_app, map_app. reflexivity. Qed.

Lemma evicted_ids_snoc l e i :
  evicted_ids (l ++ [(e, i)]) = if event_eqb e EvEvict then evicted_ids l ++ [i] else evicted_ids l.
Proof.
  rewrite evicted_ids_app. unfold evicted_ids at 2. cbn [filter fst].
  destruct (event_eqb e EvEvict); cbn [map snd]; [reflexivity|apply app_nil_r].
Qed.

Record EvInv (c : cfg) (s : shard) : Prop := {
  ei_indexed : forall i, In i (map snd (idx s)) -> ecount (elog s) i = 0%nat;
  ei_left : forall i, (i < length (arena s))%nat -> rphantom (get_rec s i) = false ->
            ~ In i (map snd (idx s)) -> ecount (elog s) i = 1%nat;
  ei_phantom : forall i, (i < length (arena s))%nat -> rphantom (get_rec s i) = true ->
               ecount (elog s) i = if N.eqb (get_ref s i) 0 then 2%nat else 1%nat;
  ei_bound : forall e i, In (e, i) (elog s) -> (i < length (arena s))%nat;
  ei_pipe : plog s = if piped c then evicted_ids (elog s) else [] }.

Lemma EvInv_init c cap : EvInv c (init_shard cap).
Proof.
  constructor; simpl; intros; try lia; try tauto. destruct (piped c); reflexivity.
Qed.

(* states that differ only in fields the invariant does not read *)
Lemma EvInv_frame c s s' :
  arena s' = arena s -> idx s' = idx s -> refs s' = refs s -> elog s' = elog s -> plog s' = plog s ->
  EvInv c s -> EvInv c s'.
Proof.
  intros A B D E F [H1 H2 H3 H4 H5].
  constructor; unfold get_rec, get_ref in *; rewrite ?A, ?B, ?D, ?E, ?F; auto.
Qed.

Lemma phantom_not_indexed s i :
  IdxInv s -> rphantom (get_rec s i) = true -> ~ In i (map snd (idx s)).
Proof.
  intros HI Hp Hin. apply in_map_iff in Hin. destruct Hin as [[k i'] [Heq Hin]]. simpl in Heq; subst i'.
  destruct (ii_ok s HI k i Hin) as (_ & _ & Hn). congruence.
Qed.

(* ---------------------------------------------------------------- a record leaves the index with one event *)

(* generic step: record [i] (key [k], indexed, hence not phantom) leaves the index, event [e] is logged,
   the pipe gets it iff [e = Evict] and a pipe is installed; refs of non-phantom records may change *)
Lemma EvInv_leave c s s' k i e :
  IdxInv s -> EvInv c s -> lookup k (idx s) = Some i ->
  arena s' = arena s -> idx s' = remove_key k (idx s) ->
  (forall j, rphantom (get_rec s j) = true -> get_ref s' j = get_ref s j) ->
  elog s' = elog s ++ [(e, i)] ->
  plog s' = (if piped c && event_eqb e EvEvict then plog s ++ [i] else plog s) ->
  EvInv c s'.
Proof.
  intros HI [H1 H2 H3 H4 H5] Hl A B D E F.
  pose proof (lookup_In _ _ _ Hl) as Hin.
  destruct (ii_ok s HI k i Hin) as (Hlt & Hk & Hph).
  assert (Hi : In i (map snd (idx s))) by (apply in_map_iff; exists (k, i); auto).
  pose proof (remove_key_snd_notin k (idx s) i (ii_keys s HI) (ii_ids s HI) Hl) as Hni.
  constructor; unfold get_rec in *; rewrite ?A, ?B, ?E.
  - intros j Hj. rewrite ecount_app, ecount_one.
    destruct (Nat.eqb_spec i j) as [->|Hne]; [contradiction|].
    rewrite H1; [reflexivity|]. eapply remove_key_map_snd_incl; eauto.
  - intros j Hj Hp Hn. rewrite ecount_app, ecount_one.
    destruct (Nat.eqb_spec i j) as [->|Hne].
    + rewrite H1 by assumption. reflexivity.
    + rewrite H2; auto. intros Hin'. apply Hn.
      apply in_map_iff in Hin'. destruct Hin' as [[k' j'] [Heq Hin']]. simpl in Heq; subst j'.
      apply in_map_iff. exists (k', j). split; [reflexivity|]. apply remove_key_In. split; [assumption|].
      simpl. intros ->. apply Hne. eapply NoDup_map_inj_pair; [apply (ii_keys s HI)| |]; eauto.
  - intros j Hj Hp. rewrite ecount_app, ecount_one.
    destruct (Nat.eqb_spec i j) as [->|Hne]; [congruence|].
    rewrite (D j Hp). rewrite H3 by assumption. lia.
  - intros e' j Hin'. apply in_app_iff in Hin'. destruct Hin' as [Hin'|[Heq|[]]]; [eauto|].
    inversion Heq; subst. assumption.
  - rewrite F, H5. destruct (piped c); cbn [andb]; [|reflexivity].
    rewrite evicted_ids_snoc. destruct (event_eqb e EvEvict); reflexivity.
Qed.

Lemma EvInv_evict_one c s k i :
  IdxInv s -> EvInv c s -> lookup k (idx s) = Some i -> EvInv c (evict_one c s k i).
Proof.
  intros HI HE Hl. eapply (EvInv_leave c s _ k i EvEvict HI HE Hl);
    unfold evict_one, add_pipe; destruct (piped c); sproj; try reflexivity; intros; reflexivity.
Qed.

Lemma EvInv_evict_oracle c target vs : forall s s',
  IdxInv s -> EvInv c s -> evict_oracle c target vs s = Some s' -> EvInv c s'.
Proof.
  induction vs as [|k vs IH]; intros s s' HI HE; simpl.
  - destruct (_ || _); intros H; inversion H; subst; assumption.
  - destruct (usage s <=? target); [discriminate|].
    destruct (lookup k (idx s)) as [i|] eqn:Hl; [|discriminate].
    destruct (memb i (pinned s)); [discriminate|].
    intros H. eapply IH; [| |exact H].
    + apply IdxInv_evict_one; assumption.
    + apply EvInv_evict_one; assumption.
Qed.

Lemma EvInv_flush_oracle c vs : forall s s',
  IdxInv s -> EvInv c s -> flush_oracle c vs s = Some s' -> EvInv c s'.
Proof.
  induction vs as [|k vs IH]; intros s s' HI HE; simpl.
  - destruct (idx s); intros H; inversion H; subst; assumption.
  - destruct (lookup k (idx s)) as [i|] eqn:Hl; [|discriminate].
    assert (Hstep : flush_oracle c vs (evict_one c s k i) = Some s' -> EvInv c s').
    { intros H. eapply IH; [| |exact H].
      + apply IdxInv_evict_one; assumption.
      + apply EvInv_evict_one; assumption. }
    destruct (_ || _); [exact Hstep|]. destruct (memb i (pinned s)); [discriminate|exact Hstep].
Qed.

(* ---------------------------------------------------------------- allocation *)

(* after [alloc] the new id is not yet covered by the invariant; everything else is *)
Record EvInvBelow (c : cfg) (n : nat) (s : shard) : Prop := {
  eb_indexed : forall i, In i (map snd (idx s)) -> ecount (elog s) i = 0%nat;
  eb_left : forall i, (i < n)%nat -> rphantom (get_rec s i) = false ->
            ~ In i (map snd (idx s)) -> ecount (elog s) i = 1%nat;
  eb_phantom : forall i, (i < n)%nat -> rphantom (get_rec s i) = true ->
               ecount (elog s) i = if N.eqb (get_ref s i) 0 then 2%nat else 1%nat;
  eb_bound : forall e i, In (e, i) (elog s) -> (i < n)%nat;
  eb_pipe : plog s = if piped c then evicted_ids (elog s) else [] }.

Lemma EvInvBelow_alloc c s r : RefInv s -> EvInv c s -> EvInvBelow c (length (arena s)) (alloc s r).
Proof.
  intros HR [H1 H2 H3 H4 H5].
  constructor; unfold get_rec, get_ref in *; cbn [arena idx refs elog plog alloc]; auto.
  - intros i Hi. rewrite nth_app_left by assumption. auto.
  - intros i Hi. rewrite !nth_app_left; [auto| rewrite (ri_len s HR); assumption | assumption].
Qed.

Lemma EvInvBelow_frame c n s s' :
  arena s' = arena s -> idx s' = idx s -> refs s' = refs s -> elog s' = elog s -> plog s' = plog s ->
  EvInvBelow c n s -> EvInvBelow c n s'.
Proof.
  intros A B D E F [H1 H2 H3 H4 H5].
  constructor; unfold get_rec, get_ref in *; rewrite ?A, ?B, ?D, ?E, ?F; auto.
Qed.

Lemma EvInvBelow_leave c n s s' k i e :
  NoDup (map fst (idx s)) -> NoDup (map snd (idx s)) ->
  (forall k i, In (k, i) (idx s) -> (i < n)%nat /\ rphantom (get_rec s i) = false) ->
  EvInvBelow c n s -> lookup k (idx s) = Some i ->
  arena s' = arena s -> idx s' = remove_key k (idx s) ->
  (forall j, rphantom (get_rec s j) = true -> get_ref s' j = get_ref s j) ->
  elog s' = elog s ++ [(e, i)] ->
  plog s' = (if piped c && event_eqb e EvEvict then plog s ++ [i] else plog s) ->
  EvInvBelow c n s'.
Proof.
  intros K1 K2 K3 [H1 H2 H3 H4 H5] Hl A B D E F.
  pose proof (lookup_In _ _ _ Hl) as Hin.
  destruct (K3 k i Hin) as (Hlt & Hph).
  assert (Hi : In i (map snd (idx s))) by (apply in_map_iff; exists (k, i); auto).
  pose proof (remove_key_snd_notin k (idx s) i K1 K2 Hl) as Hni.
  constructor; unfold get_rec in *; rewrite ?A, ?B, ?E.
  - intros j Hj. rewrite ecount_app, ecount_one.
    destruct (Nat.eqb_spec i j) as [->|Hne]; [contradiction|].
    rewrite H1; [reflexivity|]. eapply remove_key_map_snd_incl; eauto.
  - intros j Hj Hp Hn. rewrite ecount_app, ecount_one.
    destruct (Nat.eqb_spec i j) as [->|Hne].
    + rewrite H1 by assumption. reflexivity.
    + rewrite H2; auto. intros Hin'. apply Hn.
      apply in_map_iff in Hin'. destruct Hin' as [[k' j'] [Heq Hin']]. simpl in Heq; subst j'.
      apply in_map_iff. exists (k', j). split; [reflexivity|]. apply remove_key_In. split; [assumption|].
      simpl. intros ->. apply Hne. eapply NoDup_map_inj_pair; [apply K1| |]; eauto.
  - intros j Hj Hp. rewrite ecount_app, ecount_one.
    destruct (Nat.eqb_spec i j) as [->|Hne]; [congruence|].
    rewrite (D j Hp). rewrite H3 by assumption. lia.
  - intros e' j Hin'. apply in_app_iff in Hin'. destruct Hin' as [Hin'|[Heq|[]]]; [eauto|].
    inversion Heq; subst. assumption.
  - rewrite F, H5. destruct (piped c); cbn [andb]; [|reflexivity].
    rewrite evicted_ids_snoc. destruct (event_eqb e EvEvict); reflexivity.
Qed.

Lemma EvInvBelow_evict_oracle c n target vs : forall s s',
  NoDup (map fst (idx s)) -> NoDup (map snd (idx s)) ->
  (forall k i, In (k, i) (idx s) -> (i < n)%nat /\ rphantom (get_rec s i) = false) ->
  EvInvBelow c n s -> evict_oracle c target vs s = Some s' -> EvInvBelow c n s'.
Proof.
  induction vs as [|k vs IH]; intros s s' K1 K2 K3 HE; simpl.
  - destruct (_ || _); intros H; inversion H; subst; assumption.
  - destruct (usage s <=? target); [discriminate|].
    destruct (lookup k (idx s)) as [i|] eqn:Hl; [|discriminate].
    destruct (memb i (pinned s)); [discriminate|].
    intros H. eapply IH; [| | | |exact H].
    + rewrite evict_one_idx. apply remove_key_nodup_fst; assumption.
    + rewrite evict_one_idx. apply remove_key_nodup_snd; assumption.
    + intros k' i' Hin. rewrite evict_one_idx in Hin. apply remove_key_In in Hin. destruct Hin as [Hin _].
      unfold get_rec. rewrite evict_one_arena. apply (K3 k' i' Hin).
    + eapply (EvInvBelow_leave c n s _ k i EvEvict K1 K2 K3 HE Hl);
        unfold evict_one, add_pipe; destruct (piped c); sproj; try reflexivity; intros; reflexivity.
Qed.

(* ---------------------------------------------------------------- steps *)

Lemma EvInv_insert c s k v w hsh low ph h vs s' :
  IdxInv s -> RefInv s -> EvInv c s -> insert c s k v w hsh low ph h vs = Some s' -> EvInv c s'.
Proof.
  intros HI HR HE. unfold insert.
  pose proof (EvInvBelow_alloc c s (mkRec k v w hsh ph low) HR HE) as HB.
  pose proof (IdxInv_alloc s (mkRec k v w hsh ph low) HI) as HIa.
  set (n := length (arena s)) in *.
  set (sa := alloc s (mkRec k v w hsh ph low)) in *.
  assert (Hlen : length (arena sa) = S n) by (unfold sa; cbn [arena alloc]; rewrite app_length; simpl; lia).
  assert (Hnew : get_rec sa n = mkRec k v w hsh ph low).
  { unfold get_rec, sa; cbn [arena alloc]. apply nth_app_last. }
  assert (Href : get_ref sa n = 0).
  { unfold get_ref, sa; cbn [refs alloc]. unfold n. rewrite <- (ri_len s HR). apply nth_app_last. }
  assert (K3 : forall k i, In (k, i) (idx sa) -> (i < n)%nat /\ rphantom (get_rec sa i) = false).
  { intros k' i' Hin. unfold sa in Hin; cbn [idx alloc] in Hin.
    destruct (ii_ok s HI k' i' Hin) as (A & _ & B). split; [assumption|].
    unfold get_rec, sa; cbn [arena alloc]. rewrite nth_app_left by assumption. assumption. }
  destruct ph.
  - (* phantom: [Replace old]; Remove new *)
    destruct vs; [|discriminate].
    assert (Hfin : forall s1, EvInvBelow c n s1 -> arena s1 = arena sa -> refs s1 = refs sa ->
                   (forall i, In i (map snd (idx s1)) -> (i < n)%nat) ->
                   EvInv c (add_handle (add_event (inc_ref s1 n) EvRemove n) h n)).
    { intros s1 [B1 B2 B3 B4 B5] A R Hix.
      assert (Hn0 : ecount (elog s1) n = 0%nat).
      { apply ecount_zero. intros e Hin. apply B4 in Hin. lia. }
      constructor; unfold get_rec, get_ref in *; sproj; rewrite ?A, ?R.
      - intros i Hi. rewrite ecount_app, ecount_one. pose proof (Hix i Hi).
        destruct (Nat.eqb_spec n i); [lia|]. rewrite B1 by assumption. reflexivity.
      - intros i Hi Hp Hn. rewrite Hlen in Hi. rewrite ecount_app, ecount_one.
        destruct (Nat.eqb_spec n i) as [<-|Hne].
        + unfold get_rec in Hnew. rewrite Hnew in Hp. discriminate.
        + rewrite B2; auto; [lia|]. rewrite A. assumption.
      - intros i Hi Hp. rewrite Hlen in Hi. rewrite ecount_app, ecount_one.
        destruct (Nat.eqb_spec n i) as [<-|Hne].
        + rewrite nth_upd_same.
          * unfold get_ref in Href. rewrite Href. rewrite Hn0. reflexivity.
          * unfold sa; cbn [refs alloc]. rewrite app_length, (ri_len s HR). simpl. fold n. lia.
        + rewrite nth_upd_other by assumption. rewrite <- R. rewrite B3; [lia|lia|]. rewrite A. assumption.
      - intros e i Hin. rewrite Hlen. apply in_app_iff in Hin. destruct Hin as [Hin|[Heq|[]]].
        + apply B4 in Hin. lia.
        + inversion Heq; subst. lia.
      - rewrite B5. destruct (piped c); [|reflexivity]. rewrite evicted_ids_app.
        unfold evicted_ids at 3. cbn [filter fst event_eqb map]. rewrite app_nil_r. reflexivity. }
    destruct (lookup k (idx sa)) as [o|] eqn:Hl; intros H; inversion H; subst; clear H.
    + apply Hfin; sproj; try reflexivity.
      * eapply (EvInvBelow_leave c n sa _ k o EvReplace (ii_keys sa HIa) (ii_ids sa HIa) K3 HB Hl);
          sproj; try reflexivity. destruct (piped c); reflexivity.
      * intros i Hi. apply remove_key_map_snd_incl in Hi. apply in_map_iff in Hi.
        destruct Hi as [[k' i'] [Heq Hin]]. simpl in Heq; subst i'. apply (K3 k' i Hin).
    + apply Hfin; try reflexivity; [assumption|].
      intros i Hi. apply in_map_iff in Hi. destruct Hi as [[k' i'] [Heq Hin]]. simpl in Heq; subst i'.
      apply (K3 k' i Hin).
  - (* admitted: evictions; [Replace old]; index the new record *)
    destruct (evict_oracle c (capacity sa - w) vs sa) as [se|] eqn:He; [|discriminate].
    pose proof (EvInvBelow_evict_oracle c n _ vs sa se (ii_keys sa HIa) (ii_ids sa HIa) K3 HB He) as HBe.
    pose proof (IdxInv_evict_oracle _ _ _ _ _ HIa He) as HIe.
    destruct (evict_oracle_frame _ _ _ _ _ He) as (Har & _ & Hrf & _ & _ & Hsub).
    assert (K3e : forall k i, In (k, i) (idx se) -> (i < n)%nat /\ rphantom (get_rec se i) = false).
    { intros k' i' Hin. unfold get_rec. rewrite Har. apply (K3 k' i'). apply Hsub. assumption. }
    assert (Hfin : forall s1, EvInvBelow c n s1 -> arena s1 = arena sa -> refs s1 = refs sa ->
                   (forall i, In i (map snd (idx s1)) -> (i < n)%nat) ->
                   forall u, EvInv c (add_handle (inc_ref (set_usage (set_idx s1 ((k, n) :: idx s1)) u) n) h n)).
    { intros s1 [B1 B2 B3 B4 B5] A R Hix u.
      assert (Hn0 : ecount (elog s1) n = 0%nat).
      { apply ecount_zero. intros e Hin. apply B4 in Hin. lia. }
      constructor; unfold get_rec, get_ref in *; sproj; rewrite ?A, ?R; cbn [map snd].
      - intros i [<-|Hi]; [assumption|]. apply B1; assumption.
      - intros i Hi Hp Hn. rewrite Hlen in Hi.
        destruct (Nat.eq_dec n i) as [<-|Hne]; [exfalso; apply Hn; left; reflexivity|].
        apply B2; [lia| rewrite A; assumption |]. intros Hin. apply Hn. right; assumption.
      - intros i Hi Hp. rewrite Hlen in Hi.
        destruct (Nat.eq_dec n i) as [<-|Hne].
        + unfold get_rec in Hnew. rewrite Hnew in Hp. discriminate.
        + rewrite nth_upd_other by assumption. rewrite <- R. apply B3; [lia|]. rewrite A. assumption.
      - intros e i Hin. rewrite Hlen. apply B4 in Hin. lia.
      - assumption. }
    intros H; inversion H; subst; clear H.
    destruct (lookup k (idx se)) as [o|] eqn:Hl.
    + match goal with |- EvInv c (add_handle (inc_ref (set_usage (set_idx ?s1 _) ?u) _) _ _) =>
        change s1 with (add_event (unindex se k o) EvReplace o) end.
      set (s1 := add_event (unindex se k o) EvReplace o).
      assert (HB1 : EvInvBelow c n s1).
      { eapply (EvInvBelow_leave c n se s1 k o EvReplace (ii_keys se HIe) (ii_ids se HIe) K3e HBe Hl);
          unfold s1; sproj; try reflexivity. destruct (piped c); reflexivity. }
      replace (set_idx (add_event (unindex se k o) EvReplace o) ((k, n) :: remove_key k (idx se)))
        with (set_idx s1 ((k, n) :: idx s1)) by reflexivity.
      apply Hfin; unfold s1; sproj; auto.
      intros i Hi. apply remove_key_map_snd_incl in Hi. apply in_map_iff in Hi.
      destruct Hi as [[k' i'] [Heq Hin]]. simpl in Heq; subst i'. apply (K3e k' i Hin).
    + replace (set_idx (set_entries se (entries se + 1)) ((k, n) :: idx se))
        with (set_idx (set_entries se (entries se + 1)) ((k, n) :: idx (set_entries se (entries se + 1)))) by reflexivity.
      apply Hfin; sproj; auto.
      * eapply EvInvBelow_frame; [| | | | |exact HBe]; reflexivity.
      * intros i Hi. apply in_map_iff in Hi.
        destruct Hi as [[k' i'] [Heq Hin]]. simpl in Heq; subst i'. apply (K3e k' i Hin).
Qed.

(* reference counts of non-phantom records change; no events *)
Lemma EvInv_refs_only c s s' :
  arena s' = arena s -> idx s' = idx s -> elog s' = elog s -> plog s' = plog s ->
  (forall j, (j < length (arena s))%nat -> rphantom (get_rec s j) = true ->
             N.eqb (get_ref s' j) 0 = N.eqb (get_ref s j) 0) ->
  EvInv c s -> EvInv c s'.
Proof.
  intros A B E F D [H1 H2 H3 H4 H5].
  constructor; unfold get_rec in *; rewrite ?A, ?B, ?E, ?F; auto.
  intros j Hj Hp. rewrite (D j Hj Hp). auto.
Qed.

Lemma EvInv_get c s k h : IdxInv s -> EvInv c s -> EvInv c (get c s k h).
Proof.
  intros HI HE. unfold get. destruct (lookup k (idx s)) as [i|] eqn:Hl; [|assumption].
  apply lookup_In in Hl. destruct (ii_ok s HI k i Hl) as (_ & _ & Hph).
  eapply EvInv_refs_only; [| | | | |exact HE]; unfold acquire; try (destruct (_ && _); reflexivity).
  intros j Hj Hp. destruct (_ && _); unfold get_ref; sproj;
    (rewrite nth_upd_other; [reflexivity|intros ->; congruence]).
Qed.

Lemma EvInv_clone c s h h' : IdxInv s -> RefInv s -> EvInv c s -> EvInv c (clone c s h h').
Proof.
  intros HI HR HE. unfold clone. destruct (hlookup h (handles s)) as [i|] eqn:Hl; [|assumption].
  pose proof (hlookup_In _ _ _ Hl) as Hin. pose proof (ri_bound s HR h i Hin) as Hlt.
  eapply EvInv_refs_only; [| | | | |exact HE]; try reflexivity.
  intros j Hj Hp. unfold get_ref; sproj. destruct (Nat.eq_dec i j) as [->|Hne].
  - rewrite nth_upd_same by (rewrite (ri_len s HR); assumption).
    pose proof (ri_refs s HR j Hj) as Hr. unfold get_ref in Hr. rewrite Hr.
    pose proof (hcount_hremove h (handles s) j j Hl) as Hc. rewrite Nat.eqb_refl in Hc.
    destruct (N.eqb_spec (hcount (handles s) j + 1) 0); destruct (N.eqb_spec (hcount (handles s) j) 0); try lia; reflexivity.
  - rewrite nth_upd_other by assumption. reflexivity.
Qed.

Lemma EvInv_remove c s k h : IdxInv s -> EvInv c s -> EvInv c (remove c s k h).
Proof.
  intros HI HE. unfold remove. destruct (lookup k (idx s)) as [i|] eqn:Hl; [|assumption].
  pose proof (lookup_In _ _ _ Hl) as Hin. destruct (ii_ok s HI k i Hin) as (_ & _ & Hph).
  eapply (EvInv_leave c s _ k i EvRemove HI HE Hl); sproj; try reflexivity.
  - intros j Hp. unfold get_ref; sproj. rewrite nth_upd_other; [reflexivity|intros ->; congruence].
  - destruct (piped c); reflexivity.
Qed.

Lemma EvInv_phantom_evict c s s' i :
  IdxInv s -> EvInv c s -> (i < length (arena s))%nat -> rphantom (get_rec s i) = true -> get_ref s i <> 0 ->
  arena s' = arena s -> idx s' = idx s -> get_ref s' i = 0 -> (forall j, j <> i -> get_ref s' j = get_ref s j) ->
  elog s' = elog s ++ [(EvEvict, i)] -> plog s' = (if piped c then plog s ++ [i] else plog s) ->
  EvInv c s'.
Proof.
  intros HI [H1 H2 H3 H4 H5] Hlt Hph Hnz A B Z D E F.
  pose proof (phantom_not_indexed s i HI Hph) as Hni.
  assert (Hbefore : ecount (elog s) i = 1%nat).
  { rewrite (H3 i Hlt Hph). destruct (N.eqb_spec (get_ref s i) 0); [contradiction|reflexivity]. }
  constructor; unfold get_rec in *; rewrite ?A, ?B, ?E.
  - intros j Hj. rewrite ecount_app, ecount_one.
    destruct (Nat.eqb_spec i j) as [->|Hne]; [contradiction|]. rewrite H1 by assumption. reflexivity.
  - intros j Hj Hp Hn. rewrite ecount_app, ecount_one.
    destruct (Nat.eqb_spec i j) as [->|Hne]; [congruence|]. rewrite H2 by assumption. reflexivity.
  - intros j Hj Hp. rewrite ecount_app, ecount_one. destruct (Nat.eqb_spec i j) as [->|Hne].
    + rewrite Z, Hbefore. reflexivity.
    + rewrite (D j) by auto. rewrite H3 by assumption. lia.
  - intros e j Hin. apply in_app_iff in Hin. destruct Hin as [Hin|[Heq|[]]]; [eauto|]. inversion Heq; subst; assumption.
  - rewrite F, H5. destruct (piped c); [|reflexivity]. rewrite evicted_ids_snoc. reflexivity.
Qed.

Lemma EvInv_drop c s h : IdxInv s -> RefInv s -> EvInv c s -> EvInv c (drop c s h).
Proof.
  intros HI HR HE. rewrite drop_unfold. destruct (hlookup h (handles s)) as [i|] eqn:Hl; [|assumption].
  cbv zeta. pose proof (hlookup_In _ _ _ Hl) as Hin. pose proof (ri_bound s HR h i Hin) as Hlt.
  pose proof (hcount_hremove h (handles s) i i Hl) as Hc. rewrite Nat.eqb_refl in Hc.
  pose proof (ri_refs s HR i Hlt) as Hr.
  assert (Hd : get_ref (dropped s h i) i = get_ref s i - 1).
  { unfold dropped, get_ref; sproj. rewrite nth_upd_same by (rewrite (ri_len s HR); assumption). reflexivity. }
  assert (Hother : forall j, j <> i -> get_ref (dropped s h i) j = get_ref s j).
  { intros j Hne. unfold dropped, get_ref; sproj. apply nth_upd_other. auto. }
  destruct (N.eqb (get_ref (dropped s h i) i) 0) eqn:Ez.
  - destruct (rphantom (get_rec (dropped s h i) i)) eqn:Eph.
    + (* last handle of a phantom: Evict + pipe *)
      assert (Eph' : rphantom (get_rec s i) = true) by exact Eph.
      apply N.eqb_eq in Ez.
      eapply (EvInv_phantom_evict c s _ i HI HE Hlt Eph'); unfold add_pipe; destruct (piped c);
        try reflexivity; try lia; try exact Ez; try exact Hother.
    + (* last handle of an admitted record: release only *)
      eapply EvInv_refs_only with (s := s); [| | | | |exact HE];
        unfold release; try (destruct (_ && _); reflexivity).
      intros j Hj Hp. assert (Hne : j <> i).
      { intros ->. unfold get_rec, dropped in Eph. cbn [arena dec_ref set_refs set_handles] in Eph.
        unfold get_rec in Hp. congruence. }
      destruct (_ && _); unfold get_ref; sproj; unfold dropped; sproj; (rewrite nth_upd_other by auto); reflexivity.
  - (* still referenced *)
    eapply EvInv_refs_only with (s := s); [| | | | |exact HE]; try reflexivity.
    intros j Hj Hp. destruct (Nat.eq_dec j i) as [->|Hne].
    + rewrite Ez. symmetry. apply N.eqb_neq. lia.
    + rewrite (Hother j Hne). reflexivity.
Qed.

Lemma ecount_clear_list (l : list (N * id)) i :
  NoDup (map snd l) ->
  ecount (map (fun p : N * id => (EvClear, snd p)) l) i = if memb i (map snd l) then 1%nat else 0%nat.
Proof.
  induction l as [|[k j] l IH]; intros Hnd; [reflexivity|].
  inversion Hnd as [|? ? Hnot Hnd']; subst.
  cbn [map snd memb]. change ((EvClear, j) :: ?t) with ([(EvClear, j)] ++ t).
  rewrite ecount_app, ecount_one, (IH Hnd').
  destruct (Nat.eqb_spec i j) as [->|Hne].
  - rewrite Nat.eqb_refl. cbn [orb]. apply memb_false in Hnot. rewrite Hnot. reflexivity.
  - destruct (Nat.eqb_spec j i); [congruence|]. cbn [orb]. reflexivity.
Qed.

Lemma evicted_ids_clear (l : list (N * id)) :
  evicted_ids (map (fun p : N * id => (EvClear, snd p)) l) = [].
Proof. induction l as [|p l IH]; [reflexivity|]. unfold evicted_ids in *. cbn [map filter fst event_eqb]. exact IH. Qed.

Lemma EvInv_clear c s : IdxInv s -> EvInv c s -> EvInv c (clear c s).
Proof.
  intros HI [H1 H2 H3 H4 H5]. unfold clear.
  destruct (fold_add_event_frame (idx s) s) as (A & _ & _ & _ & _ & F & _ & _ & P & E).
  set (s1 := fold_left _ (idx s) s) in *.
  assert (Hgoal : EvInv c (set_entries (set_idx s1 []) 0)).
  { constructor; unfold get_rec, get_ref; sproj; rewrite ?A, ?F, ?E, ?P.
    - intros i [].
    - intros i Hi Hp _. rewrite ecount_app, (ecount_clear_list _ i (ii_ids s HI)).
      destruct (memb i (map snd (idx s))) eqn:Em.
      + apply memb_In in Em. rewrite H1 by assumption. reflexivity.
      + apply memb_false in Em. rewrite H2 by assumption. reflexivity.
    - intros i Hi Hp. rewrite ecount_app, (ecount_clear_list _ i (ii_ids s HI)).
      pose proof (phantom_not_indexed s i HI Hp) as Hni. apply memb_false in Hni. rewrite Hni.
      rewrite (H3 i Hi Hp). unfold get_ref. rewrite Nat.add_0_r. reflexivity.
    - intros e i Hin. apply in_app_iff in Hin. destruct Hin as [Hin|Hin]; [eauto|].
      apply in_map_iff in Hin. destruct Hin as [[k j] [Heq Hin]]. inversion Heq; subst.
      apply (ii_ok s HI k i Hin).
    - rewrite H5. destruct (piped c); [|reflexivity]. rewrite evicted_ids_app, evicted_ids_clear, app_nil_r. reflexivity. }
  destruct (bug_clear c); [exact Hgoal|].
  eapply EvInv_frame; [| | | | |exact Hgoal]; reflexivity.
Qed.

Lemma EvInv_step c s o s' :
  bug_touch c = false -> IdxInv s -> RefInv s -> EvInv c s -> step c s o = Some s' -> EvInv c s'.
Proof.
  intros Ht HI HR HE. destruct o; simpl; intros H.
  - eapply EvInv_insert; eauto.
  - inversion H; subst. apply EvInv_get; assumption.
  - inversion H; subst. unfold touch. rewrite Ht.
    apply EvInv_drop; [apply IdxInv_get | apply RefInv_get | apply EvInv_get]; assumption.
  - inversion H; subst. assumption.
  - inversion H; subst. apply EvInv_remove; assumption.
  - inversion H; subst. apply EvInv_clear; assumption.
  - unfold resize in H. eapply EvInv_evict_oracle; [| |exact H].
    + eapply IdxInv_frame; [| | | |exact HI]; reflexivity.
    + eapply EvInv_frame; [| | | | |exact HE]; reflexivity.
  - unfold evict_all in H. eapply EvInv_evict_oracle; eauto.
  - unfold flush in H. eapply EvInv_flush_oracle; eauto.
  - inversion H; subst. apply EvInv_clone; assumption.
  - inversion H; subst. apply EvInv_drop; assumption.
Qed.

Lemma EvInv_run c ops : forall s s',
  bug_clear c = false -> bug_touch c = false -> Inv c s -> EvInv c s -> run c s ops = Some s' -> EvInv c s'.
Proof.
  induction ops as [|o ops IH]; intros s s' Hc Ht HI HE; simpl.
  - intros H; inversion H; subst; assumption.
  - destruct (step c s o) as [s1|] eqn:Hs; [|discriminate].
    intros H. apply (IH s1 s' Hc Ht); [| |exact H].
    + eapply Inv_step; eauto.
    + destruct HI as [A B D]. eapply EvInv_step; eauto.
Qed.
