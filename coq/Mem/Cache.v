(* M-MEM, cache level: RawCache = vector of shards, shard = hash mod n
   (raw.rs:446-480 new, 792-800 shard / shard_capacity_for, 388-402 clear,
   483-537 resize, 632-650 evict_all).  Model only. *)
From Coq Require Import List NArith Bool Arith.
From FV Require Import Mem.Shard.
Import ListNotations.
Open Scope N_scope.

(* RawCache::shard_capacity_for *)
Definition shard_capacity_for (total shards index : N) : N :=
  total / shards + (if index <? total mod shards then 1 else 0).

Fixpoint capacities_from (total shards : N) (index : N) (n : nat) : list N :=
  match n with
  | O => []
  | S n' => shard_capacity_for total shards index :: capacities_from total shards (index + 1) n'
  end.

Definition capacities (total : N) (n : nat) : list N :=
  capacities_from total (N.of_nat n) 0 n.

Definition cache := list shard.

Definition init_cache (total : N) (n : nat) : cache :=
  map init_shard (capacities total n).

Section WithHash.
  Variable hash : N -> N.      (* the user's hash builder, arbitrary *)
  Variable c : cfg.

  Definition shard_of (n : nat) (k : N) : nat := N.to_nat (hash k mod N.of_nat n).

  Fixpoint upd_opt (i : nat) (f : shard -> option shard) (l : cache) : option cache :=
    match l, i with
    | [], _ => None
    | x :: l', O => match f x with Some x' => Some (x' :: l') | None => None end
    | x :: l', S i' => match upd_opt i' f l' with Some l'' => Some (x :: l'') | None => None end
    end.

  (* apply [f] to every shard, with its index *)
  Fixpoint map_opt_from (i : nat) (f : nat -> shard -> option shard) (l : cache) : option cache :=
    match l with
    | [] => Some []
    | x :: l' =>
        match f i x, map_opt_from (S i) f l' with
        | Some x', Some l'' => Some (x' :: l'')
        | _, _ => None
        end
    end.

  Definition victims_of (n : nat) (i : nat) (vs : list N) : list N :=
    filter (fun k => Nat.eqb (shard_of n k) i) vs.

  Definition has_handle (h : N) (s : shard) : bool :=
    match hlookup h (handles s) with Some _ => true | None => false end.

  Definition cstep (cs : cache) (o : op) : option cache :=
    let n := length cs in
    match o with
    | OInsert k _ _ _ _ _ _ _ | OGet k _ | OTouch k _ | OContains k | ORemove k _ =>
        upd_opt (shard_of n k) (fun s => step c s o) cs
    | OClear => map_opt_from 0 (fun _ s => step c s OClear) cs
    | OResize cap vs =>
        map_opt_from 0 (fun i s =>
          step c s (OResize (shard_capacity_for cap (N.of_nat n) (N.of_nat i)) (victims_of n i vs))) cs
    | OEvictAll vs =>
        map_opt_from 0 (fun i s => step c s (OEvictAll (victims_of n i vs))) cs
    | OFlush vs =>
        map_opt_from 0 (fun i s => step c s (OFlush (victims_of n i vs))) cs
    | OClone h _ | ODrop h =>
        (* a handle lives in the shard of its record *)
        map_opt_from 0 (fun _ s => if has_handle h s then step c s o else Some s) cs
    end.

  Fixpoint crun (cs : cache) (ops : list op) : option cache :=
    match ops with
    | [] => Some cs
    | o :: ops' => match cstep cs o with None => None | Some cs' => crun cs' ops' end
    end.
End WithHash.

Definition cusage (cs : cache) : N := fold_right (fun s a => usage s + a) 0 cs.
Definition centries (cs : cache) : N := fold_right (fun s a => entries s + a) 0 cs.
Definition ccapacity (cs : cache) : N := fold_right (fun s a => capacity s + a) 0 cs.
