(* Invariants of the generic shard model and their preservation by every step. *)
From Coq Require Import List NArith Bool Arith Lia.
From FV Require Import Base.ListX Mem.Shard Mem.ShardLemmas.
Import ListNotations.
Open Scope N_scope.

Arguments N.add : simpl never.
Arguments N.sub : simpl never.
Arguments N.leb : simpl never.
Arguments N.eqb : simpl never.
Arguments N.of_nat : simpl never.

Ltac sproj := cbn [arena idx usage entries capacity refs handles pinned elog plog
                    add_handle inc_ref dec_ref set_refs set_handles set_usage set_idx set_entries set_capacity
                    set_pinned add_event unindex alloc].

(* ================================================================ index / accounting *)

Record IdxInv (s : shard) : Prop := {
  ii_keys : NoDup (map fst (idx s));
  ii_ids : NoDup (map snd (idx s));
  ii_ok : forall k i, In (k, i) (idx s) ->
          (i < length (arena s))%nat /\ rkey (get_rec s i) = k /\ rphantom (get_rec s i) = false;
  ii_usage : usage s = sumw (arena s) (idx s);
  ii_entries : entries s = N.of_nat (length (idx s)) }.

Lemma IdxInv_frame s s' :
  arena s' = arena s -> idx s' = idx s -> usage s' = usage s -> entries s' = entries s ->
  IdxInv s -> IdxInv s'.
Proof.
  intros Ha Hi Hu He [H1 H2 H3 H4 H5].
  constructor; unfold get_rec in *; rewrite ?Ha, ?Hi, ?Hu, ?He; auto.
Qed.

Lemma IdxInv_init cap : IdxInv (init_shard cap).
Proof. constructor; simpl; try constructor; try tauto; reflexivity. Qed.

(* the record [i] with key [k] leaves the index; entries decremented *)
Lemma IdxInv_unindex s k i :
  IdxInv s -> lookup k (idx s) = Some i ->
  IdxInv (set_entries (unindex s k i) (entries s - 1)).
Proof.
  intros [H1 H2 H3 H4 H5] Hl.
  constructor; cbn [arena idx usage entries set_entries unindex set_usage set_idx].
  - apply remove_key_nodup_fst; assumption.
  - apply remove_key_nodup_snd; assumption.
  - intros k' i' Hin. apply remove_key_In in Hin. destruct Hin as [Hin _].
    unfold get_rec; cbn [arena]. apply (H3 k' i' Hin).
  - unfold weight_of, get_rec. rewrite H4.
    rewrite (sumw_remove_key (arena s) k (idx s) i H1 Hl). lia.
  - rewrite H5. pose proof (remove_key_length k (idx s) i H1 Hl) as Hlen. lia.
Qed.

Lemma IdxInv_evict_one c s k i :
  IdxInv s -> lookup k (idx s) = Some i -> IdxInv (evict_one c s k i).
Proof.
  intros HI Hl. unfold evict_one.
  eapply IdxInv_frame; [| | | | apply (IdxInv_unindex s k i HI Hl)];
    unfold add_pipe; destruct (piped c); reflexivity.
Qed.

Lemma IdxInv_evict_oracle c target vs : forall s s',
  IdxInv s -> evict_oracle c target vs s = Some s' -> IdxInv s'.
Proof.
  induction vs as [|k vs IH]; intros s s' HI; simpl.
  - destruct (_ || _); intros H; inversion H; subst; assumption.
  - destruct (usage s <=? target); [discriminate|].
    destruct (lookup k (idx s)) as [i|] eqn:Hl; [|discriminate].
    destruct (memb i (pinned s)); [discriminate|].
    intros H. eapply IH; [|exact H]. apply IdxInv_evict_one; assumption.
Qed.

Lemma IdxInv_alloc s r : IdxInv s -> IdxInv (alloc s r).
Proof.
  intros [H1 H2 H3 H4 H5].
  constructor; cbn [arena idx usage entries alloc]; auto.
  - intros k i Hin. destruct (H3 k i Hin) as [Hlt [Hk Hp]].
    unfold get_rec in *; cbn [arena]. rewrite app_length; simpl.
    rewrite nth_app_left by assumption. split; [lia|auto].
  - rewrite H4. symmetry. apply sumw_arena_app. intros [k i] Hin. simpl. apply (H3 k i Hin).
Qed.

(* frame facts for evict_oracle *)
Lemma evict_one_arena c s k i : arena (evict_one c s k i) = arena s.
Proof. unfold evict_one, add_pipe; destruct (piped c); reflexivity. Qed.
Lemma evict_one_capacity c s k i : capacity (evict_one c s k i) = capacity s.
Proof. unfold evict_one, add_pipe; destruct (piped c); reflexivity. Qed.
Lemma evict_one_refs c s k i : refs (evict_one c s k i) = refs s.
Proof. unfold evict_one, add_pipe; destruct (piped c); reflexivity. Qed.
Lemma evict_one_handles c s k i : handles (evict_one c s k i) = handles s.
Proof. unfold evict_one, add_pipe; destruct (piped c); reflexivity. Qed.
Lemma evict_one_pinned c s k i : pinned (evict_one c s k i) = pinned s.
Proof. unfold evict_one, add_pipe; destruct (piped c); reflexivity. Qed.
Lemma evict_one_idx c s k i : idx (evict_one c s k i) = remove_key k (idx s).
Proof. unfold evict_one, add_pipe; destruct (piped c); reflexivity. Qed.
Lemma evict_one_usage c s k i : usage (evict_one c s k i) = usage s - weight_of s i.
Proof. unfold evict_one, add_pipe; destruct (piped c); reflexivity. Qed.

Lemma evict_oracle_frame c target vs : forall s s',
  evict_oracle c target vs s = Some s' ->
  arena s' = arena s /\ capacity s' = capacity s /\ refs s' = refs s /\ handles s' = handles s /\
  pinned s' = pinned s /\ (forall p, In p (idx s') -> In p (idx s)).
Proof.
  induction vs as [|k vs IH]; intros s s'; simpl.
  - destruct (_ || _); intros H; inversion H; subst. repeat split; auto.
  - destruct (usage s <=? target); [discriminate|].
    destruct (lookup k (idx s)) as [i|] eqn:Hl; [|discriminate].
    destruct (memb i (pinned s)); [discriminate|].
    intros H. destruct (IH _ _ H) as (A & B & C & D & E & F).
    rewrite evict_one_arena in A. rewrite evict_one_capacity in B. rewrite evict_one_refs in C.
    rewrite evict_one_handles in D. rewrite evict_one_pinned in E.
    repeat split; auto.
    intros p Hp. apply F in Hp. rewrite evict_one_idx in Hp. apply remove_key_In in Hp. tauto.
Qed.

(* flush: the same single step, other guards *)
Lemma flush_oracle_frame c vs : forall s s',
  flush_oracle c vs s = Some s' ->
  arena s' = arena s /\ capacity s' = capacity s /\ refs s' = refs s /\ handles s' = handles s /\
  pinned s' = pinned s /\ idx s' = [].
Proof.
  induction vs as [|k vs IH]; intros s s'; simpl.
  - destruct (idx s) eqn:E; intros H; inversion H; subst. repeat split; auto.
  - destruct (lookup k (idx s)) as [i|] eqn:Hl; [|discriminate].
    assert (Hstep : flush_oracle c vs (evict_one c s k i) = Some s' ->
      arena s' = arena s /\ capacity s' = capacity s /\ refs s' = refs s /\ handles s' = handles s /\
      pinned s' = pinned s /\ idx s' = []).
    { intros H. destruct (IH _ _ H) as (A & B & C & D & E & F).
      rewrite evict_one_arena in A. rewrite evict_one_capacity in B. rewrite evict_one_refs in C.
      rewrite evict_one_handles in D. rewrite evict_one_pinned in E. repeat split; auto. }
    destruct (_ || _); [exact Hstep|]. destruct (memb i (pinned s)); [discriminate|exact Hstep].
Qed.

Lemma IdxInv_flush_oracle c vs : forall s s',
  IdxInv s -> flush_oracle c vs s = Some s' -> IdxInv s'.
Proof.
  induction vs as [|k vs IH]; intros s s' HI; simpl.
  - destruct (idx s); intros H; inversion H; subst; assumption.
  - destruct (lookup k (idx s)) as [i|] eqn:Hl; [|discriminate].
    assert (Hstep : flush_oracle c vs (evict_one c s k i) = Some s' -> IdxInv s').
    { intros H. eapply IH; [|exact H]. apply IdxInv_evict_one; assumption. }
    destruct (_ || _); [exact Hstep|]. destruct (memb i (pinned s)); [discriminate|exact Hstep].
Qed.

Lemma IdxInv_insert c s k v w hsh low ph h vs s' :
  IdxInv s -> insert c s k v w hsh low ph h vs = Some s' -> IdxInv s'.
Proof.
  intros HI. unfold insert.
  pose proof (IdxInv_alloc s (mkRec k v w hsh ph low) HI) as HA.
  set (sa := alloc s (mkRec k v w hsh ph low)) in *.
  destruct ph.
  - (* phantom *)
    destruct vs; [|discriminate].
    destruct (lookup k (idx sa)) as [o|] eqn:Hl; intros H; inversion H; subst; clear H.
    + eapply IdxInv_frame; [| | | | apply (IdxInv_unindex sa k o HA Hl)]; reflexivity.
    + eapply IdxInv_frame; [| | | | exact HA]; reflexivity.
  - destruct (evict_oracle c (capacity sa - w) vs sa) as [se|] eqn:He; [|discriminate].
    pose proof (IdxInv_evict_oracle _ _ _ _ _ HA He) as HE.
    destruct (evict_oracle_frame _ _ _ _ _ He) as (Har & _ & _ & _ & _ & Hsub).
    assert (Hlen : length (arena se) = S (length (arena s))).
    { rewrite Har. unfold sa; cbn [arena alloc]. rewrite app_length; simpl; lia. }
    assert (Hnew : nth (length (arena s)) (arena se) dummy_rec = mkRec k v w hsh false low).
    { rewrite Har. unfold sa; cbn [arena alloc]. apply nth_app_last. }
    assert (Hfresh : forall k' i', In (k', i') (idx se) -> (i' < length (arena s))%nat).
    { intros k' i' Hin. apply Hsub in Hin. unfold sa in Hin; cbn [idx alloc] in Hin.
      destruct HI as [_ _ H3 _ _]. apply (H3 k' i' Hin). }
    intros H; inversion H; subst; clear H.
    destruct HE as [E1 E2 E3 E4 E5].
    destruct (lookup k (idx se)) as [o|] eqn:Hl.
    + (* replace *)
      constructor; cbn [arena idx usage entries add_handle inc_ref set_refs set_handles set_usage set_idx
                         add_event unindex map fst snd].
      * constructor; [apply remove_key_notin | apply remove_key_nodup_fst; assumption].
      * constructor; [|apply remove_key_nodup_snd; assumption].
        intros Hin. apply remove_key_map_snd_incl in Hin. apply in_map_iff in Hin.
        destruct Hin as [[k' i'] [Heq Hin]]. simpl in Heq; subst i'.
        apply Hfresh in Hin. lia.
      * intros k' i' [Heq|Hin].
        -- inversion Heq; subst. unfold get_rec; sproj. rewrite Hnew. simpl. split; [lia|auto].
        -- apply remove_key_In in Hin. destruct Hin as [Hin _]. unfold get_rec; sproj.
           apply (E3 k' i' Hin).
      * cbn [fold_right sumw snd]. fold (sumw (arena se) (remove_key k (idx se))).
        rewrite Hnew. cbn [rweight]. unfold weight_of, get_rec. rewrite E4.
        rewrite (sumw_remove_key (arena se) k (idx se) o E1 Hl). lia.
      * cbn [length]. rewrite E5. pose proof (remove_key_length k (idx se) o E1 Hl). lia.
    + constructor; cbn [arena idx usage entries add_handle inc_ref set_refs set_handles set_usage set_idx
                         set_entries map fst snd].
      * constructor; [apply lookup_None; assumption | assumption].
      * constructor; [|assumption].
        intros Hin. apply in_map_iff in Hin. destruct Hin as [[k' i'] [Heq Hin]]. simpl in Heq; subst i'.
        apply Hfresh in Hin. lia.
      * intros k' i' [Heq|Hin].
        -- inversion Heq; subst. unfold get_rec; sproj. rewrite Hnew. simpl. split; [lia|auto].
        -- unfold get_rec; sproj. apply (E3 k' i' Hin).
      * cbn [fold_right sumw snd]. fold (sumw (arena se) (idx se)). rewrite Hnew. cbn [rweight]. rewrite E4. lia.
      * cbn [length]. rewrite E5. lia.
Qed.

Lemma get_frame c s k h :
  arena (get c s k h) = arena s /\ idx (get c s k h) = idx s /\ usage (get c s k h) = usage s /\
  entries (get c s k h) = entries s /\ capacity (get c s k h) = capacity s /\ elog (get c s k h) = elog s /\
  plog (get c s k h) = plog s.
Proof.
  unfold get, acquire. destruct (lookup k (idx s)); [|repeat split].
  destruct (_ && _); repeat split.
Qed.

Lemma drop_frame c s h :
  arena (drop c s h) = arena s /\ idx (drop c s h) = idx s /\ usage (drop c s h) = usage s /\
  entries (drop c s h) = entries s /\ capacity (drop c s h) = capacity s.
Proof.
  unfold drop, release, add_pipe. destruct (hlookup h (handles s)); [|repeat split].
  destruct (N.eqb _ _); [|repeat split].
  destruct (rphantom _); [destruct (piped c); repeat split|].
  destruct (_ && _); repeat split.
Qed.

Lemma IdxInv_get c s k h : IdxInv s -> IdxInv (get c s k h).
Proof. intros H. destruct (get_frame c s k h) as (A & B & C & D & _). eapply IdxInv_frame; eauto. Qed.

Lemma IdxInv_drop c s h : IdxInv s -> IdxInv (drop c s h).
Proof. intros H. destruct (drop_frame c s h) as (A & B & C & D & _). eapply IdxInv_frame; eauto. Qed.

Lemma IdxInv_touch c s k h : bug_touch c = false -> IdxInv s -> IdxInv (touch c s k h).
Proof. intros Hb H. unfold touch. rewrite Hb. apply IdxInv_drop. apply IdxInv_get. assumption. Qed.

Lemma IdxInv_remove c s k h : IdxInv s -> IdxInv (remove c s k h).
Proof.
  intros H. unfold remove. destruct (lookup k (idx s)) as [i|] eqn:Hl; [|assumption].
  eapply IdxInv_frame; [| | | | apply (IdxInv_unindex s k i H Hl)]; reflexivity.
Qed.

Lemma fold_add_event_frame l : forall s,
  let s' := fold_left (fun s (p : N * id) => add_event s EvClear (snd p)) l s in
  arena s' = arena s /\ idx s' = idx s /\ usage s' = usage s /\ entries s' = entries s /\
  capacity s' = capacity s /\ refs s' = refs s /\ handles s' = handles s /\ pinned s' = pinned s /\
  plog s' = plog s /\ elog s' = elog s ++ map (fun p : N * id => (EvClear, snd p)) l.
Proof.
  induction l as [|p l IH]; intros s; simpl.
  - rewrite app_nil_r. repeat split.
  - destruct (IH (add_event s EvClear (snd p))) as (A & B & C & D & E & F & G & H & I & J).
    cbn [arena idx usage entries capacity refs handles pinned plog elog add_event] in *.
    repeat split; auto. rewrite J. rewrite <- app_assoc. reflexivity.
Qed.

Lemma IdxInv_clear c s : bug_clear c = false -> IdxInv s -> IdxInv (clear c s).
Proof.
  intros Hb [H1 H2 H3 H4 H5]. unfold clear. rewrite Hb.
  constructor; cbn [arena idx usage entries set_usage set_entries set_idx map].
  - constructor.
  - constructor.
  - intros k i [].
  - reflexivity.
  - reflexivity.
Qed.

Lemma IdxInv_clone c s h h' : IdxInv s -> IdxInv (clone c s h h').
Proof.
  intros H. unfold clone. destruct (hlookup h (handles s)); [|assumption].
  eapply IdxInv_frame; [| | | | exact H]; reflexivity.
Qed.

Lemma IdxInv_step c s o s' :
  bug_clear c = false -> bug_touch c = false -> IdxInv s -> step c s o = Some s' -> IdxInv s'.
Proof.
  intros Hc Ht HI. destruct o; simpl; intros H.
  - eapply IdxInv_insert; eauto.
  - inversion H; subst. apply IdxInv_get; assumption.
  - inversion H; subst. apply IdxInv_touch; assumption.
  - inversion H; subst. assumption.
  - inversion H; subst. apply IdxInv_remove; assumption.
  - inversion H; subst. apply IdxInv_clear; assumption.
  - unfold resize in H. eapply IdxInv_evict_oracle; [|exact H].
    eapply IdxInv_frame; [| | | | exact HI]; reflexivity.
  - unfold evict_all in H. eapply IdxInv_evict_oracle; eauto.
  - unfold flush in H. eapply IdxInv_flush_oracle; eauto.
  - inversion H; subst. apply IdxInv_clone; assumption.
  - inversion H; subst. apply IdxInv_drop; assumption.
Qed.

Lemma IdxInv_run c ops : forall s s',
  bug_clear c = false -> bug_touch c = false -> IdxInv s -> run c s ops = Some s' -> IdxInv s'.
Proof.
  induction ops as [|o ops IH]; intros s s' Hc Ht HI; simpl.
  - intros H; inversion H; subst; assumption.
  - destruct (step c s o) as [s1|] eqn:Hs; [|discriminate].
    intros H. apply (IH s1 s' Hc Ht); [|exact H]. eapply IdxInv_step; eauto.
Qed.
