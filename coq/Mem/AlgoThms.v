(* Theorems about the eviction-container models (C14). *)
From Coq Require Import List NArith Bool Arith Lia Permutation Sorted.
From FV Require Import Base.ListX Mem.Shard Mem.Algo.
Import ListNotations.
Open Scope N_scope.

Arguments N.add : simpl never.
Arguments N.sub : simpl never.
Arguments N.leb : simpl never.

Definition wsum (l : list ent) : N := fold_right (fun e a => ew e + a) 0 l.

Lemma wsum_app l l' : wsum (l ++ l') = wsum l + wsum l'.
Proof. induction l as [|e l IH]; simpl; [lia|]. rewrite IH. lia. Qed.

Lemma take_out_spec {A} (p : A -> bool) l x l' :
  take_out p l = Some (x, l') -> p x = true /\ Permutation l (x :: l') /\
  exists l1 l2, l = l1 ++ x :: l2 /\ l' = l1 ++ l2 /\ forallb (fun y => negb (p y)) l1 = true.
Proof.
  revert x l'. induction l as [|y l IH]; intros x l'; simpl; [discriminate|].
  destruct (p y) eqn:E.
  - intros H; inversion H; subst. split; [assumption|]. split; [apply Permutation_refl|].
    exists [], l'. repeat split.
  - destruct (take_out p l) as [[z l'']|] eqn:T; [|discriminate].
    intros H; inversion H; subst. destruct (IH x l'' eq_refl) as (Hp & Hperm & l1 & l2 & A1 & A2 & A3).
    split; [assumption|]. split.
    + eapply Permutation_trans; [apply perm_skip; exact Hperm|]. apply perm_swap.
    + exists (y :: l1), l2. subst. simpl. rewrite E. simpl. repeat split. assumption.
Qed.

Lemma take_out_none {A} (p : A -> bool) l : take_out p l = None -> forallb (fun y => negb (p y)) l = true.
Proof.
  induction l as [|y l IH]; simpl; [reflexivity|].
  destruct (p y); [discriminate|]. destruct (take_out p l) as [[z l'']|]; [discriminate|].
  intros _. simpl. apply IH. reflexivity.
Qed.

Lemma wsum_perm l l' : Permutation l l' -> wsum l = wsum l'.
Proof. induction 1; simpl; lia. Qed.

(* ================================================================ FIFO *)

(* records enter with increasing ids (an id is the record's allocation number), so "insertion
   order" is id order *)
Definition fifo_sorted (q : fifo) : Prop := StronglySorted (fun a b => (eid a < eid b)%nat) q.

Lemma fifo_push_sorted q e :
  fifo_sorted q -> (forall x, In x q -> (eid x < eid e)%nat) -> fifo_sorted (fifo_push q e).
Proof.
  unfold fifo_sorted, fifo_push. induction q as [|x q IH]; intros Hs Hlt; simpl.
  - constructor; constructor.
  - inversion Hs as [|? ? Hs' Hall]; subst. constructor.
    + apply IH; [assumption|]. intros y Hy. apply Hlt. right; assumption.
    + apply Forall_app. split; [assumption|]. constructor; [|constructor]. apply Hlt. left; reflexivity.
Qed.

Lemma sorted_sublist_take_out (p : ent -> bool) q x q' :
  fifo_sorted q -> take_out p q = Some (x, q') -> fifo_sorted q'.
Proof.
  unfold fifo_sorted. revert x q'. induction q as [|y q IH]; intros x q' Hs; simpl; [discriminate|].
  inversion Hs as [|? ? Hs' Hall]; subst.
  destruct (p y).
  - intros H; inversion H; subst. assumption.
  - destruct (take_out p q) as [[z q'']|] eqn:T; [|discriminate].
    intros H; inversion H; subst. constructor; [eapply IH; eauto|].
    destruct (take_out_spec p q x q'' T) as (_ & Hperm & _).
    rewrite Forall_forall in *. intros w Hw. apply Hall.
    eapply Permutation_in; [apply Permutation_sym; exact Hperm|]. right; assumption.
Qed.

Lemma fifo_remove_sorted q i : fifo_sorted q -> fifo_sorted (fifo_remove q i).
Proof.
  intros Hs. unfold fifo_remove. destruct (take_out (ent_is i) q) as [[x q']|] eqn:T; [|assumption].
  eapply sorted_sublist_take_out; eauto.
Qed.

(* FIFO evicts in insertion order: the victim is the resident record with the smallest id *)
Lemma fifo_pop_min q e q' :
  fifo_sorted q -> fifo_pop q = Some (e, q') ->
  q = e :: q' /\ fifo_sorted q' /\ forall x, In x q' -> (eid e < eid x)%nat.
Proof.
  unfold fifo_pop. destruct q as [|y q]; [discriminate|]. intros Hs H; inversion H; subst.
  inversion Hs as [|? ? Hs' Hall]; subst. repeat split; auto. rewrite Forall_forall in Hall. assumption.
Qed.

(* ================================================================ LRU *)

Record LruInv (s : lru) : Prop := {
  li_hpw : l_hpw s = wsum (l_high s) }.

Lemma lru_overflow_spec : forall high low hpw cap h l w,
  hpw = wsum high -> lru_overflow high low hpw cap = (h, l, w) ->
  w = wsum h /\ w <= cap /\
  exists moved, high = moved ++ h /\ l = low ++ moved.
Proof.
  induction high as [|e high IH]; intros low hpw cap h l w Hw; simpl.
  - destruct (hpw <=? cap) eqn:E; intros H; inversion H; subst; simpl.
    + split; [reflexivity|]. split; [apply N.leb_le in E; simpl in E; exact E|]. exists []. split; [reflexivity|rewrite app_nil_r; reflexivity].
    + split; [reflexivity|]. split; [lia|]. exists []. split; [reflexivity|rewrite app_nil_r; reflexivity].
  - destruct (hpw <=? cap) eqn:E.
    + intros H; inversion H; subst. split; [reflexivity|]. split; [apply N.leb_le; assumption|].
      exists []. split; [reflexivity|rewrite app_nil_r; reflexivity].
    + intros H. simpl in Hw.
      destruct (IH (low ++ [e]) (hpw - ew e) cap h l w ltac:(lia) H) as (A & B & moved & C & D).
      split; [assumption|]. split; [assumption|]. exists (e :: moved). subst. simpl.
      rewrite <- app_assoc. split; reflexivity.
Qed.

(* after every push / release / update the unpinned high-priority weight is within its share, the
   overflow moved the *oldest* high records to the low tail, in order *)
Lemma lru_settle_spec s :
  LruInv s ->
  let s' := lru_settle s in
  LruInv s' /\ l_hpw s' <= l_hpcap s' /\ l_pin s' = l_pin s /\ l_hpcap s' = l_hpcap s /\
  exists moved, l_high s = moved ++ l_high s' /\ l_low s' = l_low s ++ moved.
Proof.
  intros [Hw]. unfold lru_settle.
  destruct (lru_overflow (l_high s) (l_low s) (l_hpw s) (l_hpcap s)) as [[h l] w] eqn:E.
  destruct (lru_overflow_spec _ _ _ _ _ _ _ Hw E) as (A & B & moved & C & D).
  cbn [l_low l_high l_pin l_hpw l_hpcap]. repeat split; auto. exists moved. auto.
Qed.

Lemma LruInv_push s e low : LruInv s -> LruInv (lru_push s e low) /\ l_pin (lru_push s e low) = l_pin s.
Proof.
  intros HI. unfold lru_push. destruct low.
  - split; [|reflexivity]. destruct HI as [Hw]. constructor. exact Hw.
  - set (s1 := mkLru _ _ _ _ _).
    assert (H1 : LruInv s1).
    { destruct HI as [Hw]. constructor. unfold s1; cbn [l_hpw l_high]. rewrite wsum_app, Hw. simpl. lia. }
    destruct (lru_settle_spec s1 H1) as (A & _ & C & _). split; [assumption|]. rewrite C. reflexivity.
Qed.

Lemma lru_push_hp_bound s e : LruInv s -> l_hpw (lru_push s e false) <= l_hpcap s.
Proof.
  intros HI. unfold lru_push. set (s1 := mkLru _ _ _ _ _).
  assert (H1 : LruInv s1).
  { destruct HI as [Hw]. constructor. unfold s1; cbn [l_hpw l_high]. rewrite wsum_app, Hw. simpl. lia. }
  destruct (lru_settle_spec s1 H1) as (_ & B & _ & D & _). rewrite D in B. exact B.
Qed.

(* the victim is the head of the low-priority list, else the head of the high-priority list;
   the pin list is never touched: a looked-up, still-held record is never the victim *)
Lemma lru_pop_spec s e s' :
  LruInv s -> lru_pop s = Some (e, s') ->
  LruInv s' /\ l_pin s' = l_pin s /\
  ((l_low s = e :: l_low s' /\ l_high s' = l_high s) \/
   (l_low s = [] /\ l_low s' = [] /\ l_high s = e :: l_high s')).
Proof.
  intros [Hw]. unfold lru_pop. destruct (l_low s) as [|x low'] eqn:El.
  - destruct (l_high s) as [|y high'] eqn:Eh; [discriminate|].
    intros H; inversion H; subst. cbn [l_low l_high l_pin l_hpw]. split.
    + constructor. cbn [l_hpw l_high]. rewrite Hw. simpl. lia.
    + split; [reflexivity|]. right. auto.
  - intros H; inversion H; subst. cbn [l_low l_high l_pin l_hpw]. split.
    + constructor. cbn [l_hpw l_high]. exact Hw.
    + split; [reflexivity|]. left. auto.
Qed.

Lemma lru_pop_none s : lru_pop s = None <-> l_low s = [] /\ l_high s = [].
Proof.
  unfold lru_pop. destruct (l_low s); [destruct (l_high s)|]; split; intros H; try discriminate; auto;
    destruct H; discriminate.
Qed.

(* a lookup moves the record to the pin list (remembering its pool); its weight leaves the
   high-priority account *)
Lemma lru_acquire_spec s i :
  LruInv s -> LruInv (lru_acquire s i) /\
  (existsb (fun p => ent_is i (fst p)) (l_pin s) = true -> lru_acquire s i = s) /\
  (existsb (fun p => ent_is i (fst p)) (l_pin s) = false ->
   forall e, In e (l_low s ++ l_high s) -> eid e = i ->
   exists e' b, In (e', b) (l_pin (lru_acquire s i)) /\ eid e' = i).
Proof.
  intros [Hw]. unfold lru_acquire. destruct (existsb _ (l_pin s)) eqn:Ex.
  - split; [constructor; assumption|]. split; [reflexivity|discriminate].
  - destruct (take_out (ent_is i) (l_high s)) as [[e high']|] eqn:Th.
    + destruct (take_out_spec _ _ _ _ Th) as (Hp & Hperm & _).
      split; [|split; [discriminate|]].
      * constructor. cbn [l_hpw l_high]. rewrite Hw. rewrite (wsum_perm _ _ Hperm). simpl. lia.
      * intros _ e0 _ _. exists e, true. cbn [l_pin]. split; [apply in_app_iff; right; left; reflexivity|].
        unfold ent_is in Hp. apply Nat.eqb_eq in Hp. assumption.
    + destruct (take_out (ent_is i) (l_low s)) as [[e low']|] eqn:Tl.
      * destruct (take_out_spec _ _ _ _ Tl) as (Hp & _).
        split; [constructor; exact Hw|]. split; [discriminate|].
        intros _ e0 _ _. exists e, false. cbn [l_pin]. split; [apply in_app_iff; right; left; reflexivity|].
        unfold ent_is in Hp. apply Nat.eqb_eq in Hp. assumption.
      * split; [constructor; exact Hw|]. split; [discriminate|].
        intros _ e0 Hin Heq. exfalso.
        pose proof (take_out_none _ _ Th) as Nh. pose proof (take_out_none _ _ Tl) as Nl.
        rewrite forallb_forall in Nh, Nl. apply in_app_iff in Hin. destruct Hin as [Hin|Hin].
        -- specialize (Nl e0 Hin). unfold ent_is in Nl. rewrite Heq, Nat.eqb_refl in Nl. discriminate.
        -- specialize (Nh e0 Hin). unfold ent_is in Nh. rewrite Heq, Nat.eqb_refl in Nh. discriminate.
Qed.

(* releasing the last handle puts the record back at the most-recent end of its pool *)
Lemma lru_release_spec s i :
  LruInv s ->
  LruInv (lru_release s i) /\
  match take_out (fun p => ent_is i (fst p)) (l_pin s) with
  | None => lru_release s i = s
  | Some ((e, true), pin') =>
      l_pin (lru_release s i) = pin' /\ l_hpw (lru_release s i) <= l_hpcap s /\
      exists moved, l_high s ++ [e] = moved ++ l_high (lru_release s i) /\
                    l_low (lru_release s i) = l_low s ++ moved
  | Some ((e, false), pin') =>
      l_pin (lru_release s i) = pin' /\ l_low (lru_release s i) = l_low s ++ [e] /\
      l_high (lru_release s i) = l_high s
  end.
Proof.
  intros [Hw]. unfold lru_release.
  destruct (take_out (fun p => ent_is i (fst p)) (l_pin s)) as [[[e b] pin']|] eqn:T.
  - destruct b.
    + set (s1 := mkLru _ _ _ _ _).
      assert (H1 : LruInv s1).
      { constructor. unfold s1; cbn [l_hpw l_high]. rewrite wsum_app, Hw. simpl. lia. }
      destruct (lru_settle_spec s1 H1) as (A & B & C & D & moved & E & F).
      split; [assumption|]. split; [rewrite C; reflexivity|]. split; [rewrite D in B; exact B|].
      exists moved. split; assumption.
    + split; [constructor; exact Hw|]. repeat split.
  - split; [constructor; exact Hw|reflexivity].
Qed.

(* ================================================================ membership laws *)

(* FIFO, LRU, LFU: pop removes exactly one record from the container *)
Lemma fifo_pop_members q e q' : fifo_pop q = Some (e, q') -> map eid q = eid e :: map eid q'.
Proof. unfold fifo_pop. destruct q; [discriminate|]. intros H; inversion H; subst. reflexivity. Qed.

Lemma lru_pop_members s e s' :
  lru_pop s = Some (e, s') -> Permutation (a_members (ALru s)) (eid e :: a_members (ALru s')).
Proof.
  unfold lru_pop, a_members. destruct (l_low s) as [|x low'] eqn:El.
  - destruct (l_high s) as [|y high'] eqn:Eh; [discriminate|].
    intros H; inversion H; subst. cbn [l_low l_high l_pin map app]. apply Permutation_refl.
  - intros H; inversion H; subst. cbn [l_low l_high l_pin map app]. rewrite Eh || idtac. apply Permutation_refl.
Qed.

Lemma lfu_pop_members bucket s e s' :
  lfu_pop bucket s = Some (e, s') -> Permutation (a_members (ALfu s)) (eid e :: a_members (ALfu s')).
Proof.
  unfold lfu_pop, a_members.
  destruct (f_window s) as [|x w'] eqn:Ew; destruct (f_probation s) as [|y p'] eqn:Ep.
  - destruct (f_protected s) as [|z t'] eqn:Et; [discriminate|].
    intros H; inversion H; subst. cbn [f_window f_probation f_protected lfu_set map app]. apply Permutation_refl.
  - intros H; inversion H; subst. cbn [f_window f_probation f_protected lfu_set map app]. apply Permutation_refl.
  - intros H; inversion H; subst. cbn [f_window f_probation f_protected lfu_set map app]. apply Permutation_refl.
  - destruct (_ <? _); intros H; inversion H; subst; cbn [f_window f_probation f_protected lfu_set map app].
    + apply Permutation_refl.
    + cbn [map app]. apply Permutation_sym. apply (Permutation_middle (eid x :: map eid w')).
Qed.
