(* S3-FIFO (Mem/Algo.v, s3fifo.rs): the published rules of the two queues, and what the frequency cap is for.
   - small queue: records whose frequency reached the threshold move to the main queue (in order, frequency kept),
     the first other one is the victim and its hash is remembered in the ghost queue;
   - main queue: second chance - a record with a positive frequency is re-queued at the tail with the frequency
     decremented, the first record with frequency 0 is the victim;
   - frequencies never exceed 3, so the main-queue scan always ends: a non-empty cache always yields a victim. *)
From Coq Require Import List NArith Bool Arith Lia Permutation.
From FV Require Import Mem.Algo.
Import ListNotations.
Open Scope N_scope.

Arguments N.add : simpl never.
Arguments N.sub : simpl never.
Arguments N.leb : simpl never.
Arguments N.ltb : simpl never.

Fixpoint wsum2 (l : list (ent * N)) : N := match l with [] => 0 | p :: l' => ew (fst p) + wsum2 l' end.
Lemma wsum2_app l l' : wsum2 (l ++ l') = wsum2 l + wsum2 l'.
Proof. induction l as [|x l IH]; cbn [app wsum2]; lia. Qed.

(* ---------------------------------------------------------------- small queue *)

Theorem evict_small_promotes pre : forall s e f post,
  Forall (fun p => s_thr s <= snd p) pre -> f < s_thr s ->
  s3_evict_small (pre ++ (e, f) :: post) s =
    (Some e, ghost_push (s3_with_queues s post (s_main s ++ pre) (s_sw s - wsum2 pre - ew e) (s_mw s + wsum2 pre)) (eh e) (ew e)).
Proof.
  induction pre as [|[e0 f0] pre IH]; intros s e f post Hall Hf; cbn [app s3_evict_small].
  - destruct (N.leb_spec (s_thr s) f) as [Habs|_]; [lia|]. rewrite app_nil_r. cbn [wsum2 ].
    replace (s_sw s - 0 - ew e) with (s_sw s - ew e) by lia. replace (s_mw s + 0) with (s_mw s) by lia. reflexivity.
  - inversion Hall as [|? ? H0 Hall']; subst. cbn [snd] in H0.
    destruct (N.leb_spec (s_thr s) f0) as [_|Habs]; [|lia].
    rewrite IH; [|exact Hall'|exact Hf]. unfold s3_with_queues. cbn [s_main s_sw s_mw s_gq s_gset s_gcap s_gw s_scap s_thr].
    rewrite <- app_assoc. cbn [app wsum2  fst].
    replace (s_sw s - ew e0 - wsum2 pre - ew e) with (s_sw s - (ew e0 + wsum2 pre) - ew e) by lia.
    replace (s_mw s + ew e0 + wsum2 pre) with (s_mw s + (ew e0 + wsum2 pre)) by lia. reflexivity.
Qed.

Theorem evict_small_all_promoted small : forall s,
  Forall (fun p => s_thr s <= snd p) small ->
  s3_evict_small small s = (None, s3_with_queues s [] (s_main s ++ small) (s_sw s - wsum2 small) (s_mw s + wsum2 small))
  \/ small = [].
Proof.
  induction small as [|[e0 f0] small IH]; intros s Hall; [right; reflexivity|left].
  inversion Hall as [|? ? H0 Hall']; subst. cbn [snd] in H0. cbn [s3_evict_small].
  destruct (N.leb_spec (s_thr s) f0) as [_|Habs]; [|lia].
  destruct (IH (s3_with_queues s small (s_main s ++ [(e0, f0)]) (s_sw s - ew e0) (s_mw s + ew e0))) as [E|E].
  - exact Hall'.
  - rewrite E. unfold s3_with_queues. cbn [s_main s_sw s_mw s_gq s_gset s_gcap s_gw s_scap s_thr].
    rewrite <- app_assoc. cbn [app wsum2  fst].
    replace (s_sw s - ew e0 - wsum2 small) with (s_sw s - (ew e0 + wsum2 small)) by lia.
    replace (s_mw s + ew e0 + wsum2 small) with (s_mw s + (ew e0 + wsum2 small)) by lia. reflexivity.
  - subst small. cbn [s3_evict_small app wsum2  fst]. unfold s3_with_queues.
    cbn [s_main s_sw s_mw s_gq s_gset s_gcap s_gw s_scap s_thr].
    replace (s_sw s - (ew e0 + 0)) with (s_sw s - ew e0) by lia. replace (s_mw s + (ew e0 + 0)) with (s_mw s + ew e0) by lia.
    reflexivity.
Qed.

(* ---------------------------------------------------------------- main queue *)

Definition dec (p : ent * N) : ent * N := (fst p, snd p - 1).

(* second chance, one pass: the records in front of the first zero-frequency record are re-queued, decremented *)
Theorem evict_main_second_chance pre : forall fuel s e post,
  s_main s = pre ++ (e, 0) :: post -> Forall (fun p => 0 < snd p) pre -> (length pre < fuel)%nat ->
  s3_evict_main fuel s = Some (e, s3_with_queues s (s_small s) (post ++ map dec pre) (s_sw s) (s_mw s - ew e)).
Proof.
  induction pre as [|[e0 f0] pre IH]; intros fuel s e post Hm Hall Hf; (destruct fuel as [|fuel]; [cbn [length] in Hf; lia|]);
    cbn [s3_evict_main]; rewrite Hm; cbn [app].
  - destruct (N.ltb_spec 0 0) as [Habs|_]; [lia|]. cbn [map]. rewrite app_nil_r. reflexivity.
  - inversion Hall as [|? ? H0 Hall']; subst. cbn [snd] in H0.
    destruct (N.ltb_spec 0 f0) as [_|Habs]; [|lia].
    rewrite (IH fuel _ e (post ++ [(e0, f0 - 1)])).
    + unfold s3_with_queues. cbn [s_small s_main s_sw s_mw s_gq s_gset s_gcap s_gw s_scap s_thr map dec fst snd].
      rewrite <- app_assoc. reflexivity.
    + unfold s3_with_queues. cbn [s_main]. rewrite <- app_assoc. reflexivity.
    + exact Hall'.
    + cbn [length] in Hf. lia.
Qed.

Fixpoint fsum (l : list (ent * N)) : N := match l with [] => 0 | p :: l' => snd p + fsum l' end.
Lemma fsum_app l l' : fsum (l ++ l') = fsum l + fsum l'.
Proof. induction l as [|x l IH]; cbn [app fsum]; lia. Qed.

(* the scan ends: each round either evicts or takes one unit of frequency away *)
Theorem evict_main_ends : forall fuel s,
  s_main s <> [] -> (N.to_nat (fsum (s_main s)) < fuel)%nat -> exists e s', s3_evict_main fuel s = Some (e, s').
Proof.
  induction fuel as [|fuel IH]; intros s Hne Hf; [lia|]. cbn [s3_evict_main].
  destruct (s_main s) as [|[e f] main'] eqn:Hm; [congruence|].
  destruct (N.ltb_spec 0 f) as [Hpos|_]; [|eauto].
  apply IH.
  - unfold s3_with_queues. cbn [s_main]. destruct main'; discriminate.
  - unfold s3_with_queues. cbn [s_main]. rewrite fsum_app. cbn [fsum  snd] in *. lia.
Qed.

(* frequencies are capped at 3 (S3FifoState::MAX_FREQUENCY) *)
Definition capped (l : list (ent * N)) : Prop := Forall (fun p => snd p <= 3) l.
Definition S3Inv (s : s3) : Prop := capped (s_small s) /\ capped (s_main s).

Lemma capped_fsum l : capped l -> fsum l <= 3 * N.of_nat (length l).
Proof.
  induction 1 as [|x l Hx Hl IH]; cbn [fsum  length]; [lia|]. rewrite Nat2N.inj_succ. lia.
Qed.

Lemma bump_capped i l : capped l -> capped (bump i l).
Proof.
  unfold capped, bump. intros H. apply Forall_forall. intros p Hp. apply in_map_iff in Hp. destruct Hp as [x [<- Hx]].
  rewrite Forall_forall in H. specialize (H x Hx). destruct (ent_is i (fst x)); cbn [snd]; lia.
Qed.

Theorem S3Inv_acquire s i : S3Inv s -> S3Inv (s3_acquire s i).
Proof. intros [A B]. split; cbn [s3_acquire s3_with_queues s_small s_main]; apply bump_capped; assumption. Qed.

Theorem S3Inv_push s e : S3Inv s -> S3Inv (s3_push s e).
Proof.
  intros [A B]. unfold s3_push, S3Inv, capped in *.
  assert (H0 : Forall (fun p : ent * N => snd p <= 3) [(e, 0)]) by (constructor; [cbn [snd]; lia|constructor]).
  destruct (nmem _ _); cbn [s3_with_queues s_small s_main]; split; auto; apply Forall_app; split; assumption.
Qed.

Lemma evict_small_none small : forall s s1,
  s3_evict_small small s = (None, s1) -> Forall (fun p => s_thr s <= snd p) small.
Proof.
  induction small as [|[e0 f0] small IH]; intros s s1 Es; [constructor|].
  cbn [s3_evict_small] in Es. destruct (N.leb_spec (s_thr s) f0) as [Hle|Hgt]; [|discriminate].
  constructor; [exact Hle|]. exact (IH _ _ Es).
Qed.

(* a non-empty cache always yields a victim: with the cap the main-queue scan needs at most 3 rounds per record *)
Theorem s3_pop_total s : S3Inv s -> s_small s <> [] \/ s_main s <> [] -> exists e s', s3_pop s = Some (e, s').
Proof.
  intros [Hs Hm] Hne. unfold s3_pop.
  assert (Hmain : forall s1, capped (s_main s1) -> s_main s1 <> [] ->
            exists e s', s3_evict_main (4 * length (s_main s1) + 1) s1 = Some (e, s')).
  { intros s1 Hc Hn. apply evict_main_ends; [exact Hn|]. pose proof (capped_fsum _ Hc). lia. }
  destruct (s_scap s <? s_sw s).
  - destruct (s3_evict_small (s_small s) s) as [[e|] s1] eqn:Es; [eauto|].
    (* nothing evicted from small: every record was promoted *)
    pose proof (evict_small_none _ _ _ Es) as Hall.
    destruct (evict_small_all_promoted (s_small s) s Hall) as [E|E].
    + rewrite E in Es. inversion Es; subst s1. clear Es.
      set (s1 := s3_with_queues s [] (s_main s ++ s_small s) (s_sw s - wsum2 (s_small s)) (s_mw s + wsum2 (s_small s))).
      destruct (Hmain s1) as (e & s' & He).
      * unfold s1. cbn [s3_with_queues s_main]. apply Forall_app. split; [exact Hm|exact Hs].
      * unfold s1. cbn [s3_with_queues s_main]. intros Habs. apply app_eq_nil in Habs. destruct Habs. destruct Hne; congruence.
      * rewrite He. eauto.
    + rewrite E in Es. cbn [s3_evict_small] in Es. inversion Es; subst s1.
      destruct Hne as [Hn|Hn]; [congruence|]. destruct (Hmain s Hm Hn) as (e & s' & He). rewrite He. eauto.
  - destruct (s_main s) as [|x main] eqn:Em.
    + destruct Hne as [Hn|Hn]; [|congruence]. cbn [length]. change (4 * 0 + 1)%nat with 1%nat. cbn [s3_evict_main]. rewrite Em.
      unfold s3_evict_small_force. destruct (s_small s) as [|[e f] small]; [congruence|eauto].
    + destruct (Hmain s) as (e & s' & He); [rewrite Em; exact Hm|rewrite Em; discriminate|].
      rewrite Em in He. rewrite He. eauto.
Qed.
