(* SIEVE (Mem/Algo.v, sieve.rs): the victim is the first record, in queue order from the hand and wrapping at the
   tail, whose visited bit is clear; the bits of the records the hand passes are cleared and nothing else changes;
   if every record is visited the hand goes once around and takes the record it started from. *)
From Coq Require Import List NArith Bool Arith Lia.
From FV Require Import Mem.Algo.
Import ListNotations.

Definition vis (q : list (ent * bool)) (j : nat) : option bool :=
  match nth_error q j with Some (_, b) => Some b | None => None end.

(* clear the visited bits of [n] records starting at position [a] *)
Fixpoint clear_from (a n : nat) (q : list (ent * bool)) : list (ent * bool) :=
  match q with
  | [] => []
  | (e, b) :: q' =>
      match a with
      | S a' => (e, b) :: clear_from a' n q'
      | O => match n with O => (e, b) :: q' | S n' => (e, false) :: clear_from O n' q' end
      end
  end.

Lemma clear_from_0 a q : clear_from a 0 q = q.
Proof.
  revert a. induction q as [|[e b] q IH]; intros a; cbn [clear_from]; [reflexivity|].
  destruct a; [reflexivity|]. rewrite IH. reflexivity.
Qed.

Lemma clear_from_length a n q : length (clear_from a n q) = length q.
Proof.
  revert a n. induction q as [|[e b] q IH]; intros a n; cbn [clear_from]; [reflexivity|].
  destruct a; [destruct n|]; cbn [length]; rewrite ?IH; reflexivity.
Qed.

Lemma clear_from_fst a n q : map fst (clear_from a n q) = map fst q.
Proof.
  revert a n. induction q as [|[e b] q IH]; intros a n; cbn [clear_from]; [reflexivity|].
  destruct a; [destruct n|]; cbn [map fst]; rewrite ?IH; reflexivity.
Qed.

Lemma set_visited_clear p q : set_visited p false q = clear_from p 1 q.
Proof.
  revert p. induction q as [|[e b] q IH]; intros p; [destruct p; reflexivity|].
  destruct p; cbn [set_visited clear_from]; [rewrite clear_from_0; reflexivity|]. rewrite IH. reflexivity.
Qed.

(* clearing one record and then the next n = clearing n+1 *)
Lemma clear_from_step p n q : (p < length q)%nat ->
  clear_from (S p) n (clear_from p 1 q) = clear_from p (S n) q.
Proof.
  revert p. induction q as [|[e b] q IH]; intros p Hp; cbn [length] in Hp; [lia|].
  destruct p.
  - cbn [clear_from]. rewrite clear_from_0. reflexivity.
  - cbn [clear_from]. rewrite IH by lia. reflexivity.
Qed.

Lemma vis_clear_other a n q j : (j < a \/ a + n <= j)%nat -> vis (clear_from a n q) j = vis q j.
Proof.
  revert a n j. induction q as [|[e b] q IH]; intros a n j Hj; cbn [clear_from]; [reflexivity|].
  destruct a.
  - destruct n; [reflexivity|]. destruct j; [lia|]. unfold vis in *. cbn [nth_error]. apply (IH 0%nat n j). lia.
  - destruct j; [reflexivity|]. unfold vis in *. cbn [nth_error]. apply (IH a n j). lia.
Qed.

Lemma vis_clear_in a n q j : (a <= j < a + n)%nat -> (j < length q)%nat -> vis (clear_from a n q) j = Some false.
Proof.
  revert a n j. induction q as [|[e b] q IH]; intros a n j Hj Hl; cbn [length] in Hl; [lia|]. cbn [clear_from].
  destruct a.
  - destruct n; [lia|]. destruct j; [reflexivity|]. unfold vis in *. cbn [nth_error]. apply (IH 0%nat n j); lia.
  - destruct j; [lia|]. unfold vis in *. cbn [nth_error]. apply (IH a n j); lia.
Qed.

(* clearing [a, len) and then [0, a) clears everything *)
Lemma clear_two q : forall a, (a <= length q)%nat ->
  clear_from 0 a (clear_from a (length q - a) q) = clear_from 0 (length q) q.
Proof.
  induction q as [|[e b] q IH]; intros a Ha; [destruct a; reflexivity|].
  destruct a as [|a'].
  - replace (length ((e, b) :: q) - 0)%nat with (length ((e, b) :: q)) by lia.
    change (clear_from 0 0 ?x) with x. generalize (clear_from 0 (length ((e, b) :: q)) ((e, b) :: q)).
    intros l. destruct l as [|[e0 b0] l]; reflexivity.
  - cbn [length] in *. replace (S (length q) - S a')%nat with (length q - a')%nat by lia.
    cbn [clear_from]. rewrite IH by lia. reflexivity.
Qed.

(* the hand finds an unvisited record at or behind its position, without wrapping *)
Lemma scan_forward q : forall d fuel p j,
  j = (p + d)%nat -> (j < length q)%nat -> (d < fuel)%nat ->
  vis q j = Some false -> (forall i, (p <= i < j)%nat -> vis q i = Some true) ->
  sieve_scan fuel p q = Some (j, clear_from p d q).
Proof.
  intros d. revert q. induction d as [|d IH]; intros q fuel p j Hj Hl Hf Hv Hall.
  - rewrite Nat.add_0_r in Hj. subst j. destruct fuel; [lia|]. cbn [sieve_scan].
    revert Hv. unfold vis. destruct (nth_error q p) as [[e b]|]; [|intros Hv; discriminate Hv]. intros Hv. inversion Hv as [Hb]; subst b.
    rewrite clear_from_0. reflexivity.
  - destruct fuel; [lia|]. cbn [sieve_scan].
    assert (Hp : vis q p = Some true) by (apply Hall; lia).
    revert Hp. unfold vis. destruct (nth_error q p) as [[e b]|] eqn:En; [|intros Hp; discriminate Hp]. intros Hp. inversion Hp as [Hb]; subst b; clear Hp.
    destruct (Nat.eqb_spec (S p) (length q)) as [E|_]; [lia|].
    rewrite set_visited_clear.
    rewrite (IH (clear_from p 1 q) fuel (S p) j); try lia.
    + rewrite clear_from_step by lia. reflexivity.
    + rewrite clear_from_length. lia.
    + rewrite vis_clear_other by lia. exact Hv.
    + intros i Hi. rewrite vis_clear_other by lia. apply Hall. lia.
Qed.

(* every record from the hand to the tail is visited: the hand clears them and wraps to the front *)
Lemma scan_wrap q : forall d fuel p,
  length q = (p + S d)%nat -> (S d <= fuel)%nat ->
  (forall i, (p <= i < length q)%nat -> vis q i = Some true) ->
  sieve_scan fuel p q = sieve_scan (fuel - S d) 0 (clear_from p (S d) q).
Proof.
  intros d. revert q. induction d as [|d IH]; intros q fuel p Hl Hf Hall.
  - destruct fuel; [lia|]. cbn [sieve_scan].
    assert (Hp : vis q p = Some true) by (apply Hall; lia).
    revert Hp. unfold vis. destruct (nth_error q p) as [[e b]|] eqn:En; [|intros Hp; discriminate Hp]. intros Hp. inversion Hp as [Hb]; subst b; clear Hp.
    destruct (Nat.eqb_spec (S p) (length q)) as [_|E]; [|lia].
    rewrite set_visited_clear. replace (S fuel - 1)%nat with fuel by lia. reflexivity.
  - destruct fuel; [lia|]. cbn [sieve_scan].
    assert (Hp : vis q p = Some true) by (apply Hall; lia).
    revert Hp. unfold vis. destruct (nth_error q p) as [[e b]|] eqn:En; [|intros Hp; discriminate Hp]. intros Hp. inversion Hp as [Hb]; subst b; clear Hp.
    destruct (Nat.eqb_spec (S p) (length q)) as [E|_]; [lia|].
    rewrite set_visited_clear.
    rewrite (IH (clear_from p 1 q) fuel (S p)).
    + rewrite clear_from_step by lia. replace (S fuel - S (S d))%nat with (fuel - S d)%nat by lia. reflexivity.
    + rewrite clear_from_length. lia.
    + lia.
    + intros i Hi. rewrite clear_from_length in Hi. rewrite vis_clear_other by lia. apply Hall. lia.
Qed.

(* the three cases of the published rule *)
Theorem sieve_scan_spec q p : (p < length q)%nat ->
  let fuel := (2 * length q + 1)%nat in
  (* 1. an unvisited record at or behind the hand: the first of them; the visited ones before it are cleared *)
  (forall j, (p <= j < length q)%nat -> vis q j = Some false -> (forall i, (p <= i < j)%nat -> vis q i = Some true) ->
     sieve_scan fuel p q = Some (j, clear_from p (j - p) q)) /\
  (* 2. none behind the hand, but one in front of it: the hand wraps *)
  (forall j, (j < p)%nat -> vis q j = Some false -> (forall i, (i < j)%nat -> vis q i = Some true) ->
     (forall i, (p <= i < length q)%nat -> vis q i = Some true) ->
     sieve_scan fuel p q = Some (j, clear_from 0 j (clear_from p (length q - p) q))) /\
  (* 3. every record visited: once around, all bits cleared, the record under the hand goes *)
  ((forall i, (i < length q)%nat -> vis q i = Some true) ->
     sieve_scan fuel p q = Some (p, clear_from 0 (length q) q)).
Proof.
  intros Hp fuel. split; [|split].
  - intros j Hj Hv Hall. apply (scan_forward q (j - p)); try (unfold fuel; lia); auto.
  - intros j Hj Hv Hfront Hback.
    rewrite (scan_wrap q (length q - p - 1) fuel p); try (unfold fuel; lia); auto.
    replace (S (length q - p - 1)) with (length q - p)%nat by lia.
    set (q1 := clear_from p (length q - p) q).
    rewrite (scan_forward q1 j (fuel - (length q - p)) 0 j); try (unfold fuel; lia).
    + reflexivity.
    + unfold q1. rewrite clear_from_length. lia.
    + unfold q1. rewrite vis_clear_other by lia. exact Hv.
    + intros i Hi. unfold q1. rewrite vis_clear_other by lia. apply Hfront. lia.
  - intros Hall.
    rewrite (scan_wrap q (length q - p - 1) fuel p); try (unfold fuel; lia); [|intros i Hi; apply Hall; lia].
    replace (S (length q - p - 1)) with (length q - p)%nat by lia.
    set (q1 := clear_from p (length q - p) q).
    assert (Hl1 : length q1 = length q) by (unfold q1; apply clear_from_length).
    destruct p as [|p'].
    + (* the hand started at the front: everything is cleared already *)
      assert (Eq1 : q1 = clear_from 0 (length q) q) by (unfold q1; f_equal; lia).
      replace (length q - 0)%nat with (length q) by lia.
      rewrite (scan_forward q1 0 (fuel - length q) 0 0); try (unfold fuel; lia).
      * rewrite clear_from_0, Eq1. reflexivity.
      * unfold q1. apply vis_clear_in; lia.
    + (* front part still visited: cleared on the second pass, which stops at the starting record *)
      rewrite (scan_forward q1 (S p') (fuel - (length q - S p')) 0 (S p')); try (unfold fuel; lia).
      * unfold q1. rewrite clear_two by lia. reflexivity.
      * unfold q1. apply vis_clear_in; lia.
      * intros i Hi. unfold q1. rewrite vis_clear_other by lia. apply Hall. lia.
Qed.

(* pop takes exactly its victim out of the queue *)
Lemma remove_nth_fst {A B} n (l : list (A * B)) : map fst (remove_nth n l) = remove_nth n (map fst l).
Proof. revert n. induction l as [|x l IH]; intros [|n]; cbn [remove_nth map]; try reflexivity. rewrite IH. reflexivity. Qed.

Theorem sieve_pop_members s e s' :
  sieve_pop s = Some (e, s') ->
  exists p q', nth_error q' p = Some (e, false) /\ map fst q' = map fst (v_q s) /\
               map fst (v_q s') = remove_nth p (map fst (v_q s)).
Proof.
  unfold sieve_pop. set (start := match v_hand s with Some h => _ | None => _ end).
  destruct (sieve_scan _ start (v_q s)) as [[p q]|] eqn:Es; [|discriminate].
  destruct (nth_error q p) as [[e0 b0]|] eqn:En; [|discriminate].
  intros H; inversion H; subst. cbn [v_q].
  assert (Hscan : forall fuel p0 q0 p1 q1, sieve_scan fuel p0 q0 = Some (p1, q1) ->
            map fst q1 = map fst q0 /\ exists e1, nth_error q1 p1 = Some (e1, false)).
  { clear. induction fuel as [|fuel IH]; intros p0 q0 p1 q1; cbn [sieve_scan]; [discriminate|].
    destruct (nth_error q0 p0) as [[e b]|] eqn:E; [|discriminate]. destruct b.
    - destruct (Nat.eqb (S p0) (length q0)); intros H; apply IH in H; destruct H as [H1 H2];
        (split; [rewrite H1, set_visited_clear; apply clear_from_fst|exact H2]).
    - intros H; inversion H; subst. split; [reflexivity|eauto]. }
  destruct (Hscan _ _ _ _ _ Es) as [Hf [e1 He1]]. rewrite En in He1. inversion He1; subst.
  exists p, q. repeat split; auto. rewrite remove_nth_fst, Hf. reflexivity.
Qed.
