(* Lemmas about the list utilities of Shard.v and the frame (which step changes which field). *)
From Coq Require Import List NArith Bool Arith Lia.
From FV Require Import Base.ListX Mem.Shard.
Import ListNotations.
Open Scope N_scope.

(* ---------------------------------------------------------------- lookup / remove_key *)

Lemma lookup_In k l i : lookup k l = Some i -> In (k, i) l.
Proof.
  induction l as [|[k' j] l IH]; simpl; [discriminate|].
  destruct (N.eqb_spec k k') as [->|Hne]; intros H.
  - inversion H; subst. left; reflexivity.
  - right. apply IH. exact H.
Qed.

Lemma lookup_None k l : lookup k l = None -> ~ In k (map fst l).
Proof.
  induction l as [|[k' j] l IH]; simpl; intros H; [tauto|].
  destruct (N.eqb_spec k k') as [->|Hne]; [discriminate|].
  intros [Heq|Hin]; [congruence|]. apply IH; assumption.
Qed.

Lemma In_lookup k i l : NoDup (map fst l) -> In (k, i) l -> lookup k l = Some i.
Proof.
  induction l as [|[k' j] l IH]; simpl; intros Hnd Hin; [contradiction|].
  inversion Hnd as [|? ? Hnot Hnd']; subst.
  destruct (N.eqb_spec k k') as [->|Hne].
  - destruct Hin as [Heq|Hin]; [inversion Heq; reflexivity|].
    exfalso. apply Hnot. apply in_map_iff. exists (k', i). auto.
  - destruct Hin as [Heq|Hin]; [inversion Heq; congruence|]. apply IH; assumption.
Qed.

Lemma lookup_Some_in_keys k l i : lookup k l = Some i -> In k (map fst l).
Proof. intros H. apply lookup_In in H. apply in_map_iff. exists (k, i). auto. Qed.

Lemma remove_key_In k l p : In p (remove_key k l) <-> In p l /\ fst p <> k.
Proof.
  induction l as [|[k' j] l IH]; simpl; [tauto|].
  destruct (N.eqb_spec k k') as [->|Hne]; simpl.
  - rewrite IH. split.
    + intros [H1 H2]. auto.
    + intros [[H1|H1] H2]; [subst; simpl in H2; congruence| auto].
  - rewrite IH. split.
    + intros [H|[H1 H2]]; [subst; simpl; split; [auto|congruence]| auto].
    + intros [[H1|H1] H2]; auto.
Qed.

Lemma remove_key_notin k l : ~ In k (map fst (remove_key k l)).
Proof.
  intros H. apply in_map_iff in H. destruct H as [p [Hp Hin]].
  apply remove_key_In in Hin. destruct Hin as [_ Hne]. congruence.
Qed.

Lemma remove_key_map_fst_incl k l x : In x (map fst (remove_key k l)) -> In x (map fst l).
Proof.
  intros H. apply in_map_iff in H. destruct H as [p [Hp Hin]].
  apply remove_key_In in Hin. apply in_map_iff. exists p. tauto.
Qed.

Lemma remove_key_map_snd_incl k l x : In x (map snd (remove_key k l)) -> In x (map snd l).
Proof.
  intros H. apply in_map_iff in H. destruct H as [p [Hp Hin]].
  apply remove_key_In in Hin. apply in_map_iff. exists p. tauto.
Qed.

Lemma remove_key_nodup_fst k l : NoDup (map fst l) -> NoDup (map fst (remove_key k l)).
Proof.
  induction l as [|[k' j] l IH]; simpl; intros Hnd; [constructor|].
  inversion Hnd as [|? ? Hnot Hnd']; subst.
  destruct (N.eqb k k'); [auto|]. simpl. constructor; [|auto].
  intros H. apply Hnot. eapply remove_key_map_fst_incl; eauto.
Qed.

Lemma remove_key_nodup_snd k l : NoDup (map snd l) -> NoDup (map snd (remove_key k l)).
Proof.
  induction l as [|[k' j] l IH]; simpl; intros Hnd; [constructor|].
  inversion Hnd as [|? ? Hnot Hnd']; subst.
  destruct (N.eqb k k'); [auto|]. simpl. constructor; [|auto].
  intros H. apply Hnot. eapply remove_key_map_snd_incl; eauto.
Qed.

Lemma remove_key_none k l : lookup k l = None -> remove_key k l = l.
Proof.
  induction l as [|[k' j] l IH]; simpl; [reflexivity|].
  destruct (N.eqb k k'); [discriminate|]. intros H. rewrite IH; auto.
Qed.

Lemma remove_key_length k l i :
  NoDup (map fst l) -> lookup k l = Some i -> S (length (remove_key k l)) = length l.
Proof.
  induction l as [|[k' j] l IH]; simpl; intros Hnd H; [discriminate|].
  inversion Hnd as [|? ? Hnot Hnd']; subst.
  destruct (N.eqb_spec k k') as [->|Hne].
  - rewrite remove_key_none; [reflexivity|].
    destruct (lookup k' l) eqn:E; [|reflexivity].
    exfalso. apply Hnot. eapply lookup_Some_in_keys; eauto.
  - simpl. f_equal. eapply IH; eauto.
Qed.

Lemma remove_key_snd_notin k l i :
  NoDup (map fst l) -> NoDup (map snd l) -> lookup k l = Some i -> ~ In i (map snd (remove_key k l)).
Proof.
  intros Hf Hs Hl Hin. apply in_map_iff in Hin. destruct Hin as [[k' i'] [Heq Hin]]. simpl in Heq; subst i'.
  apply remove_key_In in Hin. destruct Hin as [Hin Hne]. simpl in Hne.
  apply lookup_In in Hl. apply Hne. eapply NoDup_map_inj_pair_snd; eauto.
Qed.

Lemma lookup_remove_key_other k k' l : k <> k' -> lookup k (remove_key k' l) = lookup k l.
Proof.
  intros Hne. induction l as [|[k2 j] l IH]; simpl; [reflexivity|].
  destruct (N.eqb_spec k' k2) as [->|H2]; simpl.
  - destruct (N.eqb_spec k k2); [congruence|]. exact IH.
  - destruct (N.eqb k k2); [reflexivity|exact IH].
Qed.

Lemma lookup_remove_key_same k l : lookup k (remove_key k l) = None.
Proof.
  destruct (lookup k (remove_key k l)) eqn:E; [|reflexivity].
  exfalso. eapply remove_key_notin. eapply lookup_Some_in_keys; eauto.
Qed.

(* ---------------------------------------------------------------- memb / remove_id *)

Lemma memb_In i l : memb i l = true <-> In i l.
Proof.
  induction l as [|j l IH]; simpl; [split; [discriminate|tauto]|].
  rewrite orb_true_iff, IH. destruct (Nat.eqb_spec i j); split; intros H; auto.
  - destruct H as [H|H]; [discriminate|auto].
  - destruct H as [H|H]; [congruence|auto].
Qed.

Lemma memb_false i l : memb i l = false <-> ~ In i l.
Proof. rewrite <- memb_In. destruct (memb i l); split; congruence. Qed.

Lemma remove_id_In i l x : In x (remove_id i l) <-> In x l /\ x <> i.
Proof.
  induction l as [|j l IH]; simpl; [tauto|].
  destruct (Nat.eqb_spec i j) as [->|Hne]; simpl; rewrite IH; split.
  - intros [H1 H2]; auto.
  - intros [[H1|H1] H2]; [congruence|auto].
  - intros [H|[H1 H2]]; [subst; auto|auto].
  - intros [[H1|H1] H2]; auto.
Qed.

(* ---------------------------------------------------------------- upd *)

Lemma upd_length {A} i (f : A -> A) l : length (upd i f l) = length l.
Proof. revert i; induction l as [|x l IH]; intros [|i]; simpl; auto. Qed.

Lemma nth_upd_same {A} i (f : A -> A) l d : (i < length l)%nat -> nth i (upd i f l) d = f (nth i l d).
Proof.
  revert i; induction l as [|x l IH]; intros [|i] H; simpl in *; try lia; auto. apply IH. lia.
Qed.

Lemma nth_upd_other {A} i j (f : A -> A) l d : i <> j -> nth j (upd i f l) d = nth j l d.
Proof.
  revert i j; induction l as [|x l IH]; intros [|i] [|j] H; simpl; auto; try congruence.
Qed.

(* ---------------------------------------------------------------- handles *)

Definition hcount (hs : list (N * id)) (i : id) : N :=
  N.of_nat (length (filter (fun p => Nat.eqb (snd p) i) hs)).

Lemma handle_count_eq s i : handle_count s i = hcount (handles s) i.
Proof. reflexivity. Qed.

Lemma hcount_cons h j hs i :
  hcount ((h, j) :: hs) i = (if Nat.eqb j i then 1 else 0) + hcount hs i.
Proof.
  unfold hcount. cbn [filter snd]. destruct (Nat.eqb j i); cbn [length]; [rewrite Nat2N.inj_succ|]; lia.
Qed.

Lemma hlookup_In h hs i : hlookup h hs = Some i -> In (h, i) hs.
Proof.
  induction hs as [|[h' j] hs IH]; simpl; [discriminate|].
  destruct (N.eqb_spec h h') as [->|Hne]; intros H.
  - inversion H; subst. left; reflexivity.
  - right; auto.
Qed.

Lemma hremove_In h hs p : In p (hremove h hs) -> In p hs.
Proof.
  induction hs as [|[h' j] hs IH]; simpl; [tauto|].
  destruct (N.eqb h h'); simpl; intros H; auto. destruct H; auto.
Qed.

Lemma hcount_hremove h hs i j :
  hlookup h hs = Some i ->
  hcount hs j = (if Nat.eqb i j then 1 else 0) + hcount (hremove h hs) j.
Proof.
  induction hs as [|[h' i'] hs IH]; simpl; [discriminate|].
  destruct (N.eqb_spec h h') as [->|Hne]; intros H.
  - inversion H; subst. rewrite hcount_cons. reflexivity.
  - rewrite !hcount_cons. rewrite (IH H). lia.
Qed.

(* ---------------------------------------------------------------- weights *)

Definition sumw (a : list rec) (l : list (N * id)) : N :=
  fold_right (fun p acc => rweight (nth (snd p) a dummy_rec) + acc) 0 l.

Lemma sum_weights_eq s : sum_weights s = sumw (arena s) (idx s).
Proof. reflexivity. Qed.

Lemma sumw_remove_key a k l i :
  NoDup (map fst l) -> lookup k l = Some i ->
  sumw a l = rweight (nth i a dummy_rec) + sumw a (remove_key k l).
Proof.
  induction l as [|[k' j] l IH]; simpl; intros Hnd H; [discriminate|].
  inversion Hnd as [|? ? Hnot Hnd']; subst.
  destruct (N.eqb_spec k k') as [->|Hne].
  - inversion H; subst. rewrite remove_key_none; [reflexivity|].
    destruct (lookup k' l) eqn:E; [|reflexivity].
    exfalso. apply Hnot. eapply lookup_Some_in_keys; eauto.
  - simpl. rewrite (IH Hnd' H). lia.
Qed.

Lemma sumw_arena_app a r l :
  (forall p, In p l -> (snd p < length a)%nat) -> sumw (a ++ [r]) l = sumw a l.
Proof.
  induction l as [|p l IH]; simpl; intros H; [reflexivity|].
  rewrite IH by auto. rewrite nth_app_left by auto. reflexivity.
Qed.

Lemma sumw_ge a k l i :
  NoDup (map fst l) -> lookup k l = Some i -> rweight (nth i a dummy_rec) <= sumw a l.
Proof. intros Hnd H. rewrite (sumw_remove_key a k l i Hnd H). lia. Qed.
