(* The sequential memory shard, seen through one key, IS the specification of C02: an atomic register whose reads
   may additionally miss.  Together with Linear.atomic_points_linearizable: if every operation of the real cache takes
   effect atomically (under the shard lock) at one point inside its interval, concurrent histories are linearizable. *)
From Coq Require Import List NArith Bool Arith Lia.
From FV Require Import Base.ListX Mem.Shard Mem.ShardLemmas Mem.ShardInv Mem.ShardRefs Mem.ShardThms Mem.Linear.
Import ListNotations.
Open Scope N_scope.

(* what a lookup of key k returns in state s *)
Definition cur (s : shard) (k : N) : option N :=
  match lookup k (idx s) with Some i => Some (rval (get_rec s i)) | None => None end.

(* the event a shard operation is, for key k (lookups carry what they return) *)
Definition kind_of (s : shard) (o : op) (k : N) : option kind :=
  match o with
  | OInsert k' v _ _ _ ph _ _ => if k' =? k then Some (if ph then KDelete else KWrite v) else None
  | OGet k' _ => if k' =? k then Some (KRead (cur s k)) else None
  | ORemove k' _ => if k' =? k then Some KDelete else None
  | OClear => Some KDelete
  | _ => None
  end.

Fixpoint trace (c : cfg) (s : shard) (ops : list op) (k : N) (n : N) : option (list ev) :=
  match ops with
  | [] => Some []
  | o :: ops' =>
      match step c s o with
      | None => None
      | Some s' =>
          match trace c s' ops' k (n + 1) with
          | None => None
          | Some l => Some (match kind_of s o k with Some kd => mkEv n kd (2 * n) (2 * n + 1) :: l | None => l end)
          end
      end
  end.

Lemma evict_oracle_lookup c target vs : forall s s' k,
  evict_oracle c target vs s = Some s' -> lookup k (idx s') = lookup k (idx s) \/ lookup k (idx s') = None.
Proof.
  induction vs as [|k0 vs IH]; intros s s' k; simpl.
  - destruct (_ || _); intros H; inversion H; subst; auto.
  - destruct (usage s <=? target); [discriminate|].
    destruct (lookup k0 (idx s)) as [i|] eqn:Hl; [|discriminate].
    destruct (memb i (pinned s)); [discriminate|].
    intros H. destruct (IH _ _ k H) as [E|E]; [|auto].
    rewrite E, evict_one_idx. destruct (N.eq_dec k k0) as [->|Hne].
    + right. apply lookup_remove_key_same.
    + left. apply lookup_remove_key_other; auto.
Qed.

Lemma acquire_idx c s i : idx (acquire c s i) = idx s.
Proof. unfold acquire. destruct (pins c && indexed s i && negb (memb i (pinned s))); reflexivity. Qed.
Lemma release_idx c s i : idx (release c s i) = idx s.
Proof. unfold release. destruct (pins c && indexed s i && memb i (pinned s)); reflexivity. Qed.
Lemma add_pipe_idx c s i : idx (add_pipe c s i) = idx s.
Proof. unfold add_pipe. destruct (piped c); reflexivity. Qed.
Lemma get_idx c s k h : idx (get c s k h) = idx s.
Proof. unfold get. destruct (lookup k (idx s)); [|reflexivity]. sproj. rewrite acquire_idx. reflexivity. Qed.
Lemma drop_idx c s h : idx (drop c s h) = idx s.
Proof.
  unfold drop. destruct (hlookup h (handles s)) as [i|]; [|reflexivity].
  destruct (N.eqb _ 0); [|reflexivity]. destruct (rphantom _); [rewrite add_pipe_idx|rewrite release_idx]; reflexivity.
Qed.
Lemma touch_idx c s k h : bug_touch c = false -> idx (touch c s k h) = idx s.
Proof. intros Hb. unfold touch. rewrite Hb, drop_idx, get_idx. reflexivity. Qed.
Lemma clone_idx c s h h' : idx (clone c s h h') = idx s.
Proof. unfold clone. destruct (hlookup h (handles s)); reflexivity. Qed.
Lemma clear_idx c s : idx (clear c s) = [].
Proof. unfold clear. destruct (bug_clear c); reflexivity. Qed.
Lemma remove_lookup c s k' h k :
  lookup k (idx (remove c s k' h)) = if k' =? k then None else lookup k (idx s).
Proof.
  unfold remove. destruct (lookup k' (idx s)) as [i|] eqn:Hl; sproj.
  - destruct (N.eqb_spec k' k) as [->|Hne]; [apply lookup_remove_key_same|apply lookup_remove_key_other; auto].
  - destruct (N.eqb_spec k' k) as [->|Hne]; auto.
Qed.

(* the state of the register after an event *)
Definition reg_after (st : option N) (kd : option kind) : option N :=
  match kd with Some (KWrite v) => Some v | Some KDelete => None | _ => st end.

(* one step: what key k reads as afterwards is nothing, or the register's new state *)
Lemma step_register c s o s' k st :
  good c -> Inv c s -> step c s o = Some s' ->
  (cur s k = None \/ cur s k = st) ->
  cur s' k = None \/ cur s' k = reg_after st (kind_of s o k).
Proof.
  intros [Hgc Hgt] HI Hs Hc.
  assert (Hstable : forall i, lookup k (idx s) = Some i -> get_rec s' i = get_rec s i).
  { intros i Hl. eapply step_record_stable; eauto. apply lookup_In in Hl.
    destruct (ii_ok s (inv_idx c s HI) k i Hl) as [Hb _]. exact Hb. }
  assert (Hsame : lookup k (idx s') = lookup k (idx s) -> cur s' k = cur s k).
  { intros E. unfold cur. rewrite E. destruct (lookup k (idx s)) as [i|] eqn:Hl; auto. rewrite (Hstable i eq_refl). auto. }
  assert (Hnone : lookup k (idx s') = None -> cur s' k = None) by (intros E; unfold cur; rewrite E; auto).
  assert (Hkeep : forall st', lookup k (idx s') = lookup k (idx s) \/ lookup k (idx s') = None ->
                  st' = st -> cur s' k = None \/ cur s' k = st').
  { intros st' [E|E] ->; [rewrite (Hsame E); exact Hc|left; auto]. }
  destruct o as [k' v w hsh low ph h vs|k' h|k' h|k'|k' h| |cap vs|vs|vs|h h'|h]; cbn [step kind_of] in *.
  - (* insert *)
    destruct (N.eqb_spec k' k) as [->|Hne]; cbn [reg_after].
    + destruct ph.
      * left. apply Hnone. unfold insert in Hs. destruct vs; [|discriminate].
        revert Hs. destruct (lookup k (idx (alloc s _))) eqn:Hl; intros Hs; inversion Hs; subst; sproj.
        -- apply lookup_remove_key_same.
        -- exact Hl.
      * right. pose proof (insert_finds_new _ _ _ _ _ _ _ _ _ _ Hs) as Hl. unfold cur. rewrite Hl.
        f_equal. unfold insert in Hs. destruct (evict_oracle c _ vs _) as [se|] eqn:He; [|discriminate].
        pose proof (evict_oracle_frame _ _ _ _ _ He) as [Ha _].
        inversion Hs; subst. unfold get_rec. destruct (lookup k (idx se)); sproj;
          rewrite Ha; cbn [arena alloc]; rewrite nth_app_last; reflexivity.
    + apply Hkeep; auto.
      unfold insert in Hs. destruct ph.
      * destruct vs; [|discriminate]. left.
        revert Hs. destruct (lookup k' (idx (alloc s _))) eqn:Hl; intros Hs; inversion Hs; subst; sproj; auto.
        apply lookup_remove_key_other; auto.
      * destruct (evict_oracle c _ vs _) as [se|] eqn:He; [|discriminate].
        destruct (evict_oracle_lookup _ _ _ _ _ k He) as [E|E]; cbn [idx alloc] in E; inversion Hs; subst.
        -- left. destruct (lookup k' (idx se)); sproj; cbn [lookup];
             (destruct (N.eqb_spec k k'); [congruence|]); rewrite <- E; [apply lookup_remove_key_other; auto|reflexivity].
        -- right. destruct (lookup k' (idx se)); sproj; cbn [lookup];
             (destruct (N.eqb_spec k k'); [congruence|]); [rewrite lookup_remove_key_other by auto|]; exact E.
  - (* get *)
    inversion Hs; subst. destruct (N.eqb_spec k' k); cbn [reg_after]; apply Hkeep; auto; left; rewrite get_idx; reflexivity.
  - inversion Hs; subst. cbn [reg_after]. apply Hkeep; auto. left. rewrite touch_idx; auto.
  - inversion Hs; subst. cbn [reg_after]. apply Hkeep; auto.
  - (* remove *)
    inversion Hs; subst. destruct (N.eqb_spec k' k) as [->|Hne]; cbn [reg_after].
    + left. apply Hnone. rewrite remove_lookup, N.eqb_refl. reflexivity.
    + apply Hkeep; auto. left. rewrite remove_lookup. destruct (N.eqb_spec k' k); [congruence|reflexivity].
  - (* clear *)
    inversion Hs; subst. cbn [reg_after]. left. apply Hnone. rewrite clear_idx. reflexivity.
  - cbn [reg_after]. apply Hkeep; auto. unfold resize in Hs. destruct (evict_oracle_lookup _ _ _ _ _ k Hs); auto.
  - cbn [reg_after]. apply Hkeep; auto. unfold evict_all in Hs. destruct (evict_oracle_lookup _ _ _ _ _ k Hs); auto.
  - cbn [reg_after]. apply Hkeep; auto. unfold flush in Hs.
    destruct (flush_oracle_frame _ _ _ _ Hs) as (_ & _ & _ & _ & _ & E). right. rewrite E. reflexivity.
  - inversion Hs; subst. cbn [reg_after]. apply Hkeep; auto. left. rewrite clone_idx. reflexivity.
  - inversion Hs; subst. cbn [reg_after]. apply Hkeep; auto. left. rewrite drop_idx. reflexivity.
Qed.

(* the events of any sequential run, for any key, follow the register-with-misses specification *)
Theorem shard_follows_register c k : good c -> forall ops s st n l,
  Inv c s -> (cur s k = None \/ cur s k = st) -> trace c s ops k n = Some l -> seq_ok st l.
Proof.
  intros Hg. induction ops as [|o ops IH]; intros s st n l HI Hc Ht; cbn [trace] in Ht.
  - inversion Ht; subst. exact I.
  - destruct (step c s o) as [s'|] eqn:Hs; [|discriminate].
    destruct (trace c s' ops k (n + 1)) as [l'|] eqn:Ht'; [|discriminate].
    inversion Ht; subst. clear Ht.
    assert (HI' : Inv c s') by (destruct Hg; eapply Inv_step; eauto).
    pose proof (step_register c s o s' k st Hg HI Hs Hc) as Hc'.
    destruct (kind_of s o k) as [kd|] eqn:Hk.
    + cbn [seq_ok]. split.
      * (* a lookup returns nothing or the register's value *)
        unfold legal. cbn [ekind]. destruct kd as [v| |[v|]]; auto.
        destruct o; cbn [kind_of] in Hk; try discriminate;
          try (destruct (_ =? k); [destruct ph|]; discriminate);
          try (destruct (_ =? k); discriminate).
        destruct (k0 =? k); [|discriminate]. injection Hk as E. rewrite E in Hc. destruct Hc as [Hc|Hc]; [discriminate|auto].
      * eapply IH; eauto; unfold apply; cbn [ekind]; cbn [reg_after] in Hc'; destruct kd as [v| |r]; auto.
    + eapply IH; eauto.
Qed.

Corollary shard_run_linearizable c cap ops k l :
  good c -> trace c (init_shard cap) ops k 1 = Some l -> seq_ok None l.
Proof.
  intros Hg Ht. eapply (shard_follows_register c k Hg ops (init_shard cap) None 1 l); eauto.
  apply Inv_init.
Qed.
