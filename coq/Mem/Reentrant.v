(* C16: user callbacks run outside the shard lock, so calling back into the cache cannot self-deadlock.
   A call of the cache API is modelled by its phases (foyer-memory/src/raw.rs): the weighter and the filter are
   evaluated BEFORE the shard lock is taken; the critical section only collects the records that leave the cache into
   a garbage vector; after the guard is dropped the listener is told and the records are released (key / value
   destructors).  Any of these callbacks may call the cache again - a call tree.  The shard lock is not re-entrant:
   taking it while this thread holds it never returns. *)
From Coq Require Import List Bool.
Import ListNotations.

Inductive call := Call (pre post : list call).    (* the calls made by the callbacks before / after the critical section *)

(* [exec inside c held]: run call [c] on a thread that currently holds the shard lock iff [held];
   None = the thread blocks forever; Some h = it returns, holding the lock iff h.
   [inside = true] is the wrong discipline: callbacks invoked inside the critical section. *)
Fixpoint exec (inside : bool) (c : call) (held : bool) : option bool :=
  match c with
  | Call pre post =>
      let fix go (l : list call) (h : bool) : option bool :=
        match l with
        | [] => Some h
        | x :: l' => match exec inside x h with Some h' => go l' h' | None => None end
        end in
      if inside then
        if held then None else
        match go pre true with
        | Some _ => match go post true with Some _ => Some false | None => None end
        | None => None
        end
      else
        match go pre held with
        | Some true => None                 (* lock() while held *)
        | Some false => go post false       (* lock; critical section; unlock; then the callbacks *)
        | None => None
        end
  end.

Fixpoint exec_list (inside : bool) (l : list call) (h : bool) : option bool :=
  match l with
  | [] => Some h
  | x :: l' => match exec inside x h with Some h' => exec_list inside l' h' | None => None end
  end.

Lemma exec_unfold inside pre post held :
  exec inside (Call pre post) held =
  if inside then
    if held then None else
    match exec_list inside pre true with
    | Some _ => match exec_list inside post true with Some _ => Some false | None => None end
    | None => None
    end
  else
    match exec_list inside pre held with
    | Some true => None
    | Some false => exec_list inside post false
    | None => None
    end.
Proof.
  cbn [exec].
  assert (H : forall l h, (fix go (l : list call) (h : bool) : option bool :=
                             match l with [] => Some h | x :: l' => match exec inside x h with Some h' => go l' h' | None => None end end) l h
                          = exec_list inside l h).
  { induction l as [|x l IH]; intros h; cbn; auto. destruct (exec inside x h); auto. }
  rewrite !H. reflexivity.
Qed.

(* induction over call trees *)
Fixpoint size (c : call) : nat :=
  match c with
  | Call pre post =>
      S ((fix sz (l : list call) : nat := match l with [] => 0 | x :: l' => size x + sz l' end) pre +
         (fix sz (l : list call) : nat := match l with [] => 0 | x :: l' => size x + sz l' end) post)
  end.
Fixpoint size_list (l : list call) : nat := match l with [] => 0 | x :: l' => size x + size_list l' end.
Lemma size_unfold pre post : size (Call pre post) = S (size_list pre + size_list post).
Proof.
  cbn [size].
  assert (H : forall l, (fix sz (l : list call) : nat := match l with [] => 0 | x :: l' => size x + sz l' end) l = size_list l).
  { induction l as [|x l IH]; cbn; auto. }
  rewrite !H. reflexivity.
Qed.

(* with the code's discipline every call tree, entered without the lock, returns without the lock:
   no re-entrant use can deadlock on the shard lock *)
Theorem reentrant_calls_return : forall c, exec false c false = Some false.
Proof.
  assert (H : forall n c, size c <= n -> exec false c false = Some false).
  { induction n as [|n IH]; intros [pre post] Hs; rewrite size_unfold in Hs; [inversion Hs|].
    rewrite exec_unfold.
    assert (HL : forall l, size_list l <= n -> exec_list false l false = Some false).
    { induction l as [|x l IHl]; cbn; intros Hl; auto.
      rewrite IH by (apply PeanoNat.Nat.le_trans with (size x + size_list l); [apply PeanoNat.Nat.le_add_r|exact Hl]).
      apply IHl. apply PeanoNat.Nat.le_trans with (size x + size_list l); [|exact Hl].
      rewrite PeanoNat.Nat.add_comm. apply PeanoNat.Nat.le_add_r. }
    apply le_S_n in Hs.
    rewrite HL by (apply PeanoNat.Nat.le_trans with (size_list pre + size_list post); [apply PeanoNat.Nat.le_add_r|exact Hs]).
    apply HL. apply PeanoNat.Nat.le_trans with (size_list pre + size_list post); [|exact Hs].
    rewrite PeanoNat.Nat.add_comm. apply PeanoNat.Nat.le_add_r. }
  intros c. apply (H (size c)). apply le_n.
Qed.

(* ... whereas invoking a callback inside the critical section blocks as soon as that callback uses the cache *)
Theorem callbacks_inside_deadlock : forall pre post c,
  exec true (Call (c :: pre) post) false = None /\ exec true (Call [] (c :: post)) false = None.
Proof.
  intros pre post [p q]. split; rewrite exec_unfold; cbn [exec_list]; rewrite exec_unfold; reflexivity.
Qed.
