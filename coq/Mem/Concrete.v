(* Concrete single-shard machine: an eviction container (Algo.v) run in lockstep with
   the generic shard (Shard.v).  The container *predicts* the victims of every
   eviction loop; the generic shard validates them.  Follows the order of calls in
   raw.rs (emplace: evict* ; indexer.insert ; eviction.remove(old) ; eviction.push).
   Model only. *)
From Coq Require Import List NArith Bool Arith.
From FV Require Import Mem.Shard Mem.Algo.
Import ListNotations.
Open Scope N_scope.

Section Concrete.
  Variable bucket : N -> list nat.
  Variable c : cfg.

  Record cshard := mkC { gen : shard; alg : algo }.

  (* RawCacheShard::evict: pop while usage > target *)
  Fixpoint predict (fuel : nat) (a : algo) (usage target : N) : list ent * algo :=
    match fuel with
    | O => ([], a)
    | S f =>
        if usage <=? target then ([], a) else
        match a_pop bucket a with
        | None => ([], a)
        | Some (e, a') =>
            let '(vs, a'') := predict f a' (usage - ew e) target in (e :: vs, a'')
        end
    end.

  Definition keys_of (g : shard) (vs : list ent) : list N :=
    map (fun e => rkey (get_rec g (eid e))) vs.

  Definition fuel_of (a : algo) : nat := S (length (a_members a)).

  Definition cinsert (s : cshard) (k v w hsh : N) (low ph : bool) (h : N) : option cshard :=
    let g := gen s in let a := alg s in
    let i := length (arena g) in
    if ph then
      let a' := match lookup k (idx g) with Some o => a_remove a o | None => a end in
      match insert c g k v w hsh low ph h [] with
      | Some g' => Some (mkC g' a')
      | None => None
      end
    else
      let '(ves, a1) := predict (fuel_of a) a (usage g) (capacity g - w) in
      let a2 := match lookup k (idx g) with
                | Some o => if existsb (ent_is o) ves then a1 else a_remove a1 o
                | None => a1
                end in
      let a3 := a_push bucket a2 (mkEnt i w hsh) low in
      match insert c g k v w hsh low ph h (keys_of g ves) with
      | Some g' => Some (mkC g' a3)
      | None => None
      end.

  Definition cget (s : cshard) (k h : N) : cshard :=
    let g := gen s in
    match lookup k (idx g) with
    | None => s
    | Some i => mkC (get c g k h) (a_acquire bucket (alg s) i (rhash (get_rec g i)))
    end.

  Definition cdrop (s : cshard) (h : N) : cshard :=
    let g := gen s in
    match hlookup h (handles g) with
    | None => s
    | Some i =>
        let g' := drop c g h in
        if N.eqb (get_ref g' i) 0 && negb (rphantom (get_rec g i))
        then mkC g' (a_release (alg s) i) else mkC g' (alg s)
    end.

  Definition ctouch (s : cshard) (k h : N) : cshard :=
    if bug_touch c then
      let g := gen s in
      match lookup k (idx g) with
      | None => s
      | Some i => mkC (touch c g k h) (a_acquire bucket (alg s) i (rhash (get_rec g i)))
      end
    else cdrop (cget s k h) h.

  Definition cremove (s : cshard) (k h : N) : cshard :=
    let g := gen s in
    match lookup k (idx g) with
    | None => s
    | Some i => mkC (remove c g k h) (a_remove (alg s) i)
    end.

  Definition cclear (s : cshard) : cshard := mkC (clear c (gen s)) (a_clear bucket (alg s)).

  Definition cresize (s : cshard) (cap : N) (d : derived) : option cshard :=
    let g := gen s in
    let a := a_update (alg s) d in
    let '(ves, a1) := predict (fuel_of a) a (usage g) cap in
    match resize c g cap (keys_of g ves) with
    | Some g' => Some (mkC g' a1)
    | None => None
    end.

  Definition cevict_all (s : cshard) : option cshard :=
    let g := gen s in
    let '(ves, a1) := predict (fuel_of (alg s)) (alg s) (usage g) 0 in
    match evict_all c g (keys_of g ves) with
    | Some g' => Some (mkC g' a1)
    | None => None
    end.

  Inductive cop :=
  | CInsert (k v w hsh : N) (low ph : bool) (h : N)
  | CGet (k h : N) | CTouch (k h : N) | CContains (k : N) | CRemove (k h : N)
  | CClear | CResize (cap : N) (d : derived) | CEvictAll
  | CClone (h h' : N) | CDrop (h : N).

  Definition cstep1 (s : cshard) (o : cop) : option cshard :=
    match o with
    | CInsert k v w hsh low ph h => cinsert s k v w hsh low ph h
    | CGet k h => Some (cget s k h)
    | CTouch k h => Some (ctouch s k h)
    | CContains _ => Some s
    | CRemove k h => Some (cremove s k h)
    | CClear => Some (cclear s)
    | CResize cap d => cresize s cap d
    | CEvictAll => cevict_all s
    | CClone h h' => Some (mkC (clone c (gen s) h h') (alg s))
    | CDrop h => Some (cdrop s h)
    end.

  Fixpoint crun1 (s : cshard) (ops : list cop) : option cshard :=
    match ops with
    | [] => Some s
    | o :: ops' => match cstep1 s o with None => None | Some s' => crun1 s' ops' end
    end.
End Concrete.

(* initial containers; derived capacities and sketch geometry are inputs *)
Definition init_lru (hpcap : N) : algo := ALru (mkLru [] [] [] 0 hpcap).
Definition init_sieve : algo := ASieve (mkSieve [] None).
Definition init_s3 (gcap scap thr : N) : algo := AS3 (mkS3 [] [] [] [] gcap 0 scap 0 0 (N.min thr 3)).
Definition init_lfu (wcap tcap : N) (rows buckets : nat) : algo :=
  ALfu (mkLfu [] [] [] 0 0 0 wcap tcap (repeat (repeat 0 buckets) rows) 0 (N.of_nat buckets)).
