(* Invariants of M-FETCH (repaired code: bug_close = false) and their preservation. *)
From Coq Require Import List NArith Bool Arith Lia.
From FV Require Import Fetch.Fetch.
Import ListNotations.
Open Scope N_scope.

Arguments N.eqb : simpl never.
Arguments N.add : simpl never.

Definition topen (t : task) : bool := match tst t with TDone => false | _ => true end.

(* ---------------------------------------------------------------- list utilities *)

Lemma find_infl_In k l i : find_infl k l = Some i -> In i l /\ ikey i = k.
Proof.
  induction l as [|x l IH]; simpl; [discriminate|].
  destruct (N.eqb_spec k (ikey x)) as [->|Hne]; intros H.
  - inversion H; subst. auto.
  - destruct (IH H). auto.
Qed.

Lemma find_infl_None k l : find_infl k l = None -> forall i, In i l -> ikey i <> k.
Proof.
  induction l as [|x l IH]; simpl; intros H i Hin; [contradiction|].
  destruct (N.eqb_spec k (ikey x)) as [->|Hne]; [discriminate|].
  destruct Hin as [<-|Hin]; [congruence|]. apply IH; assumption.
Qed.

Lemma find_infl_unique k l i i' :
  NoDup (map ikey l) -> find_infl k l = Some i -> In i' l -> ikey i' = k -> i' = i.
Proof.
  induction l as [|x l IH]; simpl; intros Hnd H Hin Hk; [discriminate|].
  inversion Hnd as [|? ? Hnot Hnd']; subst.
  destruct (N.eqb_spec (ikey i') (ikey x)) as [He|Hne].
  - inversion H; subst. destruct Hin as [->|Hin]; [reflexivity|].
    exfalso. apply Hnot. rewrite <- He. apply in_map. assumption.
  - destruct Hin as [<-|Hin]; [congruence|]. apply IH; auto.
Qed.

Lemma del_infl_In k l i : In i (del_infl k l) <-> In i l /\ ikey i <> k.
Proof.
  induction l as [|x l IH]; simpl; [tauto|].
  destruct (N.eqb_spec k (ikey x)) as [->|Hne]; simpl; rewrite IH; split.
  - tauto.
  - intros [[<-|H] Hk]; [congruence|auto].
  - intros [<-|[H Hk]]; [split; [auto|congruence]|auto].
  - intros [[<-|H] Hk]; auto.
Qed.

Lemma del_infl_keys k l x : In x (map ikey (del_infl k l)) -> In x (map ikey l).
Proof.
  intros H. apply in_map_iff in H. destruct H as [i [<- Hin]]. apply del_infl_In in Hin. apply in_map. tauto.
Qed.

Lemma del_infl_nodup k l : NoDup (map ikey l) -> NoDup (map ikey (del_infl k l)).
Proof.
  induction l as [|x l IH]; simpl; intros H; [constructor|].
  inversion H as [|? ? Hnot Hnd]; subst.
  destruct (N.eqb k (ikey x)); [auto|]. simpl. constructor; [|auto].
  intros Hin. apply Hnot. eapply del_infl_keys; eauto.
Qed.

Lemma upd_infl_keys k f l : (forall i, ikey (f i) = ikey i) -> map ikey (upd_infl k f l) = map ikey l.
Proof.
  intros Hf. induction l as [|x l IH]; simpl; [reflexivity|].
  destruct (N.eqb k (ikey x)); simpl; [rewrite Hf; reflexivity|rewrite IH; reflexivity].
Qed.

Lemma upd_infl_In k f l i :
  In i (upd_infl k f l) -> (In i l /\ ikey i <> k) \/ (exists j, In j l /\ ikey j = k /\ i = f j) \/ In i l.
Proof.
  induction l as [|x l IH]; simpl; [tauto|].
  destruct (N.eqb_spec k (ikey x)) as [->|Hne]; simpl.
  - intros [<-|H]; [right; left; exists x; auto|right; right; auto].
  - intros [<-|H]; [left; split; [auto|congruence]|].
    destruct (IH H) as [[A B]|[[j [A [B D]]]|A]]; [left; auto|right; left; exists j; auto|right; right; auto].
Qed.

Lemma upd_infl_In_rev k f l i :
  NoDup (map ikey l) -> In i l ->
  (ikey i <> k -> In i (upd_infl k f l)) /\ (ikey i = k -> In (f i) (upd_infl k f l)).
Proof.
  induction l as [|x l IH]; simpl; intros Hnd Hin; [contradiction|].
  inversion Hnd as [|? ? Hnot Hnd']; subst.
  destruct (N.eqb_spec k (ikey x)) as [->|Hne]; simpl.
  - destruct Hin as [<-|Hin].
    + split; [congruence|auto].
    + split; [auto|]. intros He. exfalso. apply Hnot. rewrite <- He. apply in_map. assumption.
  - destruct Hin as [<-|Hin].
    + split; [auto|congruence].
    + destruct (IH Hnd' Hin). split; auto.
Qed.

Lemma set_cell_length n l : length (set_cell n l) = length l.
Proof. revert n; induction l as [|b l IH]; intros [|n]; simpl; auto. Qed.

Lemma nth_set_cell_same n l : (n < length l)%nat -> nth n (set_cell n l) false = true.
Proof. revert n; induction l as [|b l IH]; intros [|n] H; simpl in *; try lia; auto. apply IH; lia. Qed.

Lemma nth_set_cell_other n m l : n <> m -> nth m (set_cell n l) false = nth m l false.
Proof. revert n m; induction l as [|b l IH]; intros [|n] [|m] H; simpl; auto; congruence. Qed.

Lemma nth_set_cell_mono n m l : nth m l false = true -> nth m (set_cell n l) false = true.
Proof.
  intros H. destruct (Nat.eq_dec n m) as [->|Hne].
  - apply nth_set_cell_same. destruct (Nat.lt_ge_cases m (length l)); [assumption|].
    rewrite nth_overflow in H by assumption. discriminate.
  - rewrite nth_set_cell_other by assumption. assumption.
Qed.

Lemma set_task_In t st l x :
  In x (set_task t st l) -> In x l \/ exists y, In y l /\ tid y = t /\ x = mkTask (tkey y) (tid y) (tlead y) (tcell y) st.
Proof.
  induction l as [|y l IH]; simpl; [tauto|].
  destruct (N.eqb_spec t (tid y)) as [->|Hne]; simpl.
  - intros [<-|H]; [right; exists y; auto|left; auto].
  - intros [<-|H]; [left; auto|]. destruct (IH H) as [A|[z [A [B D]]]]; [left; auto|right; exists z; auto].
Qed.

Lemma set_task_tids t st l : map tid (set_task t st l) = map tid l.
Proof.
  induction l as [|y l IH]; simpl; [reflexivity|].
  destruct (N.eqb t (tid y)); simpl; [reflexivity|rewrite IH; reflexivity].
Qed.

Lemma set_task_other t st l x : NoDup (map tid l) -> In x l -> tid x <> t -> In x (set_task t st l).
Proof.
  induction l as [|y l IH]; simpl; intros Hnd Hin Hne; [contradiction|].
  inversion Hnd as [|? ? Hnot Hnd']; subst.
  destruct (N.eqb_spec t (tid y)) as [->|H]; simpl.
  - destruct Hin as [<-|Hin]; [congruence|auto].
  - destruct Hin as [<-|Hin]; auto.
Qed.

Lemma set_task_self t st l x : NoDup (map tid l) -> In x l -> tid x = t ->
  In (mkTask (tkey x) (tid x) (tlead x) (tcell x) st) (set_task t st l).
Proof.
  induction l as [|y l IH]; simpl; intros Hnd Hin He; [contradiction|].
  inversion Hnd as [|? ? Hnot Hnd']; subst.
  destruct (N.eqb_spec (tid x) (tid y)) as [H|H]; simpl.
  - destruct Hin as [<-|Hin]; [auto|]. exfalso. apply Hnot. rewrite <- H. apply in_map. assumption.
  - destruct Hin as [<-|Hin]; [congruence|auto].
Qed.

Lemma tid_inj l t t' : NoDup (map tid l) -> In t l -> In t' l -> tid t = tid t' -> t = t'.
Proof.
  induction l as [|y l IH]; simpl; intros Hnd H1 H2 He; [contradiction|].
  inversion Hnd as [|? ? Hnot Hnd']; subst.
  destruct H1 as [E1|H1]; destruct H2 as [E2|H2].
  - congruence.
  - subst y. exfalso. apply Hnot. rewrite He. apply in_map. assumption.
  - subst y. exfalso. apply Hnot. rewrite <- He. apply in_map. assumption.
  - apply IH; assumption.
Qed.

Lemma NoDup_app_snoc {A} (l : list A) x : NoDup l -> ~ In x l -> NoDup (l ++ [x]).
Proof.
  induction l as [|y l IH]; simpl; intros Hnd Hn; [constructor; [tauto|constructor]|].
  inversion Hnd as [|? ? Hnot Hnd']; subst. constructor.
  - intros Hin. apply in_app_iff in Hin. destruct Hin as [Hin|[<-|[]]]; [contradiction|]. apply Hn. left; reflexivity.
  - apply IH; [assumption|]. intros H. apply Hn. right; assumption.
Qed.

(* ---------------------------------------------------------------- callers / notify *)

Definition res_of (cs : list (N * res)) (c : N) : option res :=
  (fix go l := match l with [] => None | (c', r) :: l' => if N.eqb c c' then Some r else go l' end) cs.

Lemma result_of_eq s c : result_of s c = res_of (callers s) c.
Proof. reflexivity. Qed.

Lemma res_of_cons c0 r0 cs c :
  res_of ((c0, r0) :: cs) c = if N.eqb c c0 then Some r0 else res_of cs c.
Proof. reflexivity. Qed.

Lemma res_of_set_res c r cs c' :
  res_of (set_res c r cs) c' =
  if N.eqb c' c then match res_of cs c' with Some RPending => Some r | x => x end else res_of cs c'.
Proof.
  induction cs as [|[c0 r0] cs IH].
  - simpl. destruct (N.eqb c' c); reflexivity.
  - cbn [set_res]. destruct (N.eqb c c0) eqn:E1.
    + apply N.eqb_eq in E1. subst c0. rewrite !res_of_cons.
      destruct (N.eqb c' c) eqn:E2; [|reflexivity]. destruct r0; reflexivity.
    + rewrite !res_of_cons. rewrite IH. destruct (N.eqb c' c0) eqn:E2; [|reflexivity].
      apply N.eqb_eq in E2. subst c0. rewrite N.eqb_sym, E1. reflexivity.
Qed.

Lemma res_of_notify ws r : forall cs c,
  r <> RPending ->
  res_of (notify ws r cs) c = if existsb (N.eqb c) ws
                              then match res_of cs c with Some RPending => Some r | x => x end
                              else res_of cs c.
Proof.
  unfold notify. induction ws as [|w ws IH]; intros cs c Hr; simpl; [reflexivity|].
  rewrite IH by assumption. rewrite res_of_set_res.
  destruct (N.eqb_spec c w) as [->|Hne]; simpl.
  - destruct (existsb (N.eqb w) ws); destruct (res_of cs w) as [[]|]; try reflexivity; destruct r; congruence.
  - reflexivity.
Qed.

Lemma existsb_In c ws : existsb (N.eqb c) ws = true <-> In c ws.
Proof.
  rewrite existsb_exists. split.
  - intros [x [Hin He]]. apply N.eqb_eq in He. subst. assumption.
  - intros H. exists c. split; [assumption|apply N.eqb_refl].
Qed.

Lemma res_of_app_new cs c r c' :
  res_of cs c = None -> res_of (cs ++ [(c, r)]) c' = if N.eqb c' c then Some r else res_of cs c'.
Proof.
  induction cs as [|[c0 r0] cs IH]; simpl; intros H.
  - reflexivity.
  - destruct (N.eqb_spec c c0) as [->|Hne]; [discriminate|].
    destruct (N.eqb_spec c' c0) as [->|H']; [destruct (N.eqb_spec c0 c); [congruence|reflexivity]|].
    apply IH. assumption.
Qed.

Lemma known_caller_res s c : known_caller s c = false -> res_of (callers s) c = None.
Proof.
  unfold known_caller. induction (callers s) as [|[c0 r0] cs IH]; simpl; [reflexivity|].
  destruct (N.eqb c c0); simpl; [discriminate|]. exact IH.
Qed.

(* ---------------------------------------------------------------- the invariant *)

Record FInv (s : fstate) : Prop := {
  fi_keys : NoDup (map ikey (infls s));
  fi_tids : NoDup (map tid (tasks s));
  fi_mem : forall i, In i (infls s) -> mlookup (ikey i) (mem s) = None;
  fi_lead : forall i, In i (infls s) -> exists t, In t (tasks s) /\ tid t = iid i /\ tkey t = ikey i /\
                      tcell t = icell i /\ topen t = true /\ closed s t = false;
  fi_reg : forall t, In t (tasks s) -> topen t = true -> closed s t = false ->
                     exists i, In i (infls s) /\ iid i = tid t /\ ikey i = tkey t;
  fi_cells : forall t1 t2, In t1 (tasks s) -> In t2 (tasks s) -> tcell t1 = tcell t2 -> tid t1 = tid t2;
  fi_cell_lt : forall t, In t (tasks s) -> (tcell t < length (cells s))%nat;
  fi_ids : forall t, In t (tasks s) -> tid t < next_id s;
  fi_wait : forall c, res_of (callers s) c = Some RPending -> exists i, In i (infls s) /\ In c (iwaiters i) }.

Lemma FInv_init : FInv init_f.
Proof. constructor; simpl; try constructor; intros; try contradiction; discriminate. Qed.

(* fields that do not matter *)
Lemma FInv_frame s s' :
  mem s' = mem s -> infls s' = infls s -> tasks s' = tasks s -> cells s' = cells s -> callers s' = callers s ->
  next_id s' = next_id s -> FInv s -> FInv s'.
Proof.
  intros A B D E F G [H1 H2 H3 H4 H5 H6 H7 H8 H9].
  constructor; unfold closed in *; rewrite ?A, ?B, ?D, ?E, ?F, ?G; auto.
Qed.

Lemma start_fetch_inv s f : FInv s -> FInv (start_fetch s f).
Proof. apply FInv_frame; reflexivity. Qed.
Lemma finish_fetch_inv s f : FInv s -> FInv (finish_fetch s f).
Proof. apply FInv_frame; reflexivity. Qed.

(* ---------------------------------------------------------------- take + answer *)

Lemma take_some s k id s1 ws :
  take s k id = (s1, Some ws) ->
  exists i, find_infl k (infls s) = Some i /\ ws = iwaiters i /\
            (match id with None => True | Some x => x = iid i end) /\
            s1 = mkF (mem s) (del_infl k (infls s)) (tasks s) (set_cell (icell i) (cells s)) (callers s)
                     (started s) (finished s) (next_id s).
Proof.
  unfold take. destruct (find_infl k (infls s)) as [i|] eqn:E; [|intros H; inversion H].
  destruct id as [x|].
  - destruct (N.eqb_spec x (iid i)) as [->|Hne]; intros H; inversion H; subst.
    exists i. repeat split; auto.
  - intros H; inversion H; subst. exists i. repeat split; auto.
Qed.

Lemma take_none s k id s1 : take s k id = (s1, None) -> s1 = s.
Proof.
  unfold take. destruct (find_infl k (infls s)) as [i|]; [|intros H; inversion H; reflexivity].
  destruct (match id with None => true | Some x => N.eqb x (iid i) end); intros H; inversion H; reflexivity.
Qed.

(* the entry of key k is taken, its waiters are answered with a final result; memory may change
   for keys that have no in-flight entry afterwards *)
Lemma FInv_take_answer s k i r m' :
  FInv s -> find_infl k (infls s) = Some i -> r <> RPending ->
  (forall j, In j (del_infl k (infls s)) -> mlookup (ikey j) m' = None) ->
  FInv (mkF m' (del_infl k (infls s)) (tasks s) (set_cell (icell i) (cells s))
            (notify (iwaiters i) r (callers s)) (started s) (finished s) (next_id s)).
Proof.
  intros HI Hf Hr Hm. pose proof HI as [H1 H2 H3 H4 H5 H6 H7 H8 H9].
  destruct (find_infl_In _ _ _ Hf) as [Hin Hk].
  destruct (H4 i Hin) as (tl & Htl & Hid & Hkey & Hcell & Hop & Hcl).
  constructor; cbn [mem infls tasks cells callers next_id]; auto.
  - apply del_infl_nodup; assumption.
  - intros j Hj. apply del_infl_In in Hj. destruct Hj as [Hj Hjk].
    destruct (H4 j Hj) as (t & Ht & A & B & D & E & F).
    exists t. repeat split; auto. unfold closed in *; cbn [cells].
    rewrite nth_set_cell_other; [assumption|].
    intros Heq. assert (tid tl = tid t) by (apply H6; auto; congruence).
    assert (tl = t) by (eapply tid_inj; eauto). subst t. apply Hjk. congruence.
  - intros t Ht Hopn Hc. unfold closed in *; cbn [cells] in Hc.
    assert (Hc0 : nth (tcell t) (cells s) false = false).
    { destruct (nth (tcell t) (cells s) false) eqn:E; [|reflexivity].
      rewrite nth_set_cell_mono in Hc by assumption. discriminate. }
    destruct (H5 t Ht Hopn Hc0) as (j & Hj & A & B).
    exists j. split; [|auto]. apply del_infl_In. split; [assumption|].
    intros Hjk. assert (j = i) by (eapply find_infl_unique; eauto). subst j.
    assert (tl = t) by (eapply tid_inj; eauto; congruence). subst t.
    rewrite Hcell in Hc. rewrite nth_set_cell_same in Hc; [discriminate|].
    rewrite <- Hcell. apply H7. assumption.
  - intros t Ht. rewrite set_cell_length. auto.
  - intros c Hc. rewrite res_of_notify in Hc by assumption.
    destruct (existsb (N.eqb c) (iwaiters i)) eqn:Ex.
    + destruct (res_of (callers s) c) as [[]|]; try discriminate; congruence.
    + destruct (H9 c Hc) as (j & Hj & Hw). exists j. split; [|assumption].
      apply del_infl_In. split; [assumption|]. intros Hjk.
      assert (j = i) by (eapply find_infl_unique; eauto). subst j.
      apply existsb_In in Hw. congruence.
Qed.

(* ---------------------------------------------------------------- task state changes *)

Lemma closed_with_tasks s l t : closed (with_tasks s l) t = closed s t.
Proof. reflexivity. Qed.

(* a task that is not the leader of any entry finishes *)
Lemma FInv_set_done s t :
  FInv s -> (forall i, In i (infls s) -> iid i <> tid t) -> FInv (with_tasks s (set_task (tid t) TDone (tasks s))).
Proof.
  intros [H1 H2 H3 H4 H5 H6 H7 H8 H9] Hn.
  constructor; cbn [mem infls tasks cells callers next_id with_tasks]; auto.
  - rewrite set_task_tids. assumption.
  - intros i Hi. destruct (H4 i Hi) as (x & Hx & A & B & D & E & F).
    exists x. repeat split; auto. apply set_task_other; auto. rewrite A. apply Hn. assumption.
  - intros x Hx Hop Hc. apply set_task_In in Hx. destruct Hx as [Hx|[y [Hy [He ->]]]].
    + apply H5; assumption.
    + discriminate.
  - intros a b Ha Hb Hc.
    apply set_task_In in Ha. apply set_task_In in Hb.
    destruct Ha as [Ha|[ya [Hya [Hea ->]]]], Hb as [Hb|[yb [Hyb [Heb ->]]]]; cbn [tid tcell] in *; auto.
  - intros x Hx. apply set_task_In in Hx. destruct Hx as [Hx|[y [Hy [He ->]]]]; cbn [tcell]; auto.
  - intros x Hx. apply set_task_In in Hx. destruct Hx as [Hx|[y [Hy [He ->]]]]; cbn [tid]; auto.
Qed.

(* an open task moves to another open state *)
Lemma FInv_set_open s t st :
  FInv s -> In t (tasks s) -> topen t = true -> st <> TDone ->
  FInv (with_tasks s (set_task (tid t) st (tasks s))).
Proof.
  intros [H1 H2 H3 H4 H5 H6 H7 H8 H9] Ht Hto Hst.
  constructor; cbn [mem infls tasks cells callers next_id with_tasks]; auto.
  - rewrite set_task_tids. assumption.
  - intros i Hi. destruct (H4 i Hi) as (x & Hx & A & B & D & E & F).
    destruct (N.eq_dec (tid x) (tid t)) as [He|Hne].
    + exists (mkTask (tkey x) (tid x) (tlead x) (tcell x) st). cbn [tid tkey tcell]. repeat split; auto.
      * apply set_task_self; auto.
      * unfold topen; cbn [tst]. destruct st; congruence.
    + exists x. repeat split; auto. apply set_task_other; auto.
  - intros x Hx Hop Hc. apply set_task_In in Hx. destruct Hx as [Hx|[y [Hy [He ->]]]].
    + apply H5; assumption.
    + cbn [tid tkey]. unfold closed in Hc; cbn [tcell] in Hc.
      assert (Hy' : y = t) by (eapply tid_inj; eauto). subst y. apply H5; assumption.
  - intros a b Ha Hb Hc.
    apply set_task_In in Ha. apply set_task_In in Hb.
    destruct Ha as [Ha|[ya [Hya [Hea ->]]]], Hb as [Hb|[yb [Hyb [Heb ->]]]]; cbn [tid tcell] in *; auto.
  - intros x Hx. apply set_task_In in Hx. destruct Hx as [Hx|[y [Hy [He ->]]]]; cbn [tcell]; auto.
  - intros x Hx. apply set_task_In in Hx. destruct Hx as [Hx|[y [Hy [He ->]]]]; cbn [tid]; auto.
Qed.

(* ---------------------------------------------------------------- memory *)

Lemma mlookup_mremove_other k k' m : k <> k' -> mlookup k (mremove k' m) = mlookup k m.
Proof.
  intros Hne. induction m as [|[k2 v] m IH]; simpl; [reflexivity|].
  destruct (N.eqb_spec k' k2) as [->|H2]; simpl.
  - destruct (N.eqb_spec k k2); [congruence|]. exact IH.
  - destruct (N.eqb k k2); [reflexivity|exact IH].
Qed.

Lemma mlookup_mremove_same k m : mlookup k (mremove k m) = None.
Proof.
  induction m as [|[k2 v] m IH]; simpl; [reflexivity|].
  destruct (N.eqb_spec k k2) as [->|H2]; simpl; [exact IH|].
  destruct (N.eqb_spec k k2); [congruence|exact IH].
Qed.

Lemma FInv_with_mem s m' :
  FInv s -> (forall i, In i (infls s) -> mlookup (ikey i) m' = None) -> FInv (with_mem s m').
Proof.
  intros [H1 H2 H3 H4 H5 H6 H7 H8 H9] Hm. constructor; cbn [mem infls tasks cells callers next_id with_mem]; auto.
Qed.

Lemma find_infl_del_same k l : find_infl k (del_infl k l) = None.
Proof.
  induction l as [|x l IH]; simpl; [reflexivity|].
  destruct (N.eqb_spec k (ikey x)) as [->|Hne]; [exact IH|]. simpl.
  destruct (N.eqb_spec k (ikey x)); [congruence|exact IH].
Qed.

Lemma In_find_infl i l : In i l -> find_infl (ikey i) l <> None.
Proof.
  induction l as [|x l IH]; simpl; intros H; [contradiction|].
  destruct (N.eqb_spec (ikey i) (ikey x)); [discriminate|].
  destruct H as [<-|H]; [congruence|auto].
Qed.

Lemma take_none_find s k s1 : take s k None = (s1, None) -> find_infl k (infls s) = None.
Proof. unfold take. destruct (find_infl k (infls s)); [intros H; inversion H|reflexivity]. Qed.

Lemma FInv_do_insert s k v : FInv s -> FInv (do_insert s k v).
Proof.
  intros HI. unfold do_insert. destruct (take s k None) as [s1 [ws|]] eqn:T.
  - destruct (take_some _ _ _ _ _ T) as (i & Hf & -> & _ & ->).
    cbn [with_mem mem infls tasks cells callers started finished next_id].
    apply FInv_take_answer; auto; [discriminate|].
    intros j Hj. apply del_infl_In in Hj. destruct Hj as [Hj Hne]. cbn [mlookup].
    destruct (N.eqb_spec (ikey j) k); [congruence|].
    rewrite mlookup_mremove_other by assumption. apply (fi_mem s HI). assumption.
  - pose proof (take_none_find _ _ _ T) as Hf. apply take_none in T. subst s1.
    apply FInv_with_mem; [assumption|]. intros i Hi. cbn [mlookup].
    pose proof (find_infl_None _ _ Hf i Hi) as Hne.
    destruct (N.eqb_spec (ikey i) k); [congruence|].
    rewrite mlookup_mremove_other by assumption. apply (fi_mem s HI). assumption.
Qed.

Lemma do_insert_frame s k v :
  tasks (do_insert s k v) = tasks s /\ next_id (do_insert s k v) = next_id s /\
  find_infl k (infls (do_insert s k v)) = None /\
  mlookup k (mem (do_insert s k v)) = Some v /\
  (forall k', k' <> k -> mlookup k' (mem (do_insert s k v)) = mlookup k' (mem s)).
Proof.
  unfold do_insert. destruct (take s k None) as [s1 [ws|]] eqn:T.
  - destruct (take_some _ _ _ _ _ T) as (i & Hf & -> & _ & ->).
    cbn [with_mem mem infls tasks cells callers started finished next_id mlookup].
    rewrite N.eqb_refl. repeat split; auto using find_infl_del_same.
    intros k' Hne. destruct (N.eqb_spec k' k); [congruence|]. apply mlookup_mremove_other. assumption.
  - pose proof (take_none_find _ _ _ T) as Hf. apply take_none in T. subst s1.
    cbn [with_mem mem infls tasks cells callers started finished next_id mlookup].
    rewrite N.eqb_refl. repeat split; auto.
    intros k' Hne. destruct (N.eqb_spec k' k); [congruence|]. apply mlookup_mremove_other. assumption.
Qed.

(* ---------------------------------------------------------------- who is registered *)

Lemma no_entry_for s t :
  FInv s -> In t (tasks s) ->
  (match find_infl (tkey t) (infls s) with None => True | Some i => iid i <> tid t end) ->
  forall i, In i (infls s) -> iid i <> tid t.
Proof.
  intros HI Ht Hf i Hi He.
  destruct (fi_lead s HI i Hi) as (x & Hx & A & B & _).
  assert (x = t) by (eapply tid_inj; eauto using fi_tids; congruence). subst x.
  destruct (find_infl (tkey t) (infls s)) as [j|] eqn:E.
  - assert (i = j) by (eapply find_infl_unique; eauto using fi_keys). subst j. contradiction.
  - apply (find_infl_None _ _ E i Hi). congruence.
Qed.

Lemma closed_no_entry s t :
  FInv s -> In t (tasks s) -> closed s t = true -> forall i, In i (infls s) -> iid i <> tid t.
Proof.
  intros HI Ht Hc i Hi He.
  destruct (fi_lead s HI i Hi) as (x & Hx & A & _ & _ & _ & F).
  assert (x = t) by (eapply tid_inj; eauto using fi_tids; congruence). subst x. congruence.
Qed.

(* in-flight entries updated in place, keeping key / id / cell and not losing waiters *)
Lemma FInv_upd_infl s k f cs' :
  FInv s ->
  (forall i, ikey (f i) = ikey i /\ iid (f i) = iid i /\ icell (f i) = icell i /\
             (forall c, In c (iwaiters i) -> In c (iwaiters (f i)))) ->
  (forall c, res_of cs' c = Some RPending ->
             res_of (callers s) c = Some RPending \/
             exists i, In i (infls s) /\ ikey i = k /\ In c (iwaiters (f i))) ->
  FInv (mkF (mem s) (upd_infl k f (infls s)) (tasks s) (cells s) cs' (started s) (finished s) (next_id s)).
Proof.
  intros [H1 H2 H3 H4 H5 H6 H7 H8 H9] Hf Hc.
  assert (Hin : forall i, In i (upd_infl k f (infls s)) -> exists j, In j (infls s) /\ ikey i = ikey j /\ iid i = iid j /\ icell i = icell j).
  { intros i Hi. destruct (upd_infl_In _ _ _ _ Hi) as [[A _]|[[j [A [B ->]]]|A]].
    - exists i. auto.
    - exists j. destruct (Hf j) as (X & Y & Z & _). auto.
    - exists i. auto. }
  constructor; cbn [mem infls tasks cells callers next_id]; auto.
  - rewrite upd_infl_keys; [assumption|]. intros i. apply (Hf i).
  - intros i Hi. destruct (Hin i Hi) as (j & Hj & A & _). rewrite A. auto.
  - intros i Hi. destruct (Hin i Hi) as (j & Hj & A & B & D). rewrite A, B, D. apply H4. assumption.
  - intros t Ht Ho Hcl. destruct (H5 t Ht Ho Hcl) as (i & Hi & A & B).
    destruct (upd_infl_In_rev k f _ i H1 Hi) as [X Y].
    destruct (N.eq_dec (ikey i) k) as [He|Hne].
    + exists (f i). destruct (Hf i) as (P & Q & _). split; [auto|]. rewrite P, Q. auto.
    + exists i. auto.
  - intros c Hp. destruct (Hc c Hp) as [Hold|[i [Hi [Hk Hw]]]].
    + destruct (H9 c Hold) as (i & Hi & Hw).
      destruct (upd_infl_In_rev k f _ i H1 Hi) as [X Y].
      destruct (N.eq_dec (ikey i) k) as [He|Hne].
      * exists (f i). split; [auto|]. apply (Hf i). assumption.
      * exists i. auto.
    + destruct (upd_infl_In_rev k f _ i H1 Hi) as [_ Y]. exists (f i). auto.
Qed.

(* ---------------------------------------------------------------- polls *)

Lemma FInv_try_set_required s t req r :
  FInv s -> In t (tasks s) -> topen t = true -> closed s t = false -> r <> RPending ->
  FInv (try_set_required s t req r).
Proof.
  intros HI Ht Ho Hc Hr. unfold try_set_required. destruct req as [f|].
  - apply (FInv_set_open (start_fetch s f) t); auto using start_fetch_inv. discriminate.
  - destruct (find_infl (tkey t) (infls s)) as [i|] eqn:Ef.
    + destruct (N.eqb_spec (iid i) (tid t)) as [He|Hne]; cbn [negb].
      * destruct (idon i) as [f|] eqn:Ed.
        -- set (s1 := mkF (mem s) (upd_infl (tkey t) _ (infls s)) (tasks s) (cells s) (callers s) (started s) (finished s) (next_id s)).
           assert (H1 : FInv s1).
           { apply FInv_upd_infl; auto. }
           apply (FInv_set_open (start_fetch s1 f) t); auto using start_fetch_inv. discriminate.
        -- destruct (take s (tkey t) (Some (tid t))) as [s1 [ws|]] eqn:T.
           ++ destruct (take_some _ _ _ _ _ T) as (i' & Hf' & -> & _ & ->).
              rewrite Ef in Hf'. inversion Hf'; subst i'.
              set (s2 := answer _ (iwaiters i) r).
              assert (H2 : FInv s2).
              { unfold s2, answer; cbn [mem infls tasks cells callers started finished next_id].
                apply FInv_take_answer; auto. intros j Hj. apply del_infl_In in Hj.
                apply (fi_mem s HI). tauto. }
              apply FInv_set_done; [assumption|].
              apply (no_entry_for s2 t H2); [exact Ht|].
              unfold s2, answer; cbn [infls]. rewrite find_infl_del_same. exact I.
           ++ (* unreachable: the id matches *)
              exfalso. revert T. unfold take. rewrite Ef. rewrite He, N.eqb_refl. discriminate.
      * apply FInv_set_done; [assumption|]. apply (no_entry_for s t HI Ht). rewrite Ef. assumption.
    + apply FInv_set_done; [assumption|]. apply (no_entry_for s t HI Ht). rewrite Ef. exact I.
Qed.

Lemma FInv_poll_init s t :
  FInv s -> In t (tasks s) -> topen t = true -> closed s t = false -> FInv (poll_init s t).
Proof.
  intros HI Ht Ho Hc. unfold poll_init. destruct (tst t) as [[|] req|req|f|] eqn:E; auto.
  - apply FInv_set_open; auto. discriminate.
  - apply FInv_try_set_required; auto. discriminate.
Qed.

Lemma FInv_done_after_insert s t v :
  FInv s -> In t (tasks s) ->
  FInv (with_tasks (do_insert s (tkey t) v) (set_task (tid t) TDone (tasks (do_insert s (tkey t) v)))).
Proof.
  intros HI Ht. pose proof (FInv_do_insert s (tkey t) v HI) as H1.
  destruct (do_insert_frame s (tkey t) v) as (A & _ & B & _).
  apply FInv_set_done; [assumption|]. apply (no_entry_for _ t H1); [rewrite A; assumption|].
  rewrite B. exact I.
Qed.

Lemma FInv_take_by_id_done s t r :
  FInv s -> In t (tasks s) -> r <> RPending ->
  FInv (let '(s1, ws) := take s (tkey t) (Some (tid t)) in
        let s2 := match ws with Some ws => answer s1 ws r | None => s1 end in
        with_tasks s2 (set_task (tid t) TDone (tasks s2))).
Proof.
  intros HI Ht Hr. destruct (take s (tkey t) (Some (tid t))) as [s1 [ws|]] eqn:T.
  - destruct (take_some _ _ _ _ _ T) as (i & Hf & -> & _ & ->).
    set (s2 := answer _ (iwaiters i) r).
    assert (H2 : FInv s2).
    { unfold s2, answer; cbn [mem infls tasks cells callers started finished next_id].
      apply FInv_take_answer; auto. intros j Hj. apply del_infl_In in Hj. apply (fi_mem s HI). tauto. }
    apply FInv_set_done; [assumption|]. apply (no_entry_for s2 t H2); [exact Ht|].
    unfold s2, answer; cbn [infls]. rewrite find_infl_del_same. exact I.
  - pose proof T as T'. apply take_none in T. subst s1. apply FInv_set_done; [assumption|].
    apply (no_entry_for s t HI Ht). revert T'. unfold take.
    destruct (find_infl (tkey t) (infls s)) as [i|]; [|intros; exact I].
    destruct (N.eqb_spec (tid t) (iid i)); [intros H; inversion H|intros _; congruence].
Qed.

Lemma FInv_poll_opt s t o : FInv s -> In t (tasks s) -> FInv (poll_opt s t o).
Proof.
  intros HI Ht. unfold poll_opt. destruct (tst t) as [ho req|req|f|] eqn:E; auto.
  assert (Ho : topen t = true) by (unfold topen; rewrite E; reflexivity).
  destruct (closed s t) eqn:Hc.
  - apply FInv_set_done; [assumption|]. apply closed_no_entry; assumption.
  - destruct o as [v| |].
    + apply FInv_done_after_insert; assumption.
    + apply FInv_try_set_required; auto. discriminate.
    + apply FInv_try_set_required; auto. discriminate.
Qed.

Lemma FInv_poll_req s t r : FInv s -> In t (tasks s) -> FInv (poll_req s t r).
Proof.
  intros HI Ht. unfold poll_req. destruct (tst t) as [ho req|req|f|] eqn:E; auto.
  pose proof (finish_fetch_inv s f HI) as H1.
  assert (Ht1 : In t (tasks (finish_fetch s f))) by exact Ht.
  destruct r as [v| |].
  - destruct (closed (finish_fetch s f) t) eqn:Hc.
    + apply FInv_set_done; [assumption|]. apply closed_no_entry; assumption.
    + apply FInv_done_after_insert; assumption.
  - destruct (closed (finish_fetch s f) t) eqn:Hc.
    + apply FInv_set_done; [assumption|]. apply closed_no_entry; assumption.
    + apply (FInv_take_by_id_done (finish_fetch s f) t (RErr 0)); auto. discriminate.
  - apply (FInv_take_by_id_done (finish_fetch s f) t (RErr 1)); auto. discriminate.
Qed.

Lemma find_opt_task_In c l x : find_opt_task c l = Some x -> In x l.
Proof.
  induction l as [|y l IH]; simpl; [discriminate|].
  destruct (tst y).
  - intros H. right; auto.
  - destruct (N.eqb c (tlead y)); intros H; [inversion H; left; reflexivity|right; auto].
  - intros H. right; auto.
  - intros H. right; auto.
Qed.

Lemma find_req_task_In f l x : find_req_task f l = Some x -> In x l /\ tst x = TReq f.
Proof.
  induction l as [|y l IH]; simpl; [discriminate|].
  destruct (tst y) as [ho rq|rq|g|] eqn:E.
  - intros H. destruct (IH H). split; [right|]; auto.
  - intros H. destruct (IH H). split; [right|]; auto.
  - destruct (N.eqb_spec f g) as [->|Hne]; intros H.
    + inversion H; subst. split; [left; reflexivity|assumption].
    + destruct (IH H). split; [right|]; auto.
  - intros H. destruct (IH H). split; [right|]; auto.
Qed.

Lemma nth_app_false (l : list bool) n : (n < length l)%nat -> nth n (l ++ [false]) false = nth n l false.
Proof. intros H. apply app_nth1. assumption. Qed.

Lemma FInv_call s c k ho hr pn : FInv s -> FInv (call false s c k ho hr pn).
Proof.
  intros HI. unfold call. destruct (known_caller s c) eqn:Ek; [assumption|].
  pose proof (known_caller_res s c Ek) as Hres.
  destruct (mlookup k (mem s)) as [v|] eqn:Em.
  - (* memory hit *)
    pose proof HI as [H1 H2 H3 H4 H5 H6 H7 H8 H9].
    constructor; cbn [mem infls tasks cells callers next_id]; auto.
    intros c' Hp. rewrite res_of_app_new in Hp by assumption.
    destruct (N.eqb c' c); [discriminate|auto].
  - destruct (find_infl k (infls s)) as [i|] eqn:Ef.
    + (* join the in-flight entry *)
      apply FInv_upd_infl; auto.
      * intros j. cbn [ikey iid icell iwaiters]. repeat split; auto. intros c0 H. apply in_app_iff. auto.
      * intros c' Hp. rewrite res_of_app_new in Hp by assumption.
        destruct (N.eq_dec c' c) as [He|Hne];
          [subst c'|apply N.eqb_neq in Hne; rewrite Hne in Hp; left; assumption].
        right. destruct (find_infl_In _ _ _ Ef) as [Hin Hk]. exists i. repeat split; auto.
        cbn [iwaiters]. apply in_app_iff. right. left. reflexivity.
    + (* lead *)
      cbn [negb]. set (t := mkTask k (next_id s) c (length (cells s)) (TInit ho (if hr then Some c else None))).
      set (s0 := mkF (mem s) (infls s ++ [mkInfl k (next_id s) (length (cells s)) [c] None]) (tasks s ++ [t])
                     (cells s ++ [false]) (callers s ++ [(c, RPending)]) (started s) (finished s) (next_id s + 1)).
      pose proof HI as [H1 H2 H3 H4 H5 H6 H7 H8 H9].
      assert (Hcl : forall x, In x (tasks s) -> closed s0 x = closed s x).
      { intros x Hx. unfold closed, s0; cbn [cells]. apply nth_app_false. auto. }
      assert (Hclt : closed s0 t = false).
      { unfold closed, s0, t; cbn [cells tcell]. rewrite app_nth2 by lia. rewrite Nat.sub_diag. reflexivity. }
      assert (H0 : FInv s0).
      { constructor; unfold s0; cbn [mem infls tasks cells callers next_id].
        - rewrite map_app. cbn [map ikey]. apply NoDup_app_snoc.
          + assumption.
          + intros Hin. apply in_map_iff in Hin. destruct Hin as [j [Hk Hj]].
            apply (find_infl_None _ _ Ef j Hj). assumption.
        - rewrite map_app. cbn [map tid]. apply NoDup_app_snoc; [assumption|].
          intros Hin. apply in_map_iff in Hin. destruct Hin as [x [Hx Hin]].
          pose proof (H8 x Hin). unfold t in Hx; cbn [tid] in Hx. lia.
        - intros j Hj. apply in_app_iff in Hj. destruct Hj as [Hj|[<-|[]]]; [auto|exact Em].
        - intros j Hj. apply in_app_iff in Hj. destruct Hj as [Hj|[<-|[]]].
          + destruct (H4 j Hj) as (x & Hx & A & B & D & E & F). exists x.
            repeat split; auto; [apply in_app_iff; auto|]. fold s0. rewrite Hcl; assumption.
          + exists t. cbn [iid ikey icell]. repeat split; auto. apply in_app_iff. right. left. reflexivity.
        - intros x Hx Ho Hc. apply in_app_iff in Hx. destruct Hx as [Hx|[<-|[]]].
          + fold s0 in Hc. rewrite Hcl in Hc by assumption. destruct (H5 x Hx Ho Hc) as (j & Hj & A & B).
            exists j. split; [apply in_app_iff; auto|auto].
          + exists (mkInfl k (next_id s) (length (cells s)) [c] None). split; [apply in_app_iff; right; left; reflexivity|].
            split; reflexivity.
        - intros a b Ha Hb Hc. apply in_app_iff in Ha. apply in_app_iff in Hb.
          destruct Ha as [Ha|[<-|[]]], Hb as [Hb|[<-|[]]]; auto.
          + pose proof (H7 a Ha). unfold t in Hc; cbn [tcell] in Hc. lia.
          + pose proof (H7 b Hb). unfold t in Hc; cbn [tcell] in Hc. lia.
        - intros x Hx. rewrite app_length; simpl. apply in_app_iff in Hx. destruct Hx as [Hx|[<-|[]]].
          + pose proof (H7 x Hx). lia.
          + unfold t; cbn [tcell]. lia.
        - intros x Hx. apply in_app_iff in Hx. destruct Hx as [Hx|[<-|[]]].
          + pose proof (H8 x Hx). lia.
          + unfold t; cbn [tid]. lia.
        - intros c' Hp. rewrite res_of_app_new in Hp by assumption.
          destruct (N.eq_dec c' c) as [He|Hne]; [subst c'|apply N.eqb_neq in Hne; rewrite Hne in Hp].
          + exists (mkInfl k (next_id s) (length (cells s)) [c] None). split; [apply in_app_iff; right; left; reflexivity|].
            left; reflexivity.
          + destruct (H9 c' Hp) as (j & Hj & Hw). exists j. split; [apply in_app_iff; auto|assumption]. }
      destruct pn; [|exact H0].
      apply (FInv_poll_init s0 t H0); auto.
      unfold s0; cbn [tasks]. apply in_app_iff. right. left. reflexivity.
Qed.

Lemma find_task_In t l x : find_task t l = Some x -> In x l.
Proof.
  induction l as [|y l IH]; simpl; [discriminate|].
  destruct (N.eqb t (tid y)); intros H; [inversion H; left; reflexivity|right; auto].
Qed.

Lemma FInv_kill_task s t : FInv s -> In t (tasks s) -> FInv (kill_task s t).
Proof.
  intros HI Ht. unfold kill_task. destruct (tst t); try assumption;
    apply (FInv_take_by_id_done s t (RErr 1)); auto; discriminate.
Qed.

Lemma FInv_kill_all s : FInv s -> FInv (kill_all s).
Proof.
  unfold kill_all. generalize (tasks s) at 1. intros l. revert s.
  induction l as [|t l IH]; intros s HI; simpl; [assumption|].
  apply IH. destruct (find_task (tid t) (tasks s)) as [x|] eqn:E; [|assumption].
  apply FInv_kill_task; [assumption|]. eapply find_task_In; eauto.
Qed.

Lemma FInv_fstep s a : FInv s -> FInv (fstep false s a).
Proof.
  intros HI. destruct a; cbn [fstep].
  - apply FInv_call; assumption.
  - apply FInv_call; assumption.
  - apply FInv_kill_all; assumption.
  - destruct (find_opt_task c (tasks s)) as [x|] eqn:E; [|assumption].
    apply FInv_poll_opt; [assumption|]. eapply find_opt_task_In; eauto.
  - destruct (find_req_task f (tasks s)) as [x|] eqn:E; [|assumption].
    apply FInv_poll_req; [assumption|]. apply (find_req_task_In _ _ _ E).
  - apply FInv_do_insert; assumption.
  - apply FInv_with_mem; [assumption|]. intros i Hi.
    destruct (N.eq_dec (ikey i) k) as [->|Hne]; [apply mlookup_mremove_same|].
    rewrite mlookup_mremove_other by assumption. apply (fi_mem s HI). assumption.
Qed.

Lemma FInv_frun l : forall s, FInv s -> FInv (frun false s l).
Proof.
  unfold frun. induction l as [|a l IH]; intros s HI; simpl; [assumption|].
  apply IH. apply FInv_fstep. assumption.
Qed.

(* ================================================================ the properties *)

(* C06: at most one registered (unclosed) task per key, hence at most one origin fetch that can
   still deliver for that key *)
Lemma single_flight s t1 t2 :
  FInv s -> In t1 (tasks s) -> In t2 (tasks s) ->
  topen t1 = true -> topen t2 = true -> closed s t1 = false -> closed s t2 = false ->
  tkey t1 = tkey t2 -> t1 = t2.
Proof.
  intros HI H1 H2 O1 O2 C1 C2 Hk.
  destruct (fi_reg s HI t1 H1 O1 C1) as (i1 & Hi1 & A1 & B1).
  destruct (fi_reg s HI t2 H2 O2 C2) as (i2 & Hi2 & A2 & B2).
  assert (i1 = i2).
  { destruct (find_infl (ikey i2) (infls s)) as [j|] eqn:E.
    - assert (i1 = j) by (eapply find_infl_unique; eauto using fi_keys; congruence).
      assert (i2 = j) by (eapply find_infl_unique; eauto using fi_keys). congruence.
    - exfalso. eapply In_find_infl; eauto. }
  subst i2. eapply tid_inj; eauto using fi_tids. congruence.
Qed.

(* C06: every unanswered caller is registered in the in-flight entry of a live leader task *)
Lemma pending_registered s c :
  FInv s -> res_of (callers s) c = Some RPending ->
  exists i t, In i (infls s) /\ In c (iwaiters i) /\ In t (tasks s) /\ tid t = iid i /\ tkey t = ikey i /\
              topen t = true /\ closed s t = false.
Proof.
  intros HI Hp. destruct (fi_wait s HI c Hp) as (i & Hi & Hw).
  destruct (fi_lead s HI i Hi) as (t & Ht & A & B & _ & E & F).
  exists i, t. repeat split; auto.
Qed.

(* "never hangs": when no task is left running, nobody is waiting *)
Lemma quiescent_all_answered s :
  FInv s -> (forall t, In t (tasks s) -> topen t = false) -> forall c, res_of (callers s) c <> Some RPending.
Proof.
  intros HI Hq c Hp. destruct (pending_registered s c HI Hp) as (i & t & _ & _ & Ht & _ & _ & Ho & _).
  rewrite (Hq t Ht) in Ho. discriminate.
Qed.

(* progress measure: resolving the future a task waits on moves that task strictly forward and no
   other task backward *)
Definition stage (t : task) : nat :=
  match tst t with TInit _ _ => 3 | TOpt _ => 2 | TReq _ => 1 | TDone => 0 end%nat.
Definition measure (s : fstate) : nat := fold_right (fun t a => (stage t + a)%nat) 0%nat (tasks s).

Lemma measure_set_task t st l :
  NoDup (map tid l) -> forall x, In x l -> tid x = t ->
  (fold_right (fun t a => (stage t + a)%nat) 0%nat (set_task t st l) + stage x =
   fold_right (fun t a => (stage t + a)%nat) 0%nat l + stage (mkTask (tkey x) (tid x) (tlead x) (tcell x) st))%nat.
Proof.
  induction l as [|y l IH]; simpl; intros Hnd x Hin He; [contradiction|].
  inversion Hnd as [|? ? Hnot Hnd']; subst.
  destruct (N.eqb_spec (tid x) (tid y)) as [H|H]; simpl.
  - destruct Hin as [<-|Hin]; [lia|]. exfalso. apply Hnot. rewrite <- H. apply in_map. assumption.
  - destruct Hin as [<-|Hin]; [congruence|]. specialize (IH Hnd' x Hin eq_refl). lia.
Qed.

(* C11: once insert(k, v) has completed, no fetch result replaces v: memory changes for k only
   through an explicit insert or remove of k *)
Definition touches (k : N) (a : act) : bool :=
  match a with AInsert k' _ | ARemove k' => N.eqb k k' | _ => false end.

Lemma try_set_required_mem s t req r k :
  mlookup k (mem (try_set_required s t req r)) = mlookup k (mem s).
Proof.
  unfold try_set_required. destruct req; [reflexivity|].
  destruct (find_infl (tkey t) (infls s)) as [i|]; [|reflexivity].
  destruct (negb _); [reflexivity|]. destruct (idon i); [reflexivity|].
  unfold take. destruct (find_infl (tkey t) (infls s)) as [j|]; [|reflexivity].
  destruct (N.eqb (tid t) (iid j)); reflexivity.
Qed.

Lemma take_by_id_mem s t r k :
  mlookup k (mem (let '(s1, ws) := take s (tkey t) (Some (tid t)) in
                  let s2 := match ws with Some ws => answer s1 ws r | None => s1 end in
                  with_tasks s2 (set_task (tid t) TDone (tasks s2)))) = mlookup k (mem s).
Proof.
  unfold take. destruct (find_infl (tkey t) (infls s)) as [j|]; [|reflexivity].
  destruct (N.eqb (tid t) (iid j)); reflexivity.
Qed.

Lemma fstep_keeps_value s a k v :
  FInv s -> mlookup k (mem s) = Some v -> touches k a = false -> mlookup k (mem (fstep false s a)) = Some v.
Proof.
  intros HI Hm Ht.
  (* a task that is registered has a key that is not in memory *)
  assert (Hreg : forall t, In t (tasks s) -> topen t = true -> closed s t = false -> tkey t <> k).
  { intros t Hin Ho Hc He. destruct (fi_reg s HI t Hin Ho Hc) as (i & Hi & _ & B).
    pose proof (fi_mem s HI i Hi) as Hn. rewrite B, He, Hm in Hn. discriminate. }
  destruct a; cbn [fstep touches] in *.
  - (* call *)
    unfold call. destruct (known_caller s c); [assumption|].
    destruct (mlookup k0 (mem s)) eqn:E0; [assumption|].
    destruct (find_infl k0 (infls s)); [assumption|].
    unfold poll_init; cbn [tst]. destruct has_opt; [assumption|].
    rewrite try_set_required_mem. assumption.
  - unfold call. destruct (known_caller s c); [assumption|].
    destruct (mlookup k0 (mem s)) eqn:E0; [assumption|].
    destruct (find_infl k0 (infls s)); assumption.
  - (* kill_all never touches memory *)
    unfold kill_all. generalize (tasks s) at 1. intros l. revert Hm. generalize s. clear.
    induction l as [|t l IH]; intros s Hm; simpl; [assumption|].
    apply IH. destruct (find_task (tid t) (tasks s)) as [x|]; [|assumption].
    unfold kill_task. destruct (tst x); try assumption;
      (etransitivity; [exact (take_by_id_mem s x (RErr 1) k)|exact Hm]).
  - destruct (find_opt_task c (tasks s)) as [x|] eqn:E; [|assumption].
    pose proof (find_opt_task_In _ _ _ E) as Hx.
    unfold poll_opt. destruct (tst x) as [ho rq|rq|g|] eqn:Et; try assumption.
    assert (Ho : topen x = true) by (unfold topen; rewrite Et; reflexivity).
    destruct (closed s x) eqn:Hc; [assumption|].
    destruct o as [v'| |]; [|rewrite try_set_required_mem; assumption|rewrite try_set_required_mem; assumption].
    cbn [mem with_tasks]. destruct (do_insert_frame s (tkey x) v') as (_ & _ & _ & _ & Hoth).
    rewrite Hoth; [assumption|]. intros He. apply (Hreg x Hx Ho Hc). auto.
  - destruct (find_req_task f (tasks s)) as [x|] eqn:E; [|assumption].
    destruct (find_req_task_In _ _ _ E) as [Hx Et].
    unfold poll_req. rewrite Et.
    assert (Ho : topen x = true) by (unfold topen; rewrite Et; reflexivity).
    destruct r as [v'| |].
    + destruct (closed (finish_fetch s f) x) eqn:Hc; [assumption|].
      cbn [mem with_tasks]. destruct (do_insert_frame (finish_fetch s f) (tkey x) v') as (_ & _ & _ & _ & Hoth).
      rewrite Hoth; [assumption|]. intros He. apply (Hreg x Hx Ho Hc). auto.
    + destruct (closed (finish_fetch s f) x) eqn:Hc; [assumption|].
      etransitivity; [exact (take_by_id_mem (finish_fetch s f) x (RErr 0) k)|exact Hm].
    + etransitivity; [exact (take_by_id_mem (finish_fetch s f) x (RErr 1) k)|exact Hm].
  - destruct (do_insert_frame s k0 v0) as (_ & _ & _ & _ & Hoth).
    rewrite Hoth; [assumption|]. intros ->. rewrite N.eqb_refl in Ht. discriminate.
  - cbn [mem with_mem]. rewrite mlookup_mremove_other; [assumption|].
    intros ->. rewrite N.eqb_refl in Ht. discriminate.
Qed.

Lemma frun_keeps_value l : forall s k v,
  FInv s -> mlookup k (mem s) = Some v -> forallb (fun a => negb (touches k a)) l = true ->
  mlookup k (mem (frun false s l)) = Some v.
Proof.
  unfold frun. induction l as [|a l IH]; intros s k v HI Hm Hq; simpl; [assumption|].
  simpl in Hq. apply andb_true_iff in Hq. destruct Hq as [Ha Hl]. apply negb_true_iff in Ha.
  apply IH; [apply FInv_fstep; assumption| |assumption].
  apply fstep_keeps_value; assumption.
Qed.

(* C11: the callers waiting for k when insert(k, v) completes are answered with v *)
Lemma insert_answers_waiters s k v i c :
  FInv s -> find_infl k (infls s) = Some i -> In c (iwaiters i) -> res_of (callers s) c = Some RPending ->
  res_of (callers (do_insert s k v)) c = Some (REntry v) /\ mlookup k (mem (do_insert s k v)) = Some v.
Proof.
  intros HI Hf Hw Hp. split; [|apply (do_insert_frame s k v)].
  unfold do_insert, take. rewrite Hf. cbn [with_mem mem infls tasks cells callers started finished next_id].
  rewrite res_of_notify by discriminate.
  assert (He : existsb (N.eqb c) (iwaiters i) = true) by (apply existsb_In; assumption).
  rewrite He, Hp. reflexivity.
Qed.

(* ---------------------------------------------------------------- progress *)

Lemma try_set_required_tasks s t req r :
  exists st, tasks (try_set_required s t req r) = set_task (tid t) st (tasks s) /\
             (st = TDone \/ exists f, st = TReq f).
Proof.
  unfold try_set_required. destruct req as [f|].
  - exists (TReq f). split; [reflexivity|right; eauto].
  - destruct (find_infl (tkey t) (infls s)) as [i|]; [|exists TDone; split; [reflexivity|auto]].
    destruct (negb _); [exists TDone; split; [reflexivity|auto]|].
    destruct (idon i) as [f|]; [exists (TReq f); split; [reflexivity|right; eauto]|].
    exists TDone. split; [|auto]. unfold take. destruct (find_infl (tkey t) (infls s)) as [j|]; [|reflexivity].
    destruct (N.eqb (tid t) (iid j)); reflexivity.
Qed.

Lemma poll_req_tasks s x r f : tst x = TReq f -> tasks (poll_req s x r) = set_task (tid x) TDone (tasks s).
Proof.
  intros Et. unfold poll_req. rewrite Et.
  assert (Htk : forall r0, tasks (let '(s1, ws) := take (finish_fetch s f) (tkey x) (Some (tid x)) in
                    let s2 := match ws with Some ws => answer s1 ws r0 | None => s1 end in
                    with_tasks s2 (set_task (tid x) TDone (tasks s2))) = set_task (tid x) TDone (tasks s)).
  { intros r0. unfold take. destruct (find_infl (tkey x) (infls (finish_fetch s f))) as [j|]; [|reflexivity].
    destruct (N.eqb (tid x) (iid j)); reflexivity. }
  destruct r as [v| |].
  - destruct (closed (finish_fetch s f) x); [reflexivity|].
    cbn [tasks with_tasks]. rewrite (proj1 (do_insert_frame (finish_fetch s f) (tkey x) v)). reflexivity.
  - destruct (closed (finish_fetch s f) x); [reflexivity|]. exact (Htk (RErr 0)).
  - exact (Htk (RErr 1)).
Qed.

Lemma poll_opt_tasks s x o rq : tst x = TOpt rq ->
  exists st, tasks (poll_opt s x o) = set_task (tid x) st (tasks s) /\ (st = TDone \/ exists f, st = TReq f).
Proof.
  intros Et. unfold poll_opt. rewrite Et.
  destruct (closed s x); [exists TDone; split; [reflexivity|auto]|].
  destruct o as [v| |]; [|apply try_set_required_tasks|apply try_set_required_tasks].
  exists TDone. split; [|auto]. cbn [tasks with_tasks]. rewrite (proj1 (do_insert_frame s (tkey x) v)). reflexivity.
Qed.

(* resolving the origin fetch a task is running finishes that task; resolving its optional stage
   moves it to the fetch stage or finishes it; nothing else moves backwards: with every started
   future eventually resolved, every task finishes, and then (quiescent_all_answered) every caller
   has its answer *)
Lemma progress_req s f r x :
  FInv s -> find_req_task f (tasks s) = Some x -> (measure (fstep false s (AReq f r)) < measure s)%nat.
Proof.
  intros HI E. destruct (find_req_task_In _ _ _ E) as [Hx Et]. cbn [fstep]. rewrite E.
  unfold measure. rewrite (poll_req_tasks s x r f Et).
  pose proof (measure_set_task (tid x) TDone (tasks s) (fi_tids s HI) x Hx eq_refl) as Hm.
  assert (Hs1 : stage x = 1%nat) by (unfold stage; rewrite Et; reflexivity).
  assert (Hs2 : stage (mkTask (tkey x) (tid x) (tlead x) (tcell x) TDone) = 0%nat) by reflexivity.
  rewrite Hs1, Hs2 in Hm. lia.
Qed.

Lemma find_opt_task_state c l x : find_opt_task c l = Some x -> exists rq, tst x = TOpt rq.
Proof.
  induction l as [|y l IH]; simpl; [discriminate|].
  destruct (tst y) as [ho rq|rq|g|] eqn:E; auto.
  destruct (N.eqb c (tlead y)); [|auto]. intros H; inversion H; subst. eauto.
Qed.

Lemma progress_opt s c o x :
  FInv s -> find_opt_task c (tasks s) = Some x -> (measure (fstep false s (AOpt c o)) < measure s)%nat.
Proof.
  intros HI E. pose proof (find_opt_task_In _ _ _ E) as Hx. destruct (find_opt_task_state _ _ _ E) as [rq Et].
  cbn [fstep]. rewrite E. destruct (poll_opt_tasks s x o rq Et) as (st & Hst & Hk).
  unfold measure. rewrite Hst.
  pose proof (measure_set_task (tid x) st (tasks s) (fi_tids s HI) x Hx eq_refl) as Hm.
  assert (Hs1 : stage x = 2%nat) by (unfold stage; rewrite Et; reflexivity).
  rewrite Hs1 in Hm.
  destruct Hk as [->|[g ->]].
  - assert (Hs2 : stage (mkTask (tkey x) (tid x) (tlead x) (tcell x) TDone) = 0%nat) by reflexivity.
    rewrite Hs2 in Hm. lia.
  - assert (Hs2 : stage (mkTask (tkey x) (tid x) (tlead x) (tcell x) (TReq g)) = 1%nat) by reflexivity.
    rewrite Hs2 in Hm. lia.
Qed.
