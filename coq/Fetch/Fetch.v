(* M-FETCH: the in-flight table of one memory cache and its fetch tasks.
   Follows foyer-memory/src/inflight.rs (enqueue / take / fetch_or_take) and
   foyer-memory/src/raw.rs (get_or_fetch_inner, RawFetch::poll and its helpers, PinnedDrop,
   emplace's `take(hash, key, None)`).  One [poll] is one call of RawFetch::poll (which loops
   until it returns).  Model only: no proofs in this file.

   [bug_close] reproduces defect F3 of the pinned snapshot: `enqueue` hands the leader a *fresh*
   close flag instead of the one stored in the in-flight entry, so `take` can never close the task. *)
From Coq Require Import List NArith Bool Arith.
Import ListNotations.
Open Scope N_scope.

(* what a caller's future resolves to *)
Inductive res :=
| RPending
| REntry (v : N)          (* Ok(Some(entry)) *)
| RNone                   (* Ok(None): lookup-only caller, nothing found *)
| RErr (kind : N).        (* 0 = fetch error (External), 1 = task cancelled, 2 = optional-stage error *)

(* resolution of an optional (disk) stage / a required (origin) fetch *)
Inductive ores := OHit (v : N) | OMiss | OErr.
Inductive rres := FOk (v : N) | FErr | FPanic.

Inductive tstate :=
| TInit (has_opt : bool) (req : option N)    (* optional builder present?, own required fetch *)
| TOpt (req : option N)                      (* optional stage in flight *)
| TReq (f : N)                               (* origin fetch f in flight *)
| TDone.

Record task := mkTask { tkey : N; tid : N; tlead : N; tcell : nat; tst : tstate }.
  (* tlead: the caller that created the task (names its optional stage) *)

Record infl := mkInfl {
  ikey : N; iid : N; icell : nat;
  iwaiters : list N;            (* callers, in arrival order *)
  idon : option N }.            (* a later caller's fetch, donated to a lookup-only leader *)

Record fstate := mkF {
  mem : list (N * N);           (* memory index: key -> value *)
  infls : list infl;
  tasks : list task;            (* every task ever spawned; task id = in-flight id *)
  cells : list bool;            (* close flags *)
  callers : list (N * res);     (* caller -> what its future resolved to *)
  started : list N;             (* origin fetches whose future was built (and polled), in order *)
  finished : list N;            (* origin fetches resolved *)
  next_id : N }.

Definition init_f : fstate := mkF [] [] [] [] [] [] [] 0.

Fixpoint mlookup (k : N) (l : list (N * N)) : option N :=
  match l with [] => None | (k', v) :: l' => if N.eqb k k' then Some v else mlookup k l' end.
Fixpoint mremove (k : N) (l : list (N * N)) : list (N * N) :=
  match l with [] => [] | (k', v) :: l' => if N.eqb k k' then mremove k l' else (k', v) :: mremove k l' end.

Fixpoint find_infl (k : N) (l : list infl) : option infl :=
  match l with [] => None | i :: l' => if N.eqb k (ikey i) then Some i else find_infl k l' end.
Fixpoint del_infl (k : N) (l : list infl) : list infl :=
  match l with [] => [] | i :: l' => if N.eqb k (ikey i) then del_infl k l' else i :: del_infl k l' end.
Fixpoint upd_infl (k : N) (f : infl -> infl) (l : list infl) : list infl :=
  match l with [] => [] | i :: l' => if N.eqb k (ikey i) then f i :: l' else i :: upd_infl k f l' end.

Fixpoint set_cell (n : nat) (l : list bool) : list bool :=
  match l, n with
  | [], _ => []
  | _ :: l', O => true :: l'
  | b :: l', S n' => b :: set_cell n' l'
  end.

Fixpoint set_res (c : N) (r : res) (l : list (N * res)) : list (N * res) :=
  match l with
  | [] => []
  | (c', r') :: l' => if N.eqb c c' then (c', match r' with RPending => r | _ => r' end) :: l'
                      else (c', r') :: set_res c r l'
  end.

Definition notify (ws : list N) (r : res) (cs : list (N * res)) : list (N * res) :=
  fold_left (fun cs c => set_res c r cs) ws cs.

Fixpoint set_task (t : N) (st : tstate) (l : list task) : list task :=
  match l with
  | [] => []
  | x :: l' => if N.eqb t (tid x) then mkTask (tkey x) (tid x) (tlead x) (tcell x) st :: l' else x :: set_task t st l'
  end.

Definition with_mem s x := mkF x (infls s) (tasks s) (cells s) (callers s) (started s) (finished s) (next_id s).
Definition with_tasks s x := mkF (mem s) (infls s) x (cells s) (callers s) (started s) (finished s) (next_id s).

(* InflightManager::take(hash, key, id): remove the entry (if [id] matches), close it, hand out its waiters *)
Definition take (s : fstate) (k : N) (id : option N) : fstate * option (list N) :=
  match find_infl k (infls s) with
  | None => (s, None)
  | Some i =>
      let ok := match id with None => true | Some x => N.eqb x (iid i) end in
      if ok then
        (mkF (mem s) (del_infl k (infls s)) (tasks s) (set_cell (icell i) (cells s)) (callers s)
             (started s) (finished s) (next_id s), Some (iwaiters i))
      else (s, None)
  end.

(* emplace + insert_inner: take the in-flight entry of the key (any leader), index the value,
   answer the waiters with the new entry *)
Definition do_insert (s : fstate) (k v : N) : fstate :=
  let '(s, ws) := take s k None in
  let s := with_mem s ((k, v) :: mremove k (mem s)) in
  match ws with
  | Some ws => mkF (mem s) (infls s) (tasks s) (cells s) (notify ws (REntry v) (callers s))
                   (started s) (finished s) (next_id s)
  | None => s
  end.

Definition answer (s : fstate) (ws : list N) (r : res) : fstate :=
  mkF (mem s) (infls s) (tasks s) (cells s) (notify ws r (callers s)) (started s) (finished s) (next_id s).

Definition start_fetch (s : fstate) (f : N) : fstate :=
  mkF (mem s) (infls s) (tasks s) (cells s) (callers s) (started s ++ [f]) (finished s) (next_id s).

Definition closed (s : fstate) (t : task) : bool := nth (tcell t) (cells s) false.

(* RawFetch::try_set_required: own builder, else the donated one, else answer the waiters *)
Definition try_set_required (s : fstate) (t : task) (req : option N) (no_fetch : res) : fstate :=
  match req with
  | Some f => with_tasks (start_fetch s f) (set_task (tid t) (TReq f) (tasks s))
  | None =>
      match find_infl (tkey t) (infls s) with
      | None => with_tasks s (set_task (tid t) TDone (tasks s))
      | Some i =>
          if negb (N.eqb (iid i) (tid t)) then with_tasks s (set_task (tid t) TDone (tasks s)) else
          match idon i with
          | Some f =>
              let s := mkF (mem s) (upd_infl (tkey t) (fun i => mkInfl (ikey i) (iid i) (icell i) (iwaiters i) None) (infls s))
                           (tasks s) (cells s) (callers s) (started s) (finished s) (next_id s) in
              with_tasks (start_fetch s f) (set_task (tid t) (TReq f) (tasks s))
          | None =>
              let '(s, ws) := take s (tkey t) (Some (tid t)) in
              let s := match ws with Some ws => answer s ws no_fetch | None => s end in
              with_tasks s (set_task (tid t) TDone (tasks s))
          end
      end
  end.

(* one poll of a task whose current future (if any) has resolved with [o] / [r] *)
Definition poll_init (s : fstate) (t : task) : fstate :=
  match tst t with
  | TInit true req => with_tasks s (set_task (tid t) (TOpt req) (tasks s))
  | TInit false req => try_set_required s t req RNone
  | _ => s
  end.

Definition finish_fetch (s : fstate) (f : N) : fstate :=
  mkF (mem s) (infls s) (tasks s) (cells s) (callers s) (started s) (finished s ++ [f]) (next_id s).

Definition poll_opt (s : fstate) (t : task) (o : ores) : fstate :=
  match tst t with
  | TOpt req =>
      if closed s t then with_tasks s (set_task (tid t) TDone (tasks s)) else
      match o with
      | OHit v => let s := do_insert s (tkey t) v in with_tasks s (set_task (tid t) TDone (tasks s))
      | OMiss => try_set_required s t req RNone
      | OErr => try_set_required s t req (RErr 2)
      end
  | _ => s
  end.

Definition poll_req (s : fstate) (t : task) (r : rres) : fstate :=
  match tst t with
  | TReq f =>
      let s := finish_fetch s f in
      match r with
      | FPanic =>
          (* the task's future is dropped while unwinding: PinnedDrop takes the entry by id *)
          let '(s, ws) := take s (tkey t) (Some (tid t)) in
          let s := match ws with Some ws => answer s ws (RErr 1) | None => s end in
          with_tasks s (set_task (tid t) TDone (tasks s))
      | _ =>
          if closed s t then with_tasks s (set_task (tid t) TDone (tasks s)) else
          match r with
          | FOk v => let s := do_insert s (tkey t) v in with_tasks s (set_task (tid t) TDone (tasks s))
          | _ =>
              let '(s, ws) := take s (tkey t) (Some (tid t)) in
              let s := match ws with Some ws => answer s ws (RErr 0) | None => s end in
              with_tasks s (set_task (tid t) TDone (tasks s))
          end
      end
  | _ => s
  end.

(* the task whose optional stage was created by caller [c] / the task running origin fetch [f] *)
Fixpoint find_opt_task (c : N) (l : list task) : option task :=
  match l with
  | [] => None
  | x :: l' => match tst x with
               | TOpt _ => if N.eqb c (tlead x) then Some x else find_opt_task c l'
               | _ => find_opt_task c l'
               end
  end.
Fixpoint find_req_task (f : N) (l : list task) : option task :=
  match l with
  | [] => None
  | x :: l' => match tst x with
               | TReq g => if N.eqb f g then Some x else find_req_task f l'
               | _ => find_req_task f l'
               end
  end.

(* get_or_fetch_inner for caller [c]: memory lookup and in-flight registration in one critical
   section; the first caller leads and its task is spawned and polled once *)
Definition known_caller (s : fstate) (c : N) : bool := existsb (fun p => N.eqb c (fst p)) (callers s).

Definition call (bug_close : bool) (s : fstate) (c k : N) (has_opt has_req pollnow : bool) : fstate :=
  if known_caller s c then s else     (* caller names are fresh; a reused name is ignored *)
  match mlookup k (mem s) with
  | Some v => mkF (mem s) (infls s) (tasks s) (cells s) (callers s ++ [(c, REntry v)]) (started s) (finished s) (next_id s)
  | None =>
      match find_infl k (infls s) with
      | Some i =>
          let don := match idon i with
                     | None => if has_req then Some c else None
                     | Some f => Some f
                     end in
          mkF (mem s) (upd_infl k (fun i => mkInfl (ikey i) (iid i) (icell i) (iwaiters i ++ [c]) don) (infls s))
              (tasks s) (cells s) (callers s ++ [(c, RPending)]) (started s) (finished s) (next_id s)
      | None =>
          let id := next_id s in
          let ecell := length (cells s) in
          let tcell' := if bug_close then S ecell else ecell in
          let cells' := if bug_close then cells s ++ [false; false] else cells s ++ [false] in
          let t := mkTask k id c tcell' (TInit has_opt (if has_req then Some c else None)) in
          let s := mkF (mem s) (infls s ++ [mkInfl k id ecell [c] None]) (tasks s ++ [t]) cells'
                       (callers s ++ [(c, RPending)]) (started s) (finished s) (id + 1) in
          if pollnow then poll_init s t else s
      end
  end.

(* the fetch task is dropped (its runtime shuts down, or its future panics): RawFetch's PinnedDrop
   takes its own in-flight entry by id and answers the waiters with a cancellation error *)
Fixpoint find_task (t : N) (l : list task) : option task :=
  match l with [] => None | x :: l' => if N.eqb t (tid x) then Some x else find_task t l' end.

Definition kill_task (s : fstate) (t : task) : fstate :=
  match tst t with
  | TDone => s
  | _ =>
      let '(s1, ws) := take s (tkey t) (Some (tid t)) in
      let s2 := match ws with Some ws => answer s1 ws (RErr 1) | None => s1 end in
      with_tasks s2 (set_task (tid t) TDone (tasks s2))
  end.

Definition kill_all (s : fstate) : fstate :=
  fold_left (fun s t => match find_task (tid t) (tasks s) with Some x => kill_task s x | None => s end) (tasks s) s.

Inductive act :=
| ACall (c k : N) (has_opt has_req : bool)
| ACallNoPoll (c k : N) (has_opt has_req : bool)   (* spawned, not yet polled *)
| AKillAll                                          (* the runtime is dropped: every task is dropped *)
| AOpt (c : N) (o : ores)        (* the optional stage created for leader c resolves; its task is polled *)
| AReq (f : N) (r : rres)        (* origin fetch f resolves; the task running it is polled *)
| AInsert (k v : N)
| ARemove (k : N).

Definition fstep (bug_close : bool) (s : fstate) (a : act) : fstate :=
  match a with
  | ACall c k ho hr => call bug_close s c k ho hr true
  | ACallNoPoll c k ho hr => call bug_close s c k ho hr false
  | AKillAll => kill_all s
  | AOpt c o => match find_opt_task c (tasks s) with Some x => poll_opt s x o | None => s end
  | AReq f r => match find_req_task f (tasks s) with Some x => poll_req s x r | None => s end
  | AInsert k v => do_insert s k v
  | ARemove k => with_mem s (mremove k (mem s))
  end.

Definition frun (bug_close : bool) (s : fstate) (l : list act) : fstate := fold_left (fstep bug_close) l s.

(* origin fetches currently executing *)
Definition live (s : fstate) : list N :=
  flat_map (fun t => match tst t with TReq f => [f] | _ => [] end) (tasks s).
Definition result_of (s : fstate) (c : N) : option res :=
  (fix go l := match l with [] => None | (c', r) :: l' => if N.eqb c c' then Some r else go l' end) (callers s).
