(* When does an origin fetch start?  (C12: "the origin fetch runs only after memory missed and the disk
   lookup missed, was throttled or failed".)  [started s] lists the origin fetches whose future was built
   and polled. *)
From Coq Require Import List NArith Bool.
From FV Require Import Fetch.Fetch.
Import ListNotations.
Open Scope N_scope.

Lemma started_take s k id : started (fst (take s k id)) = started s.
Proof.
  unfold take. destruct (find_infl k (infls s)) as [i|]; [|reflexivity].
  destruct (match id with None => true | Some x => x =? iid i end); reflexivity.
Qed.

Lemma started_do_insert s k v : started (do_insert s k v) = started s.
Proof.
  unfold do_insert. pose proof (started_take s k None) as H.
  destruct (take s k None) as [s1 ws]. cbn in H. destruct ws; cbn; auto.
Qed.

(* a lookup that hits memory starts nothing *)
Lemma memory_hit_starts_nothing s c k ho hr pn v :
  mlookup k (mem s) = Some v -> started (call false s c k ho hr pn) = started s.
Proof. intros Hm. unfold call. destruct (known_caller s c); [reflexivity|]. rewrite Hm. reflexivity. Qed.

(* a caller that joins an in-flight entry starts nothing *)
Lemma join_starts_nothing s c k ho hr pn i :
  find_infl k (infls s) = Some i -> started (call false s c k ho hr pn) = started s.
Proof.
  intros Hf. unfold call. destruct (known_caller s c); [reflexivity|].
  destruct (mlookup k (mem s)); [reflexivity|]. rewrite Hf. reflexivity.
Qed.

(* with a disk stage, creating and first polling the task starts nothing: the disk lookup goes first *)
Lemma disk_stage_first s c k hr pn :
  started (call false s c k true hr pn) = started s.
Proof.
  unfold call. destruct (known_caller s c); [reflexivity|].
  destruct (mlookup k (mem s)); [reflexivity|].
  destruct (find_infl k (infls s)); [reflexivity|].
  destruct pn; reflexivity.
Qed.

(* a disk hit starts nothing *)
Lemma disk_hit_starts_nothing s t v : started (poll_opt s t (OHit v)) = started s.
Proof.
  unfold poll_opt. destruct (tst t); try reflexivity.
  destruct (closed s t); [reflexivity|]. cbn. apply started_do_insert.
Qed.

(* the only way an origin fetch starts after a disk stage: that stage missed or failed (a throttled load is
   reported to the memory cache as a miss) *)
Lemma started_try_set_required s t req nf :
  started (try_set_required s t req nf) = started s \/
  exists f, started (try_set_required s t req nf) = started s ++ [f].
Proof.
  unfold try_set_required. destruct req as [f|].
  - right. exists f. reflexivity.
  - destruct (find_infl (tkey t) (infls s)) as [i|]; [|left; reflexivity].
    destruct (negb (iid i =? tid t)); [left; reflexivity|].
    destruct (idon i) as [f|].
    + right. exists f. reflexivity.
    + left. pose proof (started_take s (tkey t) (Some (tid t))) as H.
      destruct (take s (tkey t) (Some (tid t))) as [s1 ws]. cbn in H. destruct ws; cbn; auto.
Qed.

Theorem origin_fetch_only_after_disk_miss s t o :
  started (poll_opt s t o) <> started s -> o = OMiss \/ o = OErr.
Proof.
  intros Hne. destruct o as [v| |]; auto. exfalso. apply Hne. apply disk_hit_starts_nothing.
Qed.
