(* C14  Victims are chosen as the configured eviction algorithm prescribes.
   The executable models of Mem/Algo.v are the formalisation of the documented algorithms and are
   compared with the real code's eviction order on every run (correspondence).  The theorems here
   state what the FIFO and LRU models guarantee in the property's own terms, and the membership
   laws that let the generic theorems (C05, C13, C18) apply to the containers. *)
From Coq Require Import List NArith Bool Permutation Sorted.
From FV Require Import Mem.Shard Mem.Algo Mem.Concrete Mem.AlgoThms Mem.SieveThms Mem.S3Thms Mem.LfuThms.
Import ListNotations.
Open Scope N_scope.

(* determinism: the victim sequence is a function of the operation sequence *)
Theorem c14_deterministic : forall bucket c s ops r1 r2,
  crun1 bucket c s ops = r1 -> crun1 bucket c s ops = r2 -> r1 = r2.
Proof. intros; congruence. Qed.
Print Assumptions c14_deterministic.

(* FIFO evicts in insertion order: the victim has the smallest id (allocation number) *)
Theorem c14_fifo_spec : forall q e q',
  fifo_sorted q -> fifo_pop q = Some (e, q') ->
  q = e :: q' /\ fifo_sorted q' /\ forall x, In x q' -> (eid e < eid x)%nat.
Proof. exact fifo_pop_min. Qed.
Print Assumptions c14_fifo_spec.

Theorem c14_fifo_push_remove_sorted : forall q e i,
  fifo_sorted q -> (forall x, In x q -> (eid x < eid e)%nat) ->
  fifo_sorted (fifo_push q e) /\ fifo_sorted (fifo_remove q i).
Proof. intros; split; [apply fifo_push_sorted | apply fifo_remove_sorted]; assumption. Qed.
Print Assumptions c14_fifo_push_remove_sorted.

(* LRU: low-priority entries first, then the oldest high-priority one; never a pinned record *)
Theorem c14_lru_pop : forall s e s',
  LruInv s -> lru_pop s = Some (e, s') ->
  LruInv s' /\ l_pin s' = l_pin s /\
  ((l_low s = e :: l_low s' /\ l_high s' = l_high s) \/
   (l_low s = [] /\ l_low s' = [] /\ l_high s = e :: l_high s')).
Proof. exact lru_pop_spec. Qed.
Print Assumptions c14_lru_pop.

(* LRU keeps at most the configured share in the high-priority pool; the overflow goes, oldest
   first and in order, to the most-recent end of the low-priority list *)
Theorem c14_lru_share : forall s, LruInv s ->
  let s' := lru_settle s in
  LruInv s' /\ l_hpw s' <= l_hpcap s' /\ l_pin s' = l_pin s /\ l_hpcap s' = l_hpcap s /\
  exists moved, l_high s = moved ++ l_high s' /\ l_low s' = l_low s ++ moved.
Proof. exact lru_settle_spec. Qed.
Print Assumptions c14_lru_share.

Theorem c14_lru_push_share : forall s e, LruInv s -> l_hpw (lru_push s e false) <= l_hpcap s.
Proof. exact lru_push_hp_bound. Qed.
Print Assumptions c14_lru_push_share.

(* a looked-up record goes to the pin list; released, it returns to the most-recent end of its pool *)
Theorem c14_lru_acquire : forall s i, LruInv s ->
  LruInv (lru_acquire s i) /\
  (existsb (fun p => ent_is i (fst p)) (l_pin s) = true -> lru_acquire s i = s) /\
  (existsb (fun p => ent_is i (fst p)) (l_pin s) = false ->
   forall e, In e (l_low s ++ l_high s) -> eid e = i ->
   exists e' b, In (e', b) (l_pin (lru_acquire s i)) /\ eid e' = i).
Proof. exact lru_acquire_spec. Qed.
Print Assumptions c14_lru_acquire.

Theorem c14_lru_release : forall s i, LruInv s ->
  LruInv (lru_release s i) /\
  match take_out (fun p => ent_is i (fst p)) (l_pin s) with
  | None => lru_release s i = s
  | Some ((e, true), pin') =>
      l_pin (lru_release s i) = pin' /\ l_hpw (lru_release s i) <= l_hpcap s /\
      exists moved, l_high s ++ [e] = moved ++ l_high (lru_release s i) /\
                    l_low (lru_release s i) = l_low s ++ moved
  | Some ((e, false), pin') =>
      l_pin (lru_release s i) = pin' /\ l_low (lru_release s i) = l_low s ++ [e] /\
      l_high (lru_release s i) = l_high s
  end.
Proof. exact lru_release_spec. Qed.
Print Assumptions c14_lru_release.

(* pop removes exactly its victim from the container (FIFO, LRU, w-TinyLFU) *)
Theorem c14_pop_members_fifo : forall q e q', fifo_pop q = Some (e, q') -> map eid q = eid e :: map eid q'.
Proof. exact fifo_pop_members. Qed.
Print Assumptions c14_pop_members_fifo.

Theorem c14_pop_members_lru : forall s e s',
  lru_pop s = Some (e, s') -> Permutation (a_members (ALru s)) (eid e :: a_members (ALru s')).
Proof. exact lru_pop_members. Qed.
Print Assumptions c14_pop_members_lru.

Theorem c14_pop_members_lfu : forall bucket s e s',
  lfu_pop bucket s = Some (e, s') -> Permutation (a_members (ALfu s)) (eid e :: a_members (ALfu s')).
Proof. exact lfu_pop_members. Qed.
Print Assumptions c14_pop_members_lfu.

(* SIEVE, the published rule, for every queue and every hand position: the victim is the first record in queue order
   from the hand, wrapping at the tail, whose visited bit is clear; the bits of the records the hand passed are cleared
   and nothing else changes; with every record visited the hand goes once around and takes the record it started from *)
Theorem c14_sieve_rule : forall q p, (p < length q)%nat ->
  let fuel := (2 * length q + 1)%nat in
  (forall j, (p <= j < length q)%nat -> vis q j = Some false -> (forall i, (p <= i < j)%nat -> vis q i = Some true) ->
     sieve_scan fuel p q = Some (j, clear_from p (j - p) q)) /\
  (forall j, (j < p)%nat -> vis q j = Some false -> (forall i, (i < j)%nat -> vis q i = Some true) ->
     (forall i, (p <= i < length q)%nat -> vis q i = Some true) ->
     sieve_scan fuel p q = Some (j, clear_from 0 j (clear_from p (length q - p) q))) /\
  ((forall i, (i < length q)%nat -> vis q i = Some true) ->
     sieve_scan fuel p q = Some (p, clear_from 0 (length q) q)).
Proof. exact sieve_scan_spec. Qed.
Print Assumptions c14_sieve_rule.

Theorem c14_pop_members_sieve : forall s e s',
  sieve_pop s = Some (e, s') ->
  exists p q', nth_error q' p = Some (e, false) /\ map fst q' = map fst (v_q s) /\
               map fst (v_q s') = remove_nth p (map fst (v_q s)).
Proof. exact sieve_pop_members. Qed.
Print Assumptions c14_pop_members_sieve.

(* S3-FIFO, the published rules of the two queues, for every state *)
Theorem c14_s3_small_queue : forall pre s e f post,
  Forall (fun p => s_thr s <= snd p) pre -> f < s_thr s ->
  s3_evict_small (pre ++ (e, f) :: post) s =
    (Some e, ghost_push (s3_with_queues s post (s_main s ++ pre) (s_sw s - wsum2 pre - ew e) (s_mw s + wsum2 pre)) (eh e) (ew e)).
Proof. exact evict_small_promotes. Qed.
Print Assumptions c14_s3_small_queue.

Theorem c14_s3_main_queue_second_chance : forall pre fuel s e post,
  s_main s = pre ++ (e, 0) :: post -> Forall (fun p => 0 < snd p) pre -> (length pre < fuel)%nat ->
  s3_evict_main fuel s = Some (e, s3_with_queues s (s_small s) (post ++ map dec pre) (s_sw s) (s_mw s - ew e)).
Proof. exact evict_main_second_chance. Qed.
Print Assumptions c14_s3_main_queue_second_chance.

(* frequencies are capped at 3 (lookups, insertions), so the second-chance scan ends within its bound and a non-empty
   cache always yields a victim *)
Theorem c14_s3_frequency_capped : forall s i e, S3Inv s -> S3Inv (s3_acquire s i) /\ S3Inv (s3_push s e).
Proof. intros s i e H. split; [apply S3Inv_acquire|apply S3Inv_push]; exact H. Qed.
Print Assumptions c14_s3_frequency_capped.

Theorem c14_s3_pop_total : forall s, S3Inv s -> s_small s <> [] \/ s_main s <> [] -> exists e s', s3_pop s = Some (e, s').
Proof. exact s3_pop_total. Qed.
Print Assumptions c14_s3_pop_total.

(* closed examples of the published rules on the models, evaluated by the kernel *)
Example c14_sieve_hand :
  (* queue a b c, a and b visited: the hand skips and clears them, evicts c, wraps to the front *)
  let q := [(mkEnt 0%nat 1 0, true); (mkEnt 1%nat 1 1, true); (mkEnt 2%nat 1 2, false)] in
  match sieve_pop (mkSieve q None) with
  | Some (e, s') => eid e = 2%nat /\ v_q s' = [(mkEnt 0%nat 1 0, false); (mkEnt 1%nat 1 1, false)] /\ v_hand s' = None
  | None => False
  end.
Proof. vm_compute. repeat split. Qed.

Example c14_s3fifo_small_to_main :
  (* small over budget: a (freq 1 >= threshold 1) is promoted, b (freq 0) is evicted and remembered in ghost *)
  let s := mkS3 [(mkEnt 0%nat 1 10, 1); (mkEnt 1%nat 1 11, 0)] [] [] [] 4 0 1 2 0 1 in
  match s3_pop s with
  | Some (e, s') => eid e = 1%nat /\ s_main s' = [(mkEnt 0%nat 1 10, 1)] /\ s_gset s' = [11] /\ s_sw s' = 0 /\ s_mw s' = 1
  | None => False
  end.
Proof. vm_compute. repeat split. Qed.

Example c14_nonvacuous_lru :
  LruInv (mkLru [] [mkEnt 0%nat 2 0; mkEnt 1%nat 2 1] [] 4 4) /\
  lru_pop (mkLru [] [mkEnt 0%nat 2 0; mkEnt 1%nat 2 1] [] 4 4) = Some (mkEnt 0%nat 2 0, mkLru [] [mkEnt 1%nat 2 1] [] 2 4).
Proof. split; [constructor; reflexivity|reflexivity]. Qed.

(* w-TinyLFU (Mem/LfuThms.v), every state, any sketch: pop is total; the admission duel between the window's oldest record
   and probation's oldest record is decided by the estimated frequencies (strictly lower: the candidate goes, otherwise the
   probation record), the protected segment is evicted from only when both others are empty; window overflow moves the
   oldest window records to the back of probation, in order, until the window fits *)
Theorem c14_lfu_pop_total : forall bucket s,
  lfu_pop bucket s = None <-> f_window s = [] /\ f_probation s = [] /\ f_protected s = [].
Proof. exact lfu_pop_none. Qed.
Print Assumptions c14_lfu_pop_total.

Theorem c14_lfu_victim_rule : forall bucket s e s',
  lfu_pop bucket s = Some (e, s') ->
  match f_window s, f_probation s with
  | ewin :: _, epro :: _ =>
      (lfu_freq bucket s (eh ewin) < lfu_freq bucket s (eh epro) -> e = ewin /\ f_probation s' = f_probation s)%N /\
      (lfu_freq bucket s (eh epro) <= lfu_freq bucket s (eh ewin) -> e = epro /\ f_window s' = f_window s)%N
  | ewin :: _, [] => e = ewin
  | [], epro :: _ => e = epro
  | [], [] => exists t', f_protected s = e :: t'
  end /\ (f_window s <> [] \/ f_probation s <> [] -> f_protected s' = f_protected s).
Proof. exact lfu_victim_rule. Qed.
Print Assumptions c14_lfu_victim_rule.

Theorem c14_lfu_window_overflow : forall w p ww pw cap w' p' ww' pw',
  lfu_win_overflow w p ww pw cap = (w', p', ww', pw') -> ww = wsum w ->
  p' ++ w' = p ++ w /\ (exists moved, p' = p ++ moved /\ w = moved ++ w') /\
  ww' = wsum w' /\ (pw' = pw + (wsum w - wsum w'))%N /\ ((ww' <= cap)%N \/ w' = []).
Proof. exact lfu_win_overflow_rule. Qed.
Print Assumptions c14_lfu_window_overflow.

(* the count-min sketch behind [lfu_freq]: counting a hash raises its own estimate by exactly one (up to the cap) and never
   lowers any other hash's estimate - whatever the bucket function (MurmurHash3 in the implementation) *)
Theorem c14_sketch_counts_one : forall rows bs cap,
  Forall2 (fun r b => (b < length r)%nat) rows bs ->
  sk_estimate (sk_update rows bs) bs cap = N.min cap (sk_estimate rows bs cap + 1).
Proof. exact sk_update_counts_one. Qed.
Print Assumptions c14_sketch_counts_one.

Theorem c14_sketch_never_lowers : forall rows bs bs' acc,
  (sk_estimate rows bs' acc <= sk_estimate (sk_update rows bs) bs' acc)%N.
Proof. exact sk_update_never_lowers. Qed.
Print Assumptions c14_sketch_never_lowers.
