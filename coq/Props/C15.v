(* C15  A graceful close persists what memory held.  One-key model (Hybrid/Engine.v). *)
From Coq Require Import List NArith Bool.
From FV Require Import Hybrid.Engine Hybrid.EngineInv Hybrid.EngineThms Hybrid.EngineVers.
From FV Require Mem.Shard Mem.ShardInv Mem.ShardRefs Mem.ShardThms Mem.ShardFlush.
Import ListNotations.
Open Scope N_scope.

Definition reachable (c : hcfg) (s : kst) : Prop := exists l, run_ok c init_k l /\ s = krun c init_k l.

Lemma reachable_kinv c s : bug_rr c = false -> reachable c s -> KInv c s.
Proof. intros Hrr [l [Hok ->]]. apply kinv_run; auto. apply kinv_init. Qed.
Print Assumptions reachable_kinv.

(* flush-on-close under write-on-eviction: when close() returns, the resident version (not in-memory-only, admitted,
   not a young copy of what the disk already has) is on the device, indexed, the write queue is empty *)
Theorem c15_close_persists : forall c s b v l a,
  bug_rr c = false -> reachable c s -> foc c = true -> woi c = false -> accepts c = true ->
  kmem s = Some (v, l, a) -> l <> LInMem -> a <> Young ->
  exists sq, pipe (do_close c s b) = [] /\ kkeep (do_close c s b) = None /\ kmem (do_close c s b) = None /\
             kidx (do_close c s b) = Some (IAddr sq v b) /\ In (v, sq, b) (kdisk (do_close c s b)) /\
             ktop (do_close c s b) = Some (Some v, sq).
Proof. intros c s b v l a Hrr Hr. apply close_persists; auto. apply reachable_kinv; auto. Qed.
Print Assumptions c15_close_persists.

(* ... and retrievable: before the process exits, and from the reopened store provided recovery picks that copy
   (it is the highest sequence written; the scan finds it: C07, C10) *)
Theorem c15_close_then_lookup : forall c s b v l a,
  bug_rr c = false -> reachable c s -> foc c = true -> woi c = false -> accepts c = true ->
  kmem s = Some (v, l, a) -> l <> LInMem -> a <> Young ->
  lookup_now (do_close c s b) = Some v.
Proof. intros c s b v l a Hrr Hr. apply close_then_lookup; auto. apply reachable_kinv; auto. Qed.
Print Assumptions c15_close_then_lookup.

Theorem c15_close_reopen_lookup_partial : forall c s b v l a vis,
  bug_rr c = false -> reachable c s -> foc c = true -> woi c = false -> accepts c = true ->
  kmem s = Some (v, l, a) -> l <> LInMem -> a <> Young ->
  (forall sq, ktop (do_close c s b) = Some (Some v, sq) -> best_of (do_close c s b) vis = Some (IAddr sq v b)) ->
  lookup_now (do_recover c (do_close c s b) vis) = Some v.
Proof. intros c s b v l a vis Hrr Hr. apply close_reopen_lookup; auto. apply reachable_kinv; auto. Qed.
Print Assumptions c15_close_reopen_lookup_partial.

(* in full: a scan that reads the device completely after the close serves exactly the resident version *)
Theorem c15_close_reopen_serves_resident : forall c l b v lo a vis,
  bug_rr c = false -> run_ok c init_k l -> foc c = true -> woi c = false -> accepts c = true ->
  kmem (krun c init_k l) = Some (v, lo, a) -> lo <> LInMem -> a <> Young ->
  (forall x, In x (kdisk (do_close c (krun c init_k l) b)) -> In x vis) ->
  lookup_now (do_recover c (do_close c (krun c init_k l) b) vis) = Some v.
Proof. exact close_reopen_serves_resident. Qed.
Print Assumptions c15_close_reopen_serves_resident.

(* with flush-on-close disabled nothing is written at close *)
Theorem c15_no_flush_nothing_written : forall c s b, foc c = false -> ksubs (do_close c s b) = ksubs s.
Proof. intros. apply close_without_flush_submits_nothing; auto. Qed.
Print Assumptions c15_no_flush_nothing_written.

(* close leaves no work behind: wait()/close() return with an empty pipeline *)
Theorem c15_close_drains : forall c s b, pipe (do_close c s b) = [].
Proof. intros. unfold do_close. apply drain_all_empty. Qed.
Print Assumptions c15_close_drains.

(* whatever the reopened store answers is the latest value *)
Theorem c15_reopen_fresh : forall c s b vis r,
  bug_rr c = false -> reachable c s -> restart_ok c s b vis ->
  lookup_now (kstep c s (KRestart b vis)) = Some r -> ktruth s = Some r.
Proof. intros c s b vis r Hrr Hr. apply reopen_lookup_fresh; auto. apply reachable_kinv; auto. Qed.
Print Assumptions c15_reopen_fresh.

Example c15_nonvacuous :
  let c := mkCfg false true false true true false in
  let s := krun c init_k [KIns LDefault; KEvict; KDrain 0; KIns LDefault] in
  run_ok c init_k [KIns LDefault; KEvict; KDrain 0; KIns LDefault] /\
  kmem s = Some (2, LDefault, Fresh) /\ lookup_now (do_close c s 1) = Some 2 /\
  lookup_now (do_recover c (do_close c s 1) (kdisk (do_close c s 1))) = Some 2 /\
  restart_ok c s 1 (kdisk (do_close c s 1)).
Proof. vm_compute. repeat split; try discriminate. exists 1. split; auto. Qed.

(* the memory tier's part of close (M-SHARD, RawCache::flush): whatever sequence of operations led to the state, and
   whatever handles are still alive, the flush leaves the shard empty and gives every resident record exactly the
   eviction step - the Evict event and, with the pipe installed, the hand-off to the disk tier *)
Theorem c15_flush_offloads_every_resident_record : forall c cap ops s vs s',
  ShardThms.good c -> Shard.run c (Shard.init_shard cap) ops = Some s -> Shard.flush c s vs = Some s' ->
  Shard.idx s' = [] /\
  forall k i, In (k, i) (Shard.idx s) ->
    In (Shard.EvEvict, i) (Shard.elog s') /\ (Shard.piped c = true -> In i (Shard.plog s')).
Proof.
  intros c cap ops s vs s' Hg Hr Hf. eapply ShardFlush.flush_takes_everything; [|exact Hf].
  exact (ShardRefs.inv_idx c s (ShardThms.reach_inv c cap ops s Hg Hr)).
Qed.
Print Assumptions c15_flush_offloads_every_resident_record.

(* F19 (fixed by 92930ee): the pinned snapshot's flush was evict_all.  With LRU a record that is looked up and whose
   handle is still alive is pinned, evict_all stops with it still resident (the implementation's empty victim list is
   admissible), so close() never handed it to the disk tier; the repaired flush must take it *)
Example c15_refuted_F19_evict_all_leaves_a_referenced_record :
  let c := Shard.mkCfg true true false false in
  let ops := [Shard.OInsert 7 1 1 7 false false 1 []; Shard.ODrop 1; Shard.OGet 7 2] in
  exists s s', Shard.run c (Shard.init_shard 4) ops = Some s /\
    Shard.step c s (Shard.OEvictAll []) = Some s' /\ Shard.idx s' <> [] /\ Shard.plog s' = [] /\
    Shard.step c s (Shard.OFlush []) = None /\
    exists s'', Shard.step c s (Shard.OFlush [7]) = Some s'' /\ Shard.idx s'' = [] /\ Shard.plog s'' = [0%nat].
Proof. vm_compute. eexists _, _. repeat split; try discriminate. eexists. repeat split. Qed.
