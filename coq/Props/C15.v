From Coq Require Import List NArith.
Theorem c15_placeholder : (1 + 1 = 2)%N.
Proof. reflexivity. Qed.
Print Assumptions c15_placeholder.
