(* C17  Hash collisions between distinct keys never alias their entries (memory tier).
   The hash function is an arbitrary parameter of the cache model: it only selects the shard. *)
From Coq Require Import List NArith Bool.
From FV Require Import Mem.Shard Mem.Cache Mem.ShardRefs Mem.ShardThms.
Import ListNotations.
Open Scope N_scope.

(* whatever the hash function, in every reachable cache state a lookup of k yields only a record
   whose key is k (and which was admitted) *)
Theorem c17_mem_own_key : forall hash c total n ops cs s k i,
  good c -> crun hash c (init_cache total n) ops = Some cs -> In s cs ->
  lookup k (idx s) = Some i -> rkey (get_rec s i) = k /\ rphantom (get_rec s i) = false.
Proof.
  intros hash c total n ops cs s k i Hg H Hin Hl.
  assert (HC : CInv c cs) by (eapply CInv_crun; eauto; apply CInv_init).
  unfold CInv in HC. rewrite Forall_forall in HC. eapply lookup_own_key; eauto.
Qed.
Print Assumptions c17_mem_own_key.

(* both of two keys are stored: inserting k leaves every other key k' (colliding or not) findable
   with its own record unless k' itself is chosen as a victim, and k is findable afterwards *)
Theorem c17_both_stored : forall c s k v w hsh low h vs s' k',
  insert c s k v w hsh low false h vs = Some s' -> k' <> k -> ~ In k' vs ->
  lookup k' (idx s') = lookup k' (idx s) /\ lookup k (idx s') = Some (length (arena s)).
Proof.
  intros. split; [eapply insert_other_key; eauto | eapply insert_finds_new; eauto].
Qed.
Print Assumptions c17_both_stored.

Example c17_nonvacuous :
  (* hash collapses every key to 0: both keys live in shard 0 and keep their own values *)
  exists cs, crun (fun _ => 0) (mkCfg false false false false) (init_cache 4 2)
               [OInsert 7 70 1 0 false false 1 []; OInsert 9 90 1 0 false false 2 []] = Some cs
             /\ map (fun s => map fst (idx s)) cs = [[9; 7]; []].
Proof. eexists. split; [vm_compute; reflexivity|reflexivity]. Qed.
