(* C17  Hash collisions between distinct keys never alias their entries (memory tier, then the disk tier).
   The hash function is an arbitrary parameter of the cache model: it only selects the shard. *)
From Coq Require Import List NArith Bool.
From FV Require Import Mem.Shard Mem.Cache Mem.ShardRefs Mem.ShardThms.
From FV Require Hybrid.Collide Hybrid.CollideThms.
Import ListNotations.
Open Scope N_scope.

(* whatever the hash function, in every reachable cache state a lookup of k yields only a record
   whose key is k (and which was admitted) *)
Theorem c17_mem_own_key : forall hash c total n ops cs s k i,
  good c -> crun hash c (init_cache total n) ops = Some cs -> In s cs ->
  lookup k (idx s) = Some i -> rkey (get_rec s i) = k /\ rphantom (get_rec s i) = false.
Proof.
  intros hash c total n ops cs s k i Hg H Hin Hl.
  assert (HC : CInv c cs) by (eapply CInv_crun; eauto; apply CInv_init).
  unfold CInv in HC. rewrite Forall_forall in HC. eapply lookup_own_key; eauto.
Qed.
Print Assumptions c17_mem_own_key.

(* both of two keys are stored: inserting k leaves every other key k' (colliding or not) findable
   with its own record unless k' itself is chosen as a victim, and k is findable afterwards *)
Theorem c17_both_stored : forall c s k v w hsh low h vs s' k',
  insert c s k v w hsh low false h vs = Some s' -> k' <> k -> ~ In k' vs ->
  lookup k' (idx s') = lookup k' (idx s) /\ lookup k (idx s') = Some (length (arena s)).
Proof.
  intros. split; [eapply insert_other_key; eauto | eapply insert_finds_new; eauto].
Qed.
Print Assumptions c17_both_stored.

Example c17_nonvacuous :
  (* hash collapses every key to 0: both keys live in shard 0 and keep their own values *)
  exists cs, crun (fun _ => 0) (mkCfg false false false false) (init_cache 4 2)
               [OInsert 7 70 1 0 false false 1 []; OInsert 9 90 1 0 false false 2 []] = Some cs
             /\ map (fun s => map fst (idx s)) cs = [[9; 7]; []].
Proof. eexists. split; [vm_compute; reflexivity|reflexivity]. Qed.

(* ---- disk tier (M-COLLIDE: all keys that share one 64-bit hash; keeper probed with the full key, ONE index slot for
   the hash, the decoded key compared before a disk hit is accepted) ---- *)
Import Collide.

(* every lookup answered in any history of enqueue / delete / flusher steps / reclaim / restart over any set of colliding
   keys returns a version that was created for the key asked for - or nothing *)
Theorem c17_disk_never_aliases : forall c l k v,
  bug_keeper c = false -> bug_nocheck c = false ->
  In (k, Some v) (cout (c_run c init_c l)) -> owner v (cown (c_run c init_c l)) = Some k.
Proof. exact CollideThms.collisions_never_alias. Qed.
Print Assumptions c17_disk_never_aliases.

Example c17_disk_nonvacuous :
  (* keys 1 and 2 collide.  Both are served from the write queue; once flushed, 2's entry owns the hash's index slot:
     2 is served from disk, 1 is a miss (not 2's value); a delete of 2 hides both; after a restart the highest
     sequence (key 1's rewrite) owns the slot and 2 is a miss *)
  let c := mkCcfg false false in
  cout (c_run c init_c [AEnq 1; AEnq 2; ALoad 1; ALoad 2; AFlush; AFlush; ALoad 1; ALoad 2; ADel 2; ALoad 1;
                        AFlush; AEnq 1; AFlush; ARecover; ALoad 1; ALoad 2]) =
  [(1, Some 1); (2, Some 2); (1, None); (2, Some 2); (1, None); (1, Some 3); (2, None)].
Proof. vm_compute. reflexivity. Qed.

(* the two ways to get it wrong (seeded changes C17-m1 and the missing key comparison) *)
Example c17_refuted_keeper_by_hash :
  cout (c_run (mkCcfg true false) init_c [AEnq 1; AEnq 2; ALoad 1]) = [(1, Some 2)].
Proof. vm_compute. reflexivity. Qed.
Example c17_refuted_no_key_check :
  cout (c_run (mkCcfg false true) init_c [AEnq 1; AEnq 2; AFlush; AFlush; ALoad 1]) = [(1, Some 2)].
Proof. vm_compute. reflexivity. Qed.
