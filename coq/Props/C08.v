(* C08  Every storable key/value round-trips through the disk format bit-exactly.
   Statements only; proofs are in Disk/CodecProofs.v. *)
From Coq Require Import List NArith Bool.
From FV Require Import Disk.Codec Disk.CodecProofs.
Import ListNotations.
Open Scope N_scope.

(* every numeric type (w bytes; signed and float types through their bit patterns) *)
Theorem c08_int : forall w x r, x < 256 ^ N.of_nat w ->
  decode_int w (encode_le w x ++ r) = Some (x, r) /\ length (encode_le w x) = w.
Proof. intros. split; [apply decode_int_encode; assumption | apply encode_le_length]. Qed.
Print Assumptions c08_int.

Theorem c08_bool : forall b r, decode_bool (encode_bool b ++ r) = Some (b, r).
Proof. exact decode_bool_encode. Qed.
Print Assumptions c08_bool.

Theorem c08_vec : forall v r, N.of_nat (length v) < 256 ^ N.of_nat 8 -> decode_vec (encode_vec v ++ r) = Some (v, r).
Proof. exact decode_vec_encode. Qed.
Print Assumptions c08_vec.

(* String: [utf8_valid] is String::from_utf8's check; a Rust String satisfies it *)
Theorem c08_string : forall utf8_valid s r,
  utf8_valid s = true -> N.of_nat (length s) < 256 ^ N.of_nat 8 ->
  decode_string utf8_valid (encode_string s ++ r) = Some (s, r).
Proof. exact decode_string_encode. Qed.
Print Assumptions c08_string.

Theorem c08_header : forall h r, header_ok h -> read_header (write_header h ++ r) = inl h.
Proof. exact read_write_header. Qed.
Print Assumptions c08_header.

(* an accepted entry decodes to the original key and value encodings; the recorded lengths are the
   bytes written; [codec_ok] is the one hypothesis about zstd / lz4 *)
Theorem c08_entry : forall cksum compress decompress,
  (forall c x, decompress c (compress c x) = Some x) ->
  forall comp kenc venc cap payload kl vl pad,
  serialize compress comp kenc venc cap = Some (payload, kl, vl) ->
  length payload = (N.to_nat vl + N.to_nat kl)%nat /\ (length payload <= cap)%nat /\
  deserialize cksum decompress (payload ++ pad) kl vl comp (Some (cksum payload)) = inl (kenc, venc).
Proof. exact serialize_roundtrip. Qed.
Print Assumptions c08_entry.

(* an entry that cannot fit is rejected as a whole: the buffer is exactly what it was *)
Theorem c08_reject_whole : forall cksum compress b kenc venc hash seq comp b',
  buffer_push cksum compress b kenc venc hash seq comp = (b', false) -> b' = b.
Proof. exact push_rejects_whole. Qed.
Print Assumptions c08_reject_whole.

Theorem c08_too_small_is_an_error : forall compress comp kenc venc cap,
  (cap < length (compress comp venc ++ kenc))%nat -> serialize compress comp kenc venc cap = None.
Proof. exact serialize_reject. Qed.
Print Assumptions c08_too_small_is_an_error.

Theorem c08_accept_commits_exactly : forall cksum compress b kenc venc hash seq comp b',
  buffer_push cksum compress b kenc venc hash seq comp = (b', true) ->
  exists payload kl vl,
    serialize compress comp kenc venc (N.to_nat (bf_cap b - bf_written b) - HEADER_LEN) = Some (payload, kl, vl) /\
    let len := N.of_nat HEADER_LEN + kl + vl in
    align_up len <= bf_max b /\
    bf_written b' = bf_written b + align_up len /\
    bf_infos b' = bf_infos b ++ [mkBinfo hash seq (bf_written b) len] /\
    bf_data b' = bf_data b ++ [(bf_written b, write_header (mkHeader kl vl hash seq (cksum payload) comp) ++ payload)] /\
    bf_cap b' = bf_cap b /\ bf_max b' = bf_max b.
Proof. exact push_commits. Qed.
Print Assumptions c08_accept_commits_exactly.

(* what was pushed loads back through header validation, checksum and decoding *)
Theorem c08_loadable : forall cksum compress decompress,
  (forall c x, decompress c (compress c x) = Some x) ->
  forall payload kl vl hash seq comp kenc venc cap pad,
  serialize compress comp kenc venc cap = Some (payload, kl, vl) ->
  header_ok (mkHeader kl vl hash seq (cksum payload) comp) ->
  load_entry cksum decompress (write_header (mkHeader kl vl hash seq (cksum payload) comp) ++ payload ++ pad) =
  Some (mkHeader kl vl hash seq (cksum payload) comp, kenc, venc).
Proof. exact load_pushed. Qed.
Print Assumptions c08_loadable.

(* a strict prefix of an encoding is an error, never a shorter value *)
Theorem c08_strict_prefix_fails : forall w x n v m,
  (n < w)%nat -> N.of_nat (length v) < 256 ^ N.of_nat 8 -> (m < length (encode_vec v))%nat ->
  decode_int w (firstn n (encode_le w x)) = None /\ decode_vec (firstn m (encode_vec v)) = None.
Proof. intros. split; [apply decode_int_prefix; assumption | apply decode_vec_prefix; assumption]. Qed.
Print Assumptions c08_strict_prefix_fails.

Example c08_nonvacuous :
  decode_int 2 (encode_le 2 513 ++ [9]) = Some (513, [9]) /\ encode_le 2 513 = [1; 2] /\
  read_header (write_header (mkHeader 8 16 7 3 99 2)) = inl (mkHeader 8 16 7 3 99 2).
Proof. vm_compute. repeat split. Qed.
