(* C10  With the tombstone log, a flushed delete survives any number of restarts.
   Statements only; proofs are in Disk/TombstoneProofs.v. *)
From Coq Require Import List NArith Bool.
From FV Require Import Disk.Tombstone Disk.TombstoneProofs.
Import ListNotations.
Open Scope N_scope.

(* any number of sessions (open, append a batch, restart) on a fresh log of any size, as long as the
   total stays within the log's capacity: the next open returns every tombstone ever appended, in
   order, and resumes right behind the last one - so nothing appended earlier is ever overwritten *)
Theorem c10_recovered : forall pages batches,
  increasing 0 (concat batches) ->
  N.of_nat (length (concat batches)) + 1 <= pages * SLOTS_PER_PAGE ->
  let dev := sessions false pages (fresh_device pages) batches in
  snd (topen false pages dev) = concat batches /\
  l_tail (fst (topen false pages dev)) = N.of_nat (length (concat batches)) + 1.
Proof. exact all_tombstones_survive. Qed.
Print Assumptions c10_recovered.

(* the n-th tombstone ever appended sits in slot n: the device is [empty; t1; ...; tn; empty...] *)
Theorem c10_layout : forall pages batches ts pad,
  increasing 0 (ts ++ concat batches) ->
  N.of_nat (length ts) + N.of_nat (length (concat batches)) + 1 <= pages * SLOTS_PER_PAGE ->
  (length (concat batches) <= pad)%nat ->
  sessions false pages (layout ts pad) batches = layout (ts ++ concat batches) (pad - length (concat batches)).
Proof. exact sessions_layout. Qed.
Print Assumptions c10_layout.

(* the model of the pinned snapshot (recovered address lacks the page offset; defect F5): after 300
   deletes, a restart, 10 more deletes and another restart, ten tombstones are gone *)
Definition mk (lo n : nat) : list tomb := map (fun i => mkTomb (N.of_nat i * 7) (N.of_nat i)) (seq lo n).

Theorem c10_refuted_F5 :
  let dev := sessions true 4 (fresh_device 4) [mk 1 300; mk 301 10] in
  length (snd (topen true 4 dev)) = 300%nat /\
  existsb (fun t => t_seq t =? 45) (snd (topen true 4 dev)) = false.
Proof. vm_compute. split; reflexivity. Qed.
Print Assumptions c10_refuted_F5.

Example c10_nonvacuous :
  let dev := sessions false 4 (fresh_device 4) [mk 1 300; mk 301 10] in
  map t_seq (snd (topen false 4 dev)) = map N.of_nat (seq 1 310).
Proof. vm_compute. reflexivity. Qed.
