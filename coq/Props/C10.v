(* C10  With the tombstone log, a flushed delete survives any number of restarts.
   Statements only; proofs are in Disk/TombstoneProofs.v. *)
From Coq Require Import List NArith Bool.
From FV Require Import Disk.Tombstone Disk.TombstoneProofs.
Import ListNotations.
Open Scope N_scope.

(* any number of sessions (open, append a batch, restart) on a fresh log of any size, as long as the
   total stays within the log's capacity: the next open returns every tombstone ever appended, in the
   order written, and resumes right behind the last one - so nothing appended earlier is ever overwritten.
   The sequences are ANY non-zero numbers, in any order: with several flushers the log is written batch by batch,
   not in sequence order (finding F22: the pinned snapshot resumed behind the newest tombstone) *)
Theorem c10_recovered : forall pages batches,
  nonzero (concat batches) ->
  N.of_nat (length (concat batches)) + 1 <= pages * SLOTS_PER_PAGE ->
  let dev := sessions false pages (fresh_device pages) batches in
  snd (topen false pages dev) = concat batches /\
  l_tail (fst (topen false pages dev)) = N.of_nat (length (concat batches)) + 1.
Proof. exact all_tombstones_survive. Qed.
Print Assumptions c10_recovered.

(* in particular for the sequences the engine hands out to one flusher: positive and increasing *)
Theorem c10_recovered_in_sequence_order : forall pages batches,
  increasing 0 (concat batches) ->
  N.of_nat (length (concat batches)) + 1 <= pages * SLOTS_PER_PAGE ->
  let dev := sessions false pages (fresh_device pages) batches in
  snd (topen false pages dev) = concat batches.
Proof. intros pages batches H Hc. apply all_tombstones_survive; [eapply increasing_nonzero; eauto|assumption]. Qed.
Print Assumptions c10_recovered_in_sequence_order.

(* the n-th tombstone ever appended sits in slot n: the device is [empty; t1; ...; tn; empty...] *)
Theorem c10_layout : forall pages batches ts pad,
  nonzero (ts ++ concat batches) ->
  N.of_nat (length ts) + N.of_nat (length (concat batches)) + 1 <= pages * SLOTS_PER_PAGE ->
  N.of_nat (length (layout ts pad)) = pages * SLOTS_PER_PAGE ->
  (length (concat batches) <= pad)%nat ->
  sessions false pages (layout ts pad) batches = layout (ts ++ concat batches) (pad - length (concat batches)).
Proof. exact sessions_layout. Qed.
Print Assumptions c10_layout.

(* the model of the pinned snapshot (recovered address lacks the page offset; defect F5): after 300
   deletes, a restart, 10 more deletes and another restart, ten tombstones are gone *)
Definition mk (lo n : nat) : list tomb := map (fun i => mkTomb (N.of_nat i * 7) (N.of_nat i)) (seq lo n).

Theorem c10_refuted_F5 :
  let dev := sessions true 4 (fresh_device 4) [mk 1 300; mk 301 10] in
  length (snd (topen true 4 dev)) = 300%nat /\
  existsb (fun t => t_seq t =? 45) (snd (topen true 4 dev)) = false.
Proof. vm_compute. split; reflexivity. Qed.
Print Assumptions c10_refuted_F5.

(* F22 (fixed by 0eebaad): two flushers wrote the tombstones 1, 3, 2 in that order; the old rule (resume behind the
   newest: the model with [bug_tail] on a one-page log, where its page arithmetic is the identity) puts the next session's
   tombstone 4 over tombstone 2; the repaired rule keeps all four *)
Definition mks (l : list N) : list tomb := map (fun i => mkTomb (i * 7) i) l.
Theorem c10_refuted_F22 :
  map t_seq (snd (topen true 1 (sessions true 1 (fresh_device 1) [mks [1; 3; 2]; mks [4]]))) = [1; 3; 4] /\
  map t_seq (snd (topen false 1 (sessions false 1 (fresh_device 1) [mks [1; 3; 2]; mks [4]]))) = [1; 3; 2; 4].
Proof. vm_compute. split; reflexivity. Qed.
Print Assumptions c10_refuted_F22.

Example c10_nonvacuous :
  let dev := sessions false 4 (fresh_device 4) [mk 1 300; mk 301 10] in
  map t_seq (snd (topen false 4 dev)) = map N.of_nat (seq 1 310).
Proof. vm_compute. reflexivity. Qed.
