(* C13  Each entry leaves memory exactly once, with the right reason and disk hand-off.
   Statements only; proofs are in Mem/ShardEvents.v. *)
From Coq Require Import List NArith Bool.
From FV Require Import Mem.Shard Mem.ShardRefs Mem.ShardThms Mem.ShardEvents.
Import ListNotations.
Open Scope N_scope.

Lemma reach_evinv c cap ops s : good c -> run c (init_shard cap) ops = Some s -> EvInv c s.
Proof. intros [Hc Ht] H. eapply EvInv_run; eauto; [apply Inv_init | apply EvInv_init]. Qed.

(* an admitted (non-phantom) record is either findable, with no notification, or not findable,
   with exactly one *)
Theorem c13_once : forall c cap ops s i,
  good c -> run c (init_shard cap) ops = Some s ->
  (i < length (arena s))%nat -> rphantom (get_rec s i) = false ->
  (indexed s i = true /\ event_count s i = 0%nat) \/ (indexed s i = false /\ event_count s i = 1%nat).
Proof.
  intros c cap ops s i Hg H Hi Hp. pose proof (reach_evinv c cap ops s Hg H) as HE.
  destruct (indexed s i) eqn:E.
  - left. split; [reflexivity|]. apply (ei_indexed c s HE). apply indexed_In. assumption.
  - right. split; [reflexivity|]. apply (ei_left c s HE); auto. intros Hin. apply indexed_In in Hin. congruence.
Qed.
Print Assumptions reach_evinv.
Print Assumptions c13_once.

(* a phantom (filter-rejected / disk-only) record is never findable; it is notified Remove at
   insertion and Evict when its last handle is dropped *)
Theorem c13_phantom : forall c cap ops s i,
  good c -> run c (init_shard cap) ops = Some s ->
  (i < length (arena s))%nat -> rphantom (get_rec s i) = true ->
  indexed s i = false /\ event_count s i = if N.eqb (get_ref s i) 0 then 2%nat else 1%nat.
Proof.
  intros c cap ops s i Hg H Hi Hp. pose proof (reach_evinv c cap ops s Hg H) as HE.
  pose proof (reach_inv c cap ops s Hg H) as [HI _ _]. split.
  - destruct (indexed s i) eqn:E; [|reflexivity]. exfalso.
    apply (phantom_not_indexed s i HI Hp). apply indexed_In. assumption.
  - apply (ei_phantom c s HE); assumption.
Qed.
Print Assumptions c13_phantom.

(* the disk tier is offered exactly the records notified Evict, in the same order, each once;
   without a pipe nothing is offered *)
Theorem c13_pipe : forall c cap ops s,
  good c -> run c (init_shard cap) ops = Some s ->
  plog s = if piped c then evicted_ids (elog s) else [].
Proof. intros c cap ops s Hg H. apply (ei_pipe c s). eapply reach_evinv; eauto. Qed.
Print Assumptions c13_pipe.

(* the reason matches what happened: the generic "leave" step is the only way a record gets out of
   the index, and it logs the event of the operation performing it *)
Theorem c13_reason_remove : forall c s k h i,
  lookup k (idx s) = Some i ->
  elog (remove c s k h) = elog s ++ [(EvRemove, i)] /\ plog (remove c s k h) = plog s.
Proof. intros c s k h i Hl. unfold remove. rewrite Hl. split; reflexivity. Qed.
Print Assumptions c13_reason_remove.

Theorem c13_reason_evict : forall c s k i,
  elog (evict_one c s k i) = elog s ++ [(EvEvict, i)] /\
  plog (evict_one c s k i) = if piped c then plog s ++ [i] else plog s.
Proof. intros c s k i. unfold evict_one, add_pipe. destruct (piped c); split; reflexivity. Qed.
Print Assumptions c13_reason_evict.

Theorem c13_reason_clear : forall c s,
  elog (clear c s) = elog s ++ map (fun p : N * id => (EvClear, snd p)) (idx s) /\ plog (clear c s) = plog s.
Proof.
  intros c s. unfold clear.
  destruct (ShardInv.fold_add_event_frame (idx s) s) as (_ & _ & _ & _ & _ & _ & _ & _ & P & E).
  destruct (bug_clear c); split; assumption.
Qed.
Print Assumptions c13_reason_clear.

Example c13_nonvacuous :
  exists s, run (mkCfg false true false false) (init_shard 1)
              [OInsert 0 1 1 0 false false 1 []; OInsert 1 2 1 1 false false 2 [0]; OInsert 1 3 1 1 false false 3 [1]] = Some s
            /\ elog s = [(EvEvict, 0%nat); (EvEvict, 1%nat)] /\ plog s = [0%nat; 1%nat].
Proof. eexists. split; [vm_compute; reflexivity|]. split; reflexivity. Qed.
