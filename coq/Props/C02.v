(* C02  In-memory cache is linearizable per key under concurrent use.
   What is proved: (1) the specification - an atomic register whose reads may additionally miss - and the notion of a
   linearizable concurrent history over invocation/response stamps; (2) the history checker run on the real cache's
   concurrent histories never rejects a linearizable history (so every rejection it reports is a genuine violation);
   (3) the mechanism: operations that take effect atomically at one point inside their interval (the shard lock's
   critical section), in an order that follows the specification, give a linearizable history.  That the real code's
   operations are atomic in this sense is what the concurrent runs test. *)
From Coq Require Import List NArith Bool Permutation.
From FV Require Import Mem.Shard Mem.ShardThms Mem.Linear Mem.ShardRegister.
Import ListNotations.
Open Scope N_scope.

Theorem c02_checker_sound : forall h,
  NoDup (map eid h) -> linearizable h -> check h = true.
Proof. exact check_sound. Qed.
Print Assumptions c02_checker_sound.

Theorem c02_atomic_effects_linearize : forall l : list (ev * N),
  points_ok 0 l -> seq_ok None (map fst l) -> linearizable (map fst l).
Proof. exact atomic_points_linearizable. Qed.
Print Assumptions c02_atomic_effects_linearize.

(* the sequential memory shard (M-SHARD: every operation of every algorithm, victims arbitrary), seen through any one key,
   follows that specification: the events of any run - insert = write (a rejected / disk-only insert = delete), remove and
   clear = delete, get = read of what it returned - are a legal register-with-misses execution.  So, by the theorem above,
   if the real operations take effect atomically in some order inside their intervals, every concurrent history is
   linearizable *)
Theorem c02_shard_is_a_register : forall c cap ops k l,
  good c -> trace c (init_shard cap) ops k 1 = Some l -> seq_ok None l.
Proof. exact shard_run_linearizable. Qed.
Print Assumptions c02_shard_is_a_register.

(* the checker is not vacuous: it rejects a value superseded by a completed insert, a removed value, a value read
   before it was inserted - and accepts overlapping operations in either order *)
Example c02_checker_discriminates :
  check [mkEv 1 (KWrite 7) 1 2; mkEv 2 (KWrite 8) 3 4; mkEv 3 (KRead (Some 7)) 5 6] = false /\
  check [mkEv 1 (KWrite 7) 1 2; mkEv 2 KDelete 3 4; mkEv 3 (KRead (Some 7)) 5 6] = false /\
  check [mkEv 3 (KRead (Some 7)) 1 2; mkEv 1 (KWrite 7) 3 4] = false /\
  check [mkEv 1 (KWrite 7) 1 4; mkEv 2 (KWrite 8) 2 3; mkEv 3 (KRead (Some 7)) 5 6] = true /\
  check [mkEv 1 (KWrite 7) 1 4; mkEv 2 (KWrite 8) 2 3; mkEv 3 (KRead (Some 8)) 5 6] = true /\
  check [mkEv 1 (KWrite 7) 1 2; mkEv 2 KDelete 3 6; mkEv 3 (KRead (Some 7)) 4 5; mkEv 4 (KRead None) 7 8] = true.
Proof. repeat split; reflexivity. Qed.
