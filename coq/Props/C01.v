(* C01  Hybrid cache never returns a stale or foreign value.
   Stated on the one-key model of the hybrid cache (Hybrid/Engine.v): every history of insert / evict / remove /
   lookup (start and finish are separate steps) / flusher steps (write+index, complete) / reclaim / drain /
   graceful restart, in every interleaving.  "Foreign" values (hash collisions) are C17's. *)
From Coq Require Import List NArith Bool.
From FV Require Import Hybrid.Engine Hybrid.EngineInv Hybrid.EngineThms.
Import ListNotations.
Open Scope N_scope.

(* Every lookup that is answered - from memory, from the write queue (keeper), from the device, or by an insert that
   overtakes it - returns nothing or the version of the latest insert that no remove has followed.
   [run_ok] restricts the histories to: no in-memory-only advice (outside C01), no remove while a disk lookup of the
   key is in flight (open finding F14, see c01_known_F14), restarts only when recovery's winner is the latest
   submission (see C15 / C07 / C10 for when that holds). *)
Theorem c01_lookups_fresh : forall c l,
  bug_rr c = false -> run_ok c init_k l ->
  forall i r t, In (i, r, t) (kout (krun c init_k l)) -> r = None \/ r = t.
Proof. exact lookups_fresh. Qed.
Print Assumptions c01_lookups_fresh.

(* the same for a lookup served on the spot in any reachable state *)
Theorem c01_reachable_lookup : forall c l r,
  bug_rr c = false -> run_ok c init_k l ->
  lookup_now (krun c init_k l) = Some r -> ktruth (krun c init_k l) = Some r.
Proof. exact reachable_lookup_fresh. Qed.
Print Assumptions c01_reachable_lookup.

(* the mechanism "disk index only replaced by an equal-or-higher sequence; index updated before the write-queue
   reference is released": with an empty keeper, an address in the index belongs to the latest submission *)
Theorem c01_index_is_latest : forall s sq v b,
  Inv s -> kkeep s = None -> kidx s = Some (IAddr sq v b) ->
  exists tsq, ktop s = Some (Some v, tsq) /\ kdone s = true.
Proof. exact idx_hit_top. Qed.
Print Assumptions c01_index_is_latest.

(* across a graceful restart *)
Theorem c01_reopen_lookup : forall c s b vis r,
  bug_rr c = false -> KInv c s -> restart_ok c s b vis ->
  lookup_now (kstep c s (KRestart b vis)) = Some r -> ktruth s = Some r.
Proof. exact reopen_lookup_fresh. Qed.
Print Assumptions c01_reopen_lookup.

(* F15 (fixed by 3cca355): with reinsertions spread round-robin over the flushers the statement is false *)
Theorem c01_refuted_F15 :
  exists c l i v, bug_rr c = true /\ run_ok c init_k l /\ In (i, Some v, None) (kout (krun c init_k l)).
Proof. exists f15_cfg, f15_hist, 7, 1. split; [reflexivity|]. split; [exact f15_hist_ok|exact f15_refuted]. Qed.
Print Assumptions c01_refuted_F15.

(* F14 (open): outside [run_ok] - a remove while a disk lookup of the key is in flight - a removed value is served *)
Theorem c01_known_F14 :
  exists c l i v, bug_rr c = false /\ ~ run_ok c init_k l /\ In (i, Some v, None) (kout (krun c init_k l)).
Proof. exists f14_cfg, f14_hist, 8, 1. split; [reflexivity|]. split; [exact f14_hist_not_ok|exact f14_refuted]. Qed.
Print Assumptions c01_known_F14.

(* the hypotheses are satisfiable and the conclusion is not vacuous: a value travels memory -> queue -> device and
   is served from each place; an update and a remove are observed *)
Example c01_nonvacuous :
  let c := mkCfg false true false true true false in
  let l := [KIns LDefault; KLoadStart 1; KEvict; KLoadStart 2; KLoadFinish 2 Young; KEvict; KFlush 0; KComplete;
            KLoadStart 3; KLoadFinish 3 Young; KIns LDefault; KLoadStart 4; KEvict; KDrain 1; KLoadStart 5; KLoadFinish 5 Young;
            KEvict; KRm; KLoadStart 6; KLoadFinish 6 Young] in
  run_ok c init_k l /\
  kout (krun c init_k l) = [(1, Some 1, Some 1); (2, Some 1, Some 1); (3, Some 1, Some 1); (4, Some 2, Some 2);
                            (5, Some 2, Some 2); (6, None, None)].
Proof. vm_compute. repeat split; discriminate. Qed.

(* F17 (open): outside [run_ok] - the block holding the newest copy is reclaimed before a block holding an older one
   (possible with the invalid-ratio picker), then a restart: recovery's winner is the older copy, [restart_ok] fails
   and the reopened store serves the older version *)
Theorem c01_known_F17 :
  let c := mkCfg true true false false true false in
  let l := [KIns LDefault; KFlush 0; KComplete; KEvict; KIns LDefault; KFlush 1; KComplete; KEvict; KReclaim 1] in
  let s := krun c init_k l in
  run_ok c init_k l /\ ktruth s = Some 2 /\ lookup_now s = None /\
  ~ restart_ok c s 2 (kdisk (do_close c s 2)) /\
  lookup_now (kstep c s (KRestart 2 (kdisk (do_close c s 2)))) = Some 1.
Proof.
  vm_compute. repeat split; try discriminate.
  intros [_ [b' [H _]]]. discriminate H.
Qed.
Print Assumptions c01_known_F17.
