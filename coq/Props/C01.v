From Coq Require Import List NArith.
Theorem c01_placeholder : (1 + 1 = 2)%N.
Proof. reflexivity. Qed.
Print Assumptions c01_placeholder.
