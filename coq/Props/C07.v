(* C07  What the flusher writes is exactly what recovery and lookups read back (layout half).
   Statements only; proofs are in Disk/SplitterProofs.v.
   Proved here: for every block size B and index size I (page multiples, I < B, index holds >= 1 entry),
   every sequence of batches of entries with 1 <= len and align len <= B - I:
   the 'handle loop places every entry within three rounds; the split context invariant carries across
   batches; every part is page aligned, its entries lie behind the blob's index page, inside the block,
   back to back; parts come out block by block and, inside a block, in increasing non-overlapping order.
   Scan exactness (c07_scan_exact, Disk/Scan.v + ScanProofs.v): for every physical block that received entries, what
   BlockScanner and the regress check of BlockRecoverRunner read back - over whatever older content the block held
   before - is exactly the list of entries the flusher wrote into it, in order, at the addresses given to the indexer. *)
From Coq Require Import List NArith Bool Sorted.
From FV Require Import Disk.Codec Disk.BlobIndex Disk.BlobIndexProofs Disk.Splitter Disk.SplitterProofs Disk.Scan Disk.ScanProofs Disk.ScanBytes.
Import ListNotations.
Open Scope N_scope.

Theorem c07_no_fuel : forall B I, pa B -> pa I -> I < B -> 0 < icap I ->
  forall lo c a e, Inv B I lo c a -> eok B I e ->
  exists c' a', place B I 3 (c, a) e = Some (c', a') /\ Inv B I lo c' a'.
Proof. intros B I HB HI HIB Hc lo c a e. apply place_ok; assumption. Qed.
Print Assumptions c07_no_fuel.

Theorem c07_layout : forall B I, pa B -> pa I -> I < B -> 0 < icap I ->
  forall c es, CtxInv I c -> Forall (eok B I) es ->
  exists c' ps' n, split B I c es = Some (c', ps', n) /\ CtxInv I c' /\
    Forall (part_ok B I) ps' /\ StronglySorted before ps' /\
    (forall p, In p ps' -> p_blk p = 0 -> bo c + po c <= p_bbo p + p_pbo p) /\
    (forall p, In p ps' -> p_blk p + 1 = n -> pend p <= bo c' + po c') /\
    (n = 1 -> bo c + po c <= bo c' + po c').
Proof. intros B I HB HI HIB Hc c es. apply split_ok; assumption. Qed.
Print Assumptions c07_layout.

Theorem c07_ctx_inv : forall B I, pa B -> pa I -> I < B -> 0 < icap I ->
  forall bs c, CtxInv I c -> Forall (Forall (eok B I)) bs ->
  exists c' out, split_batches B I c bs = Some (c', out) /\ CtxInv I c' /\
    Forall (fun r => Forall (part_ok B I) (fst r) /\ StronglySorted before (fst r)) out.
Proof. intros B I HB HI HIB Hc bs c. apply split_batches_ok; assumption. Qed.
Print Assumptions c07_ctx_inv.

Theorem c07_ctx_init : forall B I, pa I -> I < B -> 0 < icap I -> CtxInv I (init_ctx I).
Proof. intros B I HI HIB Hc. apply (ctx_init B I); assumption. Qed.
Print Assumptions c07_ctx_init.

(* what [part_ok] says, spelled out for one index entry: the recorded address is where the bytes went *)
Theorem c07_addr : forall B I p i, part_ok B I p -> In i (p_inds p) ->
  I <= i_off i /\ pa (p_bbo p + i_off i) /\ p_bbo p + i_off i + align (i_len i) <= B.
Proof.
  intros B I p i (_ & _ & _ & Hall & _) Hin. rewrite Forall_forall in Hall. exact (Hall i Hin).
Qed.
Print Assumptions c07_addr.

Example c07_nonvacuous :
  (* 64 KiB blocks, 4 KiB index: a first batch of three entries, then a batch that overflows the block *)
  split_batches 65536 4096 (init_ctx 4096)
    [[mkEnt 1 1 100; mkEnt 2 2 5000; mkEnt 3 3 4096]; [mkEnt 4 4 30000; mkEnt 5 5 30000]] =
  Some (mkCtx 0 36864 1,
        [([mkPart 0 0 4096 16384 [mkIdx 1 1 4096 100; mkIdx 2 2 8192 5000; mkIdx 3 3 16384 4096] 3], 1);
         ([mkPart 0 0 20480 32768 [mkIdx 4 4 20480 30000] 4; mkPart 1 0 4096 32768 [mkIdx 5 5 4096 30000] 1], 2)]).
Proof. vm_compute. reflexivity. Qed.

(* every physical block, over any sequence of batches, is a chain of blobs: a part continues the open blob right behind
   its last entry or starts a new blob right behind the previous one *)
Theorem c07_blocks_are_chained : forall B I, pa B -> pa I -> I < B -> 0 < icap I ->
  forall bs c out, Forall (Forall (eok B I)) bs -> split_batches B I (init_ctx I) bs = Some (c, out) ->
  forall g, wf I (0, []) (block_parts g (globalize 0 out)).
Proof. intros B I HB HI HIB Hc bs c out. apply split_batches_chained; assumption. Qed.
Print Assumptions c07_blocks_are_chained.

(* scan exactness.  [nondec]: the block's entries carry non-decreasing sequences (one flusher fills a block, in
   submission order; a reinserted entry keeps its original, older sequence and breaks this - finding F10);
   [stale]: any content of the block's previous generation, all of it older *)
Theorem c07_scan_exact : forall B I, pa B -> pa I -> I < B -> 0 < icap I ->
  forall bs c out g stale,
  Forall (Forall (eok B I)) bs -> split_batches B I (init_ctx I) bs = Some (c, out) ->
  let ps := block_parts g (globalize 0 out) in
  ps <> [] ->
  nondec 0 (all_infos ps) ->
  (forall o l i x, stale o = Some l -> In i l -> In x (all_infos ps) -> i_seq i < n_seq x) ->
  recover_block B I (rd (written I ps) stale) = all_infos ps.
Proof. intros B I HB HI HIB Hc bs c out g stale. apply scan_exact; assumption. Qed.
Print Assumptions c07_scan_exact.

(* a block that was reclaimed and not written again scans as empty (only its first page is zeroed) *)
Theorem c07_clean_block_scans_empty : forall B I stale, stale 0 = None -> recover_block B I (rd (written I []) stale) = [].
Proof.
  intros B I stale H. unfold recover_block, scan_fuel, written. cbn [fold_left fst scan].
  destruct (B <? 0 + I); [reflexivity|]. unfold rd. cbn [find_off]. rewrite H. reflexivity.
Qed.
Print Assumptions c07_clean_block_scans_empty.

Example c07_scan_nonvacuous :
  (* the two batches of c07_nonvacuous: block 0 holds two parts of one blob, block 1 one part; behind block 0's blob
     lies an index page of the previous generation (sequence 0), which the regress check cuts off *)
  let out := [([mkPart 0 0 4096 16384 [mkIdx 1 1 4096 100; mkIdx 2 2 8192 5000; mkIdx 3 3 16384 4096] 3], 1);
              ([mkPart 0 0 20480 32768 [mkIdx 4 4 20480 30000] 4; mkPart 1 0 4096 32768 [mkIdx 5 5 4096 30000] 1], 2)] in
  let stale := fun o => if o =? 53248 then Some [mkIdx 9 0 4096 100] else None in
  recover_block 65536 4096 (rd (written 4096 (block_parts 0 (globalize 0 out))) stale) =
    [mkInfo 1 1 4096 100; mkInfo 2 2 8192 5000; mkInfo 3 3 16384 4096; mkInfo 4 4 20480 30000] /\
  recover_block 65536 4096 (rd (written 4096 (block_parts 1 (globalize 0 out))) stale) = [mkInfo 5 5 4096 30000].
Proof. vm_compute. split; reflexivity. Qed.

(* F10 seen from here: a reinserted entry (original sequence 2) written after sequence 7 makes the block regress;
   the scan stops there and loses it and everything behind it *)
Example c07_reinsertion_breaks_the_scan :
  let ps := [mkPart 0 0 4096 8192 [mkIdx 1 7 4096 100; mkIdx 2 2 8192 100] 2; mkPart 0 0 12288 4096 [mkIdx 3 8 12288 100] 3] in
  recover_block 65536 4096 (rd (written 4096 ps) (fun _ => None)) = [mkInfo 1 7 4096 100].
Proof. vm_compute. reflexivity. Qed.

(* The index page byte by byte (Disk/BlobIndex.v): what BlobIndex::write / seal put into the page, BlobIndexReader::read
   returns - exactly those entries, in order, whatever the rest of the (reused) page buffer holds.  [cksum] is external
   code (XXH64): any function with 64-bit results. *)
Theorem c07_index_page_roundtrip : forall cksum, (forall b, (cksum b < 256 ^ 8)%N) -> forall es rest,
  Forall bent_ok es -> (N.of_nat (length es) < 256 ^ 4)%N ->
  bidx_read cksum (bidx_page cksum es rest) = BOk es.
Proof. exact bidx_roundtrip. Qed.
Print Assumptions c07_index_page_roundtrip.

(* ... and therefore the scan of a block's BYTES: a block whose index-page-sized areas hold the sealed pages of what the
   flusher wrote (over stale pages of the previous generation, and bytes the reader does not accept everywhere else) is
   recovered, byte level, as exactly the entries written (Disk/ScanBytes.v: [represents], [rd_bytes]) *)
Theorem c07_scan_exact_bytes : forall cksum, (forall b, (cksum b < 256 ^ 8)%N) ->
  forall B I, pa B -> pa I -> I < B -> 0 < icap I ->
  forall bs c out g stale dev,
  Forall (Forall (eok B I)) bs -> split_batches B I (init_ctx I) bs = Some (c, out) ->
  let ps := block_parts g (globalize 0 out) in
  ps <> [] ->
  nondec 0 (all_infos ps) ->
  (forall o l i x, stale o = Some l -> In i l -> In x (all_infos ps) -> i_seq i < n_seq x) ->
  represents cksum dev (rd (written I ps) stale) ->
  recover_block B I (rd_bytes cksum dev) = all_infos ps.
Proof.
  intros cksum Hck B I HB HI HIB Hc bs c out g stale dev Hbs Hsp ps Hne Hnd Hst Hrep.
  rewrite (recover_block_bytes cksum Hck B I dev _ Hrep).
  exact (c07_scan_exact B I HB HI HIB Hc bs c out g stale Hbs Hsp Hne Hnd Hst).
Qed.
Print Assumptions c07_scan_exact_bytes.

Example c07_scan_bytes_nonvacuous :
  let ck := fun b : bytes => fold_left N.add b 7 in
  let l := [mkIdx 1 7 4096 100; mkIdx 2 8 8192 100] in
  let dev := fun o => if o =? 0 then bidx_page ck (map bent_of_idx l) [9; 9] else [0;0;0;0;0;0;0;0;0;0;0;0] in
  recover_block 65536 4096 (rd_bytes ck dev) = [mkInfo 1 7 4096 100; mkInfo 2 8 8192 100].
Proof. vm_compute. reflexivity. Qed.
