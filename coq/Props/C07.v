(* C07  What the flusher writes is exactly what recovery and lookups read back (layout half).
   Statements only; proofs are in Disk/SplitterProofs.v.
   Proved here: for every block size B and index size I (page multiples, I < B, index holds >= 1 entry),
   every sequence of batches of entries with 1 <= len and align len <= B - I:
   the 'handle loop places every entry within three rounds; the split context invariant carries across
   batches; every part is page aligned, its entries lie behind the blob's index page, inside the block,
   back to back; parts come out block by block and, inside a block, in increasing non-overlapping order.
   Scan exactness (c07_scan_exact) is checked by the independent scanner of the correspondence on the
   implementation's output, not yet proved in Coq: see DESIGN.md. *)
From Coq Require Import List NArith Bool Sorted.
From FV Require Import Disk.Splitter Disk.SplitterProofs.
Import ListNotations.
Open Scope N_scope.

Theorem c07_no_fuel : forall B I, pa B -> pa I -> I < B -> 0 < icap I ->
  forall lo c a e, Inv B I lo c a -> eok B I e ->
  exists c' a', place B I 3 (c, a) e = Some (c', a') /\ Inv B I lo c' a'.
Proof. intros B I HB HI HIB Hc lo c a e. apply place_ok; assumption. Qed.
Print Assumptions c07_no_fuel.

Theorem c07_layout : forall B I, pa B -> pa I -> I < B -> 0 < icap I ->
  forall c es, CtxInv I c -> Forall (eok B I) es ->
  exists c' ps' n, split B I c es = Some (c', ps', n) /\ CtxInv I c' /\
    Forall (part_ok B I) ps' /\ StronglySorted before ps' /\
    (forall p, In p ps' -> p_blk p = 0 -> bo c + po c <= p_bbo p + p_pbo p) /\
    (forall p, In p ps' -> p_blk p + 1 = n -> pend p <= bo c' + po c') /\
    (n = 1 -> bo c + po c <= bo c' + po c').
Proof. intros B I HB HI HIB Hc c es. apply split_ok; assumption. Qed.
Print Assumptions c07_layout.

Theorem c07_ctx_inv : forall B I, pa B -> pa I -> I < B -> 0 < icap I ->
  forall bs c, CtxInv I c -> Forall (Forall (eok B I)) bs ->
  exists c' out, split_batches B I c bs = Some (c', out) /\ CtxInv I c' /\
    Forall (fun r => Forall (part_ok B I) (fst r) /\ StronglySorted before (fst r)) out.
Proof. intros B I HB HI HIB Hc bs c. apply split_batches_ok; assumption. Qed.
Print Assumptions c07_ctx_inv.

Theorem c07_ctx_init : forall B I, pa I -> I < B -> 0 < icap I -> CtxInv I (init_ctx I).
Proof. intros B I HI HIB Hc. apply (ctx_init B I); assumption. Qed.
Print Assumptions c07_ctx_init.

(* what [part_ok] says, spelled out for one index entry: the recorded address is where the bytes went *)
Theorem c07_addr : forall B I p i, part_ok B I p -> In i (p_inds p) ->
  I <= i_off i /\ pa (p_bbo p + i_off i) /\ p_bbo p + i_off i + align (i_len i) <= B.
Proof.
  intros B I p i (_ & _ & _ & Hall & _) Hin. rewrite Forall_forall in Hall. exact (Hall i Hin).
Qed.
Print Assumptions c07_addr.

Example c07_nonvacuous :
  (* 64 KiB blocks, 4 KiB index: a first batch of three entries, then a batch that overflows the block *)
  split_batches 65536 4096 (init_ctx 4096)
    [[mkEnt 1 1 100; mkEnt 2 2 5000; mkEnt 3 3 4096]; [mkEnt 4 4 30000; mkEnt 5 5 30000]] =
  Some (mkCtx 0 36864 1,
        [([mkPart 0 0 4096 16384 [mkIdx 1 1 4096 100; mkIdx 2 2 8192 5000; mkIdx 3 3 16384 4096] 3], 1);
         ([mkPart 0 0 20480 32768 [mkIdx 4 4 20480 30000] 4; mkPart 1 0 4096 32768 [mkIdx 5 5 4096 30000] 1], 2)]).
Proof. vm_compute. reflexivity. Qed.
