(* C06  Concurrent fetches of one key are coalesced and every caller is answered.
   Statements only; proofs are in Fetch/FetchInv.v.  The model is the repaired code (bug_close = false). *)
From Coq Require Import List NArith Bool.
From FV Require Import Fetch.Fetch Fetch.FetchInv.
Import ListNotations.
Open Scope N_scope.

Definition reachable (s : fstate) : Prop := exists l, s = frun false init_f l.

Lemma reach_inv s : reachable s -> FInv s.
Proof. intros [l ->]. apply FInv_frun. apply FInv_init. Qed.
Print Assumptions reach_inv.

(* at most one task per key is still registered (not closed): two leaders for one key cannot both
   be running an origin fetch whose result would be delivered *)
Theorem c06_single_flight : forall s t1 t2,
  reachable s -> In t1 (tasks s) -> In t2 (tasks s) ->
  topen t1 = true -> topen t2 = true -> closed s t1 = false -> closed s t2 = false ->
  tkey t1 = tkey t2 -> t1 = t2.
Proof. intros s t1 t2 Hr. apply single_flight. apply reach_inv; assumption. Qed.
Print Assumptions c06_single_flight.

(* every unanswered caller sits in the in-flight entry of its key, whose leader task is alive *)
Theorem c06_registered : forall s c,
  reachable s -> result_of s c = Some RPending ->
  exists i t, In i (infls s) /\ In c (iwaiters i) /\ In t (tasks s) /\ tid t = iid i /\ tkey t = ikey i /\
              topen t = true /\ closed s t = false.
Proof. intros s c Hr Hp. apply pending_registered; [apply reach_inv; assumption|exact Hp]. Qed.
Print Assumptions c06_registered.

(* never hangs: resolving the future a task waits on strictly decreases a bounded measure, and when
   no task is left nobody is waiting *)
Theorem c06_progress_fetch : forall s f r x,
  reachable s -> find_req_task f (tasks s) = Some x -> (measure (fstep false s (AReq f r)) < measure s)%nat.
Proof. intros s f r x Hr. apply progress_req. apply reach_inv; assumption. Qed.
Print Assumptions c06_progress_fetch.

Theorem c06_progress_disk : forall s c o x,
  reachable s -> find_opt_task c (tasks s) = Some x -> (measure (fstep false s (AOpt c o)) < measure s)%nat.
Proof. intros s c o x Hr. apply progress_opt. apply reach_inv; assumption. Qed.
Print Assumptions c06_progress_disk.

Theorem c06_quiescent_answered : forall s,
  reachable s -> (forall t, In t (tasks s) -> topen t = false) -> forall c, result_of s c <> Some RPending.
Proof. intros s Hr Hq c. apply quiescent_all_answered; [apply reach_inv; assumption|exact Hq]. Qed.
Print Assumptions c06_quiescent_answered.

(* a failed or cancelled fetch caches nothing, a disk miss caches nothing: memory changes only by an
   explicit insert/remove or by a successful fetch / disk hit (so the next call fetches again) *)
Theorem c06_failure_caches_nothing : forall s f x k,
  find_req_task f (tasks s) = Some x ->
  mlookup k (mem (fstep false s (AReq f FErr))) = mlookup k (mem s) /\
  mlookup k (mem (fstep false s (AReq f FPanic))) = mlookup k (mem s).
Proof.
  intros s f x k E. destruct (find_req_task_In _ _ _ E) as [_ Et]. cbn [fstep]. rewrite E.
  unfold poll_req. rewrite Et. split.
  - destruct (closed (finish_fetch s f) x); [reflexivity|].
    exact (take_by_id_mem (finish_fetch s f) x (RErr 0) k).
  - exact (take_by_id_mem (finish_fetch s f) x (RErr 1) k).
Qed.
Print Assumptions c06_failure_caches_nothing.

(* closed scenarios evaluated by the kernel: coalescing + same entry; error to all; cancellation;
   donation of a later caller's fetch to a lookup-only leader *)
Example c06_same_entry :
  let s := frun false init_f [ACall 0 1 false true; ACall 1 1 false true; ACall 2 1 false false; AReq 0 (FOk 7)] in
  callers s = [(0, REntry 7); (1, REntry 7); (2, REntry 7)] /\ started s = [0] /\ mlookup 1 (mem s) = Some 7.
Proof. vm_compute. repeat split. Qed.

Example c06_error_to_all :
  let s := frun false init_f [ACall 0 1 false true; ACall 1 1 false true; AReq 0 FErr; ACall 2 1 false true] in
  callers s = [(0, RErr 0); (1, RErr 0); (2, RPending)] /\ started s = [0; 2] /\ mlookup 1 (mem s) = None.
Proof. vm_compute. repeat split. Qed.

Example c06_cancel :
  let s := frun false init_f [ACall 0 1 true true; ACall 1 1 true false; AOpt 0 OMiss; AReq 0 FPanic] in
  callers s = [(0, RErr 1); (1, RErr 1)].
Proof. vm_compute. reflexivity. Qed.

Example c06_donation :
  let s := frun false init_f [ACall 0 1 true false; ACall 1 1 true true; AOpt 0 OMiss; AReq 1 (FOk 9)] in
  callers s = [(0, REntry 9); (1, REntry 9)] /\ started s = [1].
Proof. vm_compute. repeat split. Qed.
