From Coq Require Import List NArith.
Theorem c03_placeholder : (1 + 1 = 2)%N.
Proof. reflexivity. Qed.
Print Assumptions c03_placeholder.
