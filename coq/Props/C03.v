(* C03  Corrupted or misdirected disk bytes never surface as a cached value.
   Two layers: (1) bytes - what Store::load accepts, for ARBITRARY bytes (Disk/Codec.v, Disk/Fault.v);
   (2) recovery - whatever part of the device survives and is reached by the scan, a recovered store answers a miss or a
   version really written for the key (one-key model, Hybrid/Engine.v; an index entry whose bytes fail verification is
   a miss: [on_disk]). *)
From Coq Require Import List NArith Bool.
From FV Require Import Disk.Codec Disk.Fault Disk.BlobIndex Disk.BlobIndexProofs Hybrid.Engine Hybrid.EngineInv Hybrid.EngineThms Hybrid.EngineVers Hybrid.RecoverDmg.
Import ListNotations.
Open Scope N_scope.

(* [cksum] (XXH64) and [decompress] are external code: the theorems hold for any functions in their place.
   An entry is handed out only if magic and compression tag are valid and the checksum in the header equals the checksum
   of exactly the bytes then decoded as value and key. *)
Theorem c03_accept_means_verified : forall cksum decompress raw h kenc venc,
  load_entry cksum decompress raw = Some (h, kenc, venc) ->
  read_header raw = inl h /\
  let kl := N.to_nat (h_key_len h) in
  let vl := N.to_nat (h_value_len h) in
  let body := skipn HEADER_LEN raw in
  (vl + kl <= length body)%nat /\
  cksum (firstn (vl + kl) body) = h_checksum h /\
  kenc = firstn kl (skipn vl body) /\
  decompress (h_comp h) (firstn vl body) = Some venc.
Proof. exact load_entry_sound. Qed.
Print Assumptions c03_accept_means_verified.

Theorem c03_header_validated : forall raw h,
  read_header raw = inl h ->
  (HEADER_LEN <= length raw)%nat /\ h_comp h <= 2 /\ decode_be (firstn 4 (skipn 32 raw)) / 256 = ENTRY_MAGIC / 256.
Proof. exact read_header_sound. Qed.
Print Assumptions c03_header_validated.

(* flipped bits, zeroed or swapped pages, torn or stale sectors inside the decoded region: rejected as soon as they
   change the checksum (a checksum collision is the residual risk) *)
Theorem c03_damage_rejected : forall cksum decompress raw h,
  read_header raw = inl h ->
  cksum (firstn (N.to_nat (h_value_len h) + N.to_nat (h_key_len h)) (skipn HEADER_LEN raw)) <> h_checksum h ->
  load_entry cksum decompress raw = None.
Proof. exact damaged_payload_rejected. Qed.
Print Assumptions c03_damage_rejected.

Theorem c03_bad_header_rejected : forall cksum decompress raw e,
  read_header raw = inr e -> load_entry cksum decompress raw = None.
Proof. exact bad_header_rejected. Qed.
Print Assumptions c03_bad_header_rejected.

(* the blob index page (what recovery's scan parses), for ARBITRARY bytes: entries reach recovery only if the stored
   checksum equals the checksum of everything behind it - the entry count included (seeded change C03-m2 excludes it) *)
Theorem c03_index_page_accept_means_verified : forall cksum buf es,
  bidx_read cksum buf = BOk es ->
  cksum (skipn 8 buf) = decode_be (firstn 8 buf) /\
  let count := N.to_nat (decode_be (firstn 4 (skipn 8 buf))) in
  (BIDX_OFFSET + count * BENT_LEN <= length buf)%nat /\ length es = count /\
  es = chunks count (skipn BIDX_OFFSET buf).
Proof. exact bidx_accept_means_verified. Qed.
Print Assumptions c03_index_page_accept_means_verified.

Theorem c03_index_page_damage_rejected : forall cksum buf,
  (BIDX_OFFSET <= length buf)%nat -> cksum (skipn 8 buf) <> decode_be (firstn 8 buf) -> bidx_read cksum buf = BReject.
Proof. exact bidx_damage_rejected. Qed.
Print Assumptions c03_index_page_damage_rejected.

(* BlobIndexReader::read slices the page by the stored count and panics when it points beyond the page: only a page whose
   checksum verifies gets that far *)
Theorem c03_index_page_panic_only_if_verified : forall cksum buf,
  (BIDX_OFFSET <= length buf)%nat -> bidx_read cksum buf = BPanic -> cksum (skipn 8 buf) = decode_be (firstn 8 buf).
Proof. exact bidx_panic_only_if_verified. Qed.
Print Assumptions c03_index_page_panic_only_if_verified.

Example c03_index_page_nonvacuous :
  let ck := fun b : bytes => fold_left N.add b 7 in
  let es := [mkBent 5 9 4096 100; mkBent 6 10 8192 4097] in
  let page := bidx_page ck es [1; 2; 3] in
  bidx_read ck page = BOk es /\
  (* one more entry claimed by the count, same checksum field: rejected *)
  bidx_read ck (firstn 11 page ++ [3] ++ skipn 12 page) = BReject.
Proof. vm_compute. split; reflexivity. Qed.

(* recovery over a damaged device: [vis] is what is left of the device as far as the scan is concerned (any subset of the
   copies: a failed blob index checksum, a sequence regress, a zeroed page end the scan of a block) *)
Theorem c03_recovery_serves_written_only : forall c l vis v,
  lookup_now (do_recover c (krun c init_k l) vis) = Some v -> In v (ksubs (krun c init_k l)).
Proof. exact recovery_serves_written. Qed.
Print Assumptions c03_recovery_serves_written_only.

(* the tombstone log carries no checksum: whatever its pages parse to - [tl]: any list of sequences, spurious tombstones
   included, logged ones missing - and whatever part of the blocks the scan reaches, a recovered store answers a miss or a
   version really written for the key (Hybrid/RecoverDmg.v) *)
Theorem c03_damaged_tombstone_log_serves_written_only : forall c l vis tl v,
  lookup_now (do_recover_dmg c (krun c init_k l) vis tl) = Some v -> In v (ksubs (krun c init_k l)).
Proof. exact recovery_dmg_serves_written. Qed.
Print Assumptions c03_damaged_tombstone_log_serves_written_only.

(* a spurious tombstone can only hide the key *)
Theorem c03_spurious_tombstone_is_a_miss : forall c s vis sq,
  (forall v sq' b, In (v, sq', b) (kdisk s) -> sq' <= sq) ->
  lookup_now (do_recover_dmg c s vis [sq]) = None.
Proof. exact spurious_tombstone_is_a_miss. Qed.
Print Assumptions c03_spurious_tombstone_is_a_miss.

(* an index entry whose bytes are gone or fail verification is a miss, not an older copy *)
Theorem c03_unverifiable_copy_is_a_miss : forall s sq v b,
  kmem s = None -> kkeep s = None -> kidx s = Some (IAddr sq v b) -> on_disk (kdisk s) v sq b = false ->
  lookup_now s = None.
Proof.
  intros s sq v b Hm Hk Hi Ho. unfold lookup_now, disk_lookup, disk_lookup2. rewrite Hm, Hk, Hi. cbn [idx_get]. rewrite Ho. reflexivity.
Qed.
Print Assumptions c03_unverifiable_copy_is_a_miss.

Example c03_nonvacuous :
  let c := mkCfg true true false true true false in
  let l := [KIns LDefault; KFlush 0; KComplete; KIns LDefault; KFlush 1; KComplete] in
  (* both copies visible: v2; the block holding v2 unreadable: v1 (really written); nothing readable: miss *)
  lookup_now (do_recover c (krun c init_k l) [(1, 1, 0); (2, 2, 1)]) = Some 2 /\
  lookup_now (do_recover c (krun c init_k l) [(1, 1, 0)]) = Some 1 /\
  lookup_now (do_recover c (krun c init_k l) []) = None.
Proof. vm_compute. repeat split. Qed.
