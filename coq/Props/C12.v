(* C12  Disk writes happen exactly when policy and placement advice say so.
   [ksubs s] is the list of versions handed to the disk tier as cache entries (Submission::CacheEntry), in order;
   the flusher writes each of them exactly once and nothing else (checked against the implementation's device
   writes by the correspondence).  Statements are per step of the one-key model (Hybrid/Engine.v) and hold in every
   state, so they hold along every history. *)
From Coq Require Import List NArith Bool.
From FV Require Fetch.Fetch Fetch.FetchOrder.
From FV Require Import Hybrid.Engine Hybrid.EngineInv Hybrid.EngineThms Hybrid.EngineVers.
Import ListNotations.
Open Scope N_scope.

(* write-on-insertion *)
Theorem c12_woi_insert_written : forall c s l,
  woi c = true -> accepts c = true -> l <> LInMem -> ksubs (do_insert c s l) = ksubs s ++ [knext s].
Proof. exact woi_insert_submits. Qed.
Print Assumptions c12_woi_insert_written.

Theorem c12_woi_eviction_writes_nothing : forall c s, woi c = true -> ksubs (do_evict c s) = ksubs s.
Proof. exact woi_evict_submits_nothing. Qed.
Print Assumptions c12_woi_eviction_writes_nothing.

(* write-on-eviction *)
Theorem c12_woe_insert_writes_nothing : forall c s l,
  woi c = false -> l <> LOnDisk -> ksubs (do_insert c s l) = ksubs s.
Proof. exact woe_insert_submits_nothing. Qed.
Print Assumptions c12_woe_insert_writes_nothing.

Theorem c12_woe_eviction_written : forall c s v l a,
  woi c = false -> accepts c = true -> kmem s = Some (v, l, a) -> l <> LInMem -> a <> Young ->
  ksubs (do_evict c s) = ksubs s ++ [v].
Proof. exact woe_evict_submits. Qed.
Print Assumptions c12_woe_eviction_written.

(* an entry loaded from disk is rewritten only if its block was marked for imminent reclaim (age Old, not Young) *)
Theorem c12_young_not_rewritten : forall c s v l, kmem s = Some (v, l, Young) -> ksubs (do_evict c s) = ksubs s.
Proof. exact young_not_rewritten. Qed.
Print Assumptions c12_young_not_rewritten.

(* in-memory-only advice never reaches the disk: not at insert, not at eviction, not at close *)
Theorem c12_inmem_insert : forall c s, ksubs (do_insert c s LInMem) = ksubs s.
Proof. exact inmem_insert_submits_nothing. Qed.
Print Assumptions c12_inmem_insert.
Theorem c12_inmem_eviction : forall c s v a, kmem s = Some (v, LInMem, a) -> ksubs (do_evict c s) = ksubs s.
Proof. exact inmem_evict_submits_nothing. Qed.
Print Assumptions c12_inmem_eviction.
Theorem c12_inmem_close : forall c s b v a, kmem s = Some (v, LInMem, a) -> ksubs (do_close c s b) = ksubs s.
Proof.
  intros c s b v a Hm. destruct (foc c) eqn:Hf; [destruct (woi c) eqn:Hw|].
  - apply close_without_flush_submits_nothing; auto.
  - rewrite close_with_flush_submits; auto. eapply inmem_evict_submits_nothing; eauto.
  - apply close_without_flush_submits_nothing; auto.
Qed.
Print Assumptions c12_inmem_close.

(* ... along every history whatsoever (any advice for other versions of the key, any interleaving): a version inserted
   with in-memory-only advice is never submitted, and is nowhere on the disk tier (write queue, pipeline, index, device,
   lookups in flight) *)
Theorem c12_inmem_never_on_disk : forall c l v,
  In v (kinmem (krun c init_k l)) ->
  ~ In v (ksubs (krun c init_k l)) /\ ~ In v (dvers (krun c init_k l)).
Proof. exact inmem_never_on_disk. Qed.
Print Assumptions c12_inmem_never_on_disk.

(* on-disk advice: not retained in memory, written if admitted *)
Theorem c12_ondisk_not_retained : forall c s, kmem (do_insert c s LOnDisk) = None.
Proof. exact ondisk_not_retained. Qed.
Print Assumptions c12_ondisk_not_retained.
Theorem c12_ondisk_written : forall c s, accepts c = true -> ksubs (do_insert c s LOnDisk) = ksubs s ++ [knext s].
Proof. exact ondisk_submitted. Qed.
Print Assumptions c12_ondisk_written.

(* rejected by the admission filter: never written *)
Theorem c12_rejected_insert : forall c s l, accepts c = false -> ksubs (do_insert c s l) = ksubs s.
Proof. exact rejected_not_submitted_insert. Qed.
Print Assumptions c12_rejected_insert.
Theorem c12_rejected_eviction : forall c s, accepts c = false -> ksubs (do_evict c s) = ksubs s.
Proof. exact rejected_not_submitted_evict. Qed.
Print Assumptions c12_rejected_eviction.

(* cache hits (and misses) cause no disk writes; neither do remove, the flusher, the reclaimer *)
Theorem c12_lookup_writes_nothing : forall s i a,
  ksubs (do_load_start s i) = ksubs s /\ ksubs (do_load_finish s i a) = ksubs s.
Proof. exact lookup_submits_nothing. Qed.
Print Assumptions c12_lookup_writes_nothing.
Theorem c12_background_creates_nothing : forall c s b fuel,
  ksubs (do_flush c s b) = ksubs s /\ ksubs (do_complete s) = ksubs s /\ ksubs (do_reclaim c s b) = ksubs s /\
  ksubs (drain c fuel b s) = ksubs s /\ ksubs (do_remove s) = ksubs s.
Proof.
  intros. repeat split; [apply subs_flush|apply subs_complete|apply subs_reclaim|apply subs_drain].
Qed.
Print Assumptions c12_background_creates_nothing.

(* close: nothing is written with flush-on-close off (or under write-on-insertion); with it on, what an eviction
   of the resident entry would write *)
Theorem c12_close_without_flush : forall c s b, foc c = false \/ woi c = true -> ksubs (do_close c s b) = ksubs s.
Proof. exact close_without_flush_submits_nothing. Qed.
Print Assumptions c12_close_without_flush.
Theorem c12_close_with_flush : forall c s b, foc c = true -> woi c = false -> ksubs (do_close c s b) = ksubs (do_evict c s).
Proof. exact close_with_flush_submits. Qed.
Print Assumptions c12_close_with_flush.

(* the origin fetch runs only after memory missed and the disk lookup missed or failed (M-FETCH, Fetch/Fetch.v:
   [started] lists the origin fetches whose future was built) *)
Theorem c12_memory_hit_starts_no_fetch : forall s c k ho hr pn v,
  Fetch.mlookup k (Fetch.mem s) = Some v -> Fetch.started (Fetch.call false s c k ho hr pn) = Fetch.started s.
Proof. exact FetchOrder.memory_hit_starts_nothing. Qed.
Print Assumptions c12_memory_hit_starts_no_fetch.
Theorem c12_disk_lookup_goes_first : forall s c k hr pn,
  Fetch.started (Fetch.call false s c k true hr pn) = Fetch.started s.
Proof. exact FetchOrder.disk_stage_first. Qed.
Print Assumptions c12_disk_lookup_goes_first.
Theorem c12_fetch_only_after_disk_miss : forall s t o,
  Fetch.started (Fetch.poll_opt s t o) <> Fetch.started s -> o = Fetch.OMiss \/ o = Fetch.OErr.
Proof. exact FetchOrder.origin_fetch_only_after_disk_miss. Qed.
Print Assumptions c12_fetch_only_after_disk_miss.

Example c12_nonvacuous :
  let woe := mkCfg false true false false true false in
  let wi := mkCfg true true false false true false in
  ksubs (krun woe init_k [KIns LDefault; KIns LDefault; KEvict; KIns LInMem; KEvict; KIns LOnDisk]) = [2; 4] /\
  ksubs (krun wi init_k [KIns LDefault; KIns LDefault; KEvict; KIns LInMem; KEvict; KIns LOnDisk]) = [1; 2; 4].
Proof. vm_compute. split; reflexivity. Qed.
