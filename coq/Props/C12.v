From Coq Require Import List NArith.
Theorem c12_placeholder : (1 + 1 = 2)%N.
Proof. reflexivity. Qed.
Print Assumptions c12_placeholder.
