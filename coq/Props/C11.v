(* C11  An explicit insert is not overwritten by an older in-flight fetch. *)
From Coq Require Import List NArith Bool.
From FV Require Import Fetch.Fetch Fetch.FetchInv.
Import ListNotations.
Open Scope N_scope.

Definition reachable (s : fstate) : Prop := exists l, s = frun false init_f l.

(* the callers that were waiting for k when insert(k, v) completes all receive v *)
Theorem c11_waiters_get_v : forall s k v i c,
  reachable s -> find_infl k (infls s) = Some i -> In c (iwaiters i) -> result_of s c = Some RPending ->
  result_of (fstep false s (AInsert k v)) c = Some (REntry v) /\
  mlookup k (mem (fstep false s (AInsert k v))) = Some v.
Proof.
  intros s k v i c [l ->]. apply insert_answers_waiters. apply FInv_frun. apply FInv_init.
Qed.
Print Assumptions c11_waiters_get_v.

(* once a key holds v (in particular right after insert(k, v) returned), whatever happens next -
   late fetch results, disk-stage results, failures, cancellations, new callers, operations on other
   keys - the cache keeps v for k until k itself is explicitly inserted or removed again *)
Theorem c11_not_overwritten : forall s k v l,
  reachable s -> mlookup k (mem s) = Some v ->
  forallb (fun a => negb (touches k a)) l = true ->
  mlookup k (mem (frun false s l)) = Some v.
Proof.
  intros s k v l [l0 ->]. apply frun_keeps_value. apply FInv_frun. apply FInv_init.
Qed.
Print Assumptions c11_not_overwritten.

(* the model of the pinned snapshot (leader gets a fresh close flag; defect F3, fixed by c989a04)
   violates it: the late fetch result replaces the explicit insert *)
Theorem c11_refuted_F3 :
  exists l k v, mlookup k (mem (frun true init_f l)) <> Some v /\
                exists l1 l2, l = l1 ++ [AInsert k v] ++ l2 /\ forallb (fun a => negb (touches k a)) l2 = true.
Proof.
  exists [ACall 0 1 false true; AInsert 1 100; AReq 0 (FOk 7)], 1, 100. split.
  - vm_compute. discriminate.
  - exists [ACall 0 1 false true], [AReq 0 (FOk 7)]. split; reflexivity.
Qed.
Print Assumptions c11_refuted_F3.

Example c11_nonvacuous :
  let s := frun false init_f [ACall 0 1 true true; ACall 1 1 false true; AOpt 0 OMiss; AInsert 1 100] in
  callers s = [(0, REntry 100); (1, REntry 100)] /\
  mlookup 1 (mem (frun false s [AReq 0 (FOk 7); ACall 2 1 false true])) = Some 100.
Proof. vm_compute. repeat split. Qed.
