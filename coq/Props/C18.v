(* C18  Handles pin what they reference and report outdatedness truthfully. *)
From Coq Require Import List NArith Bool.
From FV Require Import Mem.Shard Mem.ShardLemmas Mem.ShardInv Mem.ShardRefs Mem.ShardThms.
Import ListNotations.
Open Scope N_scope.

(* key, value and weight behind a handle never change: the arena is append-only *)
Theorem c18_stable : forall c ops s s' i,
  run c s ops = Some s' -> (i < length (arena s))%nat -> get_rec s' i = get_rec s i.
Proof. exact run_record_stable. Qed.
Print Assumptions c18_stable.

(* refs() = number of live handles to the record *)
Theorem c18_refs : forall c cap ops s i,
  good c -> run c (init_shard cap) ops = Some s -> (i < length (arena s))%nat ->
  get_ref s i = handle_count s i.
Proof.
  intros c cap ops s i Hg H Hi. destruct (reach_inv c cap ops s Hg H) as [_ HR _].
  rewrite handle_count_eq. apply (ri_refs s HR i Hi).
Qed.
Print Assumptions c18_refs.

(* is_outdated() is true exactly when a lookup of the handle's key would not return this record *)
Theorem c18_outdated : forall c cap ops s i,
  good c -> run c (init_shard cap) ops = Some s ->
  (is_outdated s i = true <-> lookup (rkey (get_rec s i)) (idx s) <> Some i).
Proof.
  intros c cap ops s i Hg H. destruct (reach_inv c cap ops s Hg H) as [HI _ _]. apply outdated_iff. assumption.
Qed.
Print Assumptions c18_outdated.

(* LRU: a lookup pins; a pinned record stays pinned while it is referenced; victims are never pinned *)
Theorem c18_lru_pin_lookup : forall c s k h i,
  pins c = true -> lookup k (idx s) = Some i -> In i (pinned (get c s k h)).
Proof. exact get_pins. Qed.
Print Assumptions c18_lru_pin_lookup.

Theorem c18_lru_pin_persists : forall c s o s' i,
  step c s o = Some s' -> In i (pinned s) -> In i (pinned s') \/ get_ref s' i = 0.
Proof. exact pinned_persists. Qed.
Print Assumptions c18_lru_pin_persists.

Theorem c18_lru_pin_not_victim : forall c target vs s s' k,
  evict_oracle c target vs s = Some s' -> In k vs ->
  exists i, lookup k (idx s) = Some i /\ ~ In i (pinned s).
Proof.
  intros c target vs s s' k H Hin. apply evict_oracle_spec in H. eapply victim_not_pinned; eauto.
Qed.
Print Assumptions c18_lru_pin_not_victim.

(* nothing leaks: with no outstanding handle the next insert brings the shard within capacity *)
Theorem c18_no_leak : forall c cap ops s k v w hsh low h vs s',
  good c -> run c (init_shard cap) ops = Some s -> handles s = [] ->
  insert c s k v w hsh low false h vs = Some s' ->
  usage s' <= capacity s' \/ capacity s' < w.
Proof.
  intros c cap ops s k v w hsh low h vs s' Hg H Hh Hi. eapply insert_no_leak; eauto. eapply reach_inv; eauto.
Qed.
Print Assumptions c18_no_leak.

(* the model of the pinned snapshot (touch leaks a reference; defect F8, fixed by c3392d4) *)
Theorem c18_refs_refuted_F8 :
  exists ops s i, run (mkCfg true false false true) (init_shard 2) ops = Some s /\
                  (i < length (arena s))%nat /\ get_ref s i <> handle_count s i.
Proof.
  exists [OInsert 0 1 2 0 false false 1 []; ODrop 1; OTouch 0 2]. eexists. exists 0%nat.
  split; [vm_compute; reflexivity|]. split; [vm_compute; repeat constructor|]. vm_compute. discriminate.
Qed.
Print Assumptions c18_refs_refuted_F8.

Example c18_nonvacuous :
  exists s, run (mkCfg true false false false) (init_shard 2)
              [OInsert 0 1 1 0 false false 1 []; ODrop 1; OGet 0 2; OInsert 1 2 1 1 false false 3 []; ODrop 3;
               OInsert 2 3 1 2 false false 4 [1]] = Some s
            /\ pinned s = [0%nat] /\ findable s = [2; 0].
Proof. eexists. split; [vm_compute; reflexivity|]. split; reflexivity. Qed.
