From Coq Require Import List NArith.
From FV Require Import Mem.Shard Mem.Cache.
Theorem c18_placeholder : usage (init_shard 5) = 0%N.
Proof. reflexivity. Qed.
Print Assumptions c18_placeholder.
