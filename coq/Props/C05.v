(* C05  Memory usage accounting is exact and capacity-bounded without over-eviction.
   Statements only; proofs are in Mem/ShardInv.v, Mem/ShardRefs.v, Mem/ShardThms.v. *)
From Coq Require Import List NArith Bool.
From FV Require Import Mem.Shard Mem.Cache Mem.ShardRefs Mem.ShardThms.
Import ListNotations.
Open Scope N_scope.

(* usage() = summed weight of the findable entries, entries() = their number: every op sequence,
   every capacity, every admissible choice of victims (hence every eviction algorithm) *)
Theorem c05_exact : forall c cap ops s,
  good c -> run c (init_shard cap) ops = Some s ->
  usage s = sum_weights s /\ entries s = N.of_nat (length (findable s)).
Proof. exact exact_reach. Qed.
Print Assumptions c05_exact.

(* the same for a whole cache: any number of shards, any user hash function *)
Theorem c05_exact_cache : forall hash c total n ops cs,
  good c -> crun hash c (init_cache total n) ops = Some cs ->
  cusage cs = fold_right (fun s a => sum_weights s + a) 0 cs /\
  centries cs = fold_right (fun s a => N.of_nat (length (findable s)) + a) 0 cs.
Proof.
  intros hash c total n ops cs Hg H. apply (cache_exact c).
  eapply CInv_crun; eauto. apply CInv_init.
Qed.
Print Assumptions c05_exact_cache.

(* shard capacities add up to the configured capacity (shards > capacity included) *)
Theorem c05_split : forall total n, (0 < n)%nat -> ccapacity (init_cache total n) = total.
Proof. exact init_cache_capacity. Qed.
Print Assumptions c05_split.

(* an eviction loop accepted by the model evicts only while usage exceeds the target, never a
   pinned or absent record, and stops as soon as usage no longer exceeds it (or nothing evictable is left) *)
Theorem c05_minimal : forall c target vs s s',
  evict_oracle c target vs s = Some s' <-> evicts c target s vs s'.
Proof. exact evict_oracle_spec. Qed.
Print Assumptions c05_minimal.

Theorem c05_bounded : forall c s k v w hsh low h vs s',
  insert c s k v w hsh low false h vs = Some s' ->
  capacity s' = capacity s /\
  (usage s' <= capacity s' \/ capacity s' < w \/
   forall k' i', In (k', i') (idx s') -> i' <> length (arena s) -> In i' (pinned s')).
Proof. exact insert_bounded. Qed.
Print Assumptions c05_bounded.

Theorem c05_clear : forall c s, bug_clear c = false ->
  usage (clear c s) = 0 /\ entries (clear c s) = 0 /\ idx (clear c s) = [].
Proof. exact clear_zero. Qed.
Print Assumptions c05_clear.

Theorem c05_resize : forall c s cap vs s',
  resize c s cap vs = Some s' ->
  capacity s' = cap /\ (usage s' <= cap \/ forall k i, In (k, i) (idx s') -> In i (pinned s')).
Proof. exact resize_bounded. Qed.
Print Assumptions c05_resize.

(* the model of the pinned snapshot (clear keeps usage; defect F4, fixed by 62ef163) violates exactness *)
Theorem c05_exact_refuted_F4 :
  exists ops s, run (mkCfg false true true false) (init_shard 2) ops = Some s /\ usage s <> sum_weights s.
Proof.
  exists [OInsert 0 1 1 0 false false 1 []; OClear]. eexists. split; [vm_compute; reflexivity|].
  vm_compute. discriminate.
Qed.
Print Assumptions c05_exact_refuted_F4.

(* non-vacuity: a reachable state in which an eviction happened and the premises hold *)
Example c05_nonvacuous :
  exists s, run (mkCfg false true false false) (init_shard 2)
              [OInsert 0 1 1 0 false false 1 []; OInsert 1 2 1 1 false false 2 []; OInsert 2 3 1 2 false false 3 [0]] = Some s
            /\ usage s = 2 /\ findable s = [2; 1].
Proof. eexists. split; [vm_compute; reflexivity|]. split; reflexivity. Qed.
