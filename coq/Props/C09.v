(* C09  Reusing disk space never damages live entries and never stalls writers.
   Block manager model (Disk/BlockMgr.v): every event sequence of "a writer asks for a block / a block is finished /
   a reclaim is done", any picker.  Entry level (one-key model, Hybrid/Engine.v): reclaim and reinsertion. *)
From Coq Require Import List NArith Bool.
From FV Require Disk.BlockMgr Disk.BlockMgrProofs.
From FV Require Import Hybrid.Engine Hybrid.EngineInv Hybrid.EngineThms.
Import ListNotations.
Open Scope N_scope.

(* every block is clean, being written, evictable or being reclaimed: exactly one of them, at all times *)
Theorem c09_blocks_partitioned : forall c blocks l,
  NoDup blocks ->
  NoDup (BlockMgr.all_blocks (BlockMgr.brun c (BlockMgr.init_b blocks) l)) /\
  (forall b, In b (BlockMgr.all_blocks (BlockMgr.brun c (BlockMgr.init_b blocks) l)) <-> In b blocks).
Proof. exact BlockMgrProofs.blocks_partitioned. Qed.
Print Assumptions c09_blocks_partitioned.

(* a block being written is handed to nobody else, is not evictable (cannot be picked) and is not being reclaimed *)
Theorem c09_writing_exclusive : forall c blocks l b,
  NoDup blocks -> In b (BlockMgr.writing (BlockMgr.brun c (BlockMgr.init_b blocks) l)) ->
  ~ In b (BlockMgr.clean (BlockMgr.brun c (BlockMgr.init_b blocks) l)) /\
  ~ In b (BlockMgr.evictable (BlockMgr.brun c (BlockMgr.init_b blocks) l)) /\
  ~ In b (BlockMgr.reclaiming (BlockMgr.brun c (BlockMgr.init_b blocks) l)) /\
  NoDup (BlockMgr.writing (BlockMgr.brun c (BlockMgr.init_b blocks) l)).
Proof. exact BlockMgrProofs.writing_exclusive. Qed.
Print Assumptions c09_writing_exclusive.

(* writers always eventually obtain a clean block: whenever one waits, a reclaim is running (unless every block is being
   written, excluded by the configuration check writers < blocks) ... *)
Theorem c09_waiting_writer_is_served : forall c blocks l,
  (1 <= BlockMgr.threshold c)%nat -> (1 <= BlockMgr.concurrency c)%nat -> NoDup blocks ->
  let s := BlockMgr.brun c (BlockMgr.init_b blocks) l in
  BlockMgr.waiters s <> [] -> (length (BlockMgr.writing s) < length blocks)%nat -> BlockMgr.reclaiming s <> [].
Proof. exact BlockMgrProofs.waiting_writer_is_served. Qed.
Print Assumptions c09_waiting_writer_is_served.

(* ... and the block it frees goes to a waiter, not back to the queue *)
Theorem c09_reclaim_done_serves_waiter : forall c s b ch f ws,
  In b (BlockMgr.reclaiming s) -> BlockMgr.waiters s = f :: ws ->
  BlockMgr.waiters (BlockMgr.bstep c s (BlockMgr.BReclaimDone b ch)) = ws /\
  BlockMgr.grants (BlockMgr.bstep c s (BlockMgr.BReclaimDone b ch)) = BlockMgr.grants s ++ [(f, b)] /\
  In b (BlockMgr.writing (BlockMgr.bstep c s (BlockMgr.BReclaimDone b ch))).
Proof. exact BlockMgrProofs.reclaim_done_serves_waiter. Qed.
Print Assumptions c09_reclaim_done_serves_waiter.

(* FIFO picking (the default pickers in a run without deletes): blocks are reclaimed oldest-filled first -
   the blocks finished so far are exactly those whose reclaim started, in that order, followed by the evictable ones *)
Theorem c09_fifo_reclaim_order : forall c blocks l,
  BlockMgr.fifo c = true ->
  let s := BlockMgr.brun c (BlockMgr.init_b blocks) l in
  BlockMgr.flog s = BlockMgr.rlog s ++ BlockMgr.evictable s.
Proof. exact BlockMgrProofs.fifo_reclaim_order. Qed.
Print Assumptions c09_fifo_reclaim_order.

(* an entry is either loadable intact or a miss: a reclaim only removes index entries (sequence-guarded) and copies;
   lookups stay correct in every interleaving with reclaim (the C01 invariant is preserved by the reclaim step) *)
Theorem c09_reclaim_keeps_lookups_correct : forall c s b, KInv c s -> KInv c (do_reclaim c s b).
Proof. exact kinv_reclaim. Qed.
Print Assumptions c09_reclaim_keeps_lookups_correct.

(* entries selected by the reinsertion filter survive their block's reclaim *)
Theorem c09_reinserted_entry_survives : forall c s v sq b b' pre post,
  bug_rr c = false -> reins c = true ->
  kmem s = None -> kkeep s = None -> kq s = [] -> ki s = [] ->
  kidx s = Some (IAddr sq v b) -> kdisk s = pre ++ (v, sq, b) :: post ->
  (forall x, In x pre -> snd x <> b) -> (forall x, In x post -> snd x <> b) ->
  lookup_now s = Some v /\ lookup_now (drain_all c b' (do_reclaim c s b)) = Some v.
Proof. exact reinserted_entry_survives. Qed.
Print Assumptions c09_reinserted_entry_survives.

Example c09_nonvacuous :
  let c := BlockMgr.mkBC 1 1 true in
  let s := BlockMgr.brun c (BlockMgr.init_b [0; 1; 2; 3])
             [BlockMgr.BGet 0 0; BlockMgr.BGet 0 0; BlockMgr.BFinish 0 0; BlockMgr.BGet 0 0; BlockMgr.BFinish 1 0;
              BlockMgr.BGet 0 0; BlockMgr.BFinish 2 0; BlockMgr.BGet 0 0; BlockMgr.BGet 0 0] in
  BlockMgr.waiters s = [0; 0] /\ BlockMgr.reclaiming s = [0] /\ BlockMgr.rlog s = [0] /\
  map snd (BlockMgr.grants (BlockMgr.bstep c s (BlockMgr.BReclaimDone 0 0))) = [0; 1; 2; 3; 0].
Proof. vm_compute. repeat split. Qed.
