From Coq Require Import List NArith.
Theorem c09_placeholder : (1 + 1 = 2)%N.
Proof. reflexivity. Qed.
Print Assumptions c09_placeholder.
