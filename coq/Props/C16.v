(* C16  User callbacks run outside cache locks, so re-entrant use cannot deadlock.
   Lock-phase model of one API call (Mem/Reentrant.v): weighter / filter before the shard lock is taken, listener and
   destructors after the guard is dropped; callbacks may call the cache again (call trees of any shape and depth). *)
From Coq Require Import List Bool.
From FV Require Import Mem.Reentrant.
Import ListNotations.

(* every call tree, entered by a thread that does not hold the shard lock, returns, not holding it *)
Theorem c16_reentrant_calls_return : forall c, exec false c false = Some false.
Proof. exact reentrant_calls_return. Qed.
Print Assumptions c16_reentrant_calls_return.

(* the discipline matters: with a callback invoked inside the critical section, any callback that uses the cache blocks *)
Theorem c16_callbacks_inside_deadlock : forall pre post c,
  exec true (Call (c :: pre) post) false = None /\ exec true (Call [] (c :: post)) false = None.
Proof. exact callbacks_inside_deadlock. Qed.
Print Assumptions c16_callbacks_inside_deadlock.

Example c16_nonvacuous :
  let leaf := Call [] [] in
  exec false (Call [leaf; Call [leaf] [leaf]] [Call [] [Call [leaf] []]; leaf]) false = Some false /\
  exec true (Call [] [leaf]) false = None.
Proof. split; reflexivity. Qed.
