(* C04  Recovery after a crash at any point is consistent.
   One-key model (Hybrid/Engine.v).  A crash leaves the device as some reachable state has it: the flusher's unit of
   visibility is the (single, page-sized, hence untearable) blob index page, written after the entry data it lists, so
   between any two device writes the published copies of the key are exactly [kdisk s] for a reachable [s]; data
   written but not yet listed is invisible to the scan.  A crash at state [s] followed by a reopen is [do_recover c s vis]
   ([vis]: what the scan sees of the device; memory, the write queue and the flusher pipeline are lost). *)
From Coq Require Import List NArith Bool.
From FV Require Import Hybrid.Engine Hybrid.EngineInv Hybrid.EngineThms Hybrid.EngineVers Hybrid.EngineMono.
Import ListNotations.
Open Scope N_scope.

(* after a crash at ANY point of ANY history, and whatever part of the device the scan reaches, a key reads as a miss
   or as a version that was really written for it (no restriction on the history, not even on the defect flags) *)
Theorem c04_crash_reads_written : forall c l vis v,
  lookup_now (do_recover c (krun c init_k l) vis) = Some v -> In v (ksubs (krun c init_k l)).
Proof. exact recovery_serves_written. Qed.
Print Assumptions c04_crash_reads_written.

(* the latest write of the key, once flushed (its index page is on the device) - in particular once acknowledged -
   is what a reopen serves: that version, not an older one (no reclaim: the copy is still on the device) *)
Theorem c04_latest_flushed_write_survives : forall c l vis v sq b,
  bug_rr c = false -> run_ok c init_k l ->
  ktop (krun c init_k l) = Some (Some v, sq) -> In (v, sq, b) (kdisk (krun c init_k l)) ->
  (forall x, In x (kdisk (krun c init_k l)) -> In x vis) ->
  lookup_now (do_recover c (krun c init_k l) vis) = Some v.
Proof.
  intros c l vis v sq b Hrr Hok. apply recovery_serves_latest.
  - apply kinv_run; auto. apply kinv_init.
  - apply tinv_run; auto; [apply kinv_init|apply tinv_init].
Qed.
Print Assumptions c04_latest_flushed_write_survives.

(* the latest delete of the key, once logged (tombstone log on: the log page is written in the same io task as the
   batch), reads as a miss after a reopen *)
Theorem c04_logged_delete_survives : forall c l vis sq,
  bug_rr c = false -> run_ok c init_k l ->
  ktop (krun c init_k l) = Some (None, sq) -> In sq (ktlog (krun c init_k l)) ->
  lookup_now (do_recover c (krun c init_k l) vis) = None.
Proof.
  intros c l vis sq Hrr Hok. apply recovery_honours_logged_delete.
  - apply kinv_run; auto. apply kinv_init.
  - apply tinv_run; auto; [apply kinv_init|apply tinv_init].
Qed.
Print Assumptions c04_logged_delete_survives.

(* "never an older one": the winner of recovery has a sequence at least that of any copy the scan sees, so an
   acknowledged write loses only to later submissions *)
Theorem c04_winner_not_older : forall s vis v0 sq0 b0,
  In (v0, sq0, b0) (visible vis (kdisk s)) -> exists e, best_of s vis = Some e /\ sq0 <= iseq e.
Proof. exact winner_at_least. Qed.
Print Assumptions c04_winner_not_older.

(* ... and version order follows sequence order (invariant MInv), so: a copy the scan sees - in particular the copy of
   an acknowledged write - is never beaten by an OLDER version; the key then reads as that version, a newer one, or a miss
   (a later delete won, or the winner's bytes do not verify) *)
Theorem c04_never_an_older_version : forall c l vis v0 sq0 b0 v,
  bug_rr c = false -> run_ok c init_k l ->
  In (v0, sq0, b0) (visible vis (kdisk (krun c init_k l))) ->
  lookup_now (do_recover c (krun c init_k l) vis) = Some v -> v0 <= v.
Proof. exact recovery_never_older. Qed.
Print Assumptions c04_never_an_older_version.

(* versions written after a restart supersede versions from before it: the counter restarts above everything
   recovered, so the theorems above hold across any number of crash / restart cycles ([KRestart] is a step of
   [run_ok] histories); here: the recovered state satisfies the invariants again *)
Theorem c04_invariants_survive_restart : forall c s b vis,
  bug_rr c = false -> KInv c s -> TInv s -> restart_ok c s b vis ->
  KInv c (kstep c s (KRestart b vis)) /\ TInv (kstep c s (KRestart b vis)).
Proof. intros. split; [apply kinv_step|apply tinv_step]; auto. Qed.
Print Assumptions c04_invariants_survive_restart.

Example c04_nonvacuous :
  let c := mkCfg true true false true true false in
  (* v1 flushed and acknowledged; v2 submitted, its data written and listed (KFlush) but the batch not yet completed;
     v3 still in the queue: a crash serves v2; without v2's flush it serves v1 *)
  let l1 := [KIns LDefault; KFlush 0; KComplete; KIns LDefault] in
  let l2 := l1 ++ [KFlush 0; KIns LDefault] in
  run_ok c init_k l2 /\
  lookup_now (do_recover c (krun c init_k l1) (kdisk (krun c init_k l1))) = Some 1 /\
  lookup_now (do_recover c (krun c init_k l2) (kdisk (krun c init_k l2))) = Some 2 /\
  ktruth (krun c init_k l2) = Some 3.
Proof. vm_compute. repeat split; discriminate. Qed.
