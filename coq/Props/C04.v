From Coq Require Import List NArith.
Theorem c04_placeholder : (1 + 1 = 2)%N.
Proof. reflexivity. Qed.
Print Assumptions c04_placeholder.
