(* C17, disk tier: whatever colliding keys do to each other's entries, a lookup is answered with a version that was
   created for the key asked for, or with a miss. *)
From Coq Require Import List NArith Bool Lia.
From FV Require Import Hybrid.Collide.
Import ListNotations.
Open Scope N_scope.

Arguments N.add : simpl never.
Arguments N.eqb : simpl never.
Arguments N.leb : simpl never.

Definition owned (s : cst) (k v : N) : Prop := owner v (cown s) = Some k.

Record CInv (s : cst) : Prop := {
  ci_keep : forall k v, In (k, v) (ckeep s) -> owned s k v;
  ci_q : forall k v sq, In (CEntry k v sq) (cq s) -> owned s k v;
  ci_idx : forall sq k v, cidx s = Some (CAddr sq k v) -> owned s k v;
  ci_disk : forall k v sq, In (k, v, sq) (cdisk s) -> owned s k v;
  ci_fresh : forall v k, In (v, k) (cown s) -> v < cnextv s;
  ci_out : forall k v, In (k, Some v) (cout s) -> owned s k v }.

Lemma kfind_in k l v : kfind k l = Some v -> In (k, v) l.
Proof.
  induction l as [|[k' v'] l IH]; cbn [kfind]; [discriminate|].
  destruct (N.eqb_spec k k') as [->|_]; intros H; [inversion H; left; reflexivity|right; auto].
Qed.
Lemma kdel_in k l x : In x (kdel k l) -> In x l.
Proof.
  induction l as [|[k' v'] l IH]; cbn [kdel]; [auto|]. destruct (k =? k'); cbn [In]; intuition.
Qed.

Lemma cidx_insert_cases cur i : cidx_insert cur i = Some i \/ cidx_insert cur i = cur.
Proof. destruct cur as [o|]; cbn; auto. destruct (cseq_of o <=? cseq_of i); auto. Qed.
Lemma cidx_remove_cases cur sq : cidx_remove cur sq = None \/ cidx_remove cur sq = cur.
Proof. destruct cur as [o|]; cbn; auto. destruct (cseq_of o <=? sq); auto. Qed.

Lemma owner_in v own k : owner v own = Some k -> In (v, k) own.
Proof.
  induction own as [|[v' k'] o IH]; cbn [owner]; [discriminate|].
  destruct (N.eqb_spec v v') as [->|_]; intros H; [inversion H; left; reflexivity|right; auto].
Qed.

Lemma owner_fresh own v k : (forall v' k', In (v', k') own -> v' <> v) -> forall v0 k0,
  owner v0 own = Some k0 -> owner v0 ((v, k) :: own) = Some k0.
Proof.
  intros Hf v0 k0 H. cbn [owner]. destruct (N.eqb_spec v0 v) as [->|_]; [|exact H].
  exfalso. apply owner_in in H. exact (Hf v k0 H eq_refl).
Qed.

Lemma cinv_init : CInv init_c.
Proof. constructor; cbn; intros; try contradiction; discriminate. Qed.

Lemma cinv_step c s a : bug_keeper c = false -> bug_nocheck c = false -> CInv s -> CInv (c_step c s a).
Proof.
  intros Hb1 Hb2 [H1 H2 H3 H4 H5 H6]. destruct a as [k|k|  |k|sqs| ]; cbn [c_step].
  - (* enqueue: a new version, owned by k; every older ownership stays *)
    assert (Hold : forall k0 v0, owned s k0 v0 -> owner v0 ((cnextv s, k) :: cown s) = Some k0).
    { intros k0 v0 Ho. apply owner_fresh; [|exact Ho]. intros v' k' Hin. specialize (H5 _ _ Hin). lia. }
    assert (Hnew : owner (cnextv s) ((cnextv s, k) :: cown s) = Some k) by (cbn [owner]; rewrite N.eqb_refl; reflexivity).
    unfold c_enq. constructor; unfold owned; cbn [ckeep cq cidx cdisk cown cnextv cout].
    + intros k0 v0 [E|Hin]; [inversion E; subst; exact Hnew|]. apply Hold, H1. eapply kdel_in; eauto.
    + intros k0 v0 sq Hin. apply in_app_iff in Hin. destruct Hin as [Hin|[E|[]]]; [apply Hold; eauto|].
      inversion E; subst. exact Hnew.
    + intros sq k0 v0 E. apply Hold. eauto.
    + intros k0 v0 sq Hin. apply Hold. eauto.
    + intros v0 k0 [E|Hin]; [inversion E; lia|]. specialize (H5 _ _ Hin). lia.
    + intros k0 v0 Hin. apply Hold. eauto.
  - unfold c_del. constructor; unfold owned in *; cbn [ckeep cq cidx cdisk cown cnextv cout]; auto.
    + intros k0 v0 Hin. apply H1. eapply kdel_in; eauto.
    + intros k0 v0 sq Hin. apply in_app_iff in Hin. destruct Hin as [Hin|[E|[]]]; [eauto|discriminate].
    + intros sq k0 v0 E. destruct (cidx_insert_cases (cidx s) (CTombI (cnextseq s))) as [E'|E']; rewrite E' in E; [discriminate|eauto].
  - unfold c_flush. destruct (cq s) as [|[k v sq|sq] q] eqn:Eq; cbv iota beta; [constructor; rewrite ?Eq; auto| |].
    + assert (Ho : owned s k v) by (apply (H2 k v sq); rewrite ?Eq; left; reflexivity).
      constructor; unfold owned in *; cbn [ckeep cq cidx cdisk cown cnextv cout]; auto.
      * intros k0 v0 Hin. apply H1. destruct (kfind k (ckeep s)) as [v'|]; [|exact Hin].
        destruct (v' =? v); [eapply kdel_in; eauto|exact Hin].
      * intros k0 v0 sq0 Hin. apply (H2 k0 v0 sq0). rewrite ?Eq. right; exact Hin.
      * intros sq0 k0 v0 E. destruct (cidx_insert_cases (cidx s) (CAddr sq k v)) as [E'|E']; rewrite E' in E; [inversion E; subst; exact Ho|eauto].
      * intros k0 v0 sq0 Hin. apply in_app_iff in Hin. destruct Hin as [Hin|[E|[]]]; [eauto|inversion E; subst; exact Ho].
    + constructor; unfold owned in *; cbn [ckeep cq cidx cdisk cown cnextv cout]; auto.
      * intros k0 v0 sq0 Hin. apply (H2 k0 v0 sq0). rewrite ?Eq. right; exact Hin.
      * intros sq0 k0 v0 E. destruct (cidx_remove_cases (cidx s) sq) as [E'|E']; rewrite E' in E; [discriminate|eauto].
  - (* load *)
    unfold c_load. constructor; unfold owned in *; cbn [ckeep cq cidx cdisk cown cnextv cout]; auto.
    intros k0 v0 Hin. apply in_app_iff in Hin. destruct Hin as [Hin|[E|[]]]; [eauto|].
    injection E as Ek0 Ev0. subst k0. revert Ev0. unfold c_load_result. rewrite Hb1, Hb2.
    destruct (kfind k (ckeep s)) as [vk|] eqn:Ek.
    + intros E; inversion E; subst. apply H1. apply kfind_in. exact Ek.
    + destruct (cidx s) as [[sq k' v'|sq]|] eqn:Ei; try (intros E; discriminate E).
      destruct (existsb _ (cdisk s)); [|intros E; discriminate E].
      destruct (N.eqb_spec k' k) as [->|_]; [|intros E; discriminate E]. intros E; inversion E; subst. eauto.
  - unfold c_reclaim. constructor; unfold owned in *; cbn [ckeep cq cidx cdisk cown cnextv cout]; auto.
    + intros sq k0 v0 E. apply (H3 sq k0 v0). revert E. generalize (cidx s). induction sqs as [|x sqs IH]; intros cur; cbn [fold_left]; [auto|].
      intros E. specialize (IH _ E). destruct (cidx_remove_cases cur x) as [E'|E']; rewrite E' in IH; [discriminate|exact IH].
    + intros k0 v0 sq Hin. apply filter_In in Hin. destruct Hin as [Hin _]. eauto.
  - unfold c_recover. constructor; unfold owned in *; cbn [ckeep cq cidx cdisk cown cnextv cout]; auto; try (intros; contradiction).
    intros sq k0 v0 E.
    assert (Hb : forall d acc, (forall k v sq, In (k, v, sq) d -> owner v (cown s) = Some k) ->
              (forall sq k v, acc = Some (CAddr sq k v) -> owner v (cown s) = Some k) ->
              forall sq k v, c_best d acc = Some (CAddr sq k v) -> owner v (cown s) = Some k).
    { clear. induction d as [|[[k v] sq] d IH]; intros acc Hd Ha sq0 k0 v0; cbn [c_best]; [apply Ha|].
      apply IH.
      - intros; eapply Hd; right; eauto.
      - intros sq1 k1 v1 E. destruct (cidx_insert_cases acc (CAddr sq k v)) as [E'|E']; rewrite E' in E.
        + inversion E; subst. eapply Hd; left; reflexivity.
        + eapply Ha; eauto. }
    eapply (Hb (cdisk s) None); eauto. intros; discriminate.
Qed.

Lemma cinv_run c l : forall s, bug_keeper c = false -> bug_nocheck c = false -> CInv s -> CInv (c_run c s l).
Proof.
  induction l as [|a l IH]; intros s Hb1 Hb2 H; cbn [c_run fold_left]; [exact H|].
  apply IH; auto. apply cinv_step; auto.
Qed.

(* every lookup ever answered, in any history of any set of colliding keys: the key's own value or a miss *)
Theorem collisions_never_alias c l k v :
  bug_keeper c = false -> bug_nocheck c = false ->
  In (k, Some v) (cout (c_run c init_c l)) -> owner v (cown (c_run c init_c l)) = Some k.
Proof.
  intros Hb1 Hb2 Hin. exact (ci_out _ (cinv_run c l init_c Hb1 Hb2 cinv_init) k v Hin).
Qed.
