(* M-HYBRID: one key's life in a hybrid cache (memory tier + disk tier), as a transition system.

   Projection of the whole cache onto a single key (= a single 64-bit hash; colliding keys are
   the business of C17).  Other keys interact with this one only through
     - the global sequence counter   (here: [kseq], strictly increasing per submission),
     - shared blocks                 (here: block ids carried by the actions, reclaim of a block),
     - memory pressure               (here: the action [KEvict], chosen by the environment).

   Follows
     foyer/src/hybrid/cache.rs        insert / insert_with_properties / remove / get (memory ->
                                      disk), HybridCachePipe::send / flush, close
     foyer-storage/src/store.rs       enqueue (filter, keeper.insert, engine.enqueue | delete),
                                      load (keeper first, then engine), delete (keeper.remove + engine)
     foyer-storage/src/keeper.rs      insert replaces, PieceRef::drop removes only its own piece
     engine/block/engine.rs           enqueue (Young skipped, sequence), delete (tombstone into the
                                      index synchronously, Submission::Tombstone)
     engine/block/flusher.rs          one flusher = FIFO of submissions; batch: data written, then
                                      indexer.insert_batch, then handle_io_complete (piece refs
                                      dropped, tombstones removed from the index)
     engine/block/indexer.rs          insert_inner (>= sequence wins), remove_batch (sequence guard)
     engine/block/reclaimer.rs        per entry of the block: reinsertion (original sequence) or
                                      remove_batch; then the block is cleaned
     engine/block/recover.rs          highest sequence wins between copies and logged tombstones

   The flusher pipeline of the key is the list [ki ++ kq] in submission order: [kq] submitted,
   [ki] written and indexed but the batch is not completed yet (piece references not dropped,
   tombstones still in the index).  Each stage is FIFO, so per-key submission order is preserved
   (every submission of one hash goes to flusher `hash % flushers`).  The window between the
   data write and the index insert is not a state of this model: lookups in it see what they saw
   before the write (the keeper still serves the entry); what a crash in it leaves behind is the
   subject of the recovery model (C04).

   [bug_rr] reproduces defect F15 of the pinned snapshot: reinsertions were spread round-robin
   over the flushers, i.e. they may overtake the key's other submissions ([KReinsDelay]).

   Model only: no proofs in this file. *)
From Coq Require Import List NArith Bool.
Import ListNotations.
Open Scope N_scope.

Inductive loc := LDefault | LInMem | LOnDisk.
Inductive age := Fresh | Young | Old.

Definition loc_eqb (a b : loc) : bool :=
  match a, b with LDefault, LDefault | LInMem, LInMem | LOnDisk, LOnDisk => true | _, _ => false end.
Definition age_eqb (a b : age) : bool :=
  match a, b with Fresh, Fresh | Young, Young | Old, Old => true | _, _ => false end.

Fixpoint memN (x : N) (l : list N) : bool :=
  match l with [] => false | y :: l' => if x =? y then true else memN x l' end.

(* index entry of the key's hash *)
Inductive ient := IAddr (sq v b : N) | ITomb (sq : N).
Definition iseq (i : ient) : N := match i with IAddr sq _ _ => sq | ITomb sq => sq end.

(* submissions to the key's flusher *)
Inductive sub :=
| SEntry (v sq : N)        (* Submission::CacheEntry *)
| STomb (sq : N)           (* Submission::Tombstone *)
| SReins (v sq : N).       (* Submission::Reinsertion: original sequence *)

Record hcfg := mkCfg {
  woi : bool;        (* HybridCachePolicy::WriteOnInsertion (else WriteOnEviction) *)
  accepts : bool;      (* the admission filter admits this key *)
  reins : bool;      (* the reinsertion filter admits this key *)
  tomb : bool;       (* tombstone log enabled *)
  foc : bool;        (* flush_on_close *)
  bug_rr : bool }.   (* F15 *)

Record kst := mkK {
  kmem : option (N * loc * age);   (* the version resident in memory *)
  kkeep : option N;                (* the version the keeper (write queue index) serves *)
  kq : list sub;                   (* submitted *)
  ki : list sub;                   (* written and indexed, batch not yet completed *)
  kidx : option ient;
  kdisk : list (N * N * N);        (* copies on the device: (version, sequence, block) *)
  ktlog : list N;                  (* sequences of logged tombstones *)
  kseq : N;                        (* next sequence number *)
  kload : list (N * option N * bool);   (* disk lookups in flight: (id, what they read, read from the keeper?) *)
  (* ghost *)
  ktruth : option N;               (* latest completed insert not followed by a remove *)
  knext : N;                       (* next version stamp *)
  ktop : option (option N * N);    (* last entry / tombstone submission: (Some v | None, sequence) *)
  klo : N;                         (* sequence of the first submission of the current run of equal contents *)
  kdone : bool;                    (* a submission of that run has completed *)
  ksubs : list N;                  (* versions ever submitted as CacheEntry, in order *)
  kinmem : list N;                 (* versions inserted with in-memory-only advice *)
  kout : list (N * option N * option N);     (* answered lookups: (id, result, truth when answered) *)
  kondisk : list N }.              (* versions inserted with on-disk advice (their records are phantoms) *)

Definition init_k : kst := mkK None None [] [] None [] [] 1 [] None 1 None 0 false [] [] [] [].

(* setters *)
Definition set_mem s x := mkK x (kkeep s) (kq s) (ki s) (kidx s) (kdisk s) (ktlog s) (kseq s) (kload s) (ktruth s) (knext s) (ktop s) (klo s) (kdone s) (ksubs s) (kinmem s) (kout s) (kondisk s).
Definition set_keep s x := mkK (kmem s) x (kq s) (ki s) (kidx s) (kdisk s) (ktlog s) (kseq s) (kload s) (ktruth s) (knext s) (ktop s) (klo s) (kdone s) (ksubs s) (kinmem s) (kout s) (kondisk s).
Definition set_q s x := mkK (kmem s) (kkeep s) x (ki s) (kidx s) (kdisk s) (ktlog s) (kseq s) (kload s) (ktruth s) (knext s) (ktop s) (klo s) (kdone s) (ksubs s) (kinmem s) (kout s) (kondisk s).
Definition set_i s x := mkK (kmem s) (kkeep s) (kq s) x (kidx s) (kdisk s) (ktlog s) (kseq s) (kload s) (ktruth s) (knext s) (ktop s) (klo s) (kdone s) (ksubs s) (kinmem s) (kout s) (kondisk s).
Definition set_idx s x := mkK (kmem s) (kkeep s) (kq s) (ki s) x (kdisk s) (ktlog s) (kseq s) (kload s) (ktruth s) (knext s) (ktop s) (klo s) (kdone s) (ksubs s) (kinmem s) (kout s) (kondisk s).
Definition set_disk s x := mkK (kmem s) (kkeep s) (kq s) (ki s) (kidx s) x (ktlog s) (kseq s) (kload s) (ktruth s) (knext s) (ktop s) (klo s) (kdone s) (ksubs s) (kinmem s) (kout s) (kondisk s).
Definition set_tlog s x := mkK (kmem s) (kkeep s) (kq s) (ki s) (kidx s) (kdisk s) x (kseq s) (kload s) (ktruth s) (knext s) (ktop s) (klo s) (kdone s) (ksubs s) (kinmem s) (kout s) (kondisk s).
Definition set_load s x := mkK (kmem s) (kkeep s) (kq s) (ki s) (kidx s) (kdisk s) (ktlog s) (kseq s) x (ktruth s) (knext s) (ktop s) (klo s) (kdone s) (ksubs s) (kinmem s) (kout s) (kondisk s).
Definition set_truth s x := mkK (kmem s) (kkeep s) (kq s) (ki s) (kidx s) (kdisk s) (ktlog s) (kseq s) (kload s) x (knext s) (ktop s) (klo s) (kdone s) (ksubs s) (kinmem s) (kout s) (kondisk s).
Definition set_done s x := mkK (kmem s) (kkeep s) (kq s) (ki s) (kidx s) (kdisk s) (ktlog s) (kseq s) (kload s) (ktruth s) (knext s) (ktop s) (klo s) x (ksubs s) (kinmem s) (kout s) (kondisk s).
Definition add_out s x := mkK (kmem s) (kkeep s) (kq s) (ki s) (kidx s) (kdisk s) (ktlog s) (kseq s) (kload s) (ktruth s) (knext s) (ktop s) (klo s) (kdone s) (ksubs s) (kinmem s) (kout s ++ [x]) (kondisk s).

(* indexer.insert_inner: an equal or higher sequence replaces *)
Definition idx_insert (cur : option ient) (i : ient) : option ient :=
  match cur with
  | None => Some i
  | Some o => if iseq o <=? iseq i then Some i else Some o
  end.
(* indexer.remove_batch for one (hash, sequence) *)
Definition idx_remove (cur : option ient) (sq : N) : option ient :=
  match cur with
  | None => None
  | Some o => if iseq o <=? sq then None else Some o
  end.
(* indexer.get *)
Definition idx_get (cur : option ient) : option (N * N * N) :=
  match cur with Some (IAddr sq v b) => Some (sq, v, b) | _ => None end.

(* engine.delete: tombstone into the index now, Submission::Tombstone to the flusher *)
Definition engine_delete (s : kst) : kst :=
  let sq := kseq s in
  mkK (kmem s) (kkeep s) (kq s ++ [STomb sq]) (ki s) (idx_insert (kidx s) (ITomb sq)) (kdisk s) (ktlog s)
      (sq + 1) (kload s) (ktruth s) (knext s) (Some (None, sq)) sq false (ksubs s) (kinmem s) (kout s) (kondisk s).

(* store.delete *)
Definition store_delete (s : kst) : kst := engine_delete (set_keep s None).

(* store.enqueue(piece, force = false) *)
Definition store_enqueue (c : hcfg) (s : kst) (v : N) (a : age) : kst :=
  if accepts c then
    match a with
    | Young =>
        (* keeper.insert(piece) then engine.enqueue returns early: the reference is dropped at once *)
        set_keep s None
    | _ =>
        let sq := kseq s in
        mkK (kmem s) (Some v) (kq s ++ [SEntry v sq]) (ki s) (kidx s) (kdisk s) (ktlog s)
            (sq + 1) (kload s) (ktruth s) (knext s) (Some (Some v, sq))
            (match ktop s with Some (Some v', _) => if v' =? v then klo s else sq | _ => sq end)
            (match ktop s with Some (Some v', _) => if v' =? v then kdone s else false | _ => false end)
            (ksubs s ++ [v]) (kinmem s) (kout s) (kondisk s)
    end
  else store_delete s.

(* HybridCachePipe::send *)
Definition pipe_send (c : hcfg) (s : kst) (v : N) (l : loc) (a : age) : kst :=
  match l with LInMem => s | _ => store_enqueue c s v a end.

(* HybridCache::insert_with_properties *)
Definition do_insert (c : hcfg) (s : kst) (l : loc) : kst :=
  let v := knext s in
  let phantom := loc_eqb l LOnDisk in
  let s1 := mkK (if phantom then None else Some (v, l, Fresh)) (kkeep s) (kq s) (ki s) (kidx s) (kdisk s) (ktlog s)
                (kseq s) [] (Some v) (v + 1) (ktop s) (klo s) (kdone s) (ksubs s)
                (match l with LInMem => kinmem s ++ [v] | _ => kinmem s end)
                (* emplace takes the in-flight entry of the key: its waiters are answered with the new record *)
                (kout s ++ map (fun x => (fst (fst x), Some v, Some v)) (kload s))
                (if phantom then kondisk s ++ [v] else kondisk s) in
  if woi c then
    match l with LInMem => s1 | _ => store_enqueue c s1 v Fresh end
  else if phantom then pipe_send c s1 v l Fresh      (* the phantom record leaves memory through the pipe *)
  else s1.

(* capacity eviction of the resident record *)
Definition do_evict (c : hcfg) (s : kst) : kst :=
  match kmem s with
  | None => s
  | Some (v, l, a) =>
      let s1 := set_mem s None in
      if woi c then s1 else pipe_send c s1 v l a
  end.

(* HybridCache::remove *)
Definition do_remove (s : kst) : kst := store_delete (set_truth (set_mem s None) None).

(* the oldest submitted item is written to block b and indexed (indexer.insert_batch) *)
Definition do_flush (c : hcfg) (s : kst) (b : N) : kst :=
  match kq s with
  | [] => s
  | SEntry v sq :: q =>
      set_i (set_idx (set_disk (set_q s q) (kdisk s ++ [(v, sq, b)])) (idx_insert (kidx s) (IAddr sq v b))) (ki s ++ [SEntry v sq])
  | STomb sq :: q =>
      set_i (set_tlog (set_q s q) (if tomb c then ktlog s ++ [sq] else ktlog s)) (ki s ++ [STomb sq])
  | SReins v sq :: q =>
      (* Runner::recv: skipped unless this copy is the one the indexer points to (repair 1323d87; the pinned snapshot
         only asked whether the hash was indexed at all, which kept superseded copies alive) *)
      match (if bug_rr c then Some (sq, 0, 0) else idx_get (kidx s)) with
      | Some (sq', _, _) =>
          if sq' =? sq then
            set_i (set_idx (set_disk (set_q s q) (kdisk s ++ [(v, sq, b)])) (idx_insert (kidx s) (IAddr sq v b))) (ki s ++ [SReins v sq])
          else set_q s q
      | None => set_q s q
      end
  end.

(* handle_io_complete for the oldest indexed submission *)
Definition do_complete (s : kst) : kst :=
  match ki s with
  | [] => s
  | SEntry v sq :: i =>
      set_done (set_keep (set_i s i) (match kkeep s with Some v' => if v' =? v then None else Some v' | None => None end))
               (if klo s <=? sq then true else kdone s)
  | STomb sq :: i => set_done (set_idx (set_i s i) (idx_remove (kidx s) sq)) (if klo s <=? sq then true else kdone s)
  | SReins _ _ :: i => set_i s i
  end.

(* F15: a reinsertion travelling on another flusher is overtaken by the key's later submissions.
   (It passed the "still indexed" check when that flusher received it, i.e. right after the reclaimer
   submitted it.) *)
Fixpoint pull_reins (q : list sub) : option (sub * list sub) :=
  match q with
  | [] => None
  | SReins v sq :: q' => Some (SReins v sq, q')
  | x :: q' => match pull_reins q' with Some (r, rest) => Some (r, x :: rest) | None => None end
  end.
Definition do_reins_delay (c : hcfg) (s : kst) : kst :=
  if bug_rr c then
    match pull_reins (kq s) with Some (r, rest) => set_q s (rest ++ [r]) | None => s end
  else s.

(* reclaim of block b *)
Fixpoint reclaim_copies (c : hcfg) (b : N) (copies : list (N * N * N)) (q : list sub) (idx : option ient)
  : list sub * option ient :=
  match copies with
  | [] => (q, idx)
  | (v, sq, b') :: rest =>
      if b' =? b then
        if reins c then reclaim_copies c b rest (q ++ [SReins v sq]) idx
        else reclaim_copies c b rest q (idx_remove idx sq)
      else reclaim_copies c b rest q idx
  end.
Definition do_reclaim (c : hcfg) (s : kst) (b : N) : kst :=
  let '(q, idx) := reclaim_copies c b (kdisk s) (kq s) (kidx s) in
  set_disk (set_idx (set_q s q) idx) (filter (fun x => negb (snd x =? b)) (kdisk s)).

Definition on_disk (d : list (N * N * N)) (v sq b : N) : bool :=
  existsb (fun x => match x with (v', sq', b') => (v' =? v) && (sq' =? sq) && (b' =? b) end) d.

(* Store::load: keeper first, then the index and the device; the flag says "served by the keeper" *)
Definition disk_lookup2 (s : kst) : option N * bool :=
  match kkeep s with
  | Some v => (Some v, true)
  | None =>
      match idx_get (kidx s) with
      | Some (sq, v, b) => if on_disk (kdisk s) v sq b then (Some v, false) else (None, false)
      | None => (None, false)
      end
  end.
Definition disk_lookup (s : kst) : option N := fst (disk_lookup2 s).

(* HybridCache::get, first half: memory, else a disk lookup goes in flight *)
Definition do_load_start (s : kst) (i : N) : kst :=
  match kmem s with
  | Some (v, _, _) => add_out s (i, Some v, ktruth s)
  | None => set_load s (kload s ++ [(i, fst (disk_lookup2 s), snd (disk_lookup2 s))])
  end.

Fixpoint find_load (i : N) (l : list (N * option N * bool)) : option (option N * bool) :=
  match l with [] => None | (j, r, k) :: l' => if i =? j then Some (r, k) else find_load i l' end.
Fixpoint del_load (i : N) (l : list (N * option N * bool)) : list (N * option N * bool) :=
  match l with [] => [] | (j, r, k) :: l' => if i =? j then del_load i l' else (j, r, k) :: del_load i l' end.

(* second half: the lookup completes; a found value enters memory: a piece served by the keeper keeps its
   properties (Fresh), an entry read from the device gets the age the engine reported (Young | Old) *)
Definition do_load_finish (s : kst) (i : N) (a : age) : kst :=
  match find_load i (kload s) with
  | None => s
  | Some (r, fromk) =>
      let s1 := add_out (set_load s (del_load i (kload s))) (i, r, ktruth s) in
      match r with
      | Some v => match kmem s with
                  | None =>
                      (* insert_piece of a disk-only (phantom) record: emplace drops it again at once, and the handle's
                         drop does not offer it to the pipe a second time (Source::Memory) *)
                      if fromk && memN v (kondisk s) then s1
                      else set_mem s1 (Some (v, LDefault, if fromk then Fresh else match a with Fresh => Young | _ => a end))
                  | Some _ => s1
                  end
      | None => s1
      end
  end.

(* drain: the flusher works until nothing is left (wait()) *)
Fixpoint drain (c : hcfg) (fuel : nat) (b : N) (s : kst) : kst :=
  match fuel with
  | O => s
  | S f =>
      match ki s, kq s with
      | _ :: _, _ => drain c f b (do_complete s)
      | [], _ :: _ => drain c f b (do_flush c s b)
      | [], [] => s
      end
  end.
Definition drain_all (c : hcfg) (b : N) (s : kst) : kst :=
  drain c (2 * (length (kq s) + length (ki s)) + 2) b s.

(* HybridCache::close: flush memory through the pipe (if flush_on_close; what stays in memory afterwards is
   irrelevant, the next step is the reopen), wait for the flushers *)
Definition do_close (c : hcfg) (s : kst) (b : N) : kst :=
  (* the pipe exists only under write-on-eviction *)
  let s1 := if foc c && negb (woi c) then do_evict c s else s in
  drain_all c b s1.

(* recovery: highest sequence wins between the copies the scan sees and the logged tombstones *)
Fixpoint best_copy (vis : list (N * N * N)) (acc : option ient) : option ient :=
  match vis with
  | [] => acc
  | (v, sq, b) :: rest => best_copy rest (idx_insert acc (IAddr sq v b))
  end.
Fixpoint best_tomb (tl : list N) (acc : option ient) : option ient :=
  match tl with
  | [] => acc
  | sq :: rest => best_tomb rest (idx_insert acc (ITomb sq))
  end.
Definition visible (vis : list (N * N * N)) (d : list (N * N * N)) : list (N * N * N) :=
  filter (fun x => match x with (v, sq, b) => on_disk vis v sq b end) d.
Definition do_recover (c : hcfg) (s : kst) (vis : list (N * N * N)) : kst :=
  let best := best_tomb (ktlog s) (best_copy (visible vis (kdisk s)) None) in
  let top := match best with Some (IAddr sq v _) => Some (Some v, sq) | Some (ITomb sq) => Some (None, sq) | None => None end in
  let idx := match best with Some (IAddr sq v b) => best | _ => None end in
  mkK None None [] [] idx (kdisk s) (ktlog s)
      (match best with Some i => iseq i + 1 | None => 1 end)
      [] (ktruth s) (knext s) top (klo s) true (ksubs s) (kinmem s) (kout s) (kondisk s).

Inductive act :=
| KIns (l : loc)
| KEvict
| KRm
| KFlush (b : N)
| KComplete
| KReinsDelay
| KReclaim (b : N)
| KLoadStart (i : N)
| KLoadFinish (i : N) (a : age)
| KDrain (b : N)
| KRestart (b : N) (vis : list (N * N * N)).     (* graceful close, then reopen *)

Definition kstep (c : hcfg) (s : kst) (a : act) : kst :=
  match a with
  | KIns l => do_insert c s l
  | KEvict => do_evict c s
  | KRm => do_remove s
  | KFlush b => do_flush c s b
  | KComplete => do_complete s
  | KReinsDelay => do_reins_delay c s
  | KReclaim b => do_reclaim c s b
  | KLoadStart i => do_load_start s i
  | KLoadFinish i a => do_load_finish s i a
  | KDrain b => drain_all c b s
  | KRestart b vis => do_recover c (do_close c s b) vis
  end.

Definition krun (c : hcfg) (s : kst) (l : list act) : kst := fold_left (kstep c) l s.

(* a lookup served at once (memory or disk), as the harness observes it at quiescent points *)
Definition lookup_now (s : kst) : option N :=
  match kmem s with Some (v, _, _) => Some v | None => disk_lookup s end.
