(* M-COLLIDE: the disk tier as seen by ALL keys that share one 64-bit hash (C17).

   The write queue index (keeper.rs) is probed with the full key; the disk index (indexer.rs) has ONE slot per hash,
   so colliding keys displace each other's entries and a delete of one key hides the other's; an entry read from the
   device carries its key, and Store::load accepts it only if that key is the one asked for (store.rs).

   Values are version stamps; [cown] remembers for which key each version was created.  One flusher, FIFO; a step
   [CFlush] writes and indexes the oldest submission and completes it (the keeper releases the piece if it still
   holds that version; a tombstone leaves the index).  [bug_keeper] / [bug_nocheck] are the two ways to get it wrong:
   probing the keeper by hash alone, accepting a disk hit without comparing keys.  Model only: no proofs here. *)
From Coq Require Import List NArith Bool.
Import ListNotations.
Open Scope N_scope.

Inductive csub := CEntry (k v sq : N) | CTomb (sq : N).
Inductive cient := CAddr (sq k v : N) | CTombI (sq : N).
Definition cseq_of (i : cient) : N := match i with CAddr sq _ _ | CTombI sq => sq end.

Record ccfg := mkCcfg { bug_keeper : bool; bug_nocheck : bool }.

Record cst := mkC {
  ckeep : list (N * N);            (* keeper: (key, version), one piece per key *)
  cq : list csub;                  (* submitted, oldest first *)
  cidx : option cient;             (* the hash's index slot *)
  cdisk : list (N * N * N);        (* copies on the device: (key, version, sequence) *)
  cnextseq : N;
  cnextv : N;
  cown : list (N * N);             (* ghost: (version, key it was created for) *)
  cout : list (N * option N) }.    (* answered lookups: (key asked, version returned) *)

Definition init_c : cst := mkC [] [] None [] 1 1 [] [].

Fixpoint kfind (k : N) (l : list (N * N)) : option N :=
  match l with [] => None | (k', v) :: l' => if k =? k' then Some v else kfind k l' end.
Fixpoint kdel (k : N) (l : list (N * N)) : list (N * N) :=
  match l with [] => [] | (k', v) :: l' => if k =? k' then kdel k l' else (k', v) :: kdel k l' end.

Definition cidx_insert (cur : option cient) (i : cient) : option cient :=
  match cur with None => Some i | Some o => if cseq_of o <=? cseq_of i then Some i else Some o end.
Definition cidx_remove (cur : option cient) (sq : N) : option cient :=
  match cur with None => None | Some o => if cseq_of o <=? sq then None else Some o end.

(* Store::enqueue of an admitted piece for key k *)
Definition c_enq (s : cst) (k : N) : cst :=
  let v := cnextv s in let sq := cnextseq s in
  mkC ((k, v) :: kdel k (ckeep s)) (cq s ++ [CEntry k v sq]) (cidx s) (cdisk s) (sq + 1) (v + 1) ((v, k) :: cown s) (cout s).

(* Store::delete *)
Definition c_del (s : cst) (k : N) : cst :=
  let sq := cnextseq s in
  mkC (kdel k (ckeep s)) (cq s ++ [CTomb sq]) (cidx_insert (cidx s) (CTombI sq)) (cdisk s) (sq + 1) (cnextv s) (cown s) (cout s).

(* the flusher writes, indexes and completes the oldest submission *)
Definition c_flush (s : cst) : cst :=
  match cq s with
  | [] => s
  | CEntry k v sq :: q =>
      let keep := match kfind k (ckeep s) with Some v' => if v' =? v then kdel k (ckeep s) else ckeep s | None => ckeep s end in
      mkC keep q (cidx_insert (cidx s) (CAddr sq k v)) (cdisk s ++ [(k, v, sq)]) (cnextseq s) (cnextv s) (cown s) (cout s)
  | CTomb sq :: q =>
      mkC (ckeep s) q (cidx_remove (cidx s) sq) (cdisk s) (cnextseq s) (cnextv s) (cown s) (cout s)
  end.

(* Store::load *)
Definition c_load_result (c : ccfg) (s : cst) (k : N) : option N :=
  let from_keeper :=
    if bug_keeper c then match ckeep s with (_, v) :: _ => Some v | [] => None end    (* any piece of the hash *)
    else kfind k (ckeep s) in
  match from_keeper with
  | Some v => Some v
  | None =>
      match cidx s with
      | Some (CAddr sq k' v) =>
          if existsb (fun x => match x with (k2, v2, sq2) => (k2 =? k') && (v2 =? v) && (sq2 =? sq) end) (cdisk s)
          then (if bug_nocheck c then Some v else if k' =? k then Some v else None)
          else None
      | _ => None
      end
  end.
Definition c_load (c : ccfg) (s : cst) (k : N) : cst :=
  mkC (ckeep s) (cq s) (cidx s) (cdisk s) (cnextseq s) (cnextv s) (cown s) (cout s ++ [(k, c_load_result c s k)]).

(* a block is reclaimed: the copies with the given sequences disappear, their index entries too *)
Definition c_reclaim (s : cst) (sqs : list N) : cst :=
  mkC (ckeep s) (cq s) (fold_left cidx_remove sqs (cidx s))
      (filter (fun x => negb (existsb (N.eqb (snd x)) sqs)) (cdisk s)) (cnextseq s) (cnextv s) (cown s) (cout s).

(* restart: queue and keeper are lost, the index is rebuilt from the copies the scan sees (highest sequence) *)
Fixpoint c_best (d : list (N * N * N)) (acc : option cient) : option cient :=
  match d with [] => acc | (k, v, sq) :: d' => c_best d' (cidx_insert acc (CAddr sq k v)) end.
Definition c_recover (s : cst) : cst :=
  let best := c_best (cdisk s) None in
  mkC [] [] best (cdisk s) (match best with Some i => cseq_of i + 1 | None => 1 end) (cnextv s) (cown s) (cout s).

Inductive cact := AEnq (k : N) | ADel (k : N) | AFlush | ALoad (k : N) | AReclaim (sqs : list N) | ARecover.

Definition c_step (c : ccfg) (s : cst) (a : cact) : cst :=
  match a with
  | AEnq k => c_enq s k
  | ADel k => c_del s k
  | AFlush => c_flush s
  | ALoad k => c_load c s k
  | AReclaim sqs => c_reclaim s sqs
  | ARecover => c_recover s
  end.
Definition c_run (c : ccfg) (s : cst) (l : list cact) : cst := fold_left (c_step c) l s.

Fixpoint owner (v : N) (own : list (N * N)) : option N :=
  match own with [] => None | (v', k) :: o => if v =? v' then Some k else owner v o end.
