(* Consequences of the one-key hybrid model: when entries are submitted to the disk tier (C12),
   what a graceful close leaves on the device (C15), reinsertion (C09). *)
From Coq Require Import List NArith Bool Lia.
From FV Require Import Hybrid.Engine Hybrid.EngineInv.
Import ListNotations.
Open Scope N_scope.

Arguments N.add : simpl never.
Arguments N.leb : simpl never.
Arguments N.eqb : simpl never.

(* ------------------------------------------------------------------ C12: submissions, step by step *)

(* [ksubs s] is the list of versions ever handed to the flusher as cache entries *)

Lemma subs_enqueue c s v a :
  ksubs (store_enqueue c s v a) =
  if accepts c then match a with Young => ksubs s | _ => ksubs s ++ [v] end else ksubs s.
Proof. unfold store_enqueue. destruct (accepts c); [destruct a|]; reflexivity. Qed.

Lemma subs_pipe_send c s v l a :
  ksubs (pipe_send c s v l a) =
  match l with LInMem => ksubs s | _ => ksubs (store_enqueue c s v a) end.
Proof. destruct l; reflexivity. Qed.

(* write-on-insertion: an admitted insert is submitted at once, unless advised in-memory-only *)
Theorem woi_insert_submits c s l :
  woi c = true -> accepts c = true -> l <> LInMem -> ksubs (do_insert c s l) = ksubs s ++ [knext s].
Proof.
  intros Hw Ha Hl. unfold do_insert. rewrite Hw.
  destruct l; try (contradiction Hl; reflexivity); rewrite subs_enqueue, Ha; reflexivity.
Qed.

(* ... and an eviction submits nothing *)
Theorem woi_evict_submits_nothing c s : woi c = true -> ksubs (do_evict c s) = ksubs s.
Proof. intros Hw. unfold do_evict. destruct (kmem s) as [[[v l] a]|]; [rewrite Hw|]; reflexivity. Qed.

(* write-on-eviction: an insert submits nothing (unless advised on-disk: the record leaves memory at once) *)
Theorem woe_insert_submits_nothing c s l :
  woi c = false -> l <> LOnDisk -> ksubs (do_insert c s l) = ksubs s.
Proof.
  intros Hw Hl. unfold do_insert. rewrite Hw.
  destruct l; try (contradiction Hl; reflexivity); reflexivity.
Qed.

(* ... and a capacity eviction submits the evicted version, unless it is in-memory-only or young *)
Theorem woe_evict_submits c s v l a :
  woi c = false -> accepts c = true -> kmem s = Some (v, l, a) -> l <> LInMem -> a <> Young ->
  ksubs (do_evict c s) = ksubs s ++ [v].
Proof.
  intros Hw Ha Hm Hl Hy. unfold do_evict. rewrite Hm, Hw, subs_pipe_send.
  destruct l; try (contradiction Hl; reflexivity); rewrite subs_enqueue, Ha; destruct a; try reflexivity;
    contradiction Hy; reflexivity.
Qed.

(* an entry just loaded from a block that is not about to be reclaimed (Young) is not rewritten *)
Theorem young_not_rewritten c s v l : kmem s = Some (v, l, Young) -> ksubs (do_evict c s) = ksubs s.
Proof.
  intros Hm. unfold do_evict. rewrite Hm. destruct (woi c); [reflexivity|].
  rewrite subs_pipe_send. destruct l; try reflexivity; rewrite subs_enqueue; destruct (accepts c); reflexivity.
Qed.

(* in-memory-only advice: neither insert nor eviction submits, under either policy *)
Theorem inmem_insert_submits_nothing c s : ksubs (do_insert c s LInMem) = ksubs s.
Proof. unfold do_insert. destruct (woi c); reflexivity. Qed.
Theorem inmem_evict_submits_nothing c s v a : kmem s = Some (v, LInMem, a) -> ksubs (do_evict c s) = ksubs s.
Proof. intros Hm. unfold do_evict. rewrite Hm. destruct (woi c); reflexivity. Qed.

(* on-disk advice: not retained in memory, and submitted if admitted (both policies) *)
Theorem ondisk_not_retained c s : kmem (do_insert c s LOnDisk) = None.
Proof.
  unfold do_insert. cbn [loc_eqb]. destruct (woi c); unfold pipe_send, store_enqueue, store_delete, engine_delete;
    destruct (accepts c); reflexivity.
Qed.
Theorem ondisk_submitted c s : accepts c = true -> ksubs (do_insert c s LOnDisk) = ksubs s ++ [knext s].
Proof.
  intros Ha. unfold do_insert. cbn [loc_eqb]. destruct (woi c); [|rewrite subs_pipe_send]; rewrite subs_enqueue, Ha; reflexivity.
Qed.

(* a rejected entry is never submitted *)
Theorem rejected_not_submitted_insert c s l : accepts c = false -> ksubs (do_insert c s l) = ksubs s.
Proof.
  intros Ha. unfold do_insert. destruct (woi c).
  - destruct l; try reflexivity; rewrite subs_enqueue, Ha; reflexivity.
  - destruct (loc_eqb l LOnDisk); [|reflexivity]. rewrite subs_pipe_send. destruct l; try reflexivity; rewrite subs_enqueue, Ha; reflexivity.
Qed.
Theorem rejected_not_submitted_evict c s : accepts c = false -> ksubs (do_evict c s) = ksubs s.
Proof.
  intros Ha. unfold do_evict. destruct (kmem s) as [[[v l] a]|]; [|reflexivity]. destruct (woi c); [reflexivity|].
  rewrite subs_pipe_send. destruct l; try reflexivity; rewrite subs_enqueue, Ha; reflexivity.
Qed.

(* lookups (memory hit, disk hit, miss) submit nothing *)
Theorem lookup_submits_nothing s i a :
  ksubs (do_load_start s i) = ksubs s /\ ksubs (do_load_finish s i a) = ksubs s.
Proof.
  split.
  - unfold do_load_start. destruct (kmem s) as [[[v l] a0]|]; reflexivity.
  - unfold do_load_finish. destruct (find_load i (kload s)) as [[[v|] k]|]; try reflexivity.
    destruct (kmem s); [reflexivity|]. destruct (k && memN v (kondisk s)); reflexivity.
Qed.

(* remove submits no entry; the flusher, the reclaimer and recovery create no entry submissions *)
Theorem remove_submits_nothing s : ksubs (do_remove s) = ksubs s.
Proof. reflexivity. Qed.
Lemma subs_flush c s b : ksubs (do_flush c s b) = ksubs s.
Proof.
  unfold do_flush. destruct (kq s) as [|[v sq|sq|v sq] q]; try reflexivity.
  destruct (if bug_rr c then Some (sq, 0, 0) else idx_get (kidx s)) as [[[sq1 v1] b1]|]; [destruct (sq1 =? sq)|]; reflexivity.
Qed.
Lemma subs_complete s : ksubs (do_complete s) = ksubs s.
Proof. unfold do_complete. destruct (ki s) as [|[v sq|sq|v sq] q]; reflexivity. Qed.
Lemma subs_reclaim c s b : ksubs (do_reclaim c s b) = ksubs s.
Proof. unfold do_reclaim. destruct (reclaim_copies c b (kdisk s) (kq s) (kidx s)); reflexivity. Qed.
Lemma subs_drain c b : forall fuel s, ksubs (drain c fuel b s) = ksubs s.
Proof.
  induction fuel as [|f IH]; intros s; cbn [drain]; [reflexivity|].
  destruct (ki s); [destruct (kq s); [reflexivity|]|]; rewrite IH; [apply subs_flush|apply subs_complete].
Qed.

(* close: with flush-on-close off (or under write-on-insertion, where no pipe exists) nothing is submitted;
   with it on, the resident version is - by the same rule as an eviction *)
Theorem close_without_flush_submits_nothing c s b :
  foc c = false \/ woi c = true -> ksubs (do_close c s b) = ksubs s.
Proof.
  intros H. unfold do_close, drain_all. rewrite subs_drain.
  destruct H as [H|H]; rewrite H; [reflexivity|]. rewrite andb_false_r. reflexivity.
Qed.
Theorem close_with_flush_submits c s b :
  foc c = true -> woi c = false -> ksubs (do_close c s b) = ksubs (do_evict c s).
Proof. intros Hf Hw. unfold do_close, drain_all. rewrite subs_drain, Hf, Hw. reflexivity. Qed.

(* ------------------------------------------------------------------ C15: what a graceful close leaves behind *)

(* the latest submission, queued last, is on the device and indexed once the flusher has drained *)
Lemma drain_flushes_top c b v sq : bug_rr c = false -> forall fuel s,
  KInv c s -> ktop s = Some (Some v, sq) ->
  ((exists q1, kq s = q1 ++ [SEntry v sq]) \/
   (kq s = [] /\ (exists i1, ki s = i1 ++ [SEntry v sq]) /\ kidx s = Some (IAddr sq v b) /\ In (v, sq, b) (kdisk s))) ->
  (2 * length (kq s) + length (ki s) <= fuel)%nat ->
  pipe (drain c fuel b s) = [] /\ kkeep (drain c fuel b s) = None /\
  kidx (drain c fuel b s) = Some (IAddr sq v b) /\ In (v, sq, b) (kdisk (drain c fuel b s)) /\
  ktop (drain c fuel b s) = Some (Some v, sq) /\ kmem (drain c fuel b s) = kmem s.
Proof.
  intros Hrr. induction fuel as [|f IH]; intros s HK Ht Hst Hf.
  - exfalso. destruct Hst as [[q1 Hq]|[_ [[i1 Hi] _]]].
    + rewrite Hq in Hf. rewrite app_length in Hf. cbn in Hf. lia.
    + rewrite Hi in Hf. rewrite app_length in Hf. cbn in Hf. lia.
  - cbn [drain]. pose proof HK as [HI _ _ _].
    destruct (ki s) as [|h i'] eqn:Hki.
    + (* nothing awaits completion: flush the head of the queue *)
      destruct Hst as [[q1 Hq]|[_ [[i1 Hi] _]]]; [|destruct i1; discriminate].
      destruct (kq s) as [|x q] eqn:Hkq; [destruct q1; discriminate|].
      assert (Hstep : KInv c (do_flush c s b)) by (apply kinv_flush; auto).
      assert (Htop' : ktop (do_flush c s b) = ktop s).
      { unfold do_flush. rewrite Hkq. destruct x; try reflexivity. rewrite Hrr. destruct (idx_get (kidx s)) as [[[sq1 v1] b1]|]; [destruct (sq1 =? _)|]; reflexivity. }
      assert (Hmem' : kmem (do_flush c s b) = kmem s).
      { unfold do_flush. rewrite Hkq. destruct x; try reflexivity. rewrite Hrr. destruct (idx_get (kidx s)) as [[[sq1 v1] b1]|]; [destruct (sq1 =? _)|]; reflexivity. }
      destruct q1 as [|y q1'].
      * (* our entry is flushed *)
        cbn in Hq. inversion Hq; subst x q. clear Hq.
        assert (Hidx : kidx (do_flush c s b) = Some (IAddr sq v b)).
        { unfold do_flush. rewrite Hkq. cbn [kidx set_i set_idx].
          destruct (kidx s) as [o|] eqn:Ho; cbn; [|reflexivity].
          pose proof (in_claims_idx s _ Ho) as Hc.
          assert (iseq o <= sq).
          { destruct o as [sq0 v0 b0|sq0]; cbn in *; destruct (iB1 s HI _ _ Ht _ _ Hc); auto. }
          destruct (N.leb_spec (iseq o) sq); [reflexivity|lia]. }
        specialize (IH (do_flush c s b) Hstep).
        rewrite Htop', Hmem' in IH. apply IH; auto.
        -- right. unfold do_flush. rewrite Hkq. cbn [kq ki kidx kdisk set_i set_idx set_disk set_q]. rewrite Hki.
           split; [reflexivity|]. split; [exists []; reflexivity|]. split.
           ++ unfold do_flush in Hidx. rewrite Hkq in Hidx. exact Hidx.
           ++ apply in_or_app; right; left; auto.
        -- unfold do_flush. rewrite Hkq. cbn [kq ki set_i set_idx set_disk set_q]. rewrite Hki. cbn in *. lia.
      * (* something older is flushed (or dropped) *)
        cbn in Hq. inversion Hq; subst x q. clear Hq.
        specialize (IH (do_flush c s b) Hstep).
        rewrite Htop', Hmem' in IH. apply IH; auto.
        -- left. exists q1'. unfold do_flush. rewrite Hkq.
           destruct y; cbn [kq set_i set_idx set_disk set_q set_tlog]; try reflexivity.
           rewrite Hrr. destruct (idx_get (kidx s)) as [[[sq1 v1] b1]|]; [destruct (sq1 =? _)|]; reflexivity.
        -- cbn [length] in Hf.
           unfold do_flush. rewrite Hkq. destruct y as [v0 sq0|sq0|v0 sq0].
           ++ cbn [kq ki set_i set_idx set_disk set_q set_tlog]. rewrite Hki. cbn [app length]. lia.
           ++ cbn [kq ki set_i set_idx set_disk set_q set_tlog]. rewrite Hki. cbn [app length]. lia.
           ++ rewrite Hrr. destruct (idx_get (kidx s)) as [[[sq1 v1] b1]|]; [destruct (sq1 =? sq0)|];
                cbn [kq ki set_i set_idx set_disk set_q set_tlog]; rewrite ?Hki; cbn [app length]; lia.
    + (* complete the oldest indexed submission *)
      assert (Hstep : KInv c (do_complete s)) by (apply kinv_complete; auto).
      assert (Htop' : ktop (do_complete s) = ktop s) by (unfold do_complete; rewrite Hki; destruct h; reflexivity).
      assert (Hmem' : kmem (do_complete s) = kmem s) by (unfold do_complete; rewrite Hki; destruct h; reflexivity).
      assert (Hq' : kq (do_complete s) = kq s) by (unfold do_complete; rewrite Hki; destruct h; reflexivity).
      assert (Hd' : kdisk (do_complete s) = kdisk s) by (unfold do_complete; rewrite Hki; destruct h; reflexivity).
      assert (Hi' : ki (do_complete s) = tl (ki s)) by (unfold do_complete; rewrite Hki; destruct h; reflexivity).
      rewrite Hki in Hi'. cbn [tl] in Hi'.
      destruct Hst as [[q1 Hq]|[Hq0 [[i1 Hi] [Hidx Hdisk]]]].
      * specialize (IH (do_complete s) Hstep). rewrite Htop', Hmem' in IH. apply IH; auto.
        -- left. exists q1. rewrite Hq'. exact Hq.
        -- rewrite Hq', Hi'. cbn in Hf. lia.
      * destruct i1 as [|y i1'].
        -- (* our entry completes: the pipeline is empty *)
           cbn in Hi. injection Hi as Eh Ei. rewrite Eh in *. rewrite Ei in *.
           destruct f as [|f']; cbn [drain]; rewrite ?Hi', ?Hq', ?Hq0.
           all: unfold pipe; rewrite Hi', Hq', Hq0.
           all: split; [reflexivity|].
           all: unfold do_complete; rewrite Hki; cbn [kkeep kidx kdisk ktop kmem set_done set_keep set_i].
           all: repeat split; auto.
           all: destruct (kkeep s) as [vk|] eqn:Hk; auto.
           all: destruct (iC s HI _ Hk) as [t2 Ht2]; rewrite Ht in Ht2; inversion Ht2; subst; rewrite N.eqb_refl; reflexivity.
        -- (* an older one completes *)
           cbn in Hi. injection Hi as Eh Ei. rewrite Eh in *. rewrite Ei in *.
           specialize (IH (do_complete s) Hstep). rewrite Htop', Hmem' in IH. apply IH; auto.
           ++ right. rewrite Hq', Hi', Hd'. split; auto. split; [exists i1'; reflexivity|]. split; auto.
              unfold do_complete. rewrite Hki. destruct y as [v0 sq0|sq0|v0 sq0]; cbn [kidx set_done set_keep set_i set_idx]; auto.
              rewrite Hidx. cbn.
              assert (Hlt : sq0 < sq).
              { pose proof (iJ4 s HI) as Hs. unfold pipe in Hs. rewrite Hki in Hs. cbn [app] in Hs.
                assert (Hin : In (SEntry v sq) ((i1' ++ [SEntry v sq]) ++ kq s)).
                { apply in_or_app; left. apply in_or_app; right; left; auto. }
                exact (sorted_head_lt _ _ Hs eq_refl _ Hin eq_refl). }
              destruct (N.leb_spec sq sq0); [lia|reflexivity].
           ++ rewrite Hq', Hi'. rewrite Hq0 in *. cbn in *. rewrite app_length in *. cbn in *. lia.
Qed.

Lemma on_disk_in d v sq b : In (v, sq, b) d -> on_disk d v sq b = true.
Proof.
  intros Hin. unfold on_disk. apply existsb_exists. exists (v, sq, b). split; auto.
  rewrite !N.eqb_refl. reflexivity.
Qed.

(* write-on-eviction, flush-on-close: what memory holds (unless advised in-memory-only, rejected by the
   admission filter, or young) is on the device and indexed when close() returns *)
Theorem close_persists c s b v l a :
  bug_rr c = false -> KInv c s -> foc c = true -> woi c = false -> accepts c = true ->
  kmem s = Some (v, l, a) -> l <> LInMem -> a <> Young ->
  exists sq, pipe (do_close c s b) = [] /\ kkeep (do_close c s b) = None /\ kmem (do_close c s b) = None /\
             kidx (do_close c s b) = Some (IAddr sq v b) /\ In (v, sq, b) (kdisk (do_close c s b)) /\
             ktop (do_close c s b) = Some (Some v, sq).
Proof.
  intros Hrr HK Hf Hw Ha Hm Hl Hy.
  assert (Hev : do_evict c s = enq_state (set_mem s None) v).
  { unfold do_evict. rewrite Hm, Hw. unfold pipe_send.
    destruct l; try (contradiction Hl; reflexivity); apply store_enqueue_eq; auto. }
  unfold do_close. rewrite Hf, Hw. cbn [negb andb]. rewrite Hev.
  assert (HK' : KInv c (enq_state (set_mem s None) v)) by (rewrite <- Hev; apply kinv_evict; auto).
  exists (kseq s). unfold drain_all.
  set (s0 := enq_state (set_mem s None) v) in *.
  destruct (drain_flushes_top c b v (kseq s) Hrr (2 * (length (kq s0) + length (ki s0)) + 2)%nat s0 HK' eq_refl)
    as [H1 [H2 [H3 [H4 [H5 H6]]]]].
  - left. exists (kq s). reflexivity.
  - lia.
  - repeat split; auto.
Qed.

Corollary close_then_lookup c s b v l a :
  bug_rr c = false -> KInv c s -> foc c = true -> woi c = false -> accepts c = true ->
  kmem s = Some (v, l, a) -> l <> LInMem -> a <> Young ->
  lookup_now (do_close c s b) = Some v.
Proof.
  intros Hrr HK Hf Hw Ha Hm Hl Hy.
  destruct (close_persists c s b v l a Hrr HK Hf Hw Ha Hm Hl Hy) as [sq [_ [Hk [Hmm [Hi [Hd _]]]]]].
  unfold lookup_now, disk_lookup, disk_lookup2. rewrite Hmm, Hk, Hi. cbn [idx_get]. rewrite (on_disk_in _ _ _ _ Hd). reflexivity.
Qed.

(* ... and it is what a reopened store serves, provided recovery's winner for the key is that copy
   (the scan reconstructs the block: C07; nothing newer is on the device: sequences only grow) *)
Corollary close_reopen_lookup c s b v l a vis :
  bug_rr c = false -> KInv c s -> foc c = true -> woi c = false -> accepts c = true ->
  kmem s = Some (v, l, a) -> l <> LInMem -> a <> Young ->
  (forall sq, ktop (do_close c s b) = Some (Some v, sq) -> best_of (do_close c s b) vis = Some (IAddr sq v b)) ->
  lookup_now (do_recover c (do_close c s b) vis) = Some v.
Proof.
  intros Hrr HK Hf Hw Ha Hm Hl Hy Hbest.
  destruct (close_persists c s b v l a Hrr HK Hf Hw Ha Hm Hl Hy) as [sq [_ [Hk [Hmm [Hi [Hd Ht]]]]]].
  specialize (Hbest _ Ht). unfold do_recover. fold (best_of (do_close c s b) vis). rewrite Hbest.
  unfold lookup_now, disk_lookup, disk_lookup2. cbn [kmem kkeep kidx kdisk idx_get]. rewrite (on_disk_in _ _ _ _ Hd). reflexivity.
Qed.

(* the reopened store never serves anything but the latest value (under [restart_ok]) *)
Corollary reopen_lookup_fresh c s b vis r :
  bug_rr c = false -> KInv c s -> restart_ok c s b vis ->
  lookup_now (kstep c s (KRestart b vis)) = Some r -> ktruth s = Some r.
Proof.
  intros Hrr HK Hok Hl.
  assert (HK' : KInv c (kstep c s (KRestart b vis))) by (apply kinv_step; auto).
  pose proof (lookup_now_fresh c _ r HK' Hl) as Ht. change (ktruth (do_close c s b) = Some r) in Ht.
  assert (Hclose : forall c s b, ktruth (do_close c s b) = ktruth s).
  { clear. intros c s b. unfold do_close, drain_all.
    assert (Hd : forall fuel s, ktruth (drain c fuel b s) = ktruth s).
    { induction fuel as [|f IH]; intros s0; cbn [drain]; [reflexivity|].
      destruct (ki s0) as [|h i']; [destruct (kq s0) as [|x q]; [reflexivity|]|].
      - rewrite IH. unfold do_flush. destruct (kq s0) as [|[v sq|sq|v sq] q0]; try reflexivity.
        destruct (if bug_rr c then Some (_, 0, 0) else idx_get (kidx s0)) as [[[sq1 v1] b1]|]; [destruct (sq1 =? _)|]; reflexivity.
      - rewrite IH. unfold do_complete. destruct (ki s0) as [|[v sq|sq|v sq] i0]; reflexivity. }
    rewrite Hd. destruct (foc c && negb (woi c)); [|reflexivity].
    unfold do_evict. destruct (kmem s) as [[[v l] a]|]; [|reflexivity]. destruct (woi c); [reflexivity|].
    unfold pipe_send, store_enqueue, store_delete, engine_delete. destruct l; try reflexivity; destruct (accepts c); try reflexivity;
      destruct a; reflexivity. }
  rewrite Hclose in Ht. exact Ht.
Qed.

(* ------------------------------------------------------------------ C09: reinsertion *)

Lemma reclaim_copies_skip c b copies : forall q idx,
  (forall x, In x copies -> snd x <> b) -> reclaim_copies c b copies q idx = (q, idx).
Proof.
  induction copies as [|[[v sq] b'] rest IH]; intros q idx H; cbn [reclaim_copies]; auto.
  destruct (N.eqb_spec b' b) as [E|E]; [exfalso; apply (H (v, sq, b')); [left; auto|exact E]|].
  apply IH. intros x Hx. apply H. right; auto.
Qed.
Lemma reclaim_copies_app c b l1 l2 : forall q idx,
  reclaim_copies c b (l1 ++ l2) q idx =
  reclaim_copies c b l2 (fst (reclaim_copies c b l1 q idx)) (snd (reclaim_copies c b l1 q idx)).
Proof.
  induction l1 as [|[[v sq] b'] rest IH]; intros q idx; cbn [app reclaim_copies fst snd]; auto.
  destruct (b' =? b); [destruct (reins c)|]; apply IH.
Qed.
Lemma filter_not_block b (l : list (N * N * N)) :
  (forall x, In x l -> snd x <> b) -> filter (fun x => negb (snd x =? b)) l = l.
Proof.
  induction l as [|x l IH]; cbn; auto. intros H.
  destruct (N.eqb_spec (snd x) b) as [E|E]; [exfalso; apply (H x); auto|]. cbn. f_equal. apply IH. intros y Hy. apply H; auto.
Qed.

(* an entry the reinsertion filter selects survives the reclaim of its block: at quiescence, with its only copy in
   block b, after the block is reclaimed and the flusher has drained, the entry is served again (now from block b') *)
Theorem reinserted_entry_survives c s v sq b b' pre post :
  bug_rr c = false -> reins c = true ->
  kmem s = None -> kkeep s = None -> kq s = [] -> ki s = [] ->
  kidx s = Some (IAddr sq v b) -> kdisk s = pre ++ (v, sq, b) :: post ->
  (forall x, In x pre -> snd x <> b) -> (forall x, In x post -> snd x <> b) ->
  lookup_now s = Some v /\ lookup_now (drain_all c b' (do_reclaim c s b)) = Some v.
Proof.
  intros Hrr Hre Hm Hk Hq Hi Hidx Hd Hpre Hpost. split.
  - unfold lookup_now, disk_lookup, disk_lookup2. rewrite Hm, Hk, Hidx. cbn [idx_get].
    rewrite (on_disk_in (kdisk s) v sq b); [reflexivity|]. rewrite Hd. apply in_or_app; right; left; auto.
  - unfold do_reclaim. rewrite Hd, Hq.
    rewrite reclaim_copies_app. rewrite (reclaim_copies_skip c b pre [] (kidx s) Hpre). cbn [fst snd reclaim_copies].
    rewrite N.eqb_refl, Hre. rewrite (reclaim_copies_skip c b post _ (kidx s) Hpost).
    cbn [app]. rewrite filter_app. cbn [filter snd]. rewrite N.eqb_refl. cbn [negb].
    rewrite (filter_not_block b pre Hpre), (filter_not_block b post Hpost).
    unfold drain_all. cbn [kq ki set_q set_idx set_disk length]. rewrite Hi. cbn [length Nat.add Nat.mul].
    cbn [drain ki kq set_q set_idx set_disk]. rewrite Hi.
    unfold do_flush. cbn [kq ki kidx kdisk set_q set_idx set_disk set_i]. rewrite Hrr, Hidx. cbn [idx_get idx_insert iseq].
    rewrite N.eqb_refl, N.leb_refl. rewrite Hi. cbn [app drain ki kq set_i set_idx set_disk set_q].
    unfold do_complete. cbn [ki kq set_i set_idx set_disk set_q drain].
    unfold lookup_now, disk_lookup, disk_lookup2. cbn [kmem kkeep kidx kdisk set_i set_idx set_disk set_q idx_get].
    rewrite Hm, Hk. rewrite (on_disk_in _ v sq b'); [reflexivity|]. apply in_or_app; right; left; auto.
Qed.
