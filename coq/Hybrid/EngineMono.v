(* Version order follows sequence order: of two copies of the key anywhere on the disk tier, the one with the
   higher sequence carries the same or a newer version.  Hence recovery's "highest sequence wins" never prefers an
   older version (C04: "never an older one"). *)
From Coq Require Import List NArith Bool Lia.
From FV Require Import Hybrid.Engine Hybrid.EngineInv Hybrid.EngineThms Hybrid.EngineVers.
Import ListNotations.
Open Scope N_scope.

Arguments N.add : simpl never.
Arguments N.leb : simpl never.
Arguments N.eqb : simpl never.

Definition MInv (s : kst) : Prop :=
  forall v1 s1 v2 s2, In (Some v1, s1) (claims s) -> In (Some v2, s2) (claims s) -> s1 <= s2 -> v1 <= v2.

Lemma minv_init : MInv init_k.
Proof. intros v1 s1 v2 s2 H. cbn in H. contradiction. Qed.

Lemma minv_sub s s' : MInv s -> (forall y, In y (claims s') -> In y (claims s)) -> MInv s'.
Proof. intros HM Hs v1 s1 v2 s2 H1 H2. apply HM; auto. Qed.

Lemma minv_same s s' : MInv s -> pipe s' = pipe s -> kidx s' = kidx s -> kdisk s' = kdisk s -> MInv s'.
Proof. intros HM Hp Hi Hd. eapply minv_sub; [exact HM|]. unfold claims. rewrite Hp, Hi, Hd. auto. Qed.

(* which claims each flusher / reclaimer step leaves *)
Lemma claims_flush_sub c s b : bug_rr c = false -> forall y, In y (claims (do_flush c s b)) -> In y (claims s).
Proof.
  intros Hrr. unfold do_flush. destruct (kq s) as [|x q] eqn:Hkq; auto.
  assert (Hxin : In x (pipe s)) by (unfold pipe; rewrite Hkq; apply in_or_app; right; left; auto).
  assert (Hxc : In (sub_claim x) (claims s)) by (apply in_claims_pipe; auto).
  assert (Hentry : forall v sq, sub_claim x = (Some v, sq) -> forall y,
     In y (claims (set_i (set_idx (set_disk (set_q s q) (kdisk s ++ [(v, sq, b)])) (idx_insert (kidx s) (IAddr sq v b))) (ki s ++ [x]))) ->
     In y (claims s)).
  { intros v sq Hx. apply claims_sub.
    - unfold pipe; sproj. intros y Hy. apply in_claims_pipe. unfold pipe. rewrite Hkq. rewrite <- app_assoc in Hy. exact Hy.
    - sproj. destruct (idx_insert_spec (kidx s) (IAddr sq v b)) as [e' [He [_ [_ E3]]]]. rewrite He.
      destruct E3 as [E3|E3].
      + subst e'. cbn. intros y [Hy|[]]; subst. rewrite <- Hx. exact Hxc.
      + intros y Hy. unfold claims. rewrite E3. apply in_or_app; right. apply in_or_app; left. auto.
    - sproj. intros y Hy. apply in_app_single in Hy. destruct Hy as [Hy|Hy].
      + destruct y as [[vy sy] by']. eapply in_claims_disk; eauto.
      + subst y. cbn. rewrite <- Hx. exact Hxc. }
  destruct x as [v sq|sq|v sq].
  - apply (Hentry v sq); reflexivity.
  - apply claims_mono; sproj; auto. unfold pipe; sproj. intros y Hy. rewrite Hkq. rewrite <- app_assoc in Hy. exact Hy.
  - rewrite Hrr.
    assert (Hdrop : forall y, In y (claims (set_q s q)) -> In y (claims s)).
    { apply claims_mono; sproj; auto. unfold pipe; sproj. intros y Hy. rewrite Hkq. apply in_app_or in Hy. apply in_or_app.
      destruct Hy; [left|right; right]; auto. }
    destruct (idx_get (kidx s)) as [[[sq1 v1] b1]|]; [|exact Hdrop].
    destruct (sq1 =? sq); [|exact Hdrop].
    apply (Hentry v sq); reflexivity.
Qed.

Lemma claims_complete_sub s : forall y, In y (claims (do_complete s)) -> In y (claims s).
Proof.
  unfold do_complete. destruct (ki s) as [|h i'] eqn:Hki; auto.
  destruct h as [v sq|sq|v sq]; apply claims_mono; sproj; auto; try (apply idx_remove_cases).
  all: unfold pipe; sproj; rewrite Hki; intros y Hy; right; auto.
Qed.

Lemma claims_reclaim_sub c s b : forall y, In y (claims (do_reclaim c s b)) -> In y (claims s).
Proof.
  unfold do_reclaim.
  destruct (reclaim_copies_spec c b (kdisk s) (kq s) (kidx s)) as [rs [R1 [R2 R3]]].
  destruct (reclaim_copies c b (kdisk s) (kq s) (kidx s)) as [q idx] eqn:Hrc. cbn [fst snd] in *. subst q.
  apply claims_sub.
  - unfold pipe; sproj. intros y Hy. rewrite app_assoc in Hy. apply in_app_or in Hy. destruct Hy as [Hy|Hy].
    + apply in_claims_pipe. exact Hy.
    + destruct (R2 _ Hy) as [v [sq [E Hin]]]. subst y. cbn. eapply in_claims_disk; eauto.
  - sproj. destruct R3 as [R3|[R3 _]]; subst idx; [|intros y []].
    intros y Hy. unfold claims. apply in_or_app; right. apply in_or_app; left. auto.
  - sproj. intros y Hy. apply filter_In in Hy. destruct Hy as [Hy _].
    destruct y as [[vy sy] by']. eapply in_claims_disk; eauto.
Qed.

(* a new cache-entry submission of version v: every copy so far carries v or something older *)
Lemma minv_enq s1 v :
  MInv s1 ->
  (forall cn sq, In (cn, sq) (claims s1) -> sq < kseq s1) ->
  (forall v' sq, In (Some v', sq) (claims s1) -> v' <= v) ->
  MInv (enq_state s1 v).
Proof.
  intros HM A1 Hle.
  assert (Hcl : forall y, In y (claims (enq_state s1 v)) -> In y (claims s1) \/ y = (Some v, kseq s1)).
  { intros y Hy. eapply (claims_snoc s1 (enq_state s1 v) (SEntry v (kseq s1))); eauto.
    unfold pipe, enq_state; sproj. apply app_assoc. }
  intros v1 s1' v2 s2 H1 H2 Hlt.
  destruct (Hcl _ H1) as [C1|C1]; destruct (Hcl _ H2) as [C2|C2].
  - eapply HM; eauto.
  - inversion C2; subst. eauto.
  - inversion C1; subst. specialize (A1 _ _ C2). lia.
  - inversion C1; inversion C2; subst. lia.
Qed.

Lemma minv_delete s1 : MInv s1 -> MInv (store_delete s1).
Proof.
  intros HM v1 s1' v2 s2 H1 H2 Hlt.
  assert (Hcl : forall y, In y (claims (store_delete s1)) -> In y (claims s1) \/ y = (None, kseq s1)).
  { intros y Hy. eapply (claims_snoc s1 (store_delete s1) (STomb (kseq s1))); eauto.
    - unfold pipe, store_delete, engine_delete; sproj. apply app_assoc.
    - unfold store_delete, engine_delete; sproj.
      destruct (idx_insert_spec (kidx s1) (ITomb (kseq s1))) as [e' [He [_ [_ E3]]]]. rewrite He.
      destruct E3 as [E3|E3]; [subst e'; right; reflexivity|left; rewrite E3; reflexivity]. }
  destruct (Hcl _ H1) as [C1|C1]; [|discriminate]. destruct (Hcl _ H2) as [C2|C2]; [|discriminate].
  eapply HM; eauto.
Qed.

Lemma minv_store_enqueue c s1 v a :
  MInv s1 ->
  (forall cn sq, In (cn, sq) (claims s1) -> sq < kseq s1) ->
  (forall v' sq, In (Some v', sq) (claims s1) -> v' <= v) ->
  MInv (store_enqueue c s1 v a).
Proof.
  intros HM A1 Hle. unfold store_enqueue. destruct (accepts c); [|apply minv_delete; auto].
  destruct a; try (apply minv_enq; auto). eapply minv_same; [exact HM|reflexivity..].
Qed.

(* the resident version is the latest submission's or newer than every copy *)
Lemma resident_not_older s v l a :
  Inv s -> kmem s = Some (v, l, a) -> forall v' sq, In (Some v', sq) (claims s) -> v' <= v.
Proof.
  intros HI Hm v' sq Hin. destruct (iL s HI _ _ _ Hm) as [[tsq Ht]|Hn].
  - destruct (N.le_gt_cases (klo s) sq) as [Hle|Hgt].
    + destruct (iB1 s HI _ _ Ht _ _ Hin) as [_ Hc]. specialize (Hc Hle). inversion Hc; subst. lia.
    + pose proof (iB2 s HI _ _ Ht _ _ Hin Hgt). lia.
  - specialize (Hn _ _ Hin). lia.
Qed.

Lemma minv_evict c s : Inv s -> MInv s -> MInv (do_evict c s).
Proof.
  intros HI HM. unfold do_evict. destruct (kmem s) as [[[v l] a]|] eqn:Hm; auto.
  assert (HM1 : MInv (set_mem s None)) by (eapply minv_same; [exact HM|reflexivity..]).
  destruct (woi c); auto. unfold pipe_send.
  destruct l; auto; apply minv_store_enqueue; auto; try exact (iA1 s HI); exact (resident_not_older s v _ a HI Hm).
Qed.

Lemma minv_drain c b : bug_rr c = false -> forall fuel s, MInv s -> MInv (drain c fuel b s).
Proof.
  intros Hrr. induction fuel as [|f IH]; intros s HM; cbn [drain]; auto.
  destruct (ki s); [destruct (kq s); auto|]; apply IH.
  - eapply minv_sub; [exact HM|]. apply claims_flush_sub; auto.
  - eapply minv_sub; [exact HM|]. apply claims_complete_sub.
Qed.

Lemma minv_recover c s vis : MInv s -> MInv (do_recover c s vis).
Proof.
  intros HM. eapply minv_sub; [exact HM|]. unfold do_recover.
  apply claims_sub.
  - unfold pipe; sproj. intros y [].
  - sproj. destruct (best_tomb (ktlog s) (best_copy (visible vis (kdisk s)) None)) as [[sq1 v1 b1|sq1]|] eqn:Hb.
    + destruct (best_tomb_in _ _ _ Hb) as [Hc|[sq2 [E _]]]; [|discriminate].
      destruct (best_copy_in _ _ _ Hc) as [Hn|[v0 [sq2 [b2 [E Hin]]]]]; [discriminate|].
      injection E as E1 E2 E3. subst. unfold visible in Hin. apply filter_In in Hin. destruct Hin as [Hin _].
      cbn. intros y Hy. destruct Hy as [Hy|Hy]; [|contradiction]. subst. eapply in_claims_disk; eauto.
    + cbn. intros y Hy. contradiction.
    + cbn. intros y Hy. contradiction.
  - sproj. intros y Hy. destruct y as [[vy sy] by']. eapply in_claims_disk; eauto.
Qed.

Lemma minv_step c s a : bug_rr c = false -> KInv c s -> ok_act c s a -> MInv s -> MInv (kstep c s a).
Proof.
  intros Hrr HK Hok HM. pose proof HK as [HI _ _ _]. destruct a; cbn [kstep] in *.
  - (* insert *)
    unfold do_insert. fold (ins_state s l).
    assert (HM1 : MInv (ins_state s l)) by (eapply minv_same; [exact HM|reflexivity..]).
    assert (Henq : MInv (store_enqueue c (ins_state s l) (knext s) Fresh)).
    { apply minv_store_enqueue; auto; [exact (iA1 s HI)|].
      intros v' sq Hin. pose proof (iA3 s HI _ _ Hin). lia. }
    destruct (woi c); [destruct l; auto|]. destruct (loc_eqb l LOnDisk); auto. unfold pipe_send. destruct l; auto.
  - apply minv_evict; auto.
  - unfold do_remove. apply minv_delete. eapply minv_same; [exact HM|reflexivity..].
  - eapply minv_sub; [exact HM|]. apply claims_flush_sub; auto.
  - eapply minv_sub; [exact HM|]. apply claims_complete_sub.
  - unfold do_reins_delay. rewrite Hrr. auto.
  - eapply minv_sub; [exact HM|]. apply claims_reclaim_sub.
  - unfold do_load_start. destruct (kmem s) as [[[v l] a]|]; eapply minv_same; eauto; reflexivity.
  - unfold do_load_finish. destruct (find_load i (kload s)) as [[r k]|]; [|exact HM].
    destruct r as [v|]; [|eapply minv_same; eauto; reflexivity].
    destruct (kmem s); [eapply minv_same; eauto; reflexivity|].
    destruct (k && memN v (kondisk s)); eapply minv_same; eauto; reflexivity.
  - unfold drain_all. apply minv_drain; auto.
  - apply minv_recover. unfold do_close, drain_all. apply minv_drain; auto.
    destruct (foc c && negb (woi c)); auto. apply minv_evict; auto.
Qed.

Lemma minv_run c l : bug_rr c = false -> forall s, KInv c s -> MInv s -> run_ok c s l -> MInv (krun c s l).
Proof.
  intros Hrr. induction l as [|a l IH]; intros s HK HM Hok; cbn in *; auto.
  destruct Hok as [Ha Hl]. apply IH; auto; [apply kinv_step; auto|apply minv_step; auto].
Qed.

(* C04: a copy the scan sees - in particular an acknowledged write - is never beaten by an older version:
   what recovery serves for the key is a miss (a later delete won, or the winner's bytes do not verify) or a version at
   least as new *)
Theorem recovery_never_older c l vis v0 sq0 b0 v :
  bug_rr c = false -> run_ok c init_k l ->
  In (v0, sq0, b0) (visible vis (kdisk (krun c init_k l))) ->
  lookup_now (do_recover c (krun c init_k l) vis) = Some v -> v0 <= v.
Proof.
  intros Hrr Hok Hin Hl. set (s := krun c init_k l) in *.
  assert (HK : KInv c s) by (apply kinv_run; auto; apply kinv_init).
  assert (HM : MInv s) by (apply minv_run; auto; [apply kinv_init|apply minv_init]).
  destruct (winner_at_least s vis _ _ _ Hin) as [e [He Hle]].
  unfold do_recover in Hl. fold (best_of s vis) in Hl. rewrite He in Hl.
  unfold lookup_now, disk_lookup, disk_lookup2 in Hl. cbn [kmem kkeep kidx kdisk] in Hl.
  destruct e as [sq v' b'|sq]; cbn [idx_get] in Hl; [|discriminate].
  destruct (on_disk (kdisk s) v' sq b') eqn:Ho; cbn in Hl; inversion Hl; subst. clear Hl.
  apply on_disk_in_rev in Ho. cbn in Hle.
  unfold visible in Hin. apply filter_In in Hin. destruct Hin as [Hin _].
  eapply HM; [eapply in_claims_disk; eauto|eapply in_claims_disk; eauto|lia].
Qed.
