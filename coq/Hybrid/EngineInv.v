(* Invariant of the one-key hybrid model (Hybrid/Engine.v) and the lookup-correctness theorem. *)
From Coq Require Import List NArith Bool Lia Sorted.
From FV Require Import Hybrid.Engine.
Import ListNotations.
Open Scope N_scope.

Arguments N.add : simpl never.
Arguments N.leb : simpl never.
Arguments N.eqb : simpl never.

Definition sub_seq (x : sub) : N := match x with SEntry _ sq | STomb sq | SReins _ sq => sq end.
Definition sub_claim (x : sub) : option N * N :=
  match x with SEntry v sq => (Some v, sq) | STomb sq => (None, sq) | SReins v sq => (Some v, sq) end.
Definition plain (x : sub) : bool := match x with SReins _ _ => false | _ => true end.
Definition pipe (s : kst) : list sub := ki s ++ kq s.
Definition idx_claims (i : option ient) : list (option N * N) :=
  match i with Some (IAddr sq v b) => [(Some v, sq)] | Some (ITomb sq) => [(None, sq)] | None => [] end.
Definition disk_claim (x : N * N * N) : option N * N := match x with (v, sq, b) => (Some v, sq) end.
Definition claims (s : kst) : list (option N * N) :=
  map sub_claim (pipe s) ++ idx_claims (kidx s) ++ map disk_claim (kdisk s).
Definition top_sub (t : option N * N) : sub :=
  match t with (Some v, sq) => SEntry v sq | (None, sq) => STomb sq end.
Definition idx_ge (i : option ient) (n : N) : Prop := i = None \/ exists e, i = Some e /\ n <= iseq e.

Record Inv (s : kst) : Prop := mkInv {
  iA1 : forall cn sq, In (cn, sq) (claims s) -> sq < kseq s;
  iA2 : forall tc tsq, ktop s = Some (tc, tsq) -> tsq < kseq s /\ klo s <= tsq;
  iA3 : forall v sq, In (Some v, sq) (claims s) -> v < knext s;
  iA4 : forall v, ktruth s = Some v -> v < knext s;
  iB0 : ktop s = None -> claims s = [];
  iB1 : forall tc tsq, ktop s = Some (tc, tsq) ->
        forall cn sq, In (cn, sq) (claims s) -> sq <= tsq /\ (klo s <= sq -> cn = tc);
  iB2 : forall v tsq, ktop s = Some (Some v, tsq) ->
        forall v' sq, In (Some v', sq) (claims s) -> sq < klo s -> v' < v;
  iC : forall v, kkeep s = Some v -> exists tsq, ktop s = Some (Some v, tsq);
  iD : forall v l a, kmem s = Some (v, l, a) -> ktruth s = Some v;
  iE : forall v tsq, kmem s = None -> ktop s = Some (Some v, tsq) -> ktruth s = Some v;
  iF : forall v tsq, kdone s = true -> ktop s = Some (Some v, tsq) -> idx_ge (kidx s) (klo s);
  iF2 : forall v sq, In (SEntry v sq) (ki s) -> idx_ge (kidx s) sq;
  iG : forall tsq, ktop s = Some (None, tsq) ->
       (In (STomb tsq) (pipe s) -> kidx s = Some (ITomb tsq)) /\ (~ In (STomb tsq) (pipe s) -> kidx s = None);
  iJ4 : StronglySorted N.lt (map sub_seq (filter plain (pipe s)));
  iJ5 : forall x t, In x (pipe s) -> plain x = true -> ktop s = Some t -> In (top_sub t) (pipe s);
  iJ3 : forall v tsq, kdone s = true -> ktop s = Some (Some v, tsq) ->
        forall x, In x (pipe s) -> plain x = true -> klo s <= sub_seq x;
  iK2 : forall v tsq, kdone s = false -> ktop s = Some (Some v, tsq) -> kkeep s = Some v;
  iK3 : forall v l a, kmem s = Some (v, l, a) -> a <> Fresh -> kdone s = true /\ exists tsq, ktop s = Some (Some v, tsq);
  iL : forall vm l a, kmem s = Some (vm, l, a) ->
       (exists tsq, ktop s = Some (Some vm, tsq)) \/ (forall v' sq, In (Some v', sq) (claims s) -> v' < vm);
  iP : forall i v k, In (i, Some v, k) (kload s) ->
       (exists tsq, ktop s = Some (Some v, tsq)) /\ ktruth s = Some v /\ (k = false -> kdone s = true);
  iO : forall i r t, In (i, r, t) (kout s) -> r = None \/ r = t
}.

Lemma inv_init : Inv init_k.
Proof.
  constructor; cbn; intros; try discriminate; try contradiction; auto.
  - constructor.
Qed.

Ltac sproj :=
  cbn [kmem kkeep kq ki kidx kdisk ktlog kseq kload ktruth knext ktop klo kdone ksubs kinmem kout kondisk
       set_mem set_keep set_q set_i set_idx set_disk set_tlog set_load set_truth set_done add_out fst snd] in *.
Ltac unf := unfold claims, pipe in *; sproj.
Ltac split_inv H :=
  destruct H as [A1 A2 A3 A4 B0 B1 B2 C D E F F2 G J4 J5 J3 K2 K3 L P O].
Ltac frame := first [ assumption | (intros; eauto; fail) ].

Lemma in_app_single {A} (l : list A) (x y : A) : In x (l ++ [y]) <-> In x l \/ x = y.
Proof. rewrite in_app_iff; cbn; intuition. Qed.

Lemma sub_eq_dec (a b : sub) : {a = b} + {a <> b}.
Proof. decide equality; apply N.eq_dec. Qed.

Lemma in_claims_idx s e : kidx s = Some e ->
  In (match e with IAddr sq v b => (Some v, sq) | ITomb sq => (None, sq) end) (claims s).
Proof.
  intros He. unfold claims. rewrite He. apply in_or_app; right. apply in_or_app; left.
  destruct e; cbn; auto.
Qed.

Lemma in_claims_pipe s x : In x (pipe s) -> In (sub_claim x) (claims s).
Proof. intros Hin. unfold claims. apply in_or_app; left. apply in_map; auto. Qed.

Lemma in_claims_disk s v sq b : In (v, sq, b) (kdisk s) -> In (Some v, sq) (claims s).
Proof.
  intros Hin. unfold claims. apply in_or_app; right. apply in_or_app; right.
  change (Some v, sq) with (disk_claim (v, sq, b)). apply in_map; auto.
Qed.

(* with an empty keeper, an address in the index is the latest submission's version *)
Lemma idx_hit_top s sq v b :
  Inv s -> kkeep s = None -> kidx s = Some (IAddr sq v b) ->
  exists tsq, ktop s = Some (Some v, tsq) /\ kdone s = true.
Proof.
  intros H Hk Hi. pose proof (in_claims_idx s _ Hi) as Hc. cbn in Hc.
  destruct (ktop s) as [[[vt|] tsq]|] eqn:Ht.
  - destruct (kdone s) eqn:Hd.
    + destruct (iF s H _ _ Hd Ht) as [Hn|[e [He Hle]]]; [congruence|].
      rewrite Hi in He; inversion He; subst e; cbn in Hle.
      destruct (iB1 s H _ _ Ht _ _ Hc) as [_ Heq]. specialize (Heq Hle). inversion Heq; subst. eauto.
    + pose proof (iK2 s H _ _ Hd Ht). congruence.
  - destruct (iG s H _ Ht) as [G1 G2].
    destruct (in_dec sub_eq_dec (STomb tsq) (pipe s)) as [Hin|Hnin].
    + rewrite (G1 Hin) in Hi. discriminate.
    + rewrite (G2 Hnin) in Hi. discriminate.
  - rewrite (iB0 s H Ht) in Hc. contradiction.
Qed.

Lemma inv_load_start s i : Inv s -> Inv (do_load_start s i).
Proof.
  intros H. pose proof H as HI. unfold do_load_start.
  destruct (kmem s) as [[[v l] a]|] eqn:Hm.
  - split_inv H; constructor; unf; try frame.
    intros i0 r t Hin. apply in_app_single in Hin. destruct Hin as [Hin|Heq]; eauto.
    inversion Heq; subst. right. symmetry. eapply D; eauto.
  - split_inv H; constructor; unf; try frame.
    intros i0 v k Hin. apply in_app_single in Hin. destruct Hin as [Hin|Heq]; eauto.
      inversion Heq; subst. clear Heq.
      unfold disk_lookup2 in *.
      destruct (kkeep s) as [vk|] eqn:Hk.
      + cbn in H1. inversion H1; subst. destruct (C _ eq_refl) as [tsq Ht].
        split; [eauto|]. split; [eapply E; eauto|]. cbn. intros; discriminate.
      + destruct (idx_get (kidx s)) as [[[sq0 v0] b0]|] eqn:Hg; cbn in H1.
        2: { inversion H1. }
        destruct (on_disk (kdisk s) v0 sq0 b0); cbn in H1; inversion H1; subst.
        unfold idx_get in Hg. destruct (kidx s) as [[sq1 v1 b1|sq1]|] eqn:Hi; inversion Hg; subst.
        destruct (idx_hit_top s _ _ _ HI Hk Hi) as [tsq [Ht Hd]].
        split; [eauto|]. split; [eapply E; eauto|]. auto.
Qed.

Lemma find_load_in i l r k : find_load i l = Some (r, k) -> In (i, r, k) l.
Proof.
  induction l as [|[[j r'] k'] l IH]; cbn; [discriminate|].
  destruct (N.eqb_spec i j) as [He|Hne]; intros Hf.
  - inversion Hf; subst; auto.
  - right; auto.
Qed.
Lemma del_load_in i l x : In x (del_load i l) -> In x l.
Proof.
  induction l as [|[[j r'] k'] l IH]; cbn; [auto|].
  destruct (N.eqb i j); cbn; intuition.
Qed.

Lemma inv_load_finish s i a : Inv s -> Inv (do_load_finish s i a).
Proof.
  intros H. pose proof H as HI. unfold do_load_finish.
  destruct (find_load i (kload s)) as [[r fromk]|] eqn:Hf; [|exact H].
  apply find_load_in in Hf.
  assert (HO : forall i0 r0 t, In (i0, r0, t) (kout s ++ [(i, r, ktruth s)]) -> r0 = None \/ r0 = t).
  { intros i0 r0 t Hin. apply in_app_single in Hin. destruct Hin as [Hin|Heq]; [eapply iO; eauto|].
    inversion Heq; subst. match goal with |- ?x = None \/ _ => destruct x as [v|] end; auto. right.
    destruct (iP s HI _ _ _ Hf) as [_ [Ht _]]. auto. }
  assert (HP : forall i0 v k, In (i0, Some v, k) (del_load i (kload s)) ->
       (exists tsq, ktop s = Some (Some v, tsq)) /\ ktruth s = Some v /\ (k = false -> kdone s = true)).
  { intros i0 v k Hin. apply del_load_in in Hin. eapply iP; eauto. }
  destruct r as [v|].
  2: { split_inv H; constructor; unf; try frame. }
  destruct (kmem s) as [[[vm lm] am]|] eqn:Hm.
  { split_inv H; constructor; unf; try frame. }
  destruct (iP s HI _ _ _ Hf) as [[tsq Ht] [Htr Hd]].
  destruct (fromk && memN v (kondisk s)) eqn:Hph.
  { split_inv H; constructor; unf; try frame. }
  split_inv H; constructor; unf; try frame.
  - intros v0 l0 a0 Heq; inversion Heq; subst; auto.
  - intros v0 l0 a0 Heq Hne; inversion Heq; subst. split; [|eauto].
    destruct fromk; [contradiction Hne; reflexivity|auto].
  - intros vm l0 a0 Heq; inversion Heq; subst. left; eauto.
Qed.

Lemma idx_ge_trans i a b : idx_ge i b -> a <= b -> idx_ge i a.
Proof. intros [Hn|[e [He Hle]]] Hab; [left; auto|right; exists e; split; auto; lia]. Qed.
Lemma idx_ge_remove i n sq : idx_ge i n -> idx_ge (idx_remove i sq) n.
Proof.
  intros [Hn|[e [He Hle]]]; subst; cbn; [left; auto|].
  destruct (iseq e <=? sq); [left; auto|right; eauto].
Qed.
Lemma idx_remove_cases i sq : idx_remove i sq = i \/ idx_remove i sq = None.
Proof. destruct i as [e|]; cbn; auto. destruct (iseq e <=? sq); auto. Qed.

Lemma claims_mono s s' :
  (forall x, In x (pipe s') -> In x (pipe s)) ->
  (kidx s' = kidx s \/ kidx s' = None) ->
  (forall x, In x (kdisk s') -> In x (kdisk s)) ->
  forall x, In x (claims s') -> In x (claims s).
Proof.
  intros Hp Hi Hd x Hin. unfold claims in *.
  apply in_app_or in Hin. destruct Hin as [Hin|Hin].
  - apply in_or_app; left. apply in_map_iff in Hin. destruct Hin as [y [Hy Hin]]. subst. apply in_map; auto.
  - apply in_app_or in Hin. apply in_or_app; right. destruct Hin as [Hin|Hin].
    + apply in_or_app; left. destruct Hi as [Hi|Hi]; rewrite Hi in Hin; [auto|contradiction].
    + apply in_or_app; right. apply in_map_iff in Hin. destruct Hin as [y [Hy Hin]]. subst. apply in_map; auto.
Qed.

Lemma sorted_head_lt h rest :
  StronglySorted N.lt (map sub_seq (filter plain (h :: rest))) -> plain h = true ->
  forall x, In x rest -> plain x = true -> sub_seq h < sub_seq x.
Proof.
  cbn [filter]. intros Hs Hp x Hin Hpx. rewrite Hp in Hs. cbn in Hs.
  apply StronglySorted_inv in Hs. destruct Hs as [_ Hall].
  rewrite Forall_forall in Hall. apply Hall. apply in_map. apply filter_In; auto.
Qed.
Lemma sorted_tail h rest :
  StronglySorted N.lt (map sub_seq (filter plain (h :: rest))) ->
  StronglySorted N.lt (map sub_seq (filter plain rest)).
Proof.
  cbn [filter]. destruct (plain h); cbn; intros Hs; [apply StronglySorted_inv in Hs; tauto|auto].
Qed.

Lemma incl_nil_eq {A} (l : list A) : (forall x, In x l -> In x (@nil A)) -> l = [].
Proof. destruct l as [|a l]; auto. intros H. destruct (H a (or_introl eq_refl)). Qed.

Lemma inv_complete s : Inv s -> Inv (do_complete s).
Proof.
  intros H. pose proof H as HI. unfold do_complete.
  destruct (ki s) as [|h i'] eqn:Hki; [exact H|].
  assert (Hpipe : pipe s = h :: (i' ++ kq s)) by (unfold pipe; rewrite Hki; reflexivity).
  assert (Hhc : In (sub_claim h) (claims s)) by (apply in_claims_pipe; rewrite Hpipe; left; auto).
  assert (Hsort := iJ4 s HI). rewrite Hpipe in Hsort.
  destruct h as [v sq|sq|v sq].
  - (* a cache entry completes *)
    set (s' := set_done _ _).
    assert (Hp' : pipe s' = i' ++ kq s) by reflexivity.
    assert (Hcl : forall x, In x (claims s') -> In x (claims s)).
    { apply claims_mono; [rewrite Hp', Hpipe; intros; right; auto|left; reflexivity|auto]. }
    assert (Hlt : forall x, In x (pipe s') -> plain x = true -> sq < sub_seq x).
    { intros x Hin Hpx. rewrite Hp' in Hin. exact (sorted_head_lt _ _ Hsort eq_refl x Hin Hpx). }
    constructor.
    + intros cn sq0 Hin. exact (iA1 s HI _ _ (Hcl _ Hin)).
    + exact (iA2 s HI).
    + intros v0 sq0 Hin. exact (iA3 s HI _ _ (Hcl _ Hin)).
    + exact (iA4 s HI).
    + intros Ht. apply incl_nil_eq. intros x Hin. rewrite <- (iB0 s HI Ht). auto.
    + intros tc tsq Ht cn sq0 Hin. exact (iB1 s HI _ _ Ht _ _ (Hcl _ Hin)).
    + intros vt tsq Ht v' sq0 Hin. exact (iB2 s HI _ _ Ht _ _ (Hcl _ Hin)).
    + intros v0 Hk. apply (iC s HI). subst s'; sproj.
      destruct (kkeep s) as [vk|]; [|discriminate]. destruct (vk =? v); [discriminate|auto].
    + exact (iD s HI).
    + exact (iE s HI).
    + intros vt tsq Hd Ht. subst s'; sproj. destruct (kdone s) eqn:Hd0.
      * eapply iF; eauto.
      * destruct (N.leb_spec (klo s) sq) as [Hle|Hgt]; [|discriminate].
        eapply idx_ge_trans; [|exact Hle]. eapply (iF2 s HI v sq). rewrite Hki; left; auto.
    + intros v0 sq0 Hin. eapply (iF2 s HI v0 sq0). rewrite Hki; right; auto.
    + intros tsq Ht. destruct (iG s HI _ Ht) as [G1 G2]. rewrite Hp'. rewrite Hpipe in G1, G2. split.
      * intros Hin. apply G1. right; auto.
      * intros Hnin. apply G2. intros [Heq|Hin]; [discriminate|auto].
    + rewrite Hp'. exact (sorted_tail _ _ Hsort).
    + intros x t Hin Hpx Ht. pose proof (iJ5 s HI x t) as J. rewrite Hpipe in J. rewrite Hp' in *.
      destruct (J (or_intror Hin) Hpx Ht) as [Heq|Hin']; auto. exfalso.
      pose proof (sorted_head_lt _ _ Hsort eq_refl x Hin Hpx) as Hl. cbn in Hl.
      destruct t as [tc tsq]. pose proof (iB1 s HI _ _ Ht) as B.
      assert (Hxc : In (sub_claim x) (claims s)) by (apply in_claims_pipe; rewrite Hpipe; right; auto).
      destruct x as [vx sx|sx|vx sx]; cbn in *; try discriminate;
        destruct tc; inversion Heq; subst; destruct (B _ _ Hxc) as [Hle _]; lia.
    + intros vt tsq Hd Ht x Hin Hpx. subst s'; sproj. destruct (kdone s) eqn:Hd0.
      * eapply (iJ3 s HI); eauto. rewrite Hpipe. right. exact Hin.
      * destruct (N.leb_spec (klo s) sq) as [Hle|Hgt]; [|discriminate].
        pose proof (Hlt x Hin Hpx). lia.
    + intros vt tsq Hd Ht. subst s'; sproj. destruct (kdone s) eqn:Hd0.
      * destruct (klo s <=? sq); discriminate.
      * destruct (N.leb_spec (klo s) sq) as [Hle|Hgt]; [discriminate|].
        rewrite (iK2 s HI _ _ Hd0 Ht).
        pose proof (iB2 s HI _ _ Ht _ _ Hhc Hgt) as Hv.
        destruct (N.eqb_spec vt v); [lia|reflexivity].
    + intros v0 l a Hm Ha. subst s'; sproj. destruct (iK3 s HI _ _ _ Hm Ha) as [Hd Ht].
      rewrite Hd. split; [destruct (klo s <=? sq); auto|auto].
    + intros vm l a Hm. destruct (iL s HI _ _ _ Hm) as [L1|L2]; [left; auto|right].
      intros v' sq0 Hin. exact (L2 _ _ (Hcl _ Hin)).
    + intros i0 v0 k Hin. subst s'; sproj. destruct (iP s HI _ _ _ Hin) as [P1 [P2 P3]].
      split; auto. split; auto. intros Hk. rewrite (P3 Hk). destruct (klo s <=? sq); auto.
    + exact (iO s HI).
  - (* a tombstone completes *)
    set (s' := set_done _ _).
    assert (Hp' : pipe s' = i' ++ kq s) by reflexivity.
    assert (Hidx : kidx s' = idx_remove (kidx s) sq) by reflexivity.
    assert (Hcl : forall x, In x (claims s') -> In x (claims s)).
    { apply claims_mono; [rewrite Hp', Hpipe; intros; right; auto| |auto].
      rewrite Hidx. apply idx_remove_cases. }
    assert (Hlt : forall x, In x (pipe s') -> plain x = true -> sq < sub_seq x).
    { intros x Hin Hpx. rewrite Hp' in Hin. exact (sorted_head_lt _ _ Hsort eq_refl x Hin Hpx). }
    constructor.
    + intros cn sq0 Hin. exact (iA1 s HI _ _ (Hcl _ Hin)).
    + exact (iA2 s HI).
    + intros v0 sq0 Hin. exact (iA3 s HI _ _ (Hcl _ Hin)).
    + exact (iA4 s HI).
    + intros Ht. apply incl_nil_eq. intros x Hin. rewrite <- (iB0 s HI Ht). auto.
    + intros tc tsq Ht cn sq0 Hin. exact (iB1 s HI _ _ Ht _ _ (Hcl _ Hin)).
    + intros vt tsq Ht v' sq0 Hin. exact (iB2 s HI _ _ Ht _ _ (Hcl _ Hin)).
    + exact (iC s HI).
    + exact (iD s HI).
    + exact (iE s HI).
    + intros vt tsq Hd Ht. rewrite Hidx. apply idx_ge_remove. subst s'; sproj. destruct (kdone s) eqn:Hd0.
      * eapply iF; eauto.
      * destruct (N.leb_spec (klo s) sq) as [Hle|Hgt]; [|discriminate].
        destruct (iB1 s HI _ _ Ht _ _ Hhc) as [_ Hc]. specialize (Hc Hle). discriminate.
    + intros v0 sq0 Hin. rewrite Hidx. apply idx_ge_remove. eapply (iF2 s HI v0 sq0). rewrite Hki; right; auto.
    + intros tsq Ht. destruct (iG s HI _ Ht) as [G1 G2]. rewrite Hp', Hidx. rewrite Hpipe in G1, G2.
      destruct (iB1 s HI _ _ Ht _ _ Hhc) as [Hle _]. cbn in Hle.
      destruct (N.eq_dec sq tsq) as [Heq|Hne].
      * subst sq. assert (Hnin : ~ In (STomb tsq) (i' ++ kq s)).
        { intros Hin. pose proof (sorted_head_lt _ _ Hsort eq_refl _ Hin eq_refl) as Hl. cbn in Hl. lia. }
        split; [intros Hin; contradiction|intros _].
        rewrite (G1 (or_introl eq_refl)). cbn. rewrite N.leb_refl. reflexivity.
      * split.
        -- intros Hin. rewrite (G1 (or_intror Hin)). cbn.
           destruct (N.leb_spec tsq sq); [lia|reflexivity].
        -- intros Hnin. rewrite G2; [reflexivity|]. intros [Heq|Hin]; [inversion Heq; lia|auto].
    + rewrite Hp'. exact (sorted_tail _ _ Hsort).
    + intros x t Hin Hpx Ht. pose proof (iJ5 s HI x t) as J. rewrite Hpipe in J. rewrite Hp' in *.
      destruct (J (or_intror Hin) Hpx Ht) as [Heq|Hin']; auto. exfalso.
      pose proof (sorted_head_lt _ _ Hsort eq_refl x Hin Hpx) as Hl. cbn in Hl.
      destruct t as [tc tsq]. pose proof (iB1 s HI _ _ Ht) as B.
      assert (Hxc : In (sub_claim x) (claims s)) by (apply in_claims_pipe; rewrite Hpipe; right; auto).
      destruct x as [vx sx|sx|vx sx]; cbn in *; try discriminate;
        destruct tc; inversion Heq; subst; destruct (B _ _ Hxc) as [Hle _]; lia.
    + intros vt tsq Hd Ht x Hin Hpx. subst s'; sproj. destruct (kdone s) eqn:Hd0.
      * eapply (iJ3 s HI); eauto. rewrite Hpipe. right. exact Hin.
      * destruct (N.leb_spec (klo s) sq) as [Hle|Hgt]; [|discriminate].
        pose proof (Hlt x Hin Hpx). lia.
    + intros vt tsq Hd Ht. subst s'; sproj. destruct (kdone s) eqn:Hd0.
      * destruct (klo s <=? sq); discriminate.
      * exact (iK2 s HI _ _ Hd0 Ht).
    + intros v0 l a Hm Ha. subst s'; sproj. destruct (iK3 s HI _ _ _ Hm Ha) as [Hd Ht].
      rewrite Hd. split; [destruct (klo s <=? sq); auto|auto].
    + intros vm l a Hm. destruct (iL s HI _ _ _ Hm) as [L1|L2]; [left; auto|right].
      intros v' sq0 Hin. exact (L2 _ _ (Hcl _ Hin)).
    + intros i0 v0 k Hin. subst s'; sproj. destruct (iP s HI _ _ _ Hin) as [P1 [P2 P3]].
      split; auto. split; auto. intros Hk. rewrite (P3 Hk). destruct (klo s <=? sq); auto.
    + exact (iO s HI).
  - (* a reinsertion completes *)
    set (s' := set_i _ _).
    assert (Hp' : pipe s' = i' ++ kq s) by reflexivity.
    assert (Hcl : forall x, In x (claims s') -> In x (claims s)).
    { apply claims_mono; [rewrite Hp', Hpipe; intros; right; auto|left; reflexivity|auto]. }
    constructor.
    + intros cn sq0 Hin. exact (iA1 s HI _ _ (Hcl _ Hin)).
    + exact (iA2 s HI).
    + intros v0 sq0 Hin. exact (iA3 s HI _ _ (Hcl _ Hin)).
    + exact (iA4 s HI).
    + intros Ht. apply incl_nil_eq. intros x Hin. rewrite <- (iB0 s HI Ht). auto.
    + intros tc tsq Ht cn sq0 Hin. exact (iB1 s HI _ _ Ht _ _ (Hcl _ Hin)).
    + intros vt tsq Ht v' sq0 Hin. exact (iB2 s HI _ _ Ht _ _ (Hcl _ Hin)).
    + exact (iC s HI).
    + exact (iD s HI).
    + exact (iE s HI).
    + exact (iF s HI).
    + intros v0 sq0 Hin. eapply (iF2 s HI v0 sq0). rewrite Hki; right; auto.
    + intros tsq Ht. destruct (iG s HI _ Ht) as [G1 G2]. rewrite Hp'. rewrite Hpipe in G1, G2. split.
      * intros Hin. apply G1. right; auto.
      * intros Hnin. apply G2. intros [Heq|Hin]; [discriminate|auto].
    + rewrite Hp'. exact (sorted_tail _ _ Hsort).
    + intros x t Hin Hpx Ht. pose proof (iJ5 s HI x t) as J. rewrite Hpipe in J. rewrite Hp' in *.
      destruct (J (or_intror Hin) Hpx Ht) as [Heq|Hin']; auto.
      destruct t as [[vt|] tsq]; discriminate.
    + intros vt tsq Hd Ht x Hin Hpx. eapply (iJ3 s HI); eauto. rewrite Hpipe. right. exact Hin.
    + exact (iK2 s HI).
    + exact (iK3 s HI).
    + intros vm l a Hm. destruct (iL s HI _ _ _ Hm) as [L1|L2]; [left; auto|right].
      intros v' sq0 Hin. exact (L2 _ _ (Hcl _ Hin)).
    + exact (iP s HI).
    + exact (iO s HI).
Qed.

Lemma claims_sub s s' :
  (forall y, In y (pipe s') -> In (sub_claim y) (claims s)) ->
  (forall y, In y (idx_claims (kidx s')) -> In y (claims s)) ->
  (forall y, In y (kdisk s') -> In (disk_claim y) (claims s)) ->
  forall y, In y (claims s') -> In y (claims s).
Proof.
  intros Hp Hi Hd y Hin. unfold claims in Hin.
  apply in_app_or in Hin. destruct Hin as [Hin|Hin].
  - apply in_map_iff in Hin. destruct Hin as [z [Hz Hin]]. subst. auto.
  - apply in_app_or in Hin. destruct Hin as [Hin|Hin]; auto.
    apply in_map_iff in Hin. destruct Hin as [z [Hz Hin]]. subst. auto.
Qed.

Lemma idx_insert_spec i e :
  exists e', idx_insert i e = Some e' /\ iseq e <= iseq e' /\ (forall o, i = Some o -> iseq o <= iseq e') /\
             (e' = e \/ i = Some e').
Proof.
  destruct i as [o|]; cbn.
  - destruct (N.leb_spec (iseq o) (iseq e)).
    + exists e. repeat split; auto; try lia. intros o' Ho; inversion Ho; subst; lia.
    + exists o. repeat split; auto; try lia. intros o' Ho; inversion Ho; subst; lia.
  - exists e. repeat split; auto; try lia. intros o Ho; discriminate.
Qed.

Lemma idx_ge_insert i e n : idx_ge i n -> n <= iseq e -> idx_ge (idx_insert i e) n.
Proof.
  intros Hg Hn. destruct (idx_insert_spec i e) as [e' [He [H1 [H2 H3]]]]. rewrite He.
  right. exists e'. split; auto. destruct Hg as [Hnone|[o [Ho Hle]]]; [lia|].
  specialize (H2 _ Ho). lia.
Qed.

Lemma sorted_app_lt l1 x l2 :
  StronglySorted N.lt (map sub_seq (filter plain (l1 ++ x :: l2))) -> plain x = true ->
  forall y, In y l1 -> plain y = true -> sub_seq y < sub_seq x.
Proof.
  induction l1 as [|a l1 IH]; cbn [app]; intros Hs Hp y Hin Hpy; [contradiction|].
  destruct Hin as [Heq|Hin].
  - subst a. apply (sorted_head_lt _ _ Hs Hpy). apply in_or_app; right; left; auto. auto.
  - apply IH; auto. exact (sorted_tail _ _ Hs).
Qed.

Lemma filter_plain_drop l1 v sq l2 :
  filter plain (l1 ++ SReins v sq :: l2) = filter plain (l1 ++ l2).
Proof. rewrite !filter_app. reflexivity. Qed.

Lemma inv_flush c s b : bug_rr c = false -> Inv s -> Inv (do_flush c s b).
Proof.
  intros Hrr H. pose proof H as HI. unfold do_flush.
  destruct (kq s) as [|x q] eqn:Hkq; [exact H|].
  assert (Hpipe : pipe s = ki s ++ x :: q) by (unfold pipe; rewrite Hkq; reflexivity).
  assert (Hxin : In x (pipe s)) by (rewrite Hpipe; apply in_or_app; right; left; auto).
  assert (Hxc : In (sub_claim x) (claims s)) by (apply in_claims_pipe; auto).
  assert (Hsort := iJ4 s HI). rewrite Hpipe in Hsort.
  destruct x as [v sq|sq|v sq].
  - (* cache entry *)
    set (s' := set_i _ _).
    assert (Hp' : pipe s' = pipe s).
    { unfold pipe. subst s'; sproj. rewrite Hkq. rewrite <- app_assoc. reflexivity. }
    assert (Hidx : kidx s' = idx_insert (kidx s) (IAddr sq v b)) by reflexivity.
    destruct (idx_insert_spec (kidx s) (IAddr sq v b)) as [e' [He [E1 [E2 E3]]]]. cbn in E1.
    assert (Hcl : forall y, In y (claims s') -> In y (claims s)).
    { apply claims_sub.
      - rewrite Hp'. intros; apply in_claims_pipe; auto.
      - rewrite Hidx, He. destruct E3 as [E3|E3].
        + subst e'. cbn. intros y [Hy|[]]; subst; exact Hxc.
        + intros y Hy. unfold claims. rewrite E3. apply in_or_app; right. apply in_or_app; left. auto.
      - subst s'; sproj. intros y Hy. apply in_app_single in Hy. destruct Hy as [Hy|Hy].
        + destruct y as [[vy sy] by']. eapply in_claims_disk; eauto.
        + subst y. exact Hxc. }
    constructor.
    + intros cn sq0 Hin. exact (iA1 s HI _ _ (Hcl _ Hin)).
    + exact (iA2 s HI).
    + intros v0 sq0 Hin. exact (iA3 s HI _ _ (Hcl _ Hin)).
    + exact (iA4 s HI).
    + intros Ht. apply incl_nil_eq. intros y Hin. rewrite <- (iB0 s HI Ht). auto.
    + intros tc tsq Ht cn sq0 Hin. exact (iB1 s HI _ _ Ht _ _ (Hcl _ Hin)).
    + intros vt tsq Ht v' sq0 Hin. exact (iB2 s HI _ _ Ht _ _ (Hcl _ Hin)).
    + exact (iC s HI).
    + exact (iD s HI).
    + exact (iE s HI).
    + intros vt tsq Hd Ht. rewrite Hidx. apply idx_ge_insert; [exact (iF s HI _ _ Hd Ht)|].
      cbn. exact (iJ3 s HI _ _ Hd Ht _ Hxin eq_refl).
    + intros v0 sq0 Hin. subst s'; sproj. apply in_app_single in Hin. rewrite He.
      right. exists e'. split; auto. destruct Hin as [Hin|Heq].
      * destruct (iF2 s HI _ _ Hin) as [Hn|[o [Ho Hle]]].
        -- pose proof (sorted_app_lt _ _ _ Hsort eq_refl _ Hin eq_refl) as Hl. cbn in Hl. lia.
        -- specialize (E2 _ Ho). lia.
      * inversion Heq; subst. lia.
    + intros tsq Ht. destruct (iG s HI _ Ht) as [G1 G2]. rewrite Hp', Hidx.
      assert (Hin : In (STomb tsq) (pipe s)) by (exact (iJ5 s HI _ _ Hxin eq_refl Ht)).
      split; [intros _|intros Hn; contradiction].
      rewrite (G1 Hin). cbn. destruct (iB1 s HI _ _ Ht _ _ Hxc) as [Hle Hc]. cbn in Hle.
      destruct (N.leb_spec tsq sq); [|reflexivity].
      assert (sq = tsq) by lia. subst.
      destruct (iA2 s HI _ _ Ht) as [_ Hlo]. specialize (Hc Hlo). discriminate.
    + rewrite Hp'. exact (iJ4 s HI).
    + rewrite Hp'. exact (iJ5 s HI).
    + rewrite Hp'. exact (iJ3 s HI).
    + exact (iK2 s HI).
    + exact (iK3 s HI).
    + intros vm l a Hm. destruct (iL s HI _ _ _ Hm) as [L1|L2]; [left; auto|right].
      intros v' sq0 Hin. exact (L2 _ _ (Hcl _ Hin)).
    + exact (iP s HI).
    + exact (iO s HI).
  - (* tombstone *)
    set (s' := set_i _ _).
    assert (Hp' : pipe s' = pipe s).
    { unfold pipe. subst s'; sproj. rewrite Hkq. rewrite <- app_assoc. reflexivity. }
    assert (Hcl : claims s' = claims s).
    { unfold claims. rewrite Hp'. reflexivity. }
    constructor; rewrite ?Hcl, ?Hp'.
    + exact (iA1 s HI).
    + exact (iA2 s HI).
    + exact (iA3 s HI).
    + exact (iA4 s HI).
    + exact (iB0 s HI).
    + exact (iB1 s HI).
    + exact (iB2 s HI).
    + exact (iC s HI).
    + exact (iD s HI).
    + exact (iE s HI).
    + exact (iF s HI).
    + intros v0 sq0 Hin. subst s'; sproj. apply in_app_single in Hin.
      destruct Hin as [Hin|Heq]; [|discriminate]. exact (iF2 s HI _ _ Hin).
    + exact (iG s HI).
    + exact (iJ4 s HI).
    + exact (iJ5 s HI).
    + exact (iJ3 s HI).
    + exact (iK2 s HI).
    + exact (iK3 s HI).
    + exact (iL s HI).
    + exact (iP s HI).
    + exact (iO s HI).
  - (* reinsertion *)
    rewrite Hrr.
    assert (Hdrop : Inv (set_q s q)).
    { (* dropped *)
      set (s' := set_q s q).
      assert (Hp' : pipe s' = ki s ++ q) by reflexivity.
      assert (Hsub : forall y, In y (pipe s') -> In y (pipe s)).
      { rewrite Hp', Hpipe. intros y Hy. apply in_app_or in Hy. apply in_or_app. destruct Hy; [left|right; right]; auto. }
      assert (Hcl : forall y, In y (claims s') -> In y (claims s)).
      { apply claims_mono; auto. }
      assert (Hback : forall y, In y (pipe s) -> plain y = true -> In y (pipe s')).
      { rewrite Hp', Hpipe. intros y Hy Hpy. apply in_app_or in Hy. apply in_or_app.
        destruct Hy as [Hy|[Hy|Hy]]; [left; auto|subst y; discriminate|right; auto]. }
      constructor.
      * intros cn sq0 Hin. exact (iA1 s HI _ _ (Hcl _ Hin)).
      * exact (iA2 s HI).
      * intros v0 sq0 Hin. exact (iA3 s HI _ _ (Hcl _ Hin)).
      * exact (iA4 s HI).
      * intros Ht. apply incl_nil_eq. intros y Hin. rewrite <- (iB0 s HI Ht). auto.
      * intros tc tsq Ht cn sq0 Hin. exact (iB1 s HI _ _ Ht _ _ (Hcl _ Hin)).
      * intros vt tsq Ht v' sq0 Hin. exact (iB2 s HI _ _ Ht _ _ (Hcl _ Hin)).
      * exact (iC s HI).
      * exact (iD s HI).
      * exact (iE s HI).
      * exact (iF s HI).
      * exact (iF2 s HI).
      * intros tsq Ht. destruct (iG s HI _ Ht) as [G1 G2]. split.
        -- intros Hin. apply G1. auto.
        -- intros Hnin. apply G2. intros Hin. apply Hnin. apply Hback; auto.
      * rewrite Hp'. rewrite <- (filter_plain_drop (ki s) v sq q). exact Hsort.
      * intros y t Hin Hpy Ht. apply Hback; [|destruct t as [[?|] ?]; reflexivity].
        eapply (iJ5 s HI); [apply Hsub; exact Hin|exact Hpy|exact Ht].
      * intros vt tsq Hd Ht y Hin Hpy. eapply (iJ3 s HI); [exact Hd|exact Ht|apply Hsub; exact Hin|exact Hpy].
      * exact (iK2 s HI).
      * exact (iK3 s HI).
      * intros vm l a Hm. destruct (iL s HI _ _ _ Hm) as [L1|L2]; [left; auto|right].
        intros v' sq0 Hin. exact (L2 _ _ (Hcl _ Hin)).
      * exact (iP s HI).
      * exact (iO s HI).
    }
    destruct (idx_get (kidx s)) as [[[sq1 v1] b1]|] eqn:Hg; [|exact Hdrop].
    destruct (sq1 =? sq) eqn:Esq; [|exact Hdrop].
    clear Hdrop.
    unfold idx_get in Hg. destruct (kidx s) as [[sq2 v2 b2|sq2]|] eqn:Hi; inversion Hg; subst. clear Hg.
      set (s' := set_i _ _).
      assert (Hp' : pipe s' = pipe s).
      { unfold pipe. subst s'; sproj. rewrite Hkq. rewrite <- app_assoc. reflexivity. }
      assert (Hidx : kidx s' = idx_insert (Some (IAddr sq1 v1 b1)) (IAddr sq v b)) by reflexivity.
      destruct (idx_insert_spec (Some (IAddr sq1 v1 b1)) (IAddr sq v b)) as [e' [He [E1 [E2 E3]]]]. cbn in E1.
      specialize (E2 _ eq_refl). cbn in E2.
      assert (Hcl : forall y, In y (claims s') -> In y (claims s)).
      { apply claims_sub.
        - rewrite Hp'. intros; apply in_claims_pipe; auto.
        - rewrite Hidx, He. destruct E3 as [E3|E3].
          + subst e'. cbn. intros y [Hy|[]]; subst; exact Hxc.
          + inversion E3; subst e'. cbn. intros y [Hy|[]]; subst.
            exact (in_claims_idx s _ Hi).
        - subst s'; sproj. intros y Hy. apply in_app_single in Hy. destruct Hy as [Hy|Hy].
          + destruct y as [[vy sy] by']. eapply in_claims_disk; eauto.
          + subst y. exact Hxc. }
      constructor.
      * intros cn sq0 Hin. exact (iA1 s HI _ _ (Hcl _ Hin)).
      * exact (iA2 s HI).
      * intros v0 sq0 Hin. exact (iA3 s HI _ _ (Hcl _ Hin)).
      * exact (iA4 s HI).
      * intros Ht. apply incl_nil_eq. intros y Hin. rewrite <- (iB0 s HI Ht). auto.
      * intros tc tsq Ht cn sq0 Hin. exact (iB1 s HI _ _ Ht _ _ (Hcl _ Hin)).
      * intros vt tsq Ht v' sq0 Hin. exact (iB2 s HI _ _ Ht _ _ (Hcl _ Hin)).
      * exact (iC s HI).
      * exact (iD s HI).
      * exact (iE s HI).
      * intros vt tsq Hd Ht. rewrite Hidx, He. right. exists e'. split; auto. clear Hidx Hcl Hp'. subst s'; sproj.
        destruct (iF s HI _ _ Hd Ht) as [Hn|[o [Ho Hle]]]; [congruence|].
        rewrite Hi in Ho. inversion Ho; subst o. cbn in Hle. lia.
      * intros v0 sq0 Hin. subst s'; sproj. apply in_app_single in Hin.
        destruct Hin as [Hin|Heq]; [|discriminate]. rewrite He. right. exists e'. split; auto.
        destruct (iF2 s HI _ _ Hin) as [Hn|[o [Ho Hle]]]; [congruence|].
        rewrite Hi in Ho. inversion Ho; subst o. cbn in Hle. lia.
      * intros tsq Ht. destruct (iG s HI _ Ht) as [G1 G2]. exfalso.
        destruct (in_dec sub_eq_dec (STomb tsq) (pipe s)) as [Hin|Hnin].
        -- rewrite (G1 Hin) in Hi. discriminate.
        -- rewrite (G2 Hnin) in Hi. discriminate.
      * rewrite Hp'. exact (iJ4 s HI).
      * rewrite Hp'. exact (iJ5 s HI).
      * rewrite Hp'. exact (iJ3 s HI).
      * exact (iK2 s HI).
      * exact (iK3 s HI).
      * intros vm l a Hm. destruct (iL s HI _ _ _ Hm) as [L1|L2]; [left; auto|right].
        intros v' sq0 Hin. exact (L2 _ _ (Hcl _ Hin)).
      * exact (iP s HI).
      * exact (iO s HI).
Qed.

Lemma reclaim_copies_spec c b copies : forall q idx,
  exists rs, fst (reclaim_copies c b copies q idx) = q ++ rs /\
    (forall x, In x rs -> exists v sq, x = SReins v sq /\ In (v, sq, b) copies) /\
    (snd (reclaim_copies c b copies q idx) = idx \/
     (snd (reclaim_copies c b copies q idx) = None /\
      exists e v sq b', idx = Some e /\ In (v, sq, b') copies /\ iseq e <= sq)).
Proof.
  induction copies as [|[[v sq] b'] rest IH]; intros q idx; cbn [reclaim_copies].
  - exists []. rewrite app_nil_r. cbn. repeat split; auto. intros x [].
  - destruct (N.eqb_spec b' b) as [Hb|Hb].
    + subst b'. destruct (reins c).
      * destruct (IH (q ++ [SReins v sq]) idx) as [rs [H1 [H2 H3]]].
        exists (SReins v sq :: rs). rewrite H1. rewrite <- app_assoc. split; [reflexivity|]. split.
        -- intros x [Hx|Hx]; [subst x; exists v, sq; split; auto; left; auto|].
           destruct (H2 _ Hx) as [v0 [sq0 [E Hin]]]. exists v0, sq0. split; auto. right; auto.
        -- destruct H3 as [H3|[H3 [e [v0 [sq0 [b0 [E1 [E2 E3]]]]]]]]; [left; auto|right].
           split; auto. exists e, v0, sq0, b0. repeat split; auto. right; auto.
      * destruct (IH q (idx_remove idx sq)) as [rs [H1 [H2 H3]]].
        exists rs. split; [exact H1|]. split.
        -- intros x Hx. destruct (H2 _ Hx) as [v0 [sq0 [E Hin]]]. exists v0, sq0. split; auto. right; auto.
        -- destruct idx as [e|]; cbn [idx_remove] in *.
           ++ destruct (N.leb_spec (iseq e) sq) as [Hle|Hgt].
              ** right. split.
                 { destruct H3 as [H3|[H3 _]]; auto. }
                 exists e, v, sq, b. repeat split; auto. left; auto.
              ** destruct H3 as [H3|[H3 [e0 [v0 [sq0 [b0 [E1 [E2 E3]]]]]]]]; [left; auto|right].
                 split; auto. exists e0, v0, sq0, b0. repeat split; auto. right; auto.
           ++ left. destruct H3 as [H3|[H3 _]]; auto.
    + destruct (IH q idx) as [rs [H1 [H2 H3]]]. exists rs. split; [exact H1|]. split.
      * intros x Hx. destruct (H2 _ Hx) as [v0 [sq0 [E Hin]]]. exists v0, sq0. split; auto. right; auto.
      * destruct H3 as [H3|[H3 [e [v0 [sq0 [b0 [E1 [E2 E3]]]]]]]]; [left; auto|right].
        split; auto. exists e, v0, sq0, b0. repeat split; auto. right; auto.
Qed.

Lemma filter_plain_reins l rs :
  (forall x, In x rs -> exists v sq, x = SReins v sq) -> filter plain (l ++ rs) = filter plain l.
Proof.
  intros Hr. rewrite filter_app. replace (filter plain rs) with (@nil sub); [apply app_nil_r|].
  induction rs as [|a rs IH]; auto. cbn. destruct (Hr a (or_introl eq_refl)) as [v [sq E]]. subst a. cbn.
  apply IH. intros x Hx. apply Hr. right; auto.
Qed.

Lemma inv_reclaim c s b : Inv s -> Inv (do_reclaim c s b).
Proof.
  intros H. pose proof H as HI. unfold do_reclaim.
  destruct (reclaim_copies_spec c b (kdisk s) (kq s) (kidx s)) as [rs [R1 [R2 R3]]].
  destruct (reclaim_copies c b (kdisk s) (kq s) (kidx s)) as [q idx] eqn:Hrc. cbn [fst snd] in *. subst q.
  set (s' := set_disk _ _).
  assert (Hp' : pipe s' = pipe s ++ rs) by (unfold pipe; subst s'; sproj; rewrite app_assoc; reflexivity).
  assert (Hrs : forall x, In x rs -> exists v sq, x = SReins v sq).
  { intros x Hx. destruct (R2 _ Hx) as [v [sq [E _]]]. eauto. }
  assert (Hidx : kidx s' = idx) by reflexivity.
  assert (Hplain : forall x, In x (pipe s') -> plain x = true -> In x (pipe s)).
  { rewrite Hp'. intros x Hx Hpx. apply in_app_or in Hx. destruct Hx as [Hx|Hx]; auto.
    destruct (Hrs _ Hx) as [v [sq E]]. subst x. discriminate. }
  assert (Hcl : forall y, In y (claims s') -> In y (claims s)).
  { apply claims_sub.
    - rewrite Hp'. intros y Hy. apply in_app_or in Hy. destruct Hy as [Hy|Hy]; [apply in_claims_pipe; auto|].
      destruct (R2 _ Hy) as [v [sq [E Hin]]]. subst y. cbn. eapply in_claims_disk; eauto.
    - rewrite Hidx. destruct R3 as [R3|[R3 _]]; subst idx; [|intros y []].
      intros y Hy. unfold claims. apply in_or_app; right. apply in_or_app; left. auto.
    - subst s'; sproj. intros y Hy. apply filter_In in Hy. destruct Hy as [Hy _].
      destruct y as [[vy sy] by']. eapply in_claims_disk; eauto. }
  assert (Hge : forall n, idx_ge (kidx s) n -> idx_ge idx n).
  { intros n Hg. destruct R3 as [R3|[R3 _]]; subst idx; [auto|left; auto]. }
  constructor.
  - intros cn sq0 Hin. exact (iA1 s HI _ _ (Hcl _ Hin)).
  - exact (iA2 s HI).
  - intros v0 sq0 Hin. exact (iA3 s HI _ _ (Hcl _ Hin)).
  - exact (iA4 s HI).
  - intros Ht. apply incl_nil_eq. intros y Hin. rewrite <- (iB0 s HI Ht). auto.
  - intros tc tsq Ht cn sq0 Hin. exact (iB1 s HI _ _ Ht _ _ (Hcl _ Hin)).
  - intros vt tsq Ht v' sq0 Hin. exact (iB2 s HI _ _ Ht _ _ (Hcl _ Hin)).
  - exact (iC s HI).
  - exact (iD s HI).
  - exact (iE s HI).
  - intros vt tsq Hd Ht. rewrite Hidx. apply Hge. exact (iF s HI _ _ Hd Ht).
  - intros v0 sq0 Hin. rewrite Hidx. apply Hge. exact (iF2 s HI _ _ Hin).
  - intros tsq Ht. destruct (iG s HI _ Ht) as [G1 G2]. rewrite Hidx. split.
    + intros Hin. assert (Hin' : In (STomb tsq) (pipe s)) by (apply Hplain; auto).
      destruct R3 as [R3|[R3 [e [v [sq [b' [E1 [E2 E3]]]]]]]]; [subst idx; auto|].
      exfalso. rewrite (G1 Hin') in E1. inversion E1; subst e. cbn in E3.
      pose proof (in_claims_disk s _ _ _ E2) as Hc.
      destruct (iB1 s HI _ _ Ht _ _ Hc) as [Hle Hcn].
      assert (sq = tsq) by lia. subst sq. destruct (iA2 s HI _ _ Ht) as [_ Hlo].
      specialize (Hcn Hlo). discriminate.
    + intros Hnin. assert (Hk : kidx s = None).
      { apply G2. intros Hin. apply Hnin. rewrite Hp'. apply in_or_app; left; auto. }
      destruct R3 as [R3|[R3 _]]; subst idx; auto.
  - rewrite Hp'. rewrite (filter_plain_reins _ _ Hrs). exact (iJ4 s HI).
  - intros x t Hin Hpx Ht. rewrite Hp'. apply in_or_app; left.
    exact (iJ5 s HI x t (Hplain _ Hin Hpx) Hpx Ht).
  - intros vt tsq Hd Ht x Hin Hpx. exact (iJ3 s HI _ _ Hd Ht x (Hplain _ Hin Hpx) Hpx).
  - exact (iK2 s HI).
  - exact (iK3 s HI).
  - intros vm l a Hm. destruct (iL s HI _ _ _ Hm) as [L1|L2]; [left; auto|right].
    intros v' sq0 Hin. exact (L2 _ _ (Hcl _ Hin)).
  - exact (iP s HI).
  - exact (iO s HI).
Qed.

Lemma sorted_snoc l x :
  StronglySorted N.lt (map sub_seq (filter plain l)) -> plain x = true ->
  (forall y, In y l -> sub_seq y < sub_seq x) ->
  StronglySorted N.lt (map sub_seq (filter plain (l ++ [x]))).
Proof.
  intros Hs Hp Hlt. rewrite filter_app. cbn [filter]. rewrite Hp. rewrite map_app. cbn [map].
  assert (Hall : Forall (fun n => n < sub_seq x) (map sub_seq (filter plain l))).
  { rewrite Forall_forall. intros n Hn. apply in_map_iff in Hn. destruct Hn as [y [Hy Hin]]. subst n.
    apply Hlt. apply filter_In in Hin. tauto. }
  clear Hlt. induction (map sub_seq (filter plain l)) as [|a m IH]; cbn.
  - constructor; constructor.
  - apply StronglySorted_inv in Hs. destruct Hs as [Hs Ha]. inversion Hall; subst.
    constructor; [apply IH; auto|]. rewrite Forall_forall in *. intros n Hn. apply in_app_or in Hn.
    destruct Hn as [Hn|[Hn|[]]]; [auto|subst; auto].
Qed.

Lemma claims_snoc s s' x :
  pipe s' = pipe s ++ [x] -> idx_claims (kidx s') = idx_claims (kidx s) \/ idx_claims (kidx s') = [sub_claim x] ->
  kdisk s' = kdisk s ->
  forall y, In y (claims s') -> In y (claims s) \/ y = sub_claim x.
Proof.
  intros Hp Hi Hd y Hin. unfold claims in *. rewrite Hp, Hd in Hin. rewrite map_app in Hin.
  apply in_app_or in Hin. destruct Hin as [Hin|Hin].
  - apply in_app_or in Hin. destruct Hin as [Hin|[Hin|[]]]; [left; apply in_or_app; left; auto|right; auto].
  - apply in_app_or in Hin. destruct Hin as [Hin|Hin].
    + destruct Hi as [Hi|Hi]; rewrite Hi in Hin.
      * left. apply in_or_app; right. apply in_or_app; left; auto.
      * destruct Hin as [Hin|[]]. right; auto.
    + left. apply in_or_app; right. apply in_or_app; right; auto.
Qed.

(* store.delete on a state that need not satisfy the whole invariant (memory may just have been changed) *)
Lemma delete_core s1 :
  (forall cn sq, In (cn, sq) (claims s1) -> sq < kseq s1) ->
  (forall v sq, In (Some v, sq) (claims s1) -> v < knext s1) ->
  (forall v, ktruth s1 = Some v -> v < knext s1) ->
  (forall v l a, kmem s1 = Some (v, l, a) -> ktruth s1 = Some v) ->
  (forall v sq, In (SEntry v sq) (ki s1) -> idx_ge (kidx s1) sq) ->
  StronglySorted N.lt (map sub_seq (filter plain (pipe s1))) ->
  (forall i r t, In (i, r, t) (kout s1) -> r = None \/ r = t) ->
  (forall vm l a, kmem s1 = Some (vm, l, a) -> a = Fresh /\ forall v' sq, In (Some v', sq) (claims s1) -> v' < vm) ->
  (forall i v k, ~ In (i, Some v, k) (kload s1)) ->
  Inv (store_delete s1).
Proof.
  intros A1 A3 A4 D F2 J4 O Hmem Hload.
  unfold store_delete, engine_delete. sproj.
  set (sq := kseq s1).
  set (s' := mkK _ _ _ _ _ _ _ _ _ _ _ _ _ _ _ _ _ _).
  assert (Hp' : pipe s' = pipe s1 ++ [STomb sq]) by (unfold pipe; subst s'; sproj; apply app_assoc).
  assert (Hidx : kidx s' = Some (ITomb sq)).
  { subst s'; sproj. destruct (kidx s1) as [o|] eqn:Hi; cbn; auto.
    pose proof (in_claims_idx s1 _ Hi) as Hc.
    assert (iseq o < sq) by (destruct o; cbn in *; eapply A1; eauto).
    destruct (N.leb_spec (iseq o) sq); [reflexivity|lia]. }
  assert (Hcl : forall y, In y (claims s') -> In y (claims s1) \/ y = (None, sq)).
  { intros y Hy. eapply (claims_snoc s1 s' (STomb sq)); eauto. right. rewrite Hidx. reflexivity. }
  constructor.
  - intros cn sq0 Hin. subst s'; sproj. destruct (Hcl _ Hin) as [Hc|Hc]; [specialize (A1 _ _ Hc); lia|inversion Hc; lia].
  - intros tc tsq Ht. subst s'; sproj. inversion Ht; subst. lia.
  - intros v sq0 Hin. destruct (Hcl _ Hin) as [Hc|Hc]; [exact (A3 _ _ Hc)|discriminate].
  - exact A4.
  - intros Ht. discriminate.
  - intros tc tsq Ht cn sq0 Hin. subst s'; sproj. inversion Ht; subst.
    destruct (Hcl _ Hin) as [Hc|Hc]; [specialize (A1 _ _ Hc); split; lia|inversion Hc; subst; split; [lia|auto]].
  - intros v tsq Ht. discriminate.
  - intros v Hk. discriminate.
  - exact D.
  - intros v tsq _ Ht. discriminate.
  - intros v tsq _ Ht. discriminate.
  - intros v sq0 Hin. rewrite Hidx. right. eexists; split; [reflexivity|]. cbn.
    assert (Hc : In (Some v, sq0) (claims s1)).
    { apply (in_claims_pipe s1 (SEntry v sq0)). unfold pipe. apply in_or_app; left; auto. }
    specialize (A1 _ _ Hc). lia.
  - intros tsq Ht. change (Some (@None N, sq) = Some (None, tsq)) in Ht. inversion Ht; subst tsq.
    rewrite Hp'. split; intros Hin; [exact Hidx|contradiction Hin; apply in_or_app; right; left; auto].
  - rewrite Hp'. apply sorted_snoc; auto. intros y Hy. cbn.
    pose proof (in_claims_pipe s1 y Hy) as Hc. destruct y; cbn in *; eapply A1; eauto.
  - intros x t Hin Hpx Ht. change (Some (@None N, sq) = Some t) in Ht. inversion Ht; subst t. cbn [top_sub].
    rewrite Hp'. apply in_or_app; right; left; auto.
  - intros v tsq _ Ht. discriminate.
  - intros v tsq _ Ht. discriminate.
  - intros v l a Hm Ha. destruct (Hmem _ _ _ Hm) as [Hf _]. contradiction.
  - intros vm l a Hm. right. intros v' sq0 Hin. destruct (Hmem _ _ _ Hm) as [_ Hn].
    destruct (Hcl _ Hin) as [Hc|Hc]; [eauto|discriminate].
  - intros i v k Hin. exfalso. exact (Hload _ _ _ Hin).
  - exact O.
Qed.

(* store.enqueue of an admitted, not-young piece *)
Definition enq_state (s1 : kst) (v : N) : kst :=
  let sq := kseq s1 in
  mkK (kmem s1) (Some v) (kq s1 ++ [SEntry v sq]) (ki s1) (kidx s1) (kdisk s1) (ktlog s1)
      (sq + 1) (kload s1) (ktruth s1) (knext s1) (Some (Some v, sq))
      (match ktop s1 with Some (Some v', _) => if v' =? v then klo s1 else sq | _ => sq end)
      (match ktop s1 with Some (Some v', _) => if v' =? v then kdone s1 else false | _ => false end)
      (ksubs s1 ++ [v]) (kinmem s1) (kout s1) (kondisk s1).

Lemma store_enqueue_eq c s1 v a : accepts c = true -> a <> Young -> store_enqueue c s1 v a = enq_state s1 v.
Proof. intros Ha Hy. unfold store_enqueue. rewrite Ha. destruct a; try reflexivity. contradiction Hy; reflexivity. Qed.

Lemma enqueue_core s1 v :
  (forall cn sq, In (cn, sq) (claims s1) -> sq < kseq s1) ->
  (forall tc tsq, ktop s1 = Some (tc, tsq) -> tsq < kseq s1 /\ klo s1 <= tsq) ->
  (forall v sq, In (Some v, sq) (claims s1) -> v < knext s1) ->
  (forall v, ktruth s1 = Some v -> v < knext s1) ->
  (forall tc tsq, ktop s1 = Some (tc, tsq) ->
        forall cn sq, In (cn, sq) (claims s1) -> sq <= tsq /\ (klo s1 <= sq -> cn = tc)) ->
  (forall v tsq, ktop s1 = Some (Some v, tsq) ->
        forall v' sq, In (Some v', sq) (claims s1) -> sq < klo s1 -> v' < v) ->
  (forall v l a, kmem s1 = Some (v, l, a) -> ktruth s1 = Some v) ->
  (forall v tsq, kdone s1 = true -> ktop s1 = Some (Some v, tsq) -> idx_ge (kidx s1) (klo s1)) ->
  (forall v sq, In (SEntry v sq) (ki s1) -> idx_ge (kidx s1) sq) ->
  StronglySorted N.lt (map sub_seq (filter plain (pipe s1))) ->
  (forall v tsq, kdone s1 = true -> ktop s1 = Some (Some v, tsq) ->
        forall x, In x (pipe s1) -> plain x = true -> klo s1 <= sub_seq x) ->
  (forall i r t, In (i, r, t) (kout s1) -> r = None \/ r = t) ->
  (forall i v k, In (i, Some v, k) (kload s1) ->
       (exists tsq, ktop s1 = Some (Some v, tsq)) /\ ktruth s1 = Some v /\ (k = false -> kdone s1 = true)) ->
  ktruth s1 = Some v ->
  (forall vm l a, kmem s1 = Some (vm, l, a) -> a = Fresh /\ vm = v) ->
  ((exists tsq, ktop s1 = Some (Some v, tsq)) \/ (forall v' sq, In (Some v', sq) (claims s1) -> v' < v)) ->
  Inv (enq_state s1 v).
Proof.
  intros A1 A2 A3 A4 B1 B2 D F F2 J4 J3 O P Htr Hmem Hnew.
  assert (Hv : v < knext s1) by (apply A4; auto).
  unfold enq_state. set (sq := kseq s1). fold sq in A1, A2.
  set (s' := mkK _ _ _ _ _ _ _ _ _ _ _ _ _ _ _ _ _ _).
  assert (Hcase : (exists tsq, ktop s1 = Some (Some v, tsq)) \/
                  ((forall v' sq, In (Some v', sq) (claims s1) -> v' < v) /\
                   (forall tsq, ktop s1 <> Some (Some v, tsq)))).
  { destruct (ktop s1) as [[[vt|] tsq]|] eqn:Ht.
    - destruct (N.eq_dec vt v); [subst; left; eauto|right].
      destruct Hnew as [[t Hn]|Hn]; [congruence|]. split; auto. congruence.
    - right. destruct Hnew as [[t Hn]|Hn]; [congruence|]. split; auto. congruence.
    - right. destruct Hnew as [[t Hn]|Hn]; [congruence|]. split; auto. congruence. }
  assert (Hp' : pipe s' = pipe s1 ++ [SEntry v sq]) by (unfold pipe; subst s'; sproj; apply app_assoc).
  assert (Hcl : forall y, In y (claims s') -> In y (claims s1) \/ y = (Some v, sq))
    by (intros y Hy; eapply (claims_snoc s1 s' (SEntry v sq)); eauto).
  assert (Hsame : forall tsq, ktop s1 = Some (Some v, tsq) -> klo s' = klo s1 /\ kdone s' = kdone s1)
    by (intros tsq Ht; subst s'; sproj; rewrite Ht, N.eqb_refl; auto).
  assert (Hdiff : (forall tsq, ktop s1 <> Some (Some v, tsq)) -> klo s' = sq /\ kdone s' = false).
  { intros Hne; subst s'; sproj; destruct (ktop s1) as [[[vt|] tsq]|] eqn:Ht; auto.
    destruct (N.eqb_spec vt v); auto; subst; exfalso; eapply Hne; eauto. }
  assert (Htop : ktop s' = Some (Some v, sq)) by reflexivity.
  assert (Hlo_le : klo s' <= sq).
  { destruct Hcase as [[tsq Ht1]|[_ Hne]].
    - destruct (Hsame _ Ht1) as [E _]; rewrite E. destruct (A2 _ _ Ht1). lia.
    - destruct (Hdiff Hne) as [E _]; rewrite E; lia. }
  assert (Hold_lt : forall cn sq0, In (cn, sq0) (claims s1) -> sq0 < sq) by (intros; eapply A1; eauto).
  constructor.
  - intros cn sq0 Hin. change (sq0 < sq + 1). destruct (Hcl _ Hin) as [Hc|Hc];
      [specialize (Hold_lt _ _ Hc); lia|inversion Hc; lia].
  - intros tc tsq Ht. rewrite Htop in Ht. inversion Ht; subst tc tsq. change (sq < sq + 1 /\ klo s' <= sq). split; [lia|auto].
  - intros v0 sq0 Hin. destruct (Hcl _ Hin) as [Hc|Hc]; [exact (A3 _ _ Hc)|inversion Hc; subst; exact Hv].
  - exact A4.
  - intros Ht. rewrite Htop in Ht. discriminate.
  - intros tc tsq Ht cn sq0 Hin. rewrite Htop in Ht. inversion Ht; subst tc tsq.
    destruct (Hcl _ Hin) as [Hc|Hc].
    + pose proof (Hold_lt _ _ Hc). split; [lia|]. intros Hle.
      destruct Hcase as [[tsq Ht1]|[_ Hne]].
      * destruct (Hsame _ Ht1) as [E _]. rewrite E in Hle. destruct (B1 _ _ Ht1 _ _ Hc) as [_ Hb]. auto.
      * destruct (Hdiff Hne) as [E _]. rewrite E in Hle. lia.
    + inversion Hc; subst. split; [lia|auto].
  - intros vt tsq Ht v' sq0 Hin Hlt. rewrite Htop in Ht. inversion Ht; subst vt tsq.
    destruct (Hcl _ Hin) as [Hc|Hc].
    + destruct Hcase as [[tsq Ht1]|[Hn Hne]].
      * destruct (Hsame _ Ht1) as [E _]. rewrite E in Hlt. exact (B2 _ _ Ht1 _ _ Hc Hlt).
      * eauto.
    + inversion Hc; subst. lia.
  - intros v0 Hk. change (Some v = Some v0) in Hk. inversion Hk; subst. eauto.
  - exact D.
  - intros v0 tsq Hm Ht. rewrite Htop in Ht. inversion Ht; subst. exact Htr.
  - intros v0 tsq Hd Ht. change (idx_ge (kidx s1) (klo s')).
    destruct Hcase as [[tsq1 Ht1]|[_ Hne]].
    + destruct (Hsame _ Ht1) as [E1 E2]. rewrite E1. rewrite E2 in Hd. eapply F; eauto.
    + destruct (Hdiff Hne) as [_ E2]. rewrite E2 in Hd. discriminate.
  - exact F2.
  - intros tsq Ht. rewrite Htop in Ht. discriminate.
  - rewrite Hp'. apply sorted_snoc; auto. intros y Hy. cbn.
    pose proof (in_claims_pipe s1 y Hy) as Hc. destruct y; cbn in *; eapply Hold_lt; eauto.
  - intros x t Hin Hpx Ht. rewrite Htop in Ht. inversion Ht; subst t. cbn [top_sub].
    rewrite Hp'. apply in_or_app; right; left; auto.
  - intros v0 tsq Hd Ht x Hin Hpx. rewrite Hp' in Hin. apply in_app_or in Hin.
    destruct Hin as [Hin|[Hin|[]]]; [|subst x; exact Hlo_le].
    destruct Hcase as [[tsq1 Ht1]|[_ Hne]].
    + destruct (Hsame _ Ht1) as [E1 E2]. rewrite E1. rewrite E2 in Hd. eapply J3; eauto.
    + destruct (Hdiff Hne) as [_ E2]. rewrite E2 in Hd. discriminate.
  - intros v0 tsq Hd Ht. rewrite Htop in Ht. inversion Ht; subst. reflexivity.
  - intros v0 l a Hm Ha. destruct (Hmem _ _ _ Hm) as [Hf _]. contradiction.
  - intros vm l a Hm. destruct (Hmem _ _ _ Hm) as [_ Hf]. subst vm. left. eauto.
  - intros i v0 k Hin. destruct (P _ _ _ Hin) as [[tsq0 P1] [P2 P3]].
    change (ktruth s' = Some v0) with (ktruth s1 = Some v0).
    assert (v0 = v) by congruence. subst v0.
    split; [eauto|]. split; [auto|]. intros Hk. destruct (Hsame _ P1) as [_ E2]. rewrite E2. auto.
  - exact O.
Qed.

(* ---- whole-step lemmas ---- *)

Record KInv (c : hcfg) (s : kst) : Prop := mkKInv {
  kI : Inv s;
  kW : woi c = true -> forall vm l a, kmem s = Some (vm, l, a) -> forall v tsq, ktop s = Some (Some v, tsq) -> v = vm;
  kQ : forall v tsq, ktop s = Some (Some v, tsq) -> accepts c = true;
  kNI : forall v l a, kmem s = Some (v, l, a) -> l <> LInMem }.

Lemma kinv_init c : KInv c init_k.
Proof. constructor; [apply inv_init|cbn; intros; discriminate..]. Qed.

Ltac frame2 := first [ assumption | (intros; discriminate) | (intros; eauto; fail) ].

Lemma inv_drop_mem_young s v l a :
  Inv s -> kmem s = Some (v, l, a) -> a <> Fresh -> Inv (set_keep (set_mem s None) None).
Proof.
  intros H Hm Ha. pose proof H as HI. destruct (iK3 s HI _ _ _ Hm Ha) as [Hd [tsq Ht]].
  pose proof (iD s HI _ _ _ Hm) as Htr.
  split_inv H; constructor; unf; try frame2.
  - intros v0 tsq0 _ Ht0. congruence.
  - intros v0 tsq0 Hd0 _. congruence.
Qed.

Lemma inv_drop_mem_top s v l a :
  Inv s -> kmem s = Some (v, l, a) -> (forall v' tsq, ktop s = Some (Some v', tsq) -> v' = v) -> Inv (set_mem s None).
Proof.
  intros H Hm Htop. pose proof H as HI. pose proof (iD s HI _ _ _ Hm) as Htr.
  split_inv H; constructor; unf; try frame2.
  intros v0 tsq0 _ Ht0. rewrite (Htop _ _ Ht0). auto.
Qed.

Lemma inv_enq_after_drop s v l a :
  Inv s -> kmem s = Some (v, l, a) -> Inv (enq_state (set_mem s None) v).
Proof.
  intros HI Hm. apply enqueue_core.
  - exact (iA1 s HI).
  - exact (iA2 s HI).
  - exact (iA3 s HI).
  - exact (iA4 s HI).
  - exact (iB1 s HI).
  - exact (iB2 s HI).
  - cbn. intros; discriminate.
  - exact (iF s HI).
  - exact (iF2 s HI).
  - exact (iJ4 s HI).
  - exact (iJ3 s HI).
  - exact (iO s HI).
  - exact (iP s HI).
  - exact (iD s HI _ _ _ Hm).
  - cbn. intros; discriminate.
  - exact (iL s HI _ _ _ Hm).
Qed.

Lemma inv_del_after_drop s :
  Inv s -> (forall i v k, ~ In (i, Some v, k) (kload s)) -> Inv (store_delete (set_mem s None)).
Proof.
  intros HI Hl. apply delete_core.
  - exact (iA1 s HI).
  - exact (iA3 s HI).
  - exact (iA4 s HI).
  - cbn. intros; discriminate.
  - exact (iF2 s HI).
  - exact (iJ4 s HI).
  - exact (iO s HI).
  - cbn. intros; discriminate.
  - exact Hl.
Qed.

Lemma no_some_loads c s : KInv c s -> accepts c = false -> forall i v k, ~ In (i, Some v, k) (kload s).
Proof.
  intros [HI _ HQ _] Hadm i v k Hin. destruct (iP s HI _ _ _ Hin) as [[tsq Ht] _].
  rewrite (HQ _ _ Ht) in Hadm. discriminate.
Qed.

Lemma kinv_evict c s : KInv c s -> KInv c (do_evict c s).
Proof.
  intros HK. pose proof HK as [HI HW HQ HNI]. unfold do_evict.
  destruct (kmem s) as [[[v l] a]|] eqn:Hm; [|exact HK].
  destruct (woi c) eqn:Hwoi.
  - constructor; [eapply inv_drop_mem_top; eauto| | |]; try (cbn; intros; discriminate); auto.
  - assert (Hgo : KInv c (store_enqueue c (set_mem s None) v a)).
    { unfold store_enqueue. destruct (accepts c) eqn:Hadm.
      - destruct a.
        + constructor; [exact (inv_enq_after_drop s v l _ HI Hm)| | |]; cbn; intros; try discriminate; auto.
        + constructor; [eapply inv_drop_mem_young; eauto; discriminate| | |]; cbn; intros; try discriminate; eauto.
        + constructor; [exact (inv_enq_after_drop s v l _ HI Hm)| | |]; cbn; intros; try discriminate; auto.
      - constructor; [apply inv_del_after_drop; auto; eapply no_some_loads; eauto| | |]; cbn; intros; discriminate. }
    unfold pipe_send. destruct l; auto. exfalso; eapply HNI; eauto.
Qed.

Lemma kinv_remove c s : KInv c s -> kload s = [] -> KInv c (do_remove s).
Proof.
  intros [HI HW HQ HNI] Hl. unfold do_remove. constructor.
  - apply delete_core.
    + exact (iA1 s HI).
    + exact (iA3 s HI).
    + cbn. intros; discriminate.
    + cbn. intros; discriminate.
    + exact (iF2 s HI).
    + exact (iJ4 s HI).
    + exact (iO s HI).
    + cbn. intros; discriminate.
    + cbn. rewrite Hl. intros i v k [].
  - cbn. intros; discriminate.
  - cbn. intros; discriminate.
  - cbn. intros; discriminate.
Qed.

(* the state after the memory half of an insert *)
Definition ins_state (s : kst) (l : loc) : kst :=
  let v := knext s in
  mkK (if loc_eqb l LOnDisk then None else Some (v, l, Fresh)) (kkeep s) (kq s) (ki s) (kidx s) (kdisk s) (ktlog s)
      (kseq s) [] (Some v) (v + 1) (ktop s) (klo s) (kdone s) (ksubs s)
      (match l with LInMem => kinmem s ++ [v] | _ => kinmem s end)
      (kout s ++ map (fun x => (fst (fst x), Some v, Some v)) (kload s))
      (if loc_eqb l LOnDisk then kondisk s ++ [v] else kondisk s).

Lemma ins_out s l i r t : Inv s -> In (i, r, t) (kout (ins_state s l)) -> r = None \/ r = t.
Proof.
  intros HI Hin. cbn in Hin. apply in_app_or in Hin. destruct Hin as [Hin|Hin]; [eapply iO; eauto|].
  apply in_map_iff in Hin. destruct Hin as [x [Hx _]]. inversion Hx; subst. auto.
Qed.

Lemma inv_ins_enq s l : Inv s -> Inv (enq_state (ins_state s l) (knext s)).
Proof.
  intros HI. apply enqueue_core.
  - exact (iA1 s HI).
  - exact (iA2 s HI).
  - intros v sq Hin. pose proof (iA3 s HI _ _ Hin). cbn. lia.
  - cbn. intros v Hv. inversion Hv; subst. lia.
  - exact (iB1 s HI).
  - exact (iB2 s HI).
  - cbn. destruct (loc_eqb l LOnDisk); intros v0 l0 a0 Hm; inversion Hm; subst; auto.
  - exact (iF s HI).
  - exact (iF2 s HI).
  - exact (iJ4 s HI).
  - exact (iJ3 s HI).
  - intros i r t. apply ins_out; auto.
  - cbn. intros i v k [].
  - reflexivity.
  - cbn. destruct (loc_eqb l LOnDisk); intros v0 l0 a0 Hm; inversion Hm; subst; auto.
  - right. exact (iA3 s HI).
Qed.

Lemma inv_ins_del s l : Inv s -> Inv (store_delete (ins_state s l)).
Proof.
  intros HI. apply delete_core.
  - exact (iA1 s HI).
  - intros v sq Hin. pose proof (iA3 s HI _ _ Hin). cbn. lia.
  - cbn. intros v Hv. inversion Hv; subst. lia.
  - cbn. destruct (loc_eqb l LOnDisk); intros v0 l0 a0 Hm; inversion Hm; subst; auto.
  - exact (iF2 s HI).
  - exact (iJ4 s HI).
  - intros i r t. apply ins_out; auto.
  - cbn. destruct (loc_eqb l LOnDisk); intros v0 l0 a0 Hm; inversion Hm; subst. split; auto. exact (iA3 s HI).
  - cbn. intros i v k [].
Qed.

Lemma inv_ins_mem s l : Inv s -> loc_eqb l LOnDisk = false -> Inv (ins_state s l).
Proof.
  intros H Hl. pose proof H as HI. unfold ins_state. rewrite Hl.
  split_inv H; constructor; unf; try frame2.
  - intros v sq Hin. specialize (A3 _ _ Hin). lia.
  - intros v Hv. inversion Hv; subst. lia.
  - intros v0 l0 a0 Hm; inversion Hm; subst; auto.
  - intros v0 l0 a0 Hm Ha; inversion Hm; subst. contradiction.
  - intros vm l0 a0 Hm; inversion Hm; subst. right. exact A3.
  - intros i v k [].
  - intros i r t Hin. apply in_app_or in Hin. destruct Hin as [Hin|Hin]; [eauto|].
    apply in_map_iff in Hin. destruct Hin as [x [Hx _]]. inversion Hx; subst. auto.
Qed.

Lemma kinv_insert c s l : KInv c s -> l <> LInMem -> KInv c (do_insert c s l).
Proof.
  intros [HI HW HQ HNI] Hl. unfold do_insert. fold (ins_state s l).
  assert (Henq : KInv c (store_enqueue c (ins_state s l) (knext s) Fresh)).
  { unfold store_enqueue. destruct (accepts c) eqn:Hadm.
    - constructor; [exact (inv_ins_enq s l HI)| | |].
      + cbn. intros _ vm l0 a0 Hm v tsq Ht. inversion Ht; subst.
        destruct (loc_eqb l LOnDisk); inversion Hm; auto.
      + auto.
      + cbn. destruct (loc_eqb l LOnDisk); intros v0 l0 a0 Hm; inversion Hm; subst; auto.
    - constructor; [exact (inv_ins_del s l HI)| | |].
      + cbn. intros; discriminate.
      + cbn. intros; discriminate.
      + cbn. destruct (loc_eqb l LOnDisk); intros v0 l0 a0 Hm; inversion Hm; subst; auto. }
  destruct (woi c) eqn:Hwoi.
  - destruct l; auto. contradiction Hl; reflexivity.
  - destruct (loc_eqb l LOnDisk) eqn:Hd.
    + unfold pipe_send. destruct l; auto. discriminate.
    + constructor; [apply inv_ins_mem; auto| | |].
      * intros Hw. rewrite Hwoi in Hw. discriminate.
      * exact HQ.
      * cbn. rewrite Hd. intros v0 l0 a0 Hm; inversion Hm; subst; auto.
Qed.

Lemma kinv_frame c s s' :
  KInv c s -> Inv s' -> kmem s' = kmem s -> ktop s' = ktop s -> KInv c s'.
Proof.
  intros [HI HW HQ HNI] HI' Hm Ht. constructor; auto; rewrite ?Hm, ?Ht; auto.
Qed.

Lemma kinv_flush c s b : bug_rr c = false -> KInv c s -> KInv c (do_flush c s b).
Proof.
  intros Hrr HK. eapply kinv_frame; [exact HK|apply inv_flush; [auto|apply HK]| |].
  all: unfold do_flush; destruct (kq s) as [|[v sq|sq|v sq] q]; try reflexivity.
  all: rewrite Hrr; destruct (idx_get (kidx s)) as [[[sq1 v1] b1]|]; [destruct (sq1 =? sq)|]; reflexivity.
Qed.

Lemma kinv_complete c s : KInv c s -> KInv c (do_complete s).
Proof.
  intros HK. eapply kinv_frame; [exact HK|apply inv_complete; apply HK| |].
  all: unfold do_complete; destruct (ki s) as [|[v sq|sq|v sq] q]; reflexivity.
Qed.

Lemma kinv_reclaim c s b : KInv c s -> KInv c (do_reclaim c s b).
Proof.
  intros HK. eapply kinv_frame; [exact HK|apply inv_reclaim; apply HK| |].
  all: unfold do_reclaim; destruct (reclaim_copies c b (kdisk s) (kq s) (kidx s)); reflexivity.
Qed.

Lemma kinv_load_start c s i : KInv c s -> KInv c (do_load_start s i).
Proof.
  intros HK. eapply kinv_frame; [exact HK|apply inv_load_start; apply HK| |].
  all: unfold do_load_start; destruct (kmem s) as [[[v l] a]|] eqn:Hm; cbn; rewrite ?Hm; reflexivity.
Qed.

Lemma kinv_load_finish c s i a : KInv c s -> KInv c (do_load_finish s i a).
Proof.
  intros HK. pose proof HK as [HI HW HQ HNI].
  pose proof (inv_load_finish s i a HI) as HI'.
  unfold do_load_finish in *.
  destruct (find_load i (kload s)) as [[r fromk]|] eqn:Hf; [|exact HK].
  pose proof (find_load_in _ _ _ _ Hf) as Hin.
  destruct r as [v|]; [|eapply kinv_frame; eauto].
  destruct (kmem s) as [[[vm lm] am]|] eqn:Hm; [eapply kinv_frame; eauto|].
  destruct (iP s HI _ _ _ Hin) as [[tsq Ht] _].
  destruct (fromk && memN v (kondisk s)) eqn:Hph; [eapply kinv_frame; eauto|].
  constructor; auto.
  - cbn. intros _ vm l0 a0 Hm0 v0 tsq0 Ht0. inversion Hm0; subst. congruence.
  - cbn. intros v0 l0 a0 Hm0. inversion Hm0; subst. discriminate.
Qed.

Lemma kinv_drain c b : bug_rr c = false -> forall fuel s, KInv c s -> KInv c (drain c fuel b s).
Proof.
  intros Hrr. induction fuel as [|f IH]; intros s HK; cbn [drain]; auto.
  destruct (ki s) as [|x i'] eqn:Hki.
  - destruct (kq s) as [|y q] eqn:Hkq; auto. apply IH. apply kinv_flush; auto.
  - apply IH. apply kinv_complete; auto.
Qed.

(* ---- drain empties the pipeline ---- *)
Lemma drain_empty c b : forall fuel s,
  (2 * length (kq s) + length (ki s) <= fuel)%nat -> pipe (drain c fuel b s) = [].
Proof.
  induction fuel as [|f IH]; intros s Hf; cbn [drain].
  - unfold pipe. destruct (kq s), (ki s); cbn in *; auto; lia.
  - destruct (ki s) as [|x i'] eqn:Hki.
    + destruct (kq s) as [|y q] eqn:Hkq.
      * unfold pipe. rewrite Hki, Hkq. reflexivity.
      * apply IH. unfold do_flush. rewrite Hkq.
        destruct y as [v sq|sq|v sq]; cbn [kq ki set_q set_i set_idx set_disk set_tlog]; rewrite ?Hki; cbn in *; try lia.
        destruct (if bug_rr c then Some (sq, 0, 0) else idx_get (kidx s)) as [[[sq1 v1] b1]|]; [destruct (sq1 =? sq)|];
          cbn [kq ki set_q set_i set_idx set_disk set_tlog]; rewrite ?Hki; cbn in *; lia.
    + apply IH. unfold do_complete. rewrite Hki.
      destruct x as [v sq|sq|v sq]; cbn [kq ki set_q set_i set_idx set_keep set_done]; cbn in *; lia.
Qed.

Lemma drain_all_empty c b s : pipe (drain_all c b s) = [].
Proof. unfold drain_all. apply drain_empty. lia. Qed.

Lemma kinv_close c s b : bug_rr c = false -> KInv c s -> KInv c (do_close c s b).
Proof.
  intros Hrr HK. unfold do_close, drain_all. apply kinv_drain; auto.
  destruct (foc c && negb (woi c)); auto. apply kinv_evict; auto.
Qed.

Definition best_of (s1 : kst) (vis : list (N * N * N)) : option ient :=
  best_tomb (ktlog s1) (best_copy (visible vis (kdisk s1)) None).

(* what a restart needs: memory was written out, and recovery's winner is the latest submission *)
Definition restart_ok (c : hcfg) (s : kst) (b : N) (vis : list (N * N * N)) : Prop :=
  let s1 := do_close c s b in
  (forall vm l a, kmem s1 = Some (vm, l, a) -> exists tsq, ktop s1 = Some (Some vm, tsq)) /\
  match ktop s1 with
  | Some (Some v, tsq) => exists b', best_of s1 vis = Some (IAddr tsq v b') /\ In (v, tsq, b') (kdisk s1)
  | Some (None, tsq) => best_of s1 vis = Some (ITomb tsq) \/ (best_of s1 vis = None /\ kdisk s1 = [])
  | None => best_of s1 vis = None
  end.

Lemma claims_nil_disk s : claims s = [] -> kdisk s = [].
Proof.
  unfold claims. intros H. apply app_eq_nil in H. destruct H as [_ H]. apply app_eq_nil in H. destruct H as [_ H].
  destruct (kdisk s); [auto|discriminate].
Qed.

Lemma inv_recover c s1 vis :
  KInv c s1 -> pipe s1 = [] ->
  (forall vm l a, kmem s1 = Some (vm, l, a) -> exists tsq, ktop s1 = Some (Some vm, tsq)) ->
  match ktop s1 with
  | Some (Some v, tsq) => exists b', best_of s1 vis = Some (IAddr tsq v b') /\ In (v, tsq, b') (kdisk s1)
  | Some (None, tsq) => best_of s1 vis = Some (ITomb tsq) \/ (best_of s1 vis = None /\ kdisk s1 = [])
  | None => best_of s1 vis = None
  end ->
  KInv c (do_recover c s1 vis).
Proof.
  intros [HI HW HQ HNI] Hpipe Hmem Hbest.
  unfold do_recover. fold (best_of s1 vis).
  assert (Hdc : forall v sq b0, In (v, sq, b0) (kdisk s1) -> In (Some v, sq) (claims s1)) by (intros; eapply in_claims_disk; eauto).
  destruct (ktop s1) as [[[v|] tsq]|] eqn:Ht.
  - destruct Hbest as [b' [Hb Hin]]. rewrite Hb.
    destruct (iA2 s1 HI _ _ Ht) as [_ Hlo].
    constructor; [constructor| | |]; unfold claims, pipe; sproj; cbn [app map idx_claims iseq].
    + intros cn sq [Heq|Hin0]; [inversion Heq; lia|].
      apply in_map_iff in Hin0. destruct Hin0 as [[[v0 sq0] b0] [E Hd]]. inversion E; subst.
      destruct (iB1 s1 HI _ _ Ht _ _ (Hdc _ _ _ Hd)). lia.
    + intros tc tsq0 E. inversion E; subst. split; [lia|auto].
    + intros v0 sq [Heq|Hin0]; [inversion Heq; subst; exact (iA3 s1 HI _ _ (Hdc _ _ _ Hin))|].
      apply in_map_iff in Hin0. destruct Hin0 as [[[v1 sq0] b0] [E Hd]]. inversion E; subst.
      exact (iA3 s1 HI _ _ (Hdc _ _ _ Hd)).
    + exact (iA4 s1 HI).
    + intros; discriminate.
    + intros tc tsq0 E cn sq Hc. inversion E; subst tc tsq0.
      assert (Hc1 : In (cn, sq) (claims s1)).
      { destruct Hc as [Heq|Hin0]; [inversion Heq; subst; eauto|].
        apply in_map_iff in Hin0. destruct Hin0 as [[[v1 sq0] b0] [E1 Hd]]. inversion E1; subst. eauto. }
      exact (iB1 s1 HI _ _ Ht _ _ Hc1).
    + intros v0 tsq0 E v' sq Hc Hlt. inversion E; subst v0 tsq0.
      assert (Hc1 : In (Some v', sq) (claims s1)).
      { destruct Hc as [Heq|Hin0]; [inversion Heq; subst; eauto|].
        apply in_map_iff in Hin0. destruct Hin0 as [[[v1 sq0] b0] [E1 Hd]]. inversion E1; subst. eauto. }
      exact (iB2 s1 HI _ _ Ht _ _ Hc1 Hlt).
    + intros; discriminate.
    + intros; discriminate.
    + intros v0 tsq0 _ E. inversion E; subst v0 tsq0.
      destruct (kmem s1) as [[[vm l] a]|] eqn:Hm.
      * destruct (Hmem _ _ _ eq_refl) as [t2 Ht2]. inversion Ht2; subst.
        exact (iD s1 HI _ _ _ Hm).
      * exact (iE s1 HI _ _ Hm Ht).
    + intros v0 tsq0 _ E. right. eexists; split; [reflexivity|]. cbn. exact Hlo.
    + intros v0 sq [].
    + intros tsq0 E. discriminate.
    + constructor.
    + intros x t [].
    + intros v0 tsq0 _ _ x [].
    + intros; discriminate.
    + intros; discriminate.
    + intros; discriminate.
    + intros i v0 k [].
    + exact (iO s1 HI).
    + intros; discriminate.
    + intros v0 tsq0 E. inversion E; subst. eapply HQ; eauto.
    + intros; discriminate.
  - assert (Hshape : (best_of s1 vis = Some (ITomb tsq)) \/ (best_of s1 vis = None /\ kdisk s1 = [])) by exact Hbest.
    destruct (iA2 s1 HI _ _ Ht) as [_ Hlo].
    destruct Hshape as [Hb|[Hb Hd0]]; rewrite Hb.
    + constructor; [constructor| | |]; unfold claims, pipe; sproj; cbn [app map idx_claims iseq].
      * intros cn sq Hin0.
        apply in_map_iff in Hin0. destruct Hin0 as [[[v0 sq0] b0] [E Hd]]. inversion E; subst.
        destruct (iB1 s1 HI _ _ Ht _ _ (Hdc _ _ _ Hd)). lia.
      * intros tc tsq0 E. inversion E; subst. split; [lia|auto].
      * intros v0 sq Hin0.
        apply in_map_iff in Hin0. destruct Hin0 as [[[v1 sq0] b0] [E Hd]]. inversion E; subst.
        exact (iA3 s1 HI _ _ (Hdc _ _ _ Hd)).
      * exact (iA4 s1 HI).
      * intros; discriminate.
      * intros tc tsq0 E cn sq Hc. inversion E; subst tc tsq0.
        apply in_map_iff in Hc. destruct Hc as [[[v1 sq0] b0] [E1 Hd]]. inversion E1; subst.
        exact (iB1 s1 HI _ _ Ht _ _ (Hdc _ _ _ Hd)).
      * intros; discriminate.
      * intros; discriminate.
      * intros; discriminate.
      * intros; discriminate.
      * intros; discriminate.
      * intros v0 sq [].
      * intros tsq0 E. split; [intros []|auto].
      * constructor.
      * intros x t [].
      * intros; discriminate.
      * intros; discriminate.
      * intros; discriminate.
      * intros; discriminate.
      * intros i v0 k [].
      * exact (iO s1 HI).
      * intros; discriminate.
      * intros; discriminate.
      * intros; discriminate.
    + constructor; [constructor| | |]; unfold claims, pipe; sproj; rewrite ?Hd0; cbn [app map idx_claims iseq].
      all: try (intros; discriminate); try (intros; contradiction).
      * exact (iA4 s1 HI).
      * reflexivity.
      * constructor.
      * exact (iO s1 HI).
  - rewrite Hbest. pose proof (claims_nil_disk s1 (iB0 s1 HI Ht)) as Hd0.
    constructor; [constructor| | |]; unfold claims, pipe; sproj; rewrite ?Hd0; cbn [app map idx_claims iseq].
    all: try (intros; discriminate); try (intros; contradiction).
    + exact (iA4 s1 HI).
    + reflexivity.
    + constructor.
    + exact (iO s1 HI).
Qed.

(* ---- histories ---- *)

(* side conditions on a history:
   - no in-memory-only advice (C01 excludes keys whose advice alternates; C12 treats that advice),
   - no remove while a disk lookup of the key is in flight (defect F14, see [f14_refuted]),
   - a restart happens only when recovery's winner is the latest submission ([restart_ok]). *)
Definition ok_act (c : hcfg) (s : kst) (a : act) : Prop :=
  match a with
  | KIns l => l <> LInMem
  | KRm => kload s = []
  | KRestart b vis => restart_ok c s b vis
  | _ => True
  end.

Fixpoint run_ok (c : hcfg) (s : kst) (l : list act) : Prop :=
  match l with
  | [] => True
  | a :: l' => ok_act c s a /\ run_ok c (kstep c s a) l'
  end.

Lemma kinv_step c s a : bug_rr c = false -> KInv c s -> ok_act c s a -> KInv c (kstep c s a).
Proof.
  intros Hrr HK Hok. destruct a; cbn [kstep] in *.
  - apply kinv_insert; auto.
  - apply kinv_evict; auto.
  - apply kinv_remove; auto.
  - apply kinv_flush; auto.
  - apply kinv_complete; auto.
  - unfold do_reins_delay. rewrite Hrr. exact HK.
  - apply kinv_reclaim; auto.
  - apply kinv_load_start; auto.
  - apply kinv_load_finish; auto.
  - unfold drain_all. apply kinv_drain; auto.
  - destruct Hok as [Hm Hb]. apply inv_recover; auto.
    + apply kinv_close; auto.
    + unfold do_close. apply drain_all_empty.
Qed.

Lemma kinv_run c l : bug_rr c = false -> forall s, KInv c s -> run_ok c s l -> KInv c (krun c s l).
Proof.
  intros Hrr. induction l as [|a l IH]; intros s HK Hok; cbn in *; auto.
  destruct Hok as [Ha Hl]. apply IH; auto. apply kinv_step; auto.
Qed.

(* every answered lookup returned nothing or the latest value *)
Theorem lookups_fresh c l :
  bug_rr c = false -> run_ok c init_k l ->
  forall i r t, In (i, r, t) (kout (krun c init_k l)) -> r = None \/ r = t.
Proof.
  intros Hrr Hok. pose proof (kinv_run c l Hrr init_k (kinv_init c) Hok) as [HI _ _ _].
  exact (iO _ HI).
Qed.

(* ... and so does a lookup served at any reachable state *)
Lemma lookup_now_fresh c s r : KInv c s -> lookup_now s = Some r -> ktruth s = Some r.
Proof.
  intros [HI _ _ _] Hl. unfold lookup_now in Hl.
  destruct (kmem s) as [[[v l0] a]|] eqn:Hm.
  - inversion Hl; subst. exact (iD s HI _ _ _ Hm).
  - unfold disk_lookup, disk_lookup2 in Hl. destruct (kkeep s) as [vk|] eqn:Hk.
    + cbn in Hl. inversion Hl; subst. destruct (iC s HI _ Hk) as [tsq Ht]. exact (iE s HI _ _ Hm Ht).
    + destruct (idx_get (kidx s)) as [[[sq0 v0] b0]|] eqn:Hg; cbn in Hl; [|discriminate].
      destruct (on_disk (kdisk s) v0 sq0 b0); cbn in Hl; inversion Hl; subst.
      unfold idx_get in Hg. destruct (kidx s) as [[sq1 v1 b1|sq1]|] eqn:Hi; inversion Hg; subst.
      destruct (idx_hit_top s _ _ _ HI Hk Hi) as [tsq [Ht _]]. exact (iE s HI _ _ Hm Ht).
Qed.

Theorem reachable_lookup_fresh c l r :
  bug_rr c = false -> run_ok c init_k l -> lookup_now (krun c init_k l) = Some r -> ktruth (krun c init_k l) = Some r.
Proof. intros Hrr Hok. apply (lookup_now_fresh c). apply kinv_run; auto. apply kinv_init. Qed.

(* F15: with reinsertions spread over the flushers a removed value comes back *)
Definition f15_cfg := mkCfg true true true false true true.
Definition f15_hist := [KIns LDefault; KFlush 0; KComplete; KEvict; KReclaim 0; KRm; KReinsDelay;
                        KFlush 1; KComplete; KFlush 1; KComplete; KLoadStart 7; KLoadFinish 7 Young].
Lemma f15_hist_ok : run_ok f15_cfg init_k f15_hist.
Proof. vm_compute. repeat split. discriminate. Qed.
Lemma f15_refuted : In (7, Some 1, None) (kout (krun f15_cfg init_k f15_hist)).
Proof. vm_compute. auto. Qed.

(* F14: a remove while a disk lookup of the key is in flight is undone by that lookup *)
Definition f14_cfg := mkCfg true true false false true false.
Definition f14_hist := [KIns LDefault; KFlush 0; KComplete; KEvict; KLoadStart 7; KRm; KLoadFinish 7 Young; KLoadStart 8].
Lemma f14_refuted : In (8, Some 1, None) (kout (krun f14_cfg init_k f14_hist)).
Proof. vm_compute. auto 6. Qed.
Lemma f14_hist_not_ok : ~ run_ok f14_cfg init_k f14_hist.
Proof. intros H. vm_compute in H. destruct H as [_ [_ [_ [_ [_ [H _]]]]]]. discriminate H. Qed.
