(* Recovery over a damaged tombstone log (C03).  Tombstone pages carry no checksum: a slot is 16 bytes (hash, sequence),
   and whatever bytes the log device holds parse to SOME list of tombstones - with arbitrary sequences.  [do_recover_dmg]
   is [do_recover] with the recovered tombstones of the key's hash replaced by an arbitrary list [tl] (spurious ones
   included, logged ones missing). *)
From Coq Require Import List NArith Bool Arith Lia.
From FV Require Import Hybrid.Engine Hybrid.EngineInv Hybrid.EngineVers.
Import ListNotations.
Open Scope N_scope.

Definition do_recover_dmg (c : hcfg) (s : kst) (vis : list (N * N * N)) (tl : list N) : kst :=
  let best := best_tomb tl (best_copy (visible vis (kdisk s)) None) in
  let top := match best with Some (IAddr sq v _) => Some (Some v, sq) | Some (ITomb sq) => Some (None, sq) | None => None end in
  let idx := match best with Some (IAddr sq v b) => best | _ => None end in
  mkK None None [] [] idx (kdisk s) tl
      (match best with Some i => iseq i + 1 | None => 1 end)
      [] (ktruth s) (knext s) top (klo s) true (ksubs s) (kinmem s) (kout s) (kondisk s).

Lemma do_recover_dmg_same c s vis : do_recover_dmg c s vis (ktlog s) = do_recover c s vis.
Proof. reflexivity. Qed.

(* whatever the tombstone log and the blocks parse to, a recovered store answers a miss or a version really written *)
Theorem recovery_dmg_serves_written c l vis tl v :
  lookup_now (do_recover_dmg c (krun c init_k l) vis tl) = Some v -> In v (ksubs (krun c init_k l)).
Proof.
  intros Hl. set (s := krun c init_k l) in *.
  apply (vD _ (vinv_run c l init_k vinv_init)). apply in_dvers.
  unfold lookup_now, do_recover_dmg in Hl. cbn [kmem] in Hl. unfold disk_lookup, disk_lookup2 in Hl. cbn [kkeep kidx kdisk] in Hl.
  destruct (best_tomb tl (best_copy (visible vis (kdisk s)) None)) as [[sq0 v0 b0|sq0]|]; cbn in Hl; try discriminate.
  destruct (on_disk (kdisk s) v0 sq0 b0) eqn:Ho; cbn in Hl; inversion Hl; subst.
  right; right; right; left. exists sq0, b0. apply on_disk_in_rev; auto.
Qed.

(* a spurious tombstone can only hide the key: with a tombstone of a sequence at least that of every visible copy the
   recovered store misses *)
Theorem spurious_tombstone_is_a_miss c s vis sq :
  (forall v sq' b, In (v, sq', b) (kdisk s) -> sq' <= sq) ->
  lookup_now (do_recover_dmg c s vis [sq]) = None.
Proof.
  intros Hmax. unfold lookup_now, do_recover_dmg. cbn [kmem]. unfold disk_lookup, disk_lookup2. cbn [kkeep kidx kdisk best_tomb].
  assert (H : forall d acc, (forall v sq' b, In (v, sq', b) d -> sq' <= sq) ->
                (match acc with Some i => iseq i <= sq | None => True end) ->
                match best_copy d acc with Some i => iseq i <= sq | None => True end).
  { induction d as [|[[v0 sq0] b0] d IH]; intros acc Hd Ha; cbn [best_copy]; [exact Ha|].
    apply IH; [intros; eapply Hd; right; eassumption|].
    unfold idx_insert. destruct acc as [o|]; cbn [iseq]; [|eapply Hd; left; reflexivity].
    match goal with |- context [if ?cnd then _ else _] => destruct cnd end; cbn [iseq]; [eapply Hd; left; reflexivity|exact Ha]. }
  specialize (H (visible vis (kdisk s)) None).
  assert (Hv : forall v sq' b, In (v, sq', b) (visible vis (kdisk s)) -> sq' <= sq).
  { intros v sq' b Hin. unfold visible in Hin. apply filter_In in Hin. destruct Hin as [Hin _]. eapply Hmax; eassumption. }
  specialize (H Hv I).
  destruct (best_copy (visible vis (kdisk s)) None) as [o|]; unfold idx_insert.
  - apply N.leb_le in H. cbn [iseq] in *. rewrite H. reflexivity.
  - reflexivity.
Qed.
