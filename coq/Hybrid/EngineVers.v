(* A second, unconditional invariant of the one-key hybrid model: which versions can be on the disk tier.
   It holds along every history (any advice, any interleaving, also with the defect flags): every version
   the disk tier holds anywhere - write queue, flusher pipeline, index, device, lookups in flight - was
   submitted as a cache entry, and a version inserted with in-memory-only advice never is. *)
From Coq Require Import List NArith Bool Lia.
From FV Require Import Hybrid.Engine Hybrid.EngineInv Hybrid.EngineThms.
Import ListNotations.
Open Scope N_scope.

Arguments N.add : simpl never.
Arguments N.leb : simpl never.
Arguments N.eqb : simpl never.

Definition sub_vers (x : sub) : list N := match x with SEntry v _ | SReins v _ => [v] | STomb _ => [] end.
Definition idx_vers (i : option ient) : list N := match i with Some (IAddr _ v _) => [v] | _ => [] end.
Definition copy_ver (x : N * N * N) : N := fst (fst x).
Definition load_vers (x : N * option N * bool) : list N := match snd (fst x) with Some v => [v] | None => [] end.
Definition keep_vers (k : option N) : list N := match k with Some v => [v] | None => [] end.

Definition dvers (s : kst) : list N :=
  keep_vers (kkeep s) ++ flat_map sub_vers (pipe s) ++ idx_vers (kidx s) ++ map copy_ver (kdisk s) ++
  flat_map load_vers (kload s).

Record VInv (s : kst) : Prop := mkVInv {
  vD : forall v, In v (dvers s) -> In v (ksubs s);
  vM : forall v, In v (kinmem s) -> ~ In v (ksubs s);
  vL : forall v l a, kmem s = Some (v, l, a) -> In v (kinmem s) -> l = LInMem;
  vS : forall v, In v (ksubs s) -> v < knext s;
  vN : forall v, In v (kinmem s) -> v < knext s;
  vR : forall v l a, kmem s = Some (v, l, a) -> v < knext s }.

Lemma vinv_init : VInv init_k.
Proof. constructor; cbn; intros; try contradiction; try discriminate. Qed.

(* membership in dvers, component-wise *)
Lemma in_dvers s v :
  In v (dvers s) <->
  kkeep s = Some v \/ (exists x, In x (pipe s) /\ In v (sub_vers x)) \/ (exists sq b, kidx s = Some (IAddr sq v b)) \/
  (exists sq b, In (v, sq, b) (kdisk s)) \/ (exists i k, In (i, Some v, k) (kload s)).
Proof.
  unfold dvers. rewrite !in_app_iff, !in_flat_map, in_map_iff. split.
  - intros [H|[H|[H|[H|H]]]].
    + left. destruct (kkeep s); cbn in H; [destruct H as [H|[]]; subst; auto|contradiction].
    + right; left; auto.
    + right; right; left. destruct (kidx s) as [[sq v0 b|sq]|]; cbn in H; try contradiction.
      destruct H as [H|[]]; subst; eauto.
    + right; right; right; left. destruct H as [[[v0 sq] b] [E Hin]]. cbn in E; subst. eauto.
    + right; right; right; right. destruct H as [[[i r] k] [Hin Hv]]. unfold load_vers in Hv. cbn in Hv.
      destruct r; [destruct Hv as [Hv|[]]; subst; eauto|contradiction].
  - intros [H|[H|[[sq [b H]]|[[sq [b H]]|[i [k H]]]]]].
    + left. rewrite H. cbn; auto.
    + right; left; auto.
    + right; right; left. rewrite H. cbn; auto.
    + right; right; right; left. exists (v, sq, b). split; auto.
    + right; right; right; right. exists (i, Some v, k). split; auto. cbn; auto.
Qed.

(* a step that only shrinks / reshuffles what the disk tier holds *)
Lemma vinv_sub s s' :
  VInv s -> (forall v, In v (dvers s') -> In v (dvers s)) ->
  ksubs s' = ksubs s -> kinmem s' = kinmem s -> knext s' = knext s ->
  (forall v l a, kmem s' = Some (v, l, a) -> kmem s = Some (v, l, a)) -> VInv s'.
Proof.
  intros [D M L S N R] Hd Hs Hi Hn Hm. constructor; rewrite ?Hs, ?Hi, ?Hn; eauto.
Qed.

Lemma idx_insert_vers i e v :
  In v (idx_vers (idx_insert i e)) -> In v (idx_vers i) \/ In v (idx_vers (Some e)).
Proof.
  destruct i as [o|]; cbn [idx_insert]; [destruct (iseq o <=? iseq e)|]; auto.
Qed.
Lemma idx_remove_vers i sq v : In v (idx_vers (idx_remove i sq)) -> In v (idx_vers i).
Proof. destruct i as [o|]; cbn [idx_remove]; [destruct (iseq o <=? sq)|]; cbn; auto; intros []. Qed.

Lemma vinv_complete s : VInv s -> VInv (do_complete s).
Proof.
  intros HV. unfold do_complete. destruct (ki s) as [|h i'] eqn:Hki; [exact HV|].
  assert (Hp : forall x, In x (i' ++ kq s) -> In x (pipe s)) by (unfold pipe; rewrite Hki; intros; right; auto).
  destruct h as [v0 sq|sq|v0 sq]; (eapply vinv_sub; [exact HV| |reflexivity..|auto]).
  - intros v. rewrite !in_dvers. unfold pipe; sproj.
    intros [H|[[x [Hx Hv]]|[H|[H|H]]]]; auto.
    + left. destruct (kkeep s) as [vk|]; [|discriminate]. destruct (vk =? v0); [discriminate|auto].
    + right; left. exists x. split; auto.
  - intros v. rewrite !in_dvers. unfold pipe; sproj.
    intros [H|[[x [Hx Hv]]|[[sq0 [b H]]|[H|H]]]]; auto.
    + right; left. exists x. split; auto.
    + right; right; left. assert (Hin : In v (idx_vers (idx_remove (kidx s) sq))) by (rewrite H; cbn; auto).
      apply idx_remove_vers in Hin. destruct (kidx s) as [[sq1 v1 b1|sq1]|]; cbn in Hin; try contradiction.
      destruct Hin as [Hin|[]]; subst. eauto.
  - intros v. rewrite !in_dvers. unfold pipe; sproj.
    intros [H|[[x [Hx Hv]]|[H|[H|H]]]]; auto.
    right; left. exists x. split; auto.
Qed.

Lemma vinv_flush c s b : VInv s -> VInv (do_flush c s b).
Proof.
  intros HV. unfold do_flush. destruct (kq s) as [|x q] eqn:Hkq; [exact HV|].
  assert (Hxin : In x (pipe s)) by (unfold pipe; rewrite Hkq; apply in_or_app; right; left; auto).
  assert (Hp : forall y l0, In y ((ki s ++ l0) ++ q) -> In y (ki s ++ l0 ++ q)) by (intros; rewrite <- app_assoc in *; auto).
  assert (Hentry : forall v sq, (x = SEntry v sq \/ x = SReins v sq) ->
     VInv (set_i (set_idx (set_disk (set_q s q) (kdisk s ++ [(v, sq, b)])) (idx_insert (kidx s) (IAddr sq v b))) (ki s ++ [x]))).
  { intros v sq Hx. eapply vinv_sub; [exact HV| |reflexivity..|auto].
    assert (Hvx : In v (sub_vers x)) by (destruct Hx; subst; cbn; auto).
    intros v1. rewrite !in_dvers. unfold pipe; sproj.
    intros [H|[[y [Hy Hv]]|[[sq0 [b0 H]]|[[sq0 [b0 H]]|H]]]]; auto.
    - right; left. exists y. split; auto. rewrite Hkq. rewrite <- app_assoc in Hy. exact Hy.
    - assert (Hin : In v1 (idx_vers (idx_insert (kidx s) (IAddr sq v b)))) by (rewrite H; cbn; auto).
      apply idx_insert_vers in Hin. destruct Hin as [Hin|Hin].
      + right; right; left. destruct (kidx s) as [[sq1 v2 b1|sq1]|]; cbn in Hin; try contradiction.
        destruct Hin as [Hin|[]]; subst. eauto.
      + cbn in Hin. destruct Hin as [Hin|[]]; subst. right; left. exists x. split; auto.
    - apply in_app_or in H. destruct H as [H|[H|[]]].
      + right; right; right; left. eauto.
      + inversion H; subst. right; left. exists x. split; auto. }
  destruct x as [v sq|sq|v sq].
  - apply Hentry; auto.
  - eapply vinv_sub; [exact HV| |reflexivity..|auto].
    intros v1. rewrite !in_dvers. unfold pipe; sproj.
    intros [H|[[y [Hy Hv]]|[H|[H|H]]]]; auto.
    right; left. exists y. split; auto. rewrite Hkq. rewrite <- app_assoc in Hy. exact Hy.
  - assert (Hdrop : VInv (set_q s q)).
    { eapply vinv_sub; [exact HV| |reflexivity..|auto].
      intros v1. rewrite !in_dvers. unfold pipe; sproj.
      intros [H|[[y [Hy Hv]]|[H|[H|H]]]]; auto.
      right; left. exists y. split; auto. rewrite Hkq. apply in_app_or in Hy. apply in_or_app.
      destruct Hy; [left|right; right]; auto. }
    destruct (if bug_rr c then Some (sq, 0, 0) else idx_get (kidx s)) as [[[sq1 v1] b1]|]; [|exact Hdrop].
    destruct (sq1 =? sq); [|exact Hdrop].
    apply Hentry; auto.
Qed.

Lemma reclaim_copies_vers c b copies : forall q idx,
  (forall x, In x (fst (reclaim_copies c b copies q idx)) -> In x q \/ exists v sq b', x = SReins v sq /\ In (v, sq, b') copies) /\
  (forall v, In v (idx_vers (snd (reclaim_copies c b copies q idx))) -> In v (idx_vers idx)).
Proof.
  induction copies as [|[[v sq] b'] rest IH]; intros q idx; cbn [reclaim_copies]; [cbn; auto|].
  destruct (b' =? b).
  - destruct (reins c).
    + destruct (IH (q ++ [SReins v sq]) idx) as [H1 H2]. split; auto.
      intros x Hx. destruct (H1 _ Hx) as [Hq|[v0 [sq0 [b0 [E Hin]]]]].
      * apply in_app_or in Hq. destruct Hq as [Hq|[Hq|[]]]; auto. right. exists v, sq, b'. split; auto. left; auto.
      * right. exists v0, sq0, b0. split; auto. right; auto.
    + destruct (IH q (idx_remove idx sq)) as [H1 H2]. split.
      * intros x Hx. destruct (H1 _ Hx) as [Hq|[v0 [sq0 [b0 [E Hin]]]]]; auto.
        right. exists v0, sq0, b0. split; auto. right; auto.
      * intros v0 Hv. apply H2 in Hv. eapply idx_remove_vers; eauto.
  - destruct (IH q idx) as [H1 H2]. split; auto.
    intros x Hx. destruct (H1 _ Hx) as [Hq|[v0 [sq0 [b0 [E Hin]]]]]; auto.
    right. exists v0, sq0, b0. split; auto. right; auto.
Qed.

Lemma vinv_reclaim c s b : VInv s -> VInv (do_reclaim c s b).
Proof.
  intros HV. unfold do_reclaim.
  destruct (reclaim_copies_vers c b (kdisk s) (kq s) (kidx s)) as [R1 R2].
  destruct (reclaim_copies c b (kdisk s) (kq s) (kidx s)) as [q idx]. cbn [fst snd] in *.
  eapply vinv_sub; [exact HV| |reflexivity..|auto].
  intros v1. rewrite !in_dvers. unfold pipe; sproj.
  intros [H|[[y [Hy Hv]]|[[sq0 [b0 H]]|[[sq0 [b0 H]]|H]]]]; auto.
  - apply in_app_or in Hy. destruct Hy as [Hy|Hy].
    + right; left. exists y. split; auto. apply in_or_app; left; auto.
    + destruct (R1 _ Hy) as [Hq|[v0 [sq1 [b1 [E Hin]]]]].
      * right; left. exists y. split; auto. apply in_or_app; right; auto.
      * subst y. cbn in Hv. destruct Hv as [Hv|[]]; subst. right; right; right; left. eauto.
  - right; right; left. assert (Hin : In v1 (idx_vers idx)) by (rewrite H; cbn; auto).
    apply R2 in Hin. destruct (kidx s) as [[sq1 v2 b1|sq1]|]; cbn in Hin; try contradiction.
    destruct Hin as [Hin|[]]; subst. eauto.
  - apply filter_In in H. destruct H as [H _]. right; right; right; left. eauto.
Qed.

Lemma on_disk_in_rev d v sq b : on_disk d v sq b = true -> In (v, sq, b) d.
Proof.
  unfold on_disk. intros H. apply existsb_exists in H. destruct H as [[[v' sq'] b'] [Hin H]].
  apply andb_prop in H. destruct H as [H H3]. apply andb_prop in H. destruct H as [H1 H2].
  apply N.eqb_eq in H1, H2, H3. subst. exact Hin.
Qed.

Lemma vinv_load_start s i : VInv s -> VInv (do_load_start s i).
Proof.
  intros HV. unfold do_load_start. destruct (kmem s) as [[[v l] a]|] eqn:Hm.
  - eapply vinv_sub; [exact HV| |reflexivity..|auto]. intros v1. rewrite !in_dvers. unfold pipe; sproj. auto.
  - eapply vinv_sub; [exact HV| |reflexivity..|auto].
    intros v1. rewrite !in_dvers. unfold pipe; sproj.
    intros [H|[H|[H|[H|[i0 [k H]]]]]]; auto.
    apply in_app_or in H. destruct H as [H|[H|[]]]; [right; right; right; right; eauto|].
    inversion H; subst. clear H. unfold disk_lookup2 in *.
    destruct (kkeep s) as [vk|] eqn:Hk; cbn in H2.
    + inversion H2; subst. auto.
    + destruct (idx_get (kidx s)) as [[[sq0 v0] b0]|] eqn:Hg; cbn in H2; [|discriminate].
      destruct (on_disk (kdisk s) v0 sq0 b0) eqn:Ho; cbn in H2; inversion H2; subst.
      right; right; right; left. exists sq0, b0. apply on_disk_in_rev; auto.
Qed.

Lemma vinv_load_finish s i a : VInv s -> VInv (do_load_finish s i a).
Proof.
  intros HV. unfold do_load_finish.
  destruct (find_load i (kload s)) as [[r fromk]|] eqn:Hf; [|exact HV].
  apply find_load_in in Hf.
  assert (Hshrink : forall v1, In v1 (dvers (add_out (set_load s (del_load i (kload s))) (i, r, ktruth s))) -> In v1 (dvers s)).
  { intros v1. rewrite !in_dvers. unfold pipe; sproj. intros [H|[H|[H|[H|[i0 [k H]]]]]]; auto.
    apply del_load_in in H. right; right; right; right; eauto. }
  destruct r as [v|]; [|eapply vinv_sub; [exact HV|exact Hshrink|reflexivity..|auto]].
  destruct (kmem s) as [[[vm lm] am]|] eqn:Hm; [eapply vinv_sub; [exact HV|exact Hshrink|reflexivity..|]; sproj; congruence|].
  destruct (fromk && memN v (kondisk s)); [eapply vinv_sub; [exact HV|exact Hshrink|reflexivity..|]; sproj; congruence|].
  assert (Hv : In v (ksubs s)).
  { apply (vD s HV). apply in_dvers. right; right; right; right. eauto. }
  destruct HV as [D M L S N R]. constructor; sproj; auto.
  - intros v1 l a0 E Hin. inversion E; subst. exfalso. exact (M _ Hin Hv).
  - intros v1 l a0 E. inversion E; subst. auto.
Qed.

Lemma vinv_enq_state s v : VInv s -> ~ In v (kinmem s) -> v < knext s -> VInv (enq_state s v).
Proof.
  intros [D M L S N R] Hni Hlt. unfold enq_state. constructor; sproj; auto.
  - intros v1. rewrite in_dvers. unfold pipe; sproj. intros [H|[[x [Hx Hv]]|[H|[H|H]]]].
    + inversion H; subst. apply in_or_app; right; left; auto.
    + rewrite app_assoc in Hx. apply in_app_or in Hx. destruct Hx as [Hx|[Hx|[]]].
      * apply in_or_app; left. apply D. apply in_dvers. right; left. eauto.
      * subst x. cbn in Hv. destruct Hv as [Hv|[]]; subst. apply in_or_app; right; left; auto.
    + apply in_or_app; left. apply D. apply in_dvers. auto.
    + apply in_or_app; left. apply D. apply in_dvers. auto.
    + apply in_or_app; left. apply D. apply in_dvers. auto.
  - intros v1 Hin Hs. apply in_app_or in Hs. destruct Hs as [Hs|[Hs|[]]]; [eapply M; eauto|subst; auto].
  - intros v1 Hs. apply in_app_or in Hs. destruct Hs as [Hs|[Hs|[]]]; [auto|subst; auto].
Qed.

(* store.enqueue of the resident (or just inserted) version; [v] is not an in-memory-only version *)
Lemma vinv_enqueue c s v a :
  VInv s -> ~ In v (kinmem s) -> v < knext s -> VInv (store_enqueue c s v a).
Proof.
  intros HV Hni Hlt. unfold store_enqueue. destruct (accepts c).
  - destruct a; try (apply vinv_enq_state; auto).
    eapply vinv_sub; [exact HV| |reflexivity..|auto].
    intros v1. rewrite !in_dvers. unfold pipe; sproj. intros [H|H]; [discriminate|auto].
  - unfold store_delete, engine_delete. sproj.
    eapply vinv_sub; [exact HV| |reflexivity..|auto].
    intros v1. rewrite !in_dvers. unfold pipe; sproj.
    intros [H|[[x [Hx Hv]]|[[sq0 [b0 H]]|[H|H]]]]; auto; try discriminate.
    + rewrite app_assoc in Hx. apply in_app_or in Hx. destruct Hx as [Hx|[Hx|[]]]; [right; left; eauto|subst x; contradiction].
    + assert (Hin : In v1 (idx_vers (idx_insert (kidx s) (ITomb (kseq s))))) by (rewrite H; cbn; auto).
      apply idx_insert_vers in Hin. destruct Hin as [Hin|[]].
      right; right; left. destruct (kidx s) as [[sq1 v2 b1|sq1]|]; cbn in Hin; try contradiction.
      destruct Hin as [Hin|[]]; subst. eauto.
Qed.

Lemma vinv_delete s : VInv s -> VInv (store_delete s).
Proof.
  intros HV. unfold store_delete, engine_delete. sproj.
  eapply vinv_sub; [exact HV| |reflexivity..|auto].
  intros v1. rewrite !in_dvers. unfold pipe; sproj.
  intros [H|[[x [Hx Hv]]|[[sq0 [b0 H]]|[H|H]]]]; auto; try discriminate.
  - rewrite app_assoc in Hx. apply in_app_or in Hx. destruct Hx as [Hx|[Hx|[]]]; [right; left; eauto|subst x; contradiction].
  - assert (Hin : In v1 (idx_vers (idx_insert (kidx s) (ITomb (kseq s))))) by (rewrite H; cbn; auto).
    apply idx_insert_vers in Hin. destruct Hin as [Hin|[]].
    right; right; left. destruct (kidx s) as [[sq1 v2 b1|sq1]|]; cbn in Hin; try contradiction.
    destruct Hin as [Hin|[]]; subst. eauto.
Qed.

Lemma vinv_drop_mem s : VInv s -> VInv (set_mem s None).
Proof.
  intros HV. eapply vinv_sub; [exact HV| |reflexivity..|]; [|sproj; intros; discriminate].
  intros v1. rewrite !in_dvers. unfold pipe; sproj. auto.
Qed.

Lemma vinv_evict c s : VInv s -> VInv (do_evict c s).
Proof.
  intros HV. unfold do_evict. destruct (kmem s) as [[[v l] a]|] eqn:Hm; [|exact HV].
  pose proof (vinv_drop_mem s HV) as HV1.
  destruct (woi c); [exact HV1|]. unfold pipe_send.
  destruct l; try exact HV1; apply vinv_enqueue; auto; sproj.
  - intros Hin. pose proof (vL s HV _ _ _ Hm Hin). discriminate.
  - exact (vR s HV _ _ _ Hm).
  - intros Hin. pose proof (vL s HV _ _ _ Hm Hin). discriminate.
  - exact (vR s HV _ _ _ Hm).
Qed.

Lemma vinv_remove s : VInv s -> VInv (do_remove s).
Proof.
  intros HV. unfold do_remove. apply vinv_delete.
  eapply vinv_sub; [exact HV| |reflexivity..|]; [|sproj; intros; discriminate].
  intros v1. rewrite !in_dvers. unfold pipe; sproj. auto.
Qed.

Lemma vinv_ins_state s l : VInv s -> VInv (ins_state s l).
Proof.
  intros [D M L S N R]. unfold ins_state. constructor; sproj.
  - intros v1 Hin. apply D. apply in_dvers. apply in_dvers in Hin. unfold pipe in *; sproj.
    destruct Hin as [H|[H|[H|[H|[i [k []]]]]]]; auto.
  - intros v1 Hin. destruct l; try (apply M; exact Hin).
    apply in_app_or in Hin. destruct Hin as [Hin|[Hin|[]]]; [auto|]. subst. intros Hs. pose proof (S _ Hs). lia.
  - intros v1 l0 a0 E Hin. destruct (loc_eqb l LOnDisk); inversion E; subst.
    destruct l0; auto; exfalso; pose proof (N _ Hin); lia.
  - intros v1 Hs. pose proof (S _ Hs). lia.
  - intros v1 Hin. destruct l; try (pose proof (N _ Hin); lia).
    apply in_app_or in Hin. destruct Hin as [Hin|[Hin|[]]]; [pose proof (N _ Hin); lia|subst; lia].
  - intros v1 l0 a0 E. destruct (loc_eqb l LOnDisk); inversion E; subst. lia.
Qed.

Lemma vinv_insert c s l : VInv s -> VInv (do_insert c s l).
Proof.
  intros HV. unfold do_insert. fold (ins_state s l).
  pose proof (vinv_ins_state s l HV) as HV1.
  assert (Henq : l <> LInMem -> VInv (store_enqueue c (ins_state s l) (knext s) Fresh)).
  { intros Hl. apply vinv_enqueue; auto.
    - cbn. destruct l; try (contradiction Hl; reflexivity); intros Hin; pose proof (vN s HV _ Hin); lia.
    - cbn. lia. }
  destruct (woi c).
  - destruct l; auto; apply Henq; discriminate.
  - destruct (loc_eqb l LOnDisk) eqn:Hd; [|exact HV1]. unfold pipe_send. destruct l; try discriminate. apply Henq; discriminate.
Qed.

Lemma vinv_drain c b : forall fuel s, VInv s -> VInv (drain c fuel b s).
Proof.
  induction fuel as [|f IH]; intros s HV; cbn [drain]; auto.
  destruct (ki s); [destruct (kq s); auto|]; apply IH; [apply vinv_flush|apply vinv_complete]; auto.
Qed.

Lemma vinv_close c s b : VInv s -> VInv (do_close c s b).
Proof.
  intros HV. unfold do_close, drain_all. apply vinv_drain. destruct (foc c && negb (woi c)); auto. apply vinv_evict; auto.
Qed.

(* recovery's winner is a copy that is on the device, or a logged tombstone, or the accumulator *)
Lemma best_copy_in vis : forall acc e,
  best_copy vis acc = Some e -> acc = Some e \/ exists v sq b, e = IAddr sq v b /\ In (v, sq, b) vis.
Proof.
  induction vis as [|[[v sq] b] rest IH]; intros acc e H; cbn in H; [auto|].
  destruct (IH _ _ H) as [Ha|[v0 [sq0 [b0 [E Hin]]]]].
  - destruct acc as [o|]; unfold idx_insert in Ha.
    + destruct (iseq o <=? iseq (IAddr sq v b)); inversion Ha; subst; [right; exists v, sq, b; split; auto; left; auto|left; auto].
    + inversion Ha; subst. right; exists v, sq, b; split; auto; left; auto.
  - right. exists v0, sq0, b0. split; auto. right; auto.
Qed.
Lemma best_tomb_in tl : forall acc e,
  best_tomb tl acc = Some e -> acc = Some e \/ exists sq, e = ITomb sq /\ In sq tl.
Proof.
  induction tl as [|sq rest IH]; intros acc e H; cbn in H; [auto|].
  destruct (IH _ _ H) as [Ha|[sq0 [E Hin]]].
  - destruct acc as [o|]; unfold idx_insert in Ha.
    + destruct (iseq o <=? iseq (ITomb sq)); inversion Ha; subst; [right; exists sq; split; auto; left; auto|left; auto].
    + inversion Ha; subst. right; exists sq; split; auto; left; auto.
  - right. exists sq0. split; auto. right; auto.
Qed.

Lemma vinv_recover c s vis : VInv s -> VInv (do_recover c s vis).
Proof.
  intros HV. unfold do_recover.
  eapply vinv_sub; [exact HV| |reflexivity..|]; [|sproj; intros; discriminate].
  intros v1. rewrite !in_dvers. unfold pipe; sproj.
  intros [H|[[x [[] _]]|[[sq0 [b0 H]]|[H|[i [k []]]]]]]; auto; try discriminate.
  right; right; right; left.
  destruct (best_tomb (ktlog s) (best_copy (visible vis (kdisk s)) None)) as [[sq1 v2 b1|sq1]|] eqn:Hb; try discriminate.
  inversion H; subst.
  destruct (best_tomb_in _ _ _ Hb) as [Hc|[sq2 [E _]]]; [|discriminate].
  destruct (best_copy_in _ _ _ Hc) as [Hn|[v0 [sq2 [b2 [E Hin]]]]]; [discriminate|].
  inversion E; subst. unfold visible in Hin. apply filter_In in Hin. destruct Hin as [Hin _]. eauto.
Qed.

Lemma vinv_step c s a : VInv s -> VInv (kstep c s a).
Proof.
  intros HV. destruct a; cbn [kstep].
  - apply vinv_insert; auto.
  - apply vinv_evict; auto.
  - apply vinv_remove; auto.
  - apply vinv_flush; auto.
  - apply vinv_complete; auto.
  - unfold do_reins_delay. destruct (bug_rr c); auto. destruct (pull_reins (kq s)) as [[r rest]|] eqn:Hp; auto.
    eapply vinv_sub; [exact HV| |reflexivity..|auto].
    assert (Hperm : forall q r rest, pull_reins q = Some (r, rest) -> forall x, In x (rest ++ [r]) -> In x q).
    { clear. induction q as [|y q IH]; intros r rest H x Hx; cbn in H; [discriminate|].
      destruct y as [v sq|sq|v sq].
      - destruct (pull_reins q) as [[r' rest']|] eqn:E; inversion H; subst.
        cbn in Hx. destruct Hx as [Hx|Hx]; [left; auto|right; eapply IH; eauto].
      - destruct (pull_reins q) as [[r' rest']|] eqn:E; inversion H; subst.
        cbn in Hx. destruct Hx as [Hx|Hx]; [left; auto|right; eapply IH; eauto].
      - inversion H; subst. apply in_app_or in Hx. destruct Hx as [Hx|[Hx|[]]]; [right; auto|left; auto]. }
    intros v1. rewrite !in_dvers. unfold pipe; sproj.
    intros [H|[[x [Hx Hv]]|[H|[H|H]]]]; auto.
    right; left. exists x. split; auto. apply in_app_or in Hx. apply in_or_app.
    destruct Hx as [Hx|Hx]; [left; auto|right; eapply Hperm; eauto].
  - apply vinv_reclaim; auto.
  - apply vinv_load_start; auto.
  - apply vinv_load_finish; auto.
  - unfold drain_all. apply vinv_drain; auto.
  - apply vinv_recover. apply vinv_close; auto.
Qed.

Theorem vinv_run c l : forall s, VInv s -> VInv (krun c s l).
Proof. induction l as [|a l IH]; intros s HV; cbn; auto. apply IH. apply vinv_step; auto. Qed.

(* C12: along every history whatsoever, a version inserted with in-memory-only advice is never submitted to the
   disk tier, is not in its write queue, its index or on the device, and no lookup is served it from there *)
Theorem inmem_never_on_disk c l v :
  In v (kinmem (krun c init_k l)) ->
  ~ In v (ksubs (krun c init_k l)) /\ ~ In v (dvers (krun c init_k l)).
Proof.
  intros Hin. pose proof (vinv_run c l init_k vinv_init) as HV. split.
  - exact (vM _ HV _ Hin).
  - intros Hd. exact (vM _ HV _ Hin (vD _ HV _ Hd)).
Qed.

(* C03 / C04: whatever the disk tier answers is a version that was really submitted for the key *)
Theorem disk_answers_were_written c l v :
  disk_lookup (krun c init_k l) = Some v -> In v (ksubs (krun c init_k l)).
Proof.
  intros Hl. pose proof (vinv_run c l init_k vinv_init) as HV. apply (vD _ HV). apply in_dvers.
  unfold disk_lookup, disk_lookup2 in Hl. destruct (kkeep (krun c init_k l)) as [vk|] eqn:Hk; cbn in Hl.
  - inversion Hl; subst; auto.
  - destruct (idx_get (kidx (krun c init_k l))) as [[[sq0 v0] b0]|] eqn:Hg; cbn in Hl; [|discriminate].
    destruct (on_disk (kdisk (krun c init_k l)) v0 sq0 b0) eqn:Ho; cbn in Hl; inversion Hl; subst.
    right; right; right; left. exists sq0, b0. apply on_disk_in_rev; auto.
Qed.

(* ------------------------------------------------------------------ the tombstone log, and recovery's winner *)

Record TInv (s : kst) : Prop := mkTInv {
  tA : forall sq, In sq (ktlog s) -> sq < kseq s;
  tB : forall tc tsq, ktop s = Some (tc, tsq) -> forall sq, In sq (ktlog s) -> sq <= tsq /\ (sq = tsq -> tc = None) }.

Lemma tinv_init : TInv init_k.
Proof. constructor; cbn; intros; try contradiction; discriminate. Qed.

Lemma tinv_frame s s' : TInv s -> ktlog s' = ktlog s -> kseq s' = kseq s -> ktop s' = ktop s -> TInv s'.
Proof. intros [A B] Hl Hs Ht. constructor; rewrite ?Hl, ?Hs, ?Ht; auto. Qed.

(* a new submission takes the next sequence number *)
Lemma tinv_bump s s' tc : TInv s -> ktlog s' = ktlog s -> kseq s' = kseq s + 1 -> ktop s' = Some (tc, kseq s) -> TInv s'.
Proof.
  intros [A B] Hl Hs Ht. constructor; rewrite ?Hl, ?Hs, ?Ht.
  - intros sq Hin. specialize (A _ Hin). lia.
  - intros tc0 tsq E sq Hin. inversion E; subst. specialize (A _ Hin). split; lia.
Qed.

Lemma tinv_enqueue c s v a : TInv s -> TInv (store_enqueue c s v a).
Proof.
  intros HT. unfold store_enqueue. destruct (accepts c).
  - destruct a; try (eapply tinv_bump; [exact HT|reflexivity..]). eapply tinv_frame; [exact HT|reflexivity..].
  - unfold store_delete, engine_delete. eapply tinv_bump; [exact HT|reflexivity..].
Qed.

Lemma best_tomb_none tl : forall acc, best_tomb tl acc = None -> acc = None /\ tl = [].
Proof.
  induction tl as [|x tl IH]; intros acc H; cbn in H; [auto|].
  destruct (IH _ H) as [Ha _]. exfalso. destruct acc as [o|]; unfold idx_insert in Ha; [destruct (iseq o <=? iseq (ITomb x))|]; discriminate.
Qed.

Ltac tframe HT := eapply tinv_frame; [exact HT|reflexivity..].

Lemma tinv_flush c s b : bug_rr c = false -> Inv s -> TInv s -> TInv (do_flush c s b).
Proof.
  intros Hrr HI HT. unfold do_flush. destruct (kq s) as [|x q] eqn:Hkq; auto.
  assert (Hxin : In x (pipe s)) by (unfold pipe; rewrite Hkq; apply in_or_app; right; left; auto).
  destruct x as [v sq|sq|v sq].
  - tframe HT.
  - destruct (tomb c); [|tframe HT].
    pose proof (in_claims_pipe s _ Hxin) as Hc. cbn in Hc.
    destruct HT as [A B]. constructor; sproj.
    + intros sq0 Hin. apply in_app_or in Hin. destruct Hin as [Hin|[Hin|[]]]; auto. subst. exact (iA1 s HI _ _ Hc).
    + intros tc tsq Ht sq0 Hin. apply in_app_or in Hin. destruct Hin as [Hin|[Hin|[]]]; eauto. subst.
      destruct (iB1 s HI _ _ Ht _ _ Hc) as [Hle Hcn]. split; auto. intros E. subst.
      symmetry. apply Hcn. exact (proj2 (iA2 s HI _ _ Ht)).
  - rewrite Hrr. destruct (idx_get (kidx s)) as [[[sq1 v1] b1]|]; [destruct (sq1 =? _)|]; tframe HT.
Qed.

Lemma tinv_complete s : TInv s -> TInv (do_complete s).
Proof. intros HT. unfold do_complete. destruct (ki s) as [|[v sq|sq|v sq] i']; auto; tframe HT. Qed.

Lemma tinv_drain c b : bug_rr c = false -> forall fuel s, KInv c s -> TInv s -> TInv (drain c fuel b s).
Proof.
  intros Hrr. induction fuel as [|f IH]; intros s HK HT; cbn [drain]; auto.
  destruct (ki s) as [|x i'] eqn:Hki.
  - destruct (kq s) as [|y q] eqn:Hkq; auto. apply IH; [apply kinv_flush; auto|apply tinv_flush; auto; apply HK].
  - apply IH; [apply kinv_complete; auto|apply tinv_complete; auto].
Qed.

Lemma tinv_evict c s : TInv s -> TInv (do_evict c s).
Proof.
  intros HT. unfold do_evict. destruct (kmem s) as [[[v l] a]|]; auto.
  assert (HT1 : TInv (set_mem s None)) by tframe HT.
  destruct (woi c); auto. unfold pipe_send. destruct l; auto; apply tinv_enqueue; auto.
Qed.

Lemma tinv_step c s a : bug_rr c = false -> KInv c s -> ok_act c s a -> TInv s -> TInv (kstep c s a).
Proof.
  intros Hrr HK Hok HT. pose proof HK as [HI _ _ _]. destruct a; cbn [kstep] in *.
  - unfold do_insert. fold (ins_state s l).
    assert (HT1 : TInv (ins_state s l)) by tframe HT.
    destruct (woi c); [destruct l; auto; apply tinv_enqueue; auto|].
    destruct (loc_eqb l LOnDisk); auto. unfold pipe_send. destruct l; auto; apply tinv_enqueue; auto.
  - apply tinv_evict; auto.
  - unfold do_remove, store_delete, engine_delete. eapply tinv_bump; [exact HT|reflexivity..].
  - apply tinv_flush; auto.
  - apply tinv_complete; auto.
  - unfold do_reins_delay. rewrite Hrr. auto.
  - unfold do_reclaim. destruct (reclaim_copies c b (kdisk s) (kq s) (kidx s)). tframe HT.
  - unfold do_load_start. destruct (kmem s) as [[[v l] a]|]; tframe HT.
  - unfold do_load_finish. destruct (find_load i (kload s)) as [[[v|] k]|]; auto; [|tframe HT].
    destruct (kmem s); [tframe HT|]. destruct (k && memN v (kondisk s)); tframe HT.
  - unfold drain_all. apply tinv_drain; auto.
  - (* restart: recovery's winner is the latest submission (restart_ok) *)
    destruct Hok as [Hm Hb].
    assert (HK1 : KInv c (do_close c s b)) by (apply kinv_close; auto).
    assert (HT1 : TInv (do_close c s b)).
    { unfold do_close, drain_all. apply tinv_drain; auto.
      - destruct (foc c && negb (woi c)); auto. apply kinv_evict; auto.
      - destruct (foc c && negb (woi c)); auto. apply tinv_evict; auto. }
    set (s1 := do_close c s b) in *. unfold do_recover. fold (best_of s1 vis).
    destruct HT1 as [A B]. pose proof HK1 as [HI1 _ _ _].
    destruct (ktop s1) as [[[v|] tsq]|] eqn:Ht.
    + destruct Hb as [b' [Hb _]]. rewrite Hb. constructor; sproj; cbn [iseq].
      * intros sq Hin. destruct (B _ _ eq_refl _ Hin). lia.
      * intros tc tsq0 E sq Hin. inversion E; subst. exact (B _ _ eq_refl _ Hin).
    + destruct Hb as [Hb|[Hb Hd]]; rewrite Hb.
      * constructor; sproj; cbn [iseq].
        -- intros sq Hin. destruct (B _ _ eq_refl _ Hin). lia.
        -- intros tc tsq0 E sq Hin. inversion E; subst. exact (B _ _ eq_refl _ Hin).
      * (* nothing recovered: the log holds nothing either *)
        assert (Hnil : ktlog s1 = []) by (unfold best_of in Hb; exact (proj2 (best_tomb_none _ _ Hb))).
        constructor; sproj; rewrite Hnil; intros; contradiction.
    + rewrite Hb.
      assert (Hnil : ktlog s1 = []) by (unfold best_of in Hb; exact (proj2 (best_tomb_none _ _ Hb))).
      constructor; sproj; rewrite Hnil; intros; contradiction.
Qed.

Lemma tinv_run c l : bug_rr c = false -> forall s, KInv c s -> TInv s -> run_ok c s l -> TInv (krun c s l).
Proof.
  intros Hrr. induction l as [|a l IH]; intros s HK HT Hok; cbn in *; auto.
  destruct Hok as [Ha Hl]. apply IH; auto; [apply kinv_step; auto|apply tinv_step; auto].
Qed.

(* highest sequence wins *)
Lemma best_copy_max vis : forall acc e, best_copy vis acc = Some e ->
  (forall o, acc = Some o -> iseq o <= iseq e) /\ (forall v sq b, In (v, sq, b) vis -> sq <= iseq e).
Proof.
  induction vis as [|[[v sq] b] rest IH]; intros acc e H; cbn in H.
  - subst. split; [intros o E; inversion E; lia|intros ? ? ? []].
  - destruct (IH _ _ H) as [H1 H2]. destruct (idx_insert_spec acc (IAddr sq v b)) as [e' [He [E1 [E2 _]]]].
    specialize (H1 _ He). cbn in E1. split.
    + intros o Ho. specialize (E2 _ Ho). lia.
    + intros v0 sq0 b0 [Hin|Hin]; [inversion Hin; subst; lia|eauto].
Qed.
Lemma best_tomb_max tl : forall acc e, best_tomb tl acc = Some e ->
  (forall o, acc = Some o -> iseq o <= iseq e) /\ (forall sq, In sq tl -> sq <= iseq e).
Proof.
  induction tl as [|sq rest IH]; intros acc e H; cbn in H.
  - subst. split; [intros o E; inversion E; lia|intros ? []].
  - destruct (IH _ _ H) as [H1 H2]. destruct (idx_insert_spec acc (ITomb sq)) as [e' [He [E1 [E2 _]]]].
    specialize (H1 _ He). cbn in E1. split.
    + intros o Ho. specialize (E2 _ Ho). lia.
    + intros sq0 [Hin|Hin]; [subst; lia|eauto].
Qed.
Lemma best_copy_some vis acc : (acc <> None \/ vis <> []) -> best_copy vis acc <> None.
Proof.
  revert acc. induction vis as [|[[v sq] b] rest IH]; intros acc [H|H]; cbn; auto; try contradiction.
  all: apply IH; left; destruct (idx_insert_spec acc (IAddr sq v b)) as [e' [He _]]; rewrite He; discriminate.
Qed.
Lemma best_tomb_some tl acc : acc <> None -> best_tomb tl acc <> None.
Proof.
  revert acc. induction tl as [|sq rest IH]; intros acc H; cbn; auto.
  apply IH. destruct (idx_insert_spec acc (ITomb sq)) as [e' [He _]]; rewrite He; discriminate.
Qed.

Lemma visible_all vis d : (forall x, In x d -> In x vis) -> visible vis d = d.
Proof.
  intros H. unfold visible. induction d as [|[[v sq] b] rest IH]; cbn; auto.
  rewrite (on_disk_in vis v sq b); [|apply H; left; auto]. f_equal. apply IH. intros x Hx. apply H. right; auto.
Qed.

(* recovery's winner is at least as new as any copy the scan sees *)
Lemma winner_at_least s vis v0 sq0 b0 :
  In (v0, sq0, b0) (visible vis (kdisk s)) -> exists e, best_of s vis = Some e /\ sq0 <= iseq e.
Proof.
  intros Hin. unfold best_of.
  destruct (best_copy (visible vis (kdisk s)) None) as [e0|] eqn:Hc.
  2: { exfalso. eapply best_copy_some; [|exact Hc]. right. intros E. rewrite E in Hin. contradiction. }
  destruct (best_copy_max _ _ _ Hc) as [_ H2]. specialize (H2 _ _ _ Hin).
  destruct (best_tomb (ktlog s) (Some e0)) as [e|] eqn:Ht.
  2: { exfalso. eapply best_tomb_some; [|exact Ht]. discriminate. }
  destruct (best_tomb_max _ _ _ Ht) as [H1 _]. specialize (H1 _ eq_refl). exists e. split; auto. lia.
Qed.

(* C04 / C15: once the latest submission of the key is on the device with its index page, a recovery that scans the
   device completely serves exactly it - after a graceful close or after a crash at that point *)
Theorem recovery_serves_latest c s vis v sq b :
  KInv c s -> TInv s -> ktop s = Some (Some v, sq) -> In (v, sq, b) (kdisk s) ->
  (forall x, In x (kdisk s) -> In x vis) ->
  lookup_now (do_recover c s vis) = Some v.
Proof.
  intros [HI _ _ _] [TA TB] Ht Hd Hvis.
  assert (Hv : In (v, sq, b) (visible vis (kdisk s))) by (rewrite visible_all; auto).
  destruct (winner_at_least s vis _ _ _ Hv) as [e [He Hle]].
  assert (Hshape : exists b', e = IAddr sq v b' /\ In (v, sq, b') (kdisk s)).
  { unfold best_of in He. destruct (best_tomb_in _ _ _ He) as [Hc|[sq' [E Hin]]].
    - destruct (best_copy_in _ _ _ Hc) as [Hn|[v' [sq' [b' [E Hin]]]]]; [discriminate|]. subst e. cbn in Hle.
      rewrite visible_all in Hin by auto.
      destruct (iB1 s HI _ _ Ht _ _ (in_claims_disk s _ _ _ Hin)) as [Hle' Hc'].
      assert (sq' = sq) by lia. subst sq'.
      specialize (Hc' (proj2 (iA2 s HI _ _ Ht))). inversion Hc'; subst. eauto.
    - subst e. cbn in Hle. destruct (TB _ _ Ht _ Hin) as [Hle' Hn]. assert (sq' = sq) by lia. subst.
      specialize (Hn eq_refl). discriminate. }
  destruct Hshape as [b' [E Hin]]. subst e.
  unfold do_recover. fold (best_of s vis). rewrite He.
  unfold lookup_now, disk_lookup, disk_lookup2. cbn [kmem kkeep kidx kdisk idx_get]. rewrite (on_disk_in _ _ _ _ Hin). reflexivity.
Qed.

(* a logged delete, if it is the latest submission, wins too: the key reads as a miss *)
Theorem recovery_honours_logged_delete c s vis sq :
  KInv c s -> TInv s -> ktop s = Some (None, sq) -> In sq (ktlog s) ->
  lookup_now (do_recover c s vis) = None.
Proof.
  intros [HI _ _ _] [TA TB] Ht Hl.
  unfold do_recover. fold (best_of s vis).
  destruct (best_of s vis) as [[sq' v' b'|sq']|] eqn:He; try reflexivity.
  exfalso. unfold best_of in He.
  destruct (best_tomb_max _ _ _ He) as [_ H2]. specialize (H2 _ Hl). cbn in H2.
  destruct (best_tomb_in _ _ _ He) as [Hc|[sq2 [E _]]]; [|discriminate].
  destruct (best_copy_in _ _ _ Hc) as [Hn|[v2 [sq2 [b2 [E Hin]]]]]; [discriminate|].
  injection E as E1 E2 E3. subst sq2 v2 b2.
  unfold visible in Hin. apply filter_In in Hin. destruct Hin as [Hin _].
  destruct (iB1 s HI _ _ Ht _ _ (in_claims_disk s _ _ _ Hin)) as [Hle Hc'].
  assert (Heq : sq' = sq) by lia. rewrite Heq in Hc'. specialize (Hc' (proj2 (iA2 s HI _ _ Ht))). discriminate.
Qed.

(* whatever a recovered store answers - after a crash at any reachable state, with any part of the device visible
   to the scan - is a version that was really written for the key *)
Lemma disk_lookup_in_dvers s v : disk_lookup s = Some v -> In v (dvers s).
Proof.
  intros Hl. apply in_dvers.
  unfold disk_lookup, disk_lookup2 in Hl. destruct (kkeep s) as [vk|] eqn:Hk; cbn in Hl.
  - inversion Hl; subst; auto.
  - destruct (idx_get (kidx s)) as [[[sq0 v0] b0]|] eqn:Hg; cbn in Hl; [|discriminate].
    destruct (on_disk (kdisk s) v0 sq0 b0) eqn:Ho; cbn in Hl; inversion Hl; subst.
    right; right; right; left. exists sq0, b0. apply on_disk_in_rev; auto.
Qed.

Theorem recovery_serves_written c l vis v :
  lookup_now (do_recover c (krun c init_k l) vis) = Some v -> In v (ksubs (krun c init_k l)).
Proof.
  intros Hl. pose proof (vinv_recover c _ vis (vinv_run c l init_k vinv_init)) as HV.
  change (ksubs (krun c init_k l)) with (ksubs (do_recover c (krun c init_k l) vis)).
  apply (vD _ HV). apply disk_lookup_in_dvers. exact Hl.
Qed.

Lemma tinv_close c s b : bug_rr c = false -> KInv c s -> TInv s -> TInv (do_close c s b).
Proof.
  intros Hrr HK HT. unfold do_close, drain_all. apply tinv_drain; auto.
  - destruct (foc c && negb (woi c)); auto. apply kinv_evict; auto.
  - destruct (foc c && negb (woi c)); auto. apply tinv_evict; auto.
Qed.

(* C15 in full: what memory held at a graceful close is what the reopened store serves *)
Theorem close_reopen_serves_resident c l b v lo a vis :
  bug_rr c = false -> run_ok c init_k l -> foc c = true -> woi c = false -> accepts c = true ->
  kmem (krun c init_k l) = Some (v, lo, a) -> lo <> LInMem -> a <> Young ->
  (forall x, In x (kdisk (do_close c (krun c init_k l) b)) -> In x vis) ->
  lookup_now (do_recover c (do_close c (krun c init_k l) b) vis) = Some v.
Proof.
  intros Hrr Hok Hf Hw Ha Hm Hl Hy Hvis.
  assert (HK : KInv c (krun c init_k l)) by (apply kinv_run; auto; apply kinv_init).
  assert (HT : TInv (krun c init_k l)) by (apply tinv_run; auto; [apply kinv_init|apply tinv_init]).
  destruct (close_persists c _ b v lo a Hrr HK Hf Hw Ha Hm Hl Hy) as [sq [_ [_ [_ [_ [Hd Ht]]]]]].
  eapply recovery_serves_latest; eauto.
  - apply kinv_close; auto.
  - apply tinv_close; auto.
Qed.
