From Coq Require Import Extraction ExtrOcamlBasic List NArith.
From FV Require Import Mem.Linear.
Extraction Language OCaml.
Extraction "lin_model.ml" check read_ok.
