From Coq Require Import Extraction ExtrOcamlBasic List NArith.
From FV Require Import Hybrid.Collide.
Extraction Language OCaml.
Extraction "col_model.ml" init_c c_step c_run c_load_result.
