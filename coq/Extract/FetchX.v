From Coq Require Import Extraction ExtrOcamlBasic List NArith.
From FV Require Import Fetch.Fetch.
Extraction Language OCaml.
Extraction "fetch_model.ml" init_f fstep live result_of mlookup.
