From Coq Require Import Extraction ExtrOcamlBasic List NArith.
From FV Require Import Hybrid.Engine.
Extraction Language OCaml.
Extraction "hyb_model.ml" init_k kstep krun lookup_now disk_lookup2 do_close do_recover.
