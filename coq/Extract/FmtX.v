From Coq Require Import Extraction ExtrOcamlBasic List NArith.
From FV Require Import Disk.Codec Disk.Tombstone Disk.Splitter Disk.Scan Disk.BlobIndex.
Extraction Language OCaml.
Extraction "fmt_model.ml"
  encode_le decode_int encode_bool decode_bool encode_vec decode_vec decode_string
  write_header read_header serialize buffer_push align_up
  topen tappend fresh_device
  Splitter.split init_ctx
  bidx_page bidx_read
  Scan.recover_block Scan.rd Scan.written
  N.add N.mul N.div N.modulo N.of_nat N.to_nat N.ltb N.eqb.
