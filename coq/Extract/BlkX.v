From Coq Require Import Extraction ExtrOcamlBasic List NArith.
From FV Require Import Disk.BlockMgr.
Extraction Language OCaml.
Extraction "blk_model.ml" init_b bstep brun.
