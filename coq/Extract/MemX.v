(* Extraction of the memory-cache models (ExtrOcamlBasic only; N, nat, positive stay
   the extracted inductive types). *)
From Coq Require Import Extraction ExtrOcamlBasic List NArith.
From FV Require Import Mem.Shard Mem.Cache Mem.Algo Mem.Concrete.
Extraction Language OCaml.
Extraction "mem_model.ml"
  init_cache cstep cusage centries shard_of
  init_shard cstep1 init_lru init_sieve init_s3 init_lfu
  get_rec get_ref indexed lookup hlookup
  N.add N.mul N.div N.modulo N.of_nat N.to_nat.
