(* List lemmas shared by the models' proofs. *)
From Coq Require Import List NArith Bool Arith Lia.
Import ListNotations.

Lemma nth_app_left {A} (l l' : list A) d i : (i < length l)%nat -> nth i (l ++ l') d = nth i l d.
Proof. intros H. apply app_nth1. exact H. Qed.

Lemma nth_app_last {A} (l : list A) x d : nth (length l) (l ++ [x]) d = x.
Proof. rewrite app_nth2 by lia. rewrite Nat.sub_diag. reflexivity. Qed.

Lemma NoDup_map_inj_pair {A B} (l : list (A * B)) a b b' :
  NoDup (map fst l) -> In (a, b) l -> In (a, b') l -> b = b'.
Proof.
  induction l as [|[x y] l IH]; simpl; intros Hnd H1 H2; [contradiction|].
  inversion Hnd as [|? ? Hnot Hnd']; subst.
  destruct H1 as [H1|H1], H2 as [H2|H2].
  - congruence.
  - inversion H1; subst. exfalso. apply Hnot. apply in_map_iff. exists (a, b'). auto.
  - inversion H2; subst. exfalso. apply Hnot. apply in_map_iff. exists (a, b). auto.
  - eauto.
Qed.

Lemma NoDup_map_inj_pair_snd {A B} (l : list (A * B)) a a' b :
  NoDup (map snd l) -> In (a, b) l -> In (a', b) l -> a = a'.
Proof.
  induction l as [|[x y] l IH]; simpl; intros Hnd H1 H2; [contradiction|].
  inversion Hnd as [|? ? Hnot Hnd']; subst.
  destruct H1 as [H1|H1], H2 as [H2|H2].
  - congruence.
  - inversion H1; subst. exfalso. apply Hnot. apply in_map_iff. exists (a', b). auto.
  - inversion H2; subst. exfalso. apply Hnot. apply in_map_iff. exists (a, b). auto.
  - eauto.
Qed.
