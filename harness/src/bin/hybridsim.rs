//! hybridsim: scripted histories on a real HybridCache (memory + block engine on an FsDevice in a scratch
//! directory) behind an I/O engine wrapper that logs every device write.  Versioned values, both policies,
//! crash images built from prefixes of the write log, page faults, restarts.
//!
//! usage: hybridsim <script-file>     (one or more scripts, each starting with a `cfg` line)

use std::{
    collections::{BTreeMap, HashSet},
    fmt::Debug,
    path::{Path, PathBuf},
    sync::{
        Arc,
        atomic::{AtomicBool, AtomicUsize, Ordering},
    },
    time::Duration,
};

use foyer::{
    BlockEngineConfig, DeviceBuilder, FifoConfig, FsDeviceBuilder, HybridCache, HybridCacheBuilder, HybridCachePolicy,
    HybridCacheProperties, IoEngine, IoEngineConfig, IoHandle, LfuConfig, Load, Location, LruConfig, PsyncIoEngineConfig,
    RecoverMode, S3FifoConfig, SieveConfig, StorageFilter,
};
use foyer::{StorageFilterCondition, StorageFilterResult, Statistics};

#[derive(Debug)]
struct AlwaysThrottle;
impl StorageFilterCondition for AlwaysThrottle {
    fn filter(&self, _: &Arc<Statistics>, _: u64, _: usize) -> StorageFilterResult {
        StorageFilterResult::Throttled(Duration::from_millis(1))
    }
}
use foyer_storage::{
    test_utils::{Biased, Switch},
    verif::{BlobIndexReader, IoB, IoBuf, IoBufMut, IoEngineBuildContext, Partition},
};
use futures_util::FutureExt;
use parking_lot::Mutex;

const PAGE: usize = 4096;

struct WriteRec {
    part: u32,
    off: u64,
    data: Vec<u8>,
    done: AtomicBool,
}

struct Shared {
    log: Mutex<Vec<Arc<WriteRec>>>,
    scanned: AtomicUsize,
    dumped: AtomicUsize,
    scanned_p: AtomicUsize,
    seen_p: Mutex<HashSet<(u64, u64, u32)>>,
    seen: Mutex<HashSet<(u64, u64)>>,
    /// `iogate`: device writes issued while the gate is shut wait until `ioopen`
    gate: tokio::sync::watch::Sender<bool>,
    /// `rgate` / `ropen`: the same for device reads
    rgate: tokio::sync::watch::Sender<bool>,
    /// reads caught by the read gate are released when this generation changes (`ropen`); `rpass` lets later reads
    /// through while the caught ones stay held
    rrel: tokio::sync::watch::Sender<u64>,
    /// `iogate hash=H seq=S`: while set, the write gate catches only index pages of `isize` bytes that list (H, S)
    gate_only: Mutex<Option<(u64, u64, usize)>>,
    /// `lhold` / `lunhold`: disk loads wait while held
    lholder: foyer_storage::test_utils::Holder,
    /// `lazygof`: get_or_fetch futures created (registered) but not polled until `joinlazy`
    lazy: Mutex<Vec<(u64, std::pin::Pin<Box<dyn std::future::Future<Output = String> + Send>>)>>,
    /// `keep`: entry handles held by the "application" until `unkeep`
    kept: Mutex<Vec<Box<dyn std::any::Any + Send>>>,
    /// `bget`: lookups running in the background, joined by `join`
    bg: Mutex<Vec<(u64, tokio::task::JoinHandle<String>)>>,
}
impl Default for Shared {
    fn default() -> Self {
        Self {
            log: Default::default(),
            scanned: Default::default(),
            dumped: Default::default(),
            scanned_p: Default::default(),
            seen_p: Default::default(),
            seen: Default::default(),
            gate: tokio::sync::watch::channel(false).0,
            rgate: tokio::sync::watch::channel(false).0,
            rrel: tokio::sync::watch::channel(0).0,
            gate_only: Default::default(),
            lholder: Default::default(),
            kept: Default::default(),
            lazy: Default::default(),
            bg: Default::default(),
        }
    }
}

struct LogIoEngine {
    inner: Arc<dyn IoEngine>,
    sh: Arc<Shared>,
}
impl Debug for LogIoEngine {
    fn fmt(&self, f: &mut std::fmt::Formatter<'_>) -> std::fmt::Result {
        f.write_str("LogIoEngine")
    }
}
impl IoEngine for LogIoEngine {
    fn read(&self, buf: Box<dyn IoBufMut>, partition: &dyn Partition, offset: u64) -> IoHandle {
        if !*self.sh.rgate.borrow() {
            return self.inner.read(buf, partition, offset);
        }
        // read gate shut: the read reaches the device only after `ropen`
        let (raw, base) = partition.translate(0);
        let owned = OwnedPartition {
            id: partition.id(),
            size: partition.size(),
            raw: raw.0,
            base,
            statistics: partition.statistics().clone(),
        };
        let mut gate = self.sh.rrel.subscribe();
        let caught = *gate.borrow_and_update();
        let inner = self.inner.clone();
        let fut = async move {
            while *gate.borrow_and_update() == caught {
                if gate.changed().await.is_err() {
                    break;
                }
            }
            let r: (Box<dyn IoB>, foyer::Result<()>) = inner.read(buf, &owned, offset).await;
            r
        }
        .boxed();
        IoHandle::from(fut)
    }
    fn write(&self, buf: Box<dyn IoBuf>, partition: &dyn Partition, offset: u64) -> IoHandle {
        let rec = Arc::new(WriteRec {
            part: partition.id(),
            off: offset,
            data: buf.to_vec(),
            done: AtomicBool::new(false),
        });
        let selective_pass = match *self.sh.gate_only.lock() {
            Some((h, sq, isize)) => {
                !(rec.data.len() == isize
                    && BlobIndexReader::read(&rec.data)
                        .map(|idx| idx.iter().any(|i| i.hash == h && i.sequence == sq))
                        .unwrap_or(false))
            }
            None => false,
        };
        if !*self.sh.gate.borrow() || selective_pass {
            self.sh.log.lock().push(rec.clone());
            let h = self.inner.write(buf, partition, offset);
            let fut = async move {
                let r: (Box<dyn IoB>, foyer::Result<()>) = h.await;
                rec.done.store(true, Ordering::SeqCst);
                r
            }
            .boxed();
            return IoHandle::from(fut);
        }
        // gate shut: the write reaches the device (and the write log) only after `ioopen`
        let (raw, base) = partition.translate(0);
        let owned = OwnedPartition {
            id: partition.id(),
            size: partition.size(),
            raw: raw.0,
            base,
            statistics: partition.statistics().clone(),
        };
        let mut gate = self.sh.gate.subscribe();
        let sh = self.sh.clone();
        let inner = self.inner.clone();
        let fut = async move {
            while *gate.borrow_and_update() {
                if gate.changed().await.is_err() {
                    break;
                }
            }
            sh.log.lock().push(rec.clone());
            let r: (Box<dyn IoB>, foyer::Result<()>) = inner.write(buf, &owned, offset).await;
            rec.done.store(true, Ordering::SeqCst);
            r
        }
        .boxed();
        IoHandle::from(fut)
    }
}

struct OwnedPartition {
    id: u32,
    size: usize,
    raw: std::os::fd::RawFd,
    base: u64,
    statistics: Arc<foyer_storage::Statistics>,
}
impl Debug for OwnedPartition {
    fn fmt(&self, f: &mut std::fmt::Formatter<'_>) -> std::fmt::Result {
        write!(f, "OwnedPartition({})", self.id)
    }
}
impl Partition for OwnedPartition {
    fn id(&self) -> u32 {
        self.id
    }
    fn size(&self) -> usize {
        self.size
    }
    fn translate(&self, address: u64) -> (foyer_storage::RawFile, u64) {
        (foyer_storage::RawFile(self.raw), self.base + address)
    }
    fn statistics(&self) -> &Arc<foyer_storage::Statistics> {
        &self.statistics
    }
}

struct LogIoEngineConfig {
    sh: Arc<Shared>,
}
impl Debug for LogIoEngineConfig {
    fn fmt(&self, f: &mut std::fmt::Formatter<'_>) -> std::fmt::Result {
        f.write_str("LogIoEngineConfig")
    }
}
impl IoEngineConfig for LogIoEngineConfig {
    fn build(
        self: Box<Self>,
        ctx: IoEngineBuildContext,
    ) -> futures_util::future::BoxFuture<'static, foyer::Result<Arc<dyn IoEngine>>> {
        async move {
            let inner = PsyncIoEngineConfig::new().boxed().build(ctx).await?;
            Ok(Arc::new(LogIoEngine { inner, sh: self.sh }) as Arc<dyn IoEngine>)
        }
        .boxed()
    }
}

/// `hashmod=m` (cfg line): every key hashes to `key % m`, so distinct keys collide on the full 64-bit hash; 0 = identity.
static HASH_MOD: std::sync::atomic::AtomicU64 = std::sync::atomic::AtomicU64::new(0);

#[derive(Debug, Default, Clone)]
struct SimHasher {
    state: u64,
}
impl std::hash::Hasher for SimHasher {
    fn finish(&self) -> u64 {
        match HASH_MOD.load(std::sync::atomic::Ordering::Relaxed) {
            0 => self.state,
            m => self.state % m,
        }
    }
    fn write(&mut self, bytes: &[u8]) {
        for byte in bytes {
            self.state = (self.state << 8) + *byte as u64;
        }
    }
    fn write_u64(&mut self, i: u64) {
        self.state = i;
    }
}
impl std::hash::BuildHasher for SimHasher {
    type Hasher = SimHasher;
    fn build_hasher(&self) -> SimHasher {
        SimHasher::default()
    }
}

type H = HybridCache<u64, Vec<u8>, SimHasher>;

fn kvs(line: &str) -> BTreeMap<String, String> {
    line.split_whitespace()
        .filter_map(|t| t.split_once('=').map(|(a, b)| (a.to_string(), b.to_string())))
        .collect()
}
fn geti(kv: &BTreeMap<String, String>, k: &str) -> u64 {
    kv.get(k).unwrap_or_else(|| panic!("missing {k}")).parse().unwrap()
}
fn geti_d(kv: &BTreeMap<String, String>, k: &str, d: u64) -> u64 {
    kv.get(k).map(|v| v.parse().unwrap()).unwrap_or(d)
}
fn gets_d<'a>(kv: &'a BTreeMap<String, String>, k: &str, d: &'a str) -> &'a str {
    kv.get(k).map(|s| s.as_str()).unwrap_or(d)
}

fn mkval(key: u64, ver: u64, size: usize) -> Vec<u8> {
    let size = size.max(16);
    let mut v = vec![(ver as u8) ^ 0x5a; size];
    v[..8].copy_from_slice(&key.to_le_bytes());
    v[8..16].copy_from_slice(&ver.to_le_bytes());
    v
}
fn show(v: &[u8]) -> String {
    if v.len() < 16 {
        return format!("garbage:{}", v.len());
    }
    let key = u64::from_le_bytes(v[..8].try_into().unwrap());
    let ver = u64::from_le_bytes(v[8..16].try_into().unwrap());
    let ok = v[16..].iter().all(|b| *b == (ver as u8) ^ 0x5a);
    format!("{}:{}:{}{}", key, ver, v.len(), if ok { "" } else { ":CORRUPT" })
}

#[derive(Clone)]
struct Cfg {
    kv: BTreeMap<String, String>,
}

async fn open(dir: &Path, cfg: &Cfg, sh: Arc<Shared>, switch: Switch) -> foyer::Result<H> {
    let kv = &cfg.kv;
    HASH_MOD.store(geti_d(kv, "hashmod", 0), std::sync::atomic::Ordering::Relaxed);
    let block = geti_d(kv, "block", 65536) as usize;
    let blocks = geti_d(kv, "blocks", 8) as usize;
    let tomb = geti_d(kv, "tomb", 0) == 1;
    // the tombstone log takes ceil(capacity / PAGE / 256) pages out of the device
    let mut capacity = block * blocks;
    if tomb {
        let pages = (capacity / PAGE).div_ceil(256).max(1);
        capacity += (pages + 1) * PAGE;
    }
    let device = FsDeviceBuilder::new(dir).with_capacity(capacity).build()?;
    let mut eng = BlockEngineConfig::new(device)
        .with_block_size(block)
        .with_flushers(geti_d(kv, "flushers", 1) as usize)
        .with_reclaimers(geti_d(kv, "reclaimers", 1) as usize)
        .with_clean_block_threshold(geti_d(kv, "clean", 1) as usize)
        .with_buffer_pool_size(geti_d(kv, "buffer", 256 * 1024) as usize)
        .with_blob_index_size(geti_d(kv, "index", 4096) as usize)
        .with_submit_queue_size_threshold(geti_d(kv, "submit", 16 * 1024 * 1024) as usize)
        .with_recover_concurrency(2)
        .with_tombstone_log(tomb)
        .with_flush_switch(switch)
        .with_load_holder(sh.lholder.clone());
    match gets_d(kv, "admit", "all") {
        "all" => {}
        "none" => eng = eng.with_admission_filter(StorageFilter::new().with_condition(Biased::new([]))),
        "throttle" => eng = eng.with_admission_filter(StorageFilter::new().with_condition(AlwaysThrottle)),
        s if s.starts_with("size<") => {
            // admitted iff the estimated entry size is below the bound: the verdict differs between versions of a key
            let n: usize = s[5..].parse().unwrap();
            eng = eng.with_admission_filter(StorageFilter::new().with_condition(foyer::EstimatedSize::new(..n)));
        }
        s => {
            let keys: Vec<u64> = s.split(',').filter(|x| !x.is_empty()).map(|x| x.parse().unwrap()).collect();
            eng = eng.with_admission_filter(StorageFilter::new().with_condition(Biased::new(keys)));
        }
    }
    match gets_d(kv, "reinsert", "none") {
        "none" => {}
        s => {
            let keys: Vec<u64> = s.split(',').filter(|x| !x.is_empty()).map(|x| x.parse().unwrap()).collect();
            eng = eng.with_reinsertion_filter(StorageFilter::new().with_condition(Biased::new(keys)));
        }
    }
    let policy = if gets_d(kv, "policy", "woe") == "woi" {
        HybridCachePolicy::WriteOnInsertion
    } else {
        HybridCachePolicy::WriteOnEviction
    };
    let b = HybridCacheBuilder::new()
        .with_name("verif")
        .with_policy(policy)
        .with_flush_on_close(geti_d(kv, "foc", 1) == 1)
        .memory(geti_d(kv, "mem", 4) as usize)
        .with_shards(1)
        .with_hash_builder(SimHasher::default());
    let b = match gets_d(kv, "algo", "fifo") {
        "lru" => b.with_eviction_config(LruConfig::default()),
        "lfu" => b.with_eviction_config(LfuConfig::default()),
        "s3fifo" => b.with_eviction_config(S3FifoConfig::default()),
        "sieve" => b.with_eviction_config(SieveConfig),
        _ => b.with_eviction_config(FifoConfig::default()),
    };
    b.storage()
        .with_io_engine_config(Box::new(LogIoEngineConfig { sh }) as Box<dyn IoEngineConfig>)
        .with_engine_config(eng)
        .with_recover_mode(RecoverMode::Quiet)
        .build()
        .await
}

/// new entry writes since the last call: (hash, sequence) pairs that appear in sealed index pages
fn entry_writes(sh: &Shared, index_size: usize) -> (Vec<(u64, u64)>, usize) {
    let log = sh.log.lock();
    let from = sh.scanned.load(Ordering::SeqCst);
    let mut out = vec![];
    let mut seen = sh.seen.lock();
    for rec in log[from..].iter() {
        if rec.data.len() == index_size {
            if let Some(idx) = BlobIndexReader::read(&rec.data) {
                for i in idx {
                    if seen.insert((i.hash, i.sequence)) {
                        out.push((i.hash, i.sequence));
                    }
                }
            }
        }
    }
    let n = log.len() - from;
    sh.scanned.store(log.len(), Ordering::SeqCst);
    (out, n)
}

fn part_sizes(h: &H) -> Vec<usize> {
    let d = h.storage().device();
    (0..d.partitions()).map(|i| d.partition(i as u32).size()).collect()
}

fn build_image(dir: &Path, sizes: &[usize], log: &[Arc<WriteRec>], cut: usize, tear: usize) {
    let _ = std::fs::remove_dir_all(dir);
    std::fs::create_dir_all(dir).unwrap();
    let mut files: Vec<Vec<u8>> = sizes.iter().map(|s| vec![0u8; *s]).collect();
    for (n, rec) in log.iter().enumerate() {
        if n > cut {
            break;
        }
        let data: &[u8] = if n == cut {
            // the in-flight write: only its first `tear` pages reached the device
            &rec.data[..(tear * PAGE).min(rec.data.len())]
        } else {
            &rec.data
        };
        let f = &mut files[rec.part as usize];
        let off = rec.off as usize;
        f[off..off + data.len()].copy_from_slice(data);
    }
    for (i, f) in files.iter().enumerate() {
        std::fs::write(dir.join(format!("foyer-storage-direct-fs-{i:08}")), f).unwrap();
    }
}

async fn sload(h: &H, k: u64) -> String {
    match h.storage().load(&k).await {
        Ok(Load::Entry { value, .. }) => format!("d{}", show(&value)),
        Ok(Load::Piece { piece, .. }) => format!("q{}", show(piece.value())),
        Ok(Load::Miss) => "-".into(),
        Ok(Load::Throttled) => "throttled".into(),
        Err(e) => format!("err:{:?}", e.kind()),
    }
}

fn main() {
    std::panic::set_hook(Box::new(|_| {}));
    let path = std::env::args().nth(1).expect("script");
    let text = std::fs::read_to_string(path).unwrap();
    let all: Vec<&str> = text
        .lines()
        .filter(|l| !l.trim().is_empty() && !l.starts_with('#'))
        .collect();
    let mut i = 0;
    let mut n = 0;
    while i < all.len() {
        let mut j = i + 1;
        while j < all.len() && !all[j].starts_with("cfg ") {
            j += 1;
        }
        n += 1;
        run_script(&all[i..j], n);
        i = j;
    }
}

fn scratch() -> PathBuf {
    let base = if Path::new("/dev/shm").is_dir() {
        PathBuf::from("/dev/shm")
    } else {
        std::env::temp_dir()
    };
    base
}

fn run_script(script: &[&str], n: usize) {
    let cfgline = script[0];
    let cfg = Cfg { kv: kvs(cfgline) };
    let univ = geti_d(&cfg.kv, "univ", 4);
    let index_size = geti_d(&cfg.kv, "index", 4096) as usize;
    let settle = geti_d(&cfg.kv, "settle", 0);
    let _ = foyer_storage::verif::take_block_events();
    let dir = scratch().join(format!("verif-hs-{}-{}", std::process::id(), n));
    let crashdir = scratch().join(format!("verif-hs-{}-{}-crash", std::process::id(), n));
    let _ = std::fs::remove_dir_all(&dir);
    std::fs::create_dir_all(&dir).unwrap();
    let rt = tokio::runtime::Builder::new_multi_thread()
        .worker_threads(2)
        .enable_all()
        .build()
        .unwrap();
    let sh = Arc::new(Shared::default());
    let switch = Switch::default();
    println!("{cfgline}");
    let tmo = Duration::from_secs(geti_d(&cfg.kv, "timeout", 10));
    let mut h: Option<H> = match rt.block_on(async { tokio::time::timeout(tmo, open(&dir, &cfg, sh.clone(), switch.clone())).await }) {
        Ok(Ok(h)) => Some(h),
        Ok(Err(e)) => {
            println!("open | err:{:?}", e.kind());
            return;
        }
        Err(_) => {
            println!("open | HANG");
            return;
        }
    };
    let mut sizes = part_sizes(h.as_ref().unwrap());
    let fetched = Arc::new(AtomicUsize::new(0));

    for line in &script[1..] {
        let optext = line.split('|').next().unwrap().trim().to_string();
        let kv = kvs(&optext);
        let name = optext.split_whitespace().next().unwrap().to_string();
        let hh = h.clone();
        let res: Result<String, ()> = std::panic::catch_unwind(std::panic::AssertUnwindSafe(|| {
            rt.block_on(async {
                let fut = async {
                    match name.as_str() {
                        "ins" => {
                            let (k, ver, size) = (geti(&kv, "k"), geti(&kv, "ver"), geti_d(&kv, "size", 64) as usize);
                            let props = match gets_d(&kv, "loc", "default") {
                                "inmem" => HybridCacheProperties::default().with_location(Location::InMem),
                                "ondisk" => HybridCacheProperties::default().with_location(Location::OnDisk),
                                _ => HybridCacheProperties::default(),
                            };
                            let hy = hh.as_ref().unwrap();
                            if kv.contains_key("loc") {
                                hy.insert_with_properties(k, mkval(k, ver, size), props);
                            } else {
                                hy.insert(k, mkval(k, ver, size));
                            }
                            "ok".to_string()
                        }
                        "sins" => {
                            // storage writer: disk only, forced
                            let (k, ver, size) = (geti(&kv, "k"), geti(&kv, "ver"), geti_d(&kv, "size", 64) as usize);
                            let r = hh.as_ref().unwrap().storage_writer(k).force().insert(mkval(k, ver, size));
                            if r.is_some() { "ok".into() } else { "none".into() }
                        }
                        "sinskeep" => {
                            // storage writer insert whose returned entry handle the application keeps (until `unkeep`)
                            let (k, ver, size) = (geti(&kv, "k"), geti(&kv, "ver"), geti_d(&kv, "size", 64) as usize);
                            match hh.as_ref().unwrap().storage_writer(k).force().insert(mkval(k, ver, size)) {
                                Some(e) => {
                                    sh.kept.lock().push(Box::new(e));
                                    "ok".into()
                                }
                                None => "none".into(),
                            }
                        }
                        "get" => {
                            let k = geti(&kv, "k");
                            let r = match hh.as_ref().unwrap().get(&k).await {
                                Ok(Some(e)) => format!("hit:{}:{:?}", show(e.value()), e.source()),
                                Ok(None) => "miss".into(),
                                Err(e) => format!("err:{:?}", e.kind()),
                            };
                            // `settle`: let the fetch task that served the lookup finish and drop its handle, so that
                            // what the next step sees (an entry still referenced cannot be evicted) does not depend on timing
                            if settle > 0 {
                                tokio::time::sleep(Duration::from_millis(settle)).await;
                            }
                            r
                        }
                        "gof" => {
                            let (k, ver, size) = (geti(&kv, "k"), geti(&kv, "ver"), geti_d(&kv, "size", 64) as usize);
                            let f = fetched.clone();
                            let before = f.load(Ordering::SeqCst);
                            let r = hh
                                .as_ref()
                                .unwrap()
                                .get_or_fetch(&k, move || async move {
                                    f.fetch_add(1, Ordering::SeqCst);
                                    Ok::<_, foyer::Error>(mkval(k, ver, size))
                                })
                                .await;
                            let ran = fetched.load(Ordering::SeqCst) - before;
                            let r = match r {
                                Ok(e) => format!("hit:{}:{:?}:fetched={}", show(e.value()), e.source(), ran),
                                Err(e) => format!("err:{:?}", e.kind()),
                            };
                            if settle > 0 {
                                tokio::time::sleep(Duration::from_millis(settle)).await;
                            }
                            r
                        }
                        "lazygof" => {
                            // a get_or_fetch whose future is created now (the lookup and the in-flight registration
                            // happen at creation) but polled only at `joinlazy`; its origin never answers
                            let k = geti(&kv, "k");
                            let fut = hh.as_ref().unwrap().get_or_fetch(&k, move || async move {
                                std::future::pending::<()>().await;
                                Ok::<_, foyer::Error>(mkval(k, 0, 16))
                            });
                            let fut = async move {
                                match fut.await {
                                    Ok(e) => format!("hit:{}:{:?}", show(e.value()), e.source()),
                                    Err(e) => format!("err:{:?}", e.kind()),
                                }
                            };
                            sh.lazy.lock().push((k, Box::pin(fut)));
                            "ok".into()
                        }
                        "joinlazy" => {
                            let fs: Vec<_> = sh.lazy.lock().drain(..).collect();
                            let mut out = vec![];
                            for (k, f) in fs {
                                out.push(format!("{k}={}", f.await));
                            }
                            format!("lazy[{}]", out.join(","))
                        }
                        "rm" => {
                            hh.as_ref().unwrap().remove(&geti(&kv, "k"));
                            "ok".into()
                        }
                        "clear" => match hh.as_ref().unwrap().clear().await {
                            Ok(()) => "ok".into(),
                            Err(e) => format!("err:{:?}", e.kind()),
                        },
                        "wait" => {
                            hh.as_ref().unwrap().storage().wait().await;
                            "ok".into()
                        }
                        "memevict" => {
                            // an entry that is still referenced (a fetch task that has not yet dropped its handle) cannot
                            // be evicted: with `settle` set, repeat until memory is empty so that the outcome is not a
                            // matter of timing
                            let hy = hh.as_ref().unwrap();
                            hy.memory().evict_all();
                            let mut n = 0;
                            while settle > 0 && hy.memory().usage() > 0 && n < 200 {
                                tokio::time::sleep(Duration::from_millis(1)).await;
                                hy.memory().evict_all();
                                n += 1;
                            }
                            "ok".into()
                        }
                        "hold" => {
                            switch.on();
                            "ok".into()
                        }
                        "unhold" => {
                            switch.off();
                            "ok".into()
                        }
                        "sload" => sload(hh.as_ref().unwrap(), geti(&kv, "k")).await,
                        "lhold" => {
                            sh.lholder.hold();
                            "ok".into()
                        }
                        "lunhold" => {
                            sh.lholder.unhold();
                            "ok".into()
                        }
                        "iogate" => {
                            *sh.gate_only.lock() = kv.get("hash").map(|_| (geti(&kv, "hash"), geti(&kv, "seq"), index_size));
                            let _ = sh.gate.send_replace(true);
                            "ok".into()
                        }
                        "rgate" => {
                            let _ = sh.rgate.send_replace(true);
                            "ok".into()
                        }
                        "ropen" => {
                            let _ = sh.rgate.send_replace(false);
                            sh.rrel.send_modify(|g| *g += 1);
                            "ok".into()
                        }
                        "rpass" => {
                            // later reads pass; the reads already caught stay held until `ropen`
                            let _ = sh.rgate.send_replace(false);
                            "ok".into()
                        }
                        "ioopen" => {
                            let _ = sh.gate.send_replace(false);
                            "ok".into()
                        }
                        "keep" => {
                            // a lookup whose entry handle stays alive (an application holding on to a cached value)
                            let k = geti(&kv, "k");
                            match hh.as_ref().unwrap().get(&k).await {
                                Ok(Some(e)) => {
                                    let r = format!("hit:{}:{:?}", show(e.value()), e.source());
                                    sh.kept.lock().push(Box::new(e));
                                    r
                                }
                                Ok(None) => "miss".into(),
                                Err(e) => format!("err:{:?}", e.kind()),
                            }
                        }
                        "unkeep" => {
                            sh.kept.lock().clear();
                            "ok".into()
                        }
                        "bget" => {
                            // a lookup that runs in the background; `join` reports its result
                            let k = geti(&kv, "k");
                            let hy = hh.as_ref().unwrap().clone();
                            let t = tokio::spawn(async move {
                                match hy.get(&k).await {
                                    Ok(Some(e)) => format!("hit:{}:{:?}", show(e.value()), e.source()),
                                    Ok(None) => "miss".into(),
                                    Err(e) => format!("err:{:?}", e.kind()),
                                }
                            });
                            sh.bg.lock().push((k, t));
                            tokio::time::sleep(Duration::from_millis(geti_d(&kv, "ms", 20))).await;
                            "ok".into()
                        }
                        "waitprobe" => {
                            // storage().wait() started in the background: has it returned after `ms` milliseconds?
                            // (with the write gate shut and a write in flight it must not have)
                            let hy = hh.as_ref().unwrap().clone();
                            let t = tokio::spawn(async move {
                                hy.storage().wait().await;
                                "waited".to_string()
                            });
                            tokio::time::sleep(Duration::from_millis(geti_d(&kv, "ms", 100))).await;
                            let done = t.is_finished();
                            sh.bg.lock().push((0, t));
                            format!("returned={}", done as u8)
                        }
                        "bsload" => {
                            // a load straight from the disk store (`HybridCache::storage().load`) in the background
                            let k = geti(&kv, "k");
                            let hy = hh.as_ref().unwrap().clone();
                            let t = tokio::spawn(async move { sload(&hy, k).await });
                            sh.bg.lock().push((k, t));
                            tokio::time::sleep(Duration::from_millis(geti_d(&kv, "ms", 20))).await;
                            "ok".into()
                        }
                        "join" => {
                            let ts: Vec<_> = sh.bg.lock().drain(..).collect();
                            let mut out = vec![];
                            for (k, t) in ts {
                                out.push(format!("{k}={}", t.await.unwrap_or_else(|_| "PANIC".into())));
                            }
                            format!("bg[{}]", out.join(","))
                        }
                        "wlog" => {
                            // the device writes issued since the last `wlog`: partition:offset:length, `z` = a zeroed page
                            let log = sh.log.lock();
                            let from = sh.dumped.load(Ordering::SeqCst);
                            let mut out = vec![];
                            for rec in log[from..].iter() {
                                let z = rec.data.len() == PAGE && rec.data.iter().all(|b| *b == 0);
                                out.push(format!("{}:{}:{}{}", rec.part, rec.off, rec.data.len(), if z { "z" } else { "" }));
                            }
                            sh.dumped.store(log.len(), Ordering::SeqCst);
                            format!("w[{}]", out.join(","))
                        }
                        "ewp" => {
                            // entries listed by index pages written since the last `ewp`: hash:sequence:partition,
                            // each triple once (a reinserted entry shows up again, in another partition)
                            let log = sh.log.lock();
                            let from = sh.scanned_p.load(Ordering::SeqCst);
                            let mut seen = sh.seen_p.lock();
                            let mut out = vec![];
                            for rec in log[from..].iter() {
                                if rec.off == 0 && rec.data.len() == PAGE && rec.data.iter().all(|b| *b == 0) {
                                    // the block was cleaned: what is written to it from now on is a new generation
                                    seen.retain(|(_, _, p)| *p != rec.part);
                                    out.push(format!("Z{}", rec.part));
                                }
                                if rec.data.len() == index_size {
                                    if let Some(idx) = BlobIndexReader::read(&rec.data) {
                                        for i in idx {
                                            if seen.insert((i.hash, i.sequence, rec.part)) {
                                                out.push(format!("{}:{}:{}", i.hash, i.sequence, rec.part));
                                            }
                                        }
                                    }
                                }
                            }
                            sh.scanned_p.store(log.len(), Ordering::SeqCst);
                            format!("e[{}]", out.join(","))
                        }
                        "idxdump" => {
                            // every page-aligned area of the device files that parses as a blob index page:
                            // partition@offset=hash.sequence.offset.len/...  (what a block scan can possibly see)
                            let mut out = vec![];
                            for part in 0..64u32 {
                                let f = dir.join(format!("foyer-storage-direct-fs-{:08}", part));
                                let Ok(data) = std::fs::read(&f) else { break };
                                let mut off = 0;
                                while off + index_size <= data.len() {
                                    if let Some(idx) = BlobIndexReader::read(&data[off..off + index_size]) {
                                        out.push(format!(
                                            "{}@{}={}",
                                            part,
                                            off,
                                            idx.iter()
                                                .map(|i| format!("{}.{}.{}.{}", i.hash, i.sequence, i.offset, i.len))
                                                .collect::<Vec<_>>()
                                                .join("/")
                                        ));
                                    }
                                    off += PAGE;
                                }
                            }
                            format!("idx[{}]", out.join(";"))
                        }
                        "bev" => {
                            // hook H2: the block manager's events since the last `bev`
                            use foyer_storage::verif::BlockEvent as E;
                            let ev = foyer_storage::verif::take_block_events();
                            let out: Vec<String> = ev
                                .iter()
                                .map(|e| match e {
                                    E::Wait => "W".to_string(),
                                    E::Handed(b) => format!("H{b}"),
                                    E::Finished(b) => format!("F{b}"),
                                    E::ReclaimStart(b) => format!("S{b}"),
                                    E::ReclaimDone(b) => format!("D{b}"),
                                })
                                .collect();
                            format!("b[{}]", out.join(","))
                        }
                        "sleep" => {
                            tokio::time::sleep(Duration::from_millis(geti_d(&kv, "ms", 20))).await;
                            "ok".into()
                        }
                        "probe" => {
                            let hy = hh.as_ref().unwrap();
                            let mut out = vec![];
                            for k in 0..univ {
                                let m = match hy.memory().get(&k) {
                                    Some(e) => format!("m{}", show(e.value())),
                                    None => "-".into(),
                                };
                                let d = sload(hy, k).await;
                                out.push(format!("{k}={m}/{d}"));
                            }
                            out.join(",")
                        }
                        "close" => match hh.as_ref().unwrap().close().await {
                            Ok(()) => "ok".into(),
                            Err(e) => format!("err:{:?}", e.kind()),
                        },
                        _ => "SYNC".into(),
                    }
                };
                match tokio::time::timeout(tmo, fut).await {
                    Ok(s) => s,
                    Err(_) => "HANG".to_string(),
                }
            })
        }))
        .map_err(|_| ());
        let mut obs = match res {
            Ok(s) => s,
            Err(()) => "PANIC".to_string(),
        };
        if obs == "SYNC" {
            // actions that replace the cache handle or touch files
            obs = match name.as_str() {
                "reopen" => {
                    // (the script closes first when it wants a graceful restart)
                    h = None;
                    sh.seen.lock().clear();
                    switch.off();
                    let r = std::panic::catch_unwind(std::panic::AssertUnwindSafe(|| {
                        rt.block_on(async { tokio::time::timeout(tmo, open(&dir, &cfg, sh.clone(), switch.clone())).await })
                    }));
                    match r {
                        Ok(Ok(Ok(nh))) => {
                            sizes = part_sizes(&nh);
                            h = Some(nh);
                            "ok".into()
                        }
                        Ok(Ok(Err(e))) => format!("err:{:?}", e.kind()),
                        Ok(Err(_)) => "HANG".into(),
                        Err(_) => "PANIC".into(),
                    }
                }
                "crashprobe" => {
                    // the device as a crash after `cut` completed writes (+ `tear` pages of the next one) would leave it
                    let log: Vec<Arc<WriteRec>> = sh.log.lock().clone();
                    let cut = geti(&kv, "cut") as usize;
                    let tear = geti_d(&kv, "tear", 0) as usize;
                    build_image(&crashdir, &sizes, &log, cut.min(log.len()), tear);
                    let sh2 = Arc::new(Shared::default());
                    let sw2 = Switch::default();
                    let r = std::panic::catch_unwind(std::panic::AssertUnwindSafe(|| {
                        rt.block_on(async {
                            let fut = async {
                                let hy = match open(&crashdir, &cfg, sh2.clone(), sw2.clone()).await {
                                    Ok(h) => h,
                                    Err(e) => return format!("openerr:{:?}", e.kind()),
                                };
                                let mut out = vec![];
                                for k in 0..univ {
                                    out.push(format!("{k}={}", sload(&hy, k).await));
                                }
                                // a reopened store must accept writes
                                let post = {
                                    let k = univ + 1000;
                                    hy.storage_writer(k).force().insert(mkval(k, 1, 64));
                                    match tokio::time::timeout(Duration::from_secs(5), hy.storage().wait()).await {
                                        Ok(()) => "ok",
                                        Err(_) => "HANG",
                                    }
                                };
                                let _ = tokio::time::timeout(Duration::from_secs(5), hy.close()).await;
                                format!("{} post={}", out.join(","), post)
                            };
                            match tokio::time::timeout(Duration::from_secs(30), fut).await {
                                Ok(s) => s,
                                Err(_) => "HANG".to_string(),
                            }
                        })
                    }));
                    let _ = std::fs::remove_dir_all(&crashdir);
                    match r {
                        Ok(s) => format!("writes={} {}", log.len(), s),
                        Err(_) => "PANIC".into(),
                    }
                }
                "crashsweep" => {
                    // every write boundary (and the given page tears of the in-flight write): one line per crash point
                    let log: Vec<Arc<WriteRec>> = sh.log.lock().clone();
                    let tears: Vec<usize> = gets_d(&kv, "tears", "0").split(',').map(|x| x.parse().unwrap()).collect();
                    let step = geti_d(&kv, "step", 1) as usize;
                    let mut cut = 0;
                    while cut <= log.len() {
                        for &tear in tears.iter() {
                            if tear > 0 && (cut >= log.len() || log[cut].data.len() <= tear * PAGE) {
                                continue;
                            }
                            build_image(&crashdir, &sizes, &log, cut, tear);
                            let sh2 = Arc::new(Shared::default());
                            let sw2 = Switch::default();
                            let r = std::panic::catch_unwind(std::panic::AssertUnwindSafe(|| {
                                rt.block_on(async {
                                    let fut = async {
                                        let hy = match open(&crashdir, &cfg, sh2.clone(), sw2.clone()).await {
                                            Ok(h) => h,
                                            Err(e) => return format!("openerr:{:?}", e.kind()),
                                        };
                                        let mut out = vec![];
                                        for k in 0..univ {
                                            out.push(format!("{k}={}", sload(&hy, k).await));
                                        }
                                        let post = {
                                            let k = univ + 1000;
                                            hy.storage_writer(k).force().insert(mkval(k, 1, 64));
                                            match tokio::time::timeout(Duration::from_secs(5), hy.storage().wait()).await {
                                                Ok(()) => "ok",
                                                Err(_) => "HANG",
                                            }
                                        };
                                        let _ = tokio::time::timeout(Duration::from_secs(5), hy.close()).await;
                                        format!("{} post={}", out.join(","), post)
                                    };
                                    match tokio::time::timeout(Duration::from_secs(30), fut).await {
                                        Ok(s) => s,
                                        Err(_) => "HANG".to_string(),
                                    }
                                })
                            }));
                            let s = match r {
                                Ok(s) => s,
                                Err(_) => "PANIC".into(),
                            };
                            println!("crashprobe cut={cut} tear={tear} | r=writes={} {} nw=0 ew= wl={}", log.len(), s, log.len());
                        }
                        cut += step;
                    }
                    let _ = std::fs::remove_dir_all(&crashdir);
                    "ok".into()
                }
                "fault" => {
                    // on a closed store: damage one page of one partition file
                    let part = geti(&kv, "part");
                    let page = geti(&kv, "page") as usize;
                    let f = dir.join(format!("foyer-storage-direct-fs-{part:08}"));
                    let mut data = std::fs::read(&f).unwrap_or_default();
                    let kind = gets_d(&kv, "kind", "zero").to_string();
                    let range = page * PAGE..(page + 1) * PAGE;
                    if range.end <= data.len() {
                        if kind == "zero" {
                            data[range].fill(0);
                        } else if kind == "ff" {
                            data[range].fill(0xff);
                        } else if let Some(bit) = kind.strip_prefix("flip:") {
                            let bit: usize = bit.parse().unwrap();
                            data[page * PAGE + bit / 8] ^= 1 << (bit % 8);
                        } else if let Some(rest) = kind.strip_prefix("swap:") {
                            let (p2, g2) = rest.split_once(':').unwrap();
                            let f2 = dir.join(format!("foyer-storage-direct-fs-{:08}", p2.parse::<u32>().unwrap()));
                            let g2: usize = g2.parse().unwrap();
                            if !f2.exists() || (g2 + 1) * PAGE > std::fs::metadata(&f2).map(|m| m.len() as usize).unwrap_or(0) {
                                // nothing to swap with
                            } else if f2 == f {
                                let a: Vec<u8> = data[range.clone()].to_vec();
                                let b: Vec<u8> = data[g2 * PAGE..(g2 + 1) * PAGE].to_vec();
                                data[range].copy_from_slice(&b);
                                data[g2 * PAGE..(g2 + 1) * PAGE].copy_from_slice(&a);
                            } else {
                                let mut d2 = std::fs::read(&f2).unwrap();
                                let a: Vec<u8> = data[range.clone()].to_vec();
                                let b: Vec<u8> = d2[g2 * PAGE..(g2 + 1) * PAGE].to_vec();
                                data[range].copy_from_slice(&b);
                                d2[g2 * PAGE..(g2 + 1) * PAGE].copy_from_slice(&a);
                                std::fs::write(&f2, d2).unwrap();
                            }
                        }
                        std::fs::write(&f, data).unwrap();
                        "ok".into()
                    } else {
                        "skip".into()
                    }
                }
                "dropcache" => {
                    h = None;
                    "ok".into()
                }
                _ => "unknown".into(),
            };
        }
        let (ew, nw) = entry_writes(&sh, index_size);
        let ew = ew.iter().map(|(h, s)| format!("{h}:{s}")).collect::<Vec<_>>().join(",");
        println!("{optext} | r={obs} nw={nw} ew={ew} wl={}", sh.log.lock().len());
        if obs == "PANIC" || obs == "HANG" {
            break;
        }
    }
    // leave nothing behind
    if let Some(hy) = h.take() {
        let _ = rt.block_on(async { tokio::time::timeout(Duration::from_secs(5), hy.close()).await });
    }
    rt.shutdown_timeout(Duration::from_secs(2));
    let _ = std::fs::remove_dir_all(&dir);
    let _ = std::fs::remove_dir_all(&crashdir);
}
