//! memtrace: runs a script of memory-cache operations on foyer-memory's `Cache` and prints one
//! observation line per operation (see DESIGN.md, Appendix A).
//!
//! usage: memtrace <script-file>      (output on stdout)

use std::{
    collections::BTreeMap,
    hash::{BuildHasher, Hasher},
    panic::{AssertUnwindSafe, catch_unwind},
    sync::Arc,
};

use foyer_common::{
    event::{Event, EventListener},
    properties::Hint,
};
use foyer_memory::{
    Cache, CacheBuilder, CacheEntry, CacheProperties, EvictionConfig, FifoConfig, LfuConfig, LruConfig, Piece, Pipe,
    S3FifoConfig, SieveConfig,
};
use parking_lot::Mutex;

#[derive(Debug, Clone, PartialEq, Eq)]
struct Val {
    v: u64,
    w: usize,
    ph: bool,
}

#[derive(Debug, Clone, Copy)]
struct DivMul {
    div: u64,
    mul: u64,
}

struct DivMulHasher {
    cfg: DivMul,
    state: u64,
}

impl Hasher for DivMulHasher {
    fn finish(&self) -> u64 {
        self.state
    }
    fn write(&mut self, bytes: &[u8]) {
        for b in bytes {
            self.state = (self.state << 8) + *b as u64;
        }
    }
    fn write_u64(&mut self, i: u64) {
        self.state = (i / self.cfg.div).wrapping_mul(self.cfg.mul);
    }
}

impl BuildHasher for DivMul {
    type Hasher = DivMulHasher;
    fn build_hasher(&self) -> DivMulHasher {
        DivMulHasher { cfg: *self, state: 0 }
    }
}

#[derive(Default)]
struct Rec {
    events: Mutex<Vec<(char, u64, u64)>>,
    pipes: Mutex<Vec<(u64, u64)>>,
}

struct Listener(Arc<Rec>);

impl EventListener for Listener {
    type Key = u64;
    type Value = Val;
    fn on_leave(&self, reason: Event, key: &u64, value: &Val) {
        let c = match reason {
            Event::Evict => 'E',
            Event::Replace => 'R',
            Event::Remove => 'M',
            Event::Clear => 'C',
        };
        self.0.events.lock().push((c, *key, value.v));
    }
}

struct RecPipe(Arc<Rec>);

impl std::fmt::Debug for RecPipe {
    fn fmt(&self, f: &mut std::fmt::Formatter<'_>) -> std::fmt::Result {
        f.write_str("RecPipe")
    }
}

impl Pipe for RecPipe {
    type Key = u64;
    type Value = Val;
    type Properties = CacheProperties;
    fn is_enabled(&self) -> bool {
        true
    }
    fn send(&self, piece: Piece<u64, Val, CacheProperties>) {
        self.0.pipes.lock().push((*piece.key(), piece.value().v));
    }
    fn flush(
        &self,
        pieces: Vec<Piece<u64, Val, CacheProperties>>,
    ) -> std::pin::Pin<Box<dyn Future<Output = ()> + Send>> {
        let mut g = self.0.pipes.lock();
        for p in pieces.iter() {
            g.push((*p.key(), p.value().v));
        }
        Box::pin(async {})
    }
}

type C = Cache<u64, Val, DivMul, CacheProperties>;
type E = CacheEntry<u64, Val, DivMul, CacheProperties>;

fn kvs(line: &str) -> BTreeMap<String, String> {
    line.split_whitespace()
        .filter_map(|t| t.split_once('=').map(|(a, b)| (a.to_string(), b.to_string())))
        .collect()
}

fn geti(kv: &BTreeMap<String, String>, k: &str) -> u64 {
    kv.get(k).unwrap_or_else(|| panic!("missing {k}")).parse().unwrap()
}
fn geti_d(kv: &BTreeMap<String, String>, k: &str, d: u64) -> u64 {
    kv.get(k).map(|v| v.parse().unwrap()).unwrap_or(d)
}
fn getf_d(kv: &BTreeMap<String, String>, k: &str, d: f64) -> f64 {
    kv.get(k).map(|v| v.parse().unwrap()).unwrap_or(d)
}

struct CountMinKey(u64);
impl std::hash::Hash for CountMinKey {
    fn hash<H: Hasher>(&self, state: &mut H) {
        state.write_u64(self.0);
    }
}

/// per-row bucket of `hash` in a CountMinSketch<u16> with the given geometry: update a fresh sketch once and
/// read the positions of the non-zero counters from its serialized form.
fn buckets_of(rows: u8, buckets: u32, hash: u64) -> Vec<usize> {
    let mut sk = datasketches::countmin::CountMinSketch::<u16>::new(rows, buckets);
    sk.update(CountMinKey(hash));
    let bytes = sk.serialize();
    // header 16 bytes, total weight 8 bytes, then rows*buckets counters of 8 bytes each
    let base = 16 + 8;
    let mut res = vec![];
    for r in 0..rows as usize {
        let mut found = None;
        for b in 0..buckets as usize {
            let off = base + (r * buckets as usize + b) * 8;
            let v = u64::from_le_bytes(bytes[off..off + 8].try_into().unwrap());
            if v != 0 {
                found = Some(b);
            }
        }
        res.push(found.expect("bucket"));
    }
    res
}

fn derived(algo: &str, cap: u64, kv: &BTreeMap<String, String>) -> (u64, u64) {
    // the code's own expression: (capacity as f64 * ratio) as usize
    let f = |r: f64| (cap as usize as f64 * r) as usize as u64;
    match algo {
        "lru" => (f(getf_d(kv, "hp", 0.9)), 0),
        "s3fifo" => (f(getf_d(kv, "ghost", 1.0)), f(getf_d(kv, "small", 0.1))),
        "lfu" => (f(getf_d(kv, "window", 0.1)), f(getf_d(kv, "protected", 0.8))),
        _ => (0, 0),
    }
}

fn main() {
    // silence the default panic message: panics are observations here
    std::panic::set_hook(Box::new(|_| {}));
    let path = std::env::args().nth(1).expect("script");
    let text = std::fs::read_to_string(path).unwrap();
    let rt = tokio::runtime::Builder::new_current_thread().build().unwrap();
    let _guard = rt.enter();
    let all: Vec<&str> = text
        .lines()
        .filter(|l| !l.trim().is_empty() && !l.starts_with('#'))
        .collect();
    // several scripts per file: each starts with a cfg line
    let mut i = 0;
    while i < all.len() {
        let mut j = i + 1;
        while j < all.len() && !all[j].starts_with("cfg ") {
            j += 1;
        }
        run_script(&all[i..j]);
        i = j;
    }
}

fn run_script(script: &[&str]) {
    let mut lines = script.iter().copied();
    let cfgline = lines.next().expect("cfg line");
    let ckv = kvs(cfgline);
    let algo = ckv.get("algo").cloned().unwrap_or("fifo".into());
    let cap = geti(&ckv, "cap");
    let shards = geti_d(&ckv, "shards", 1) as usize;
    let univ = geti_d(&ckv, "univ", 8);
    let hd = DivMul {
        div: geti_d(&ckv, "hdiv", 1),
        mul: geti_d(&ckv, "hmul", 1),
    };
    let piped = geti_d(&ckv, "pipe", 0) == 1;
    let listener_on = geti_d(&ckv, "listener", 1) == 1;

    let eviction: EvictionConfig = match algo.as_str() {
        "fifo" => FifoConfig::default().into(),
        "lru" => LruConfig {
            high_priority_pool_ratio: getf_d(&ckv, "hp", 0.9),
        }
        .into(),
        "sieve" => SieveConfig.into(),
        "s3fifo" => S3FifoConfig {
            small_queue_capacity_ratio: getf_d(&ckv, "small", 0.1),
            ghost_queue_capacity_ratio: getf_d(&ckv, "ghost", 1.0),
            small_to_main_freq_threshold: geti_d(&ckv, "thr", 1) as u8,
        }
        .into(),
        "lfu" => LfuConfig {
            window_capacity_ratio: getf_d(&ckv, "window", 0.1),
            protected_capacity_ratio: getf_d(&ckv, "protected", 0.8),
            cmsketch_eps: getf_d(&ckv, "eps", 0.001),
            cmsketch_confidence: getf_d(&ckv, "conf", 0.9),
        }
        .into(),
        _ => panic!("algo"),
    };

    let rec = Arc::new(Rec::default());
    let mut builder = CacheBuilder::new(cap as usize)
        .with_shards(shards)
        .with_eviction_config(eviction)
        .with_hash_builder(hd)
        .with_weighter(|_: &u64, v: &Val| v.w)
        .with_filter(|_: &u64, v: &Val| !v.ph);
    if listener_on {
        builder = builder.with_event_listener(Arc::new(Listener(rec.clone())));
    }
    let mut cache: C = builder.build();
    if piped {
        cache = cache.with_pipe(Arc::new(RecPipe(rec.clone())));
    }

    // echo the cfg line, with what the model needs and cannot compute itself
    let (d1, d2) = derived(&algo, cap, &ckv);
    let mut extra = format!(" d1={d1} d2={d2}");
    if algo == "lfu" {
        let rows = datasketches::countmin::CountMinSketch::<u16>::suggest_num_hashes(getf_d(&ckv, "conf", 0.9));
        let buckets = datasketches::countmin::CountMinSketch::<u16>::suggest_num_buckets(getf_d(&ckv, "eps", 0.001));
        let mut seen = std::collections::BTreeSet::new();
        let mut items = vec![];
        for k in 0..univ {
            let h = (k / hd.div).wrapping_mul(hd.mul);
            if seen.insert(h) {
                let bs = buckets_of(rows, buckets, h);
                items.push(format!(
                    "{h}:{}",
                    bs.iter().map(|b| b.to_string()).collect::<Vec<_>>().join(".")
                ));
            }
        }
        extra += &format!(" rows={rows} buckets={buckets} bk={}", items.join(","));
    }
    println!("{cfgline}{extra}");

    let mut cache = Some(cache);
    let mut handles: BTreeMap<u64, E> = BTreeMap::new();

    for line in lines {
        let optext = line.trim().to_string();
        let kv = kvs(&optext);
        let name = optext.split_whitespace().next().unwrap().to_string();
        let mut echo = optext.clone();
        let res = catch_unwind(AssertUnwindSafe(|| -> String {
            let c = cache.as_ref();
            let mut ret = "-".to_string();
            match name.as_str() {
                "ins" => {
                    let k = geti(&kv, "k");
                    let val = Val {
                        v: geti(&kv, "v"),
                        w: geti(&kv, "w") as usize,
                        ph: geti_d(&kv, "ph", 0) == 1,
                    };
                    let props = CacheProperties::default().with_hint(if geti_d(&kv, "low", 0) == 1 {
                        Hint::Low
                    } else {
                        Hint::Normal
                    });
                    let e = c.unwrap().insert_with_properties(k, val, props);
                    handles.insert(geti(&kv, "h"), e);
                    ret = "h".into();
                }
                "get" => {
                    let k = geti(&kv, "k");
                    match c.unwrap().get(&k) {
                        Some(e) => {
                            ret = format!("hit:{}", e.value().v);
                            handles.insert(geti(&kv, "h"), e);
                        }
                        None => ret = "miss".into(),
                    }
                }
                "gof" => {
                    // get_or_fetch on a resident key: the hit path of the fetch API (no task is spawned)
                    let k = geti(&kv, "k");
                    if c.unwrap().contains(&k) {
                        let f = c.unwrap().get_or_fetch(&k, || async { Err::<Val, anyhow::Error>(anyhow::anyhow!("unreachable")) });
                        match f.try_unwrap() {
                            Ok(e) => {
                                ret = format!("hit:{}", e.value().v);
                                handles.insert(geti(&kv, "h"), e);
                            }
                            Err(_) => panic!("get_or_fetch missed a resident key"),
                        }
                    } else {
                        ret = "miss".into();
                    }
                }
                "touch" => {
                    let k = geti(&kv, "k");
                    ret = if c.unwrap().touch(&k) { "1".into() } else { "0".into() };
                }
                "contains" => {
                    let k = geti(&kv, "k");
                    ret = if c.unwrap().contains(&k) { "1".into() } else { "0".into() };
                }
                "remove" => {
                    let k = geti(&kv, "k");
                    match c.unwrap().remove(&k) {
                        Some(e) => {
                            ret = format!("hit:{}", e.value().v);
                            handles.insert(geti(&kv, "h"), e);
                        }
                        None => ret = "miss".into(),
                    }
                }
                "clear" => c.unwrap().clear(),
                "resize" => {
                    let ncap = geti(&kv, "cap");
                    let (d1, d2) = derived(&algo, ncap, &ckv);
                    echo = format!("{optext} d1={d1} d2={d2}");
                    c.unwrap().resize(ncap as usize).unwrap();
                }
                "evict_all" => c.unwrap().evict_all(),
                "flush" => {
                    use std::task::{Context, Poll, Waker};
                    let mut fut = Box::pin(c.unwrap().flush());
                    let mut cx = Context::from_waker(Waker::noop());
                    match fut.as_mut().poll(&mut cx) {
                        Poll::Ready(()) => {}
                        Poll::Pending => panic!("flush pending"),
                    }
                }
                "clone" => {
                    let h = geti(&kv, "h");
                    if let Some(e) = handles.get(&h).cloned() {
                        handles.insert(geti(&kv, "h2"), e);
                    }
                }
                "drop" => {
                    let h = geti(&kv, "h");
                    drop(handles.remove(&h));
                }
                "dropcache" => {
                    // remaining handles keep the cache alive (Arc); the script drops them first
                    handles.clear();
                    drop(cache.take());
                }
                "dropcache2" => {
                    // the other order: the last cache handle goes first, the entry handles the application still holds
                    // keep the cache's inner alive until the last of them is dropped
                    drop(cache.take());
                    handles.clear();
                }
                _ => panic!("unknown op {name}"),
            }
            ret
        }));
        let ret = match res {
            Ok(r) => r,
            Err(_) => {
                println!("{echo} | PANIC");
                return;
            }
        };
        let mut evs: Vec<(char, u64, u64)> = std::mem::take(&mut *rec.events.lock());
        let mut pipes: Vec<(u64, u64)> = std::mem::take(&mut *rec.pipes.lock());
        let shard_of = |k: u64| ((k / hd.div).wrapping_mul(hd.mul) as usize) % shards;
        match name.as_str() {
            "resize" => {
                // one thread per shard: order across shards is arbitrary, within a shard it is the loop's
                evs.sort_by_key(|e| shard_of(e.1));
                pipes.sort_by_key(|p| shard_of(p.0));
            }
            "clear" | "dropcache" | "dropcache2" => {
                // hash-map drain order
                evs.sort();
                pipes.sort();
            }
            _ => {}
        }
        let (usage, entries, find) = match cache.as_ref() {
            Some(c) => (
                c.usage(),
                c.entries(),
                (0..univ).filter(|k| c.contains(k)).map(|k| k.to_string()).collect::<Vec<_>>(),
            ),
            None => (0, 0, vec![]),
        };
        let hs = handles
            .iter()
            .map(|(h, e)| {
                format!(
                    "{}:{}:{}:{}:{}:{}",
                    h,
                    e.refs(),
                    e.is_outdated() as u8,
                    e.value().v,
                    e.key(),
                    e.weight()
                )
            })
            .collect::<Vec<_>>();
        println!(
            "{echo} | ret={ret} ev={} pipe={} usage={usage} entries={entries} find={} hs={}",
            evs.iter()
                .map(|(c, k, v)| format!("{c}:{k}:{v}"))
                .collect::<Vec<_>>()
                .join(","),
            pipes
                .iter()
                .map(|(k, v)| format!("{k}:{v}"))
                .collect::<Vec<_>>()
                .join(","),
            find.join(","),
            hs.join(",")
        );
    }
}
