//! reentkeys: user values other than cached values whose destructors call back into the cache (C16):
//!  - a key type with a re-entrant destructor: the in-flight table keeps a copy of the key of a pending fetch, an explicit
//!    insert that overtakes the fetch removes that entry;
//!  - a fetch future that owns the last handle of an entry of the same shard and is not needed (the lookup hits).
//! Each scenario has its own watchdog (the scenarios are the reproductions written for finding F27).
#![allow(dead_code)]
// C16: candidate GENUINE defects in the UNCHANGED tree (not part of mutant m4).
//
// Destination: foyer-memory/tests/c16_findings_fetch_locks.rs
// Run:         CARGO_NET_OFFLINE=true cargo nextest run -p foyer-memory --offline --no-fail-fast --test c16_findings_fetch_locks
//
// A: `RawCacheShard::emplace` calls `self.inflights.lock().take(..)` inside the shard write lock. `take` removes the
//    in-flight entry, which owns a clone of the key (`InflightEntry::key`, made by `key.to_owned()` in `enqueue`), and
//    drops it right there: a KEY DESTRUCTOR runs while the shard write lock and the in-flight mutex are held.
//
// B: `RawCache::get_or_fetch_inner` runs `extract` inside the shard lock. On a hit the unused `fr` closure, which owns
//    the caller's fetch future, is dropped inside that critical section. If the future owns the last handle of an
//    entry of the same shard, `RawCacheEntry::drop` takes the shard lock again (LRU: write lock) and self-deadlocks.

use std::{
    hash::{Hash, Hasher},
    sync::{
        Arc, OnceLock,
        atomic::{AtomicBool, AtomicUsize, Ordering},
        mpsc,
    },
    time::Duration,
};

use foyer_memory::{Cache, CacheBuilder, LruConfig};

const WATCHDOG: Duration = Duration::from_secs(10);

#[derive(Default)]
struct KeyHook {
    // behind a `dyn Fn` so that the key type does not mention the cache type
    reenter: OnceLock<Box<dyn Fn(&Arc<KeyHook>) + Send + Sync>>,
    armed: AtomicBool,
    drops: AtomicUsize,
}

struct HookKey {
    id: u64,
    live: bool,
    hook: Arc<KeyHook>,
}

impl Clone for HookKey {
    fn clone(&self) -> Self {
        Self {
            id: self.id,
            live: self.live,
            hook: self.hook.clone(),
        }
    }
}

impl PartialEq for HookKey {
    fn eq(&self, other: &Self) -> bool {
        self.id == other.id
    }
}
impl Eq for HookKey {}
impl Hash for HookKey {
    fn hash<H: Hasher>(&self, state: &mut H) {
        self.id.hash(state)
    }
}

impl Drop for HookKey {
    fn drop(&mut self) {
        if !self.live || !self.hook.armed.load(Ordering::SeqCst) {
            return;
        }
        (self.hook.reenter.get().unwrap())(&self.hook);
        self.hook.drops.fetch_add(1, Ordering::SeqCst);
    }
}

/// Returns the number of re-entrant key destructors that completed, or `None` if the scenario got stuck.
fn insert_overtakes_fetch(arm: bool) -> Option<usize> {
    let (tx, rx) = mpsc::channel();
    // Everything that touches the cache (including the runtime that owns the fetch task) lives on this thread: if it
    // deadlocks it is simply abandoned (dropping the fetch task elsewhere would block on the in-flight mutex the stuck
    // thread holds).
    std::thread::spawn(move || {
        let rt = tokio::runtime::Builder::new_current_thread().build().unwrap();
        let _guard = rt.enter();

        let hook = Arc::new(KeyHook::default());
        let cache: Cache<HookKey, u64> = CacheBuilder::new(8).with_shards(1).build();
        let c = cache.clone();
        let reenter = move |hook: &Arc<KeyHook>| {
            // a lookup on the same (single) shard
            let probe = HookKey {
                id: 99,
                live: false,
                hook: hook.clone(),
            };
            let _ = c.contains(&probe);
        };
        assert!(hook.reenter.set(Box::new(reenter)).is_ok());

        let key = HookKey {
            id: 1,
            live: true,
            hook: hook.clone(),
        };
        // Registers an in-flight entry (which owns a clone of `key`). The fetch never completes (it is never polled).
        let pending = cache.get_or_fetch(&key, || std::future::pending::<Result<u64, std::io::Error>>());
        assert!(pending.need_await());

        hook.armed.store(arm, Ordering::SeqCst);
        // An explicit insert takes the in-flight entry over (and drops it, together with its key clone).
        drop(cache.insert(
            HookKey {
                id: 1,
                live: false,
                hook: hook.clone(),
            },
            7,
        ));
        hook.armed.store(false, Ordering::SeqCst);

        let _ = tx.send(hook.drops.load(Ordering::SeqCst));
        std::mem::forget(pending);
        std::mem::forget(key);
    });
    rx.recv_timeout(WATCHDOG).ok()
}

fn a0_control_insert_overtakes_a_fetch_with_a_passive_key_destructor() {
    assert_eq!(insert_overtakes_fetch(false), Some(0));
}

fn a_key_destructor_runs_outside_locks_when_insert_overtakes_a_fetch() {
    assert_eq!(
        insert_overtakes_fetch(true),
        Some(1),
        "insert did not return: the key clone owned by the in-flight entry was dropped inside the shard lock"
    );
}

fn b_unused_fetch_future_is_dropped_outside_locks_on_a_hit() {
    let rt = tokio::runtime::Builder::new_multi_thread().worker_threads(1).enable_all().build().unwrap();
    rt.block_on(b_async());
    std::mem::forget(rt);
}
async fn b_async() {
    let cache: Cache<u64, u64> = CacheBuilder::new(8)
        .with_shards(1)
        .with_eviction_config(LruConfig::default())
        .build();
    drop(cache.insert(1, 1));
    let only_handle = cache.insert(2, 2);

    let (tx, rx) = mpsc::channel();
    let c = cache.clone();
    let rt = tokio::runtime::Handle::current();
    std::thread::spawn(move || {
        let _guard = rt.enter();
        // Key 1 is resident: a hit. The fetch future is not needed and is dropped by the cache.
        let hit = c.get_or_fetch(&1, move || async move {
            let e = only_handle;
            Ok::<u64, std::io::Error>(*e)
        });
        let _ = tx.send(hit.need_await());
    });
    let res = rx.recv_timeout(WATCHDOG);
    assert_eq!(
        res.ok(),
        Some(false),
        "get_or_fetch did not return: the unused fetch future (owning an entry handle) was dropped inside the shard lock"
    );
}

fn main() {
    // each scenario runs in its own thread; one that deadlocks is reported and left behind
    std::panic::set_hook(Box::new(|_| {}));
    let mut out = vec![];
    for (name, f) in [("a0_control_insert_overtakes_a_fetch_with_a_passive_key_destructor", a0_control_insert_overtakes_a_fetch_with_a_passive_key_destructor as fn()), ("a_key_destructor_runs_outside_locks_when_insert_overtakes_a_fetch", a_key_destructor_runs_outside_locks_when_insert_overtakes_a_fetch as fn()), ("b_unused_fetch_future_is_dropped_outside_locks_on_a_hit", b_unused_fetch_future_is_dropped_outside_locks_on_a_hit as fn())] {
        let (tx, rx) = std::sync::mpsc::channel();
        std::thread::spawn(move || {
            let r = std::panic::catch_unwind(f);
            let _ = tx.send(r.is_ok());
        });
        let res = match rx.recv_timeout(Duration::from_secs(15)) {
            Ok(true) => "ok",
            Ok(false) => "DEADLOCK",
            Err(_) => "DEADLOCK",
        };
        out.push(format!("{name}={res}"));
    }
    println!("{}", out.join(" "));
    std::process::exit(0);
}
