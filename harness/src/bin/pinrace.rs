//! pinrace: several threads look one key up, hold the handle for a moment and drop it, while one writer keeps the
//! single LRU shard under pressure (C18: an entry that was looked up and is still held is not an eviction victim).
//! The key is never removed or replaced, so a held handle can only become outdated by an eviction.
//!
//! usage: pinrace <readers> <capacity> <millis>     prints `hits=<n> violations=<n> ms=<n>`
use std::{
    sync::{
        Arc,
        atomic::{AtomicBool, AtomicU64, Ordering},
    },
    time::{Duration, Instant},
};

use foyer_memory::{Cache, CacheBuilder, LruConfig};

fn main() {
    let a: Vec<String> = std::env::args().collect();
    let readers: usize = a.get(1).map(|s| s.parse().unwrap()).unwrap_or(4);
    let cap: usize = a.get(2).map(|s| s.parse().unwrap()).unwrap_or(2);
    let millis: u64 = a.get(3).map(|s| s.parse().unwrap()).unwrap_or(300);
    let cache: Cache<u64, u64> = CacheBuilder::new(cap)
        .with_shards(1)
        .with_eviction_config(LruConfig::default())
        .build();
    let cache = Arc::new(cache);
    let stop = Arc::new(AtomicBool::new(false));
    let violations = Arc::new(AtomicU64::new(0));
    let hits = Arc::new(AtomicU64::new(0));
    let mut ths = vec![];
    {
        let (cache, stop) = (cache.clone(), stop.clone());
        ths.push(std::thread::spawn(move || {
            let mut k = 1000u64;
            while !stop.load(Ordering::Relaxed) {
                if !cache.contains(&0) {
                    drop(cache.insert(0, 0));
                }
                k += 1;
                drop(cache.insert(k, k));
            }
        }));
    }
    for _ in 0..readers {
        let (cache, stop, violations, hits) = (cache.clone(), stop.clone(), violations.clone(), hits.clone());
        ths.push(std::thread::spawn(move || {
            while !stop.load(Ordering::Relaxed) {
                if let Some(h) = cache.get(&0) {
                    hits.fetch_add(1, Ordering::Relaxed);
                    for _ in 0..20 {
                        if h.is_outdated() {
                            violations.fetch_add(1, Ordering::Relaxed);
                            break;
                        }
                        std::hint::spin_loop();
                    }
                    drop(h);
                }
            }
        }));
    }
    let start = Instant::now();
    while start.elapsed() < Duration::from_millis(millis) && violations.load(Ordering::Relaxed) == 0 {
        std::thread::sleep(Duration::from_millis(10));
    }
    stop.store(true, Ordering::Relaxed);
    for t in ths {
        t.join().unwrap();
    }
    println!(
        "hits={} violations={} ms={}",
        hits.load(Ordering::Relaxed),
        violations.load(Ordering::Relaxed),
        start.elapsed().as_millis()
    );
}
