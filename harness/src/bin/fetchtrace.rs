//! fetchtrace: drives foyer-memory's get_or_fetch machinery (RawFetch tasks, in-flight table) with scripted
//! arrival order of callers, resolution of the optional (disk) stage and of the origin fetch, explicit
//! inserts/removes and dropped callers, on a single-threaded tokio runtime that is run to quiescence after
//! every action.  One observation line per action.
//!
//! usage: fetchtrace <script-file>

use std::{
    collections::{BTreeMap, BTreeSet},
    future::Future,
    hash::{BuildHasher, Hasher},
    pin::Pin,
    sync::Arc,
    task::{Context, Poll, Waker},
};

use foyer_common::{
    error::{Error, ErrorKind},
    spawn::Spawner,
};
use foyer_memory::{
    Cache, CacheBuilder, CacheProperties, EvictionConfig, FetchTarget, FifoConfig, GetOrFetch, LfuConfig, LruConfig,
    OptionalFetchBuilder, RequiredFetchBuilder, S3FifoConfig, SieveConfig,
};
use parking_lot::Mutex;
use tokio::sync::oneshot;

#[derive(Debug, Clone, Copy)]
struct DivMul {
    div: u64,
    mul: u64,
}
struct DivMulHasher {
    cfg: DivMul,
    state: u64,
}
impl Hasher for DivMulHasher {
    fn finish(&self) -> u64 {
        self.state
    }
    fn write(&mut self, bytes: &[u8]) {
        for b in bytes {
            self.state = (self.state << 8) + *b as u64;
        }
    }
    fn write_u64(&mut self, i: u64) {
        self.state = (i / self.cfg.div).wrapping_mul(self.cfg.mul);
    }
}
impl BuildHasher for DivMul {
    type Hasher = DivMulHasher;
    fn build_hasher(&self) -> DivMulHasher {
        DivMulHasher { cfg: *self, state: 0 }
    }
}

type C = Cache<u64, u64, DivMul, CacheProperties>;
type G = GetOrFetch<u64, u64, DivMul, CacheProperties>;

enum OptRes {
    Hit(u64),
    Miss,
    Err,
}
enum ReqRes {
    Ok(u64),
    Err,
    Panic,
}

#[derive(Default)]
struct Shared {
    started: Mutex<Vec<u64>>,
    live: Mutex<BTreeSet<u64>>,
    opt_tx: Mutex<BTreeMap<u64, oneshot::Sender<OptRes>>>,
    req_tx: Mutex<BTreeMap<u64, oneshot::Sender<ReqRes>>>,
}

/// the origin fetch future of caller `f`: records its first poll and its drop
struct ReqFut {
    f: u64,
    sh: Arc<Shared>,
    rx: oneshot::Receiver<ReqRes>,
    started: bool,
}
impl Future for ReqFut {
    type Output = Result<u64, Error>;
    fn poll(mut self: Pin<&mut Self>, cx: &mut Context<'_>) -> Poll<Self::Output> {
        if !self.started {
            self.started = true;
            self.sh.started.lock().push(self.f);
            self.sh.live.lock().insert(self.f);
        }
        match Pin::new(&mut self.rx).poll(cx) {
            Poll::Pending => Poll::Pending,
            Poll::Ready(Ok(ReqRes::Ok(v))) => Poll::Ready(Ok(v)),
            Poll::Ready(Ok(ReqRes::Err)) => Poll::Ready(Err(Error::new(ErrorKind::External, "origin failed"))),
            Poll::Ready(Ok(ReqRes::Panic)) => panic!("origin fetch panicked"),
            Poll::Ready(Err(_)) => Poll::Ready(Err(Error::new(ErrorKind::External, "origin sender dropped"))),
        }
    }
}
impl Drop for ReqFut {
    fn drop(&mut self) {
        self.sh.live.lock().remove(&self.f);
    }
}

fn kvs(line: &str) -> BTreeMap<String, String> {
    line.split_whitespace()
        .filter_map(|t| t.split_once('=').map(|(a, b)| (a.to_string(), b.to_string())))
        .collect()
}
fn geti(kv: &BTreeMap<String, String>, k: &str) -> u64 {
    kv.get(k).unwrap_or_else(|| panic!("missing {k}")).parse().unwrap()
}
fn geti_d(kv: &BTreeMap<String, String>, k: &str, d: u64) -> u64 {
    kv.get(k).map(|v| v.parse().unwrap()).unwrap_or(d)
}

fn res_str(r: &Result<Option<u64>, Error>) -> String {
    match r {
        Ok(Some(v)) => format!("E{v}"),
        Ok(None) => "N".into(),
        Err(e) => match e.kind() {
            ErrorKind::External => "X0".into(),
            ErrorKind::TaskCancelled => "X1".into(),
            ErrorKind::Io => "X2".into(),
            ErrorKind::ChannelClosed => "X3".into(),
            _ => "X9".into(),
        },
    }
}

fn main() {
    std::panic::set_hook(Box::new(|_| {}));
    let path = std::env::args().nth(1).expect("script");
    let text = std::fs::read_to_string(path).unwrap();
    let all: Vec<&str> = text
        .lines()
        .filter(|l| !l.trim().is_empty() && !l.starts_with('#'))
        .collect();
    let mut i = 0;
    while i < all.len() {
        let mut j = i + 1;
        while j < all.len() && !all[j].starts_with("cfg ") {
            j += 1;
        }
        run_script(&all[i..j]);
        i = j;
    }
}

fn run_script(script: &[&str]) {
    let cfgline = script[0];
    let ckv = kvs(cfgline);
    let algo = ckv.get("algo").cloned().unwrap_or("fifo".into());
    let univ = geti_d(&ckv, "univ", 3);
    let hd = DivMul {
        div: geti_d(&ckv, "hdiv", 1),
        mul: geti_d(&ckv, "hmul", 1),
    };
    let eviction: EvictionConfig = match algo.as_str() {
        "fifo" => FifoConfig::default().into(),
        "lru" => LruConfig::default().into(),
        "sieve" => SieveConfig.into(),
        "s3fifo" => S3FifoConfig::default().into(),
        "lfu" => LfuConfig::default().into(),
        _ => panic!("algo"),
    };
    let mut rt = Some(tokio::runtime::Builder::new_current_thread().build().unwrap());
    let cache: C = CacheBuilder::new(1000)
        .with_shards(geti_d(&ckv, "shards", 1) as usize)
        .with_eviction_config(eviction)
        .with_hash_builder(hd)
        .build();
    let spawner = Spawner::from(rt.as_ref().unwrap().handle().clone());
    let sh = Arc::new(Shared::default());
    println!("{cfgline}");

    let mut pending: BTreeMap<u64, Pin<Box<G>>> = BTreeMap::new();
    let mut results: Vec<(u64, String)> = vec![];
    let mut dropped: BTreeSet<u64> = BTreeSet::new();

    for line in &script[1..] {
        let optext = line.split('|').next().unwrap().trim().to_string();
        let kv = kvs(&optext);
        let name = optext.split_whitespace().next().unwrap();
        match name {
            "call" => {
                let c = geti(&kv, "c");
                let k = geti(&kv, "k");
                let has_opt = geti_d(&kv, "opt", 0) == 1;
                let has_req = geti_d(&kv, "req", 0) == 1;
                let public = geti_d(&kv, "pub", 0) == 1;
                let _enter = rt.as_ref().map(|r| r.enter());
                let fut: G = if public && !has_opt && has_req {
                    // the public API: the user's closure runs eagerly, only the leader's future is polled
                    let (tx, rx) = oneshot::channel();
                    sh.req_tx.lock().insert(c, tx);
                    let f = ReqFut {
                        f: c,
                        sh: sh.clone(),
                        rx,
                        started: false,
                    };
                    cache.get_or_fetch(&k, move || async move { f.await.map_err(anyhow::Error::from) })
                } else {
                    let sh1 = sh.clone();
                    let sh2 = sh.clone();
                    cache.get_or_fetch_inner(
                        &k,
                        move || -> Option<OptionalFetchBuilder<u64, u64, CacheProperties, ()>> {
                            if !has_opt {
                                return None;
                            }
                            Some(Box::new(move |_ctx: &mut ()| {
                                let (tx, rx) = oneshot::channel();
                                sh1.opt_tx.lock().insert(c, tx);
                                Box::pin(async move {
                                    match rx.await {
                                        Ok(OptRes::Hit(v)) => Ok(Some(FetchTarget::from(v))),
                                        Ok(OptRes::Miss) => Ok(None),
                                        Ok(OptRes::Err) | Err(_) => Err(Error::new(ErrorKind::Io, "disk stage failed")),
                                    }
                                })
                            }))
                        },
                        move || -> Option<RequiredFetchBuilder<u64, u64, CacheProperties, ()>> {
                            if !has_req {
                                return None;
                            }
                            Some(Box::new(move |_ctx: &mut ()| {
                                let (tx, rx) = oneshot::channel();
                                sh2.req_tx.lock().insert(c, tx);
                                let f = ReqFut {
                                    f: c,
                                    sh: sh2.clone(),
                                    rx,
                                    started: false,
                                };
                                Box::pin(async move { f.await.map(FetchTarget::from) })
                            }))
                        },
                        (),
                        &spawner,
                    )
                };
                results.push((c, "P".into()));
                pending.insert(c, Box::pin(fut));
            }
            "opt" => {
                let c = geti(&kv, "c");
                if let Some(tx) = sh.opt_tx.lock().remove(&c) {
                    let r = match kv.get("res").map(|s| s.as_str()).unwrap_or("miss") {
                        "hit" => OptRes::Hit(geti(&kv, "v")),
                        "miss" => OptRes::Miss,
                        _ => OptRes::Err,
                    };
                    let _ = tx.send(r);
                }
            }
            "req" => {
                let f = geti(&kv, "f");
                // only a fetch that has started (is being polled by a task) can resolve
                if sh.live.lock().contains(&f) {
                    if let Some(tx) = sh.req_tx.lock().remove(&f) {
                        let r = match kv.get("res").map(|s| s.as_str()).unwrap_or("ok") {
                            "ok" => ReqRes::Ok(geti(&kv, "v")),
                            "err" => ReqRes::Err,
                            _ => ReqRes::Panic,
                        };
                        let _ = tx.send(r);
                    }
                }
            }
            "insert" => {
                cache.insert(geti(&kv, "k"), geti(&kv, "v"));
            }
            "insertph" => {
                // a disk-only (phantom) insert - what a rejecting admission filter or Location::OnDisk makes of an
                // insert: it takes the in-flight entry and answers the waiters like any insert, displaces the resident
                // record, and is not resident itself
                use foyer_common::properties::Properties as _;
                cache.insert_with_properties(geti(&kv, "k"), geti(&kv, "v"), CacheProperties::default().with_phantom(true));
            }
            "remove" => {
                cache.remove(&geti(&kv, "k"));
            }
            "dropc" => {
                let c = geti(&kv, "c");
                pending.remove(&c);
                dropped.insert(c);
            }
            "kill" => {
                // the runtime goes away: every fetch task is dropped wherever it is
                drop(rt.take());
            }
            _ => panic!("unknown action {name}"),
        }
        // run every spawned task to quiescence (unless the script wants the new task left unpolled)
        if geti_d(&kv, "nopoll", 0) == 0 {
            if let Some(rt) = rt.as_ref() {
                rt.block_on(async {
                    for _ in 0..64 {
                        tokio::task::yield_now().await;
                    }
                });
            }
        }
        // poll the callers' futures once each
        let mut done = vec![];
        for (c, fut) in pending.iter_mut() {
            let mut cx = Context::from_waker(Waker::noop());
            if let Poll::Ready(r) = fut.as_mut().poll_inner(&mut cx) {
                let r = r.map(|o| o.map(|e| *e.value()));
                done.push((*c, res_str(&r)));
            }
        }
        for (c, s) in done {
            pending.remove(&c);
            for r in results.iter_mut() {
                if r.0 == c {
                    r.1 = s.clone();
                }
            }
        }
        let callers = results
            .iter()
            .filter(|(c, _)| !dropped.contains(c))
            .map(|(c, s)| format!("{c}:{s}"))
            .collect::<Vec<_>>()
            .join(",");
        let started = sh.started.lock().iter().map(|f| f.to_string()).collect::<Vec<_>>().join(",");
        let live = sh.live.lock().iter().map(|f| f.to_string()).collect::<Vec<_>>().join(",");
        let mem = (0..univ)
            .filter_map(|k| cache.get(&k).map(|e| format!("{k}:{}", e.value())))
            .collect::<Vec<_>>()
            .join(",");
        println!("{optext} | callers={callers} started={started} live={live} mem={mem}");
    }
    drop(pending);
    drop(cache);
}
