//! fmt: calls foyer's disk-format building blocks directly (feature `verif` re-exports) and prints what they
//! produce.  One command per input line, one observation per output line: `<command> | <observation>`.
//!
//! commands (see gen/fmtgen.py):
//!   enc ty=<numeric type> x=<decimal bit pattern>
//!   dec ty=<numeric type|bool|vec|str> hex=<bytes>
//!   encb ty=bool|vec|str hex=<content bytes> | b=<0|1>
//!   push cap=<buffer bytes> pre=<bytes already written> max=<max entry size> comp=none|zstd|lz4
//!        kty=u64|vec|str k=<u64 | hex> vlen=<n> vpat=<pattern id> hash=<u64> seq=<u64>
//!   split B=<block size> I=<blob index size> lens=<len,len,...>      (consecutive lines share one SplitCtx;
//!        `splitnew` starts a fresh one)

use std::{collections::BTreeMap, io::Write as _, sync::Arc};

use foyer_common::{code::Code, metrics::Metrics, spawn::Spawner};
use foyer_storage::{
    Compression, DeviceBuilder, FsDeviceBuilder, IoEngine, IoEngineConfig, PsyncIoEngineConfig,
    verif::{
        BlobEntryIndex, BlobIndex, BlobIndexReader, Buffer, BufferEntryInfo, Checksummer, EntryDeserializer, EntryHeader, IoEngineBuildContext,
        IoSliceMut, Partition, SplitCtx, Splitter, Tombstone, TombstoneLog, PAGE,
    },
};

struct TombDev {
    dir: std::path::PathBuf,
    pages: usize,
    parts: usize,
    next_seq: u64,
}

fn ranges(mut v: Vec<u64>) -> String {
    v.sort();
    let mut out = vec![];
    let mut i = 0;
    while i < v.len() {
        let mut j = i;
        while j + 1 < v.len() && v[j + 1] == v[j] + 1 {
            j += 1;
        }
        out.push(if i == j { format!("{}", v[i]) } else { format!("{}-{}", v[i], v[j]) });
        i = j + 1;
    }
    out.join(",")
}

/// one session of the tombstone log: open (prints what was recovered), append, drop
fn tomb_session(rt: &tokio::runtime::Runtime, d: &mut TombDev, n: usize, each: bool, perm: usize) -> String {
    rt.block_on(async {
        let device = FsDeviceBuilder::new(&d.dir)
            .with_capacity(d.pages * PAGE)
            .build()
            .unwrap();
        let per = d.pages / d.parts * PAGE;
        let mut partitions: Vec<Arc<dyn Partition>> = vec![];
        for i in 0..d.parts {
            let size = if i + 1 == d.parts { d.pages * PAGE - per * (d.parts - 1) } else { per };
            partitions.push(device.create_partition(size).unwrap());
        }
        let io: Arc<dyn IoEngine> = PsyncIoEngineConfig::new()
            .boxed()
            .build(IoEngineBuildContext {
                spawner: Spawner::current(),
            })
            .await
            .unwrap();
        let mut rec = vec![];
        let log = TombstoneLog::open(partitions, io, &mut rec).await.unwrap();
        let bad = rec.iter().filter(|t| t.hash != t.sequence.wrapping_mul(7)).count();
        let ts: Vec<Tombstone> = (0..n)
            .map(|i| {
                let s = d.next_seq + i as u64;
                Tombstone {
                    hash: s.wrapping_mul(7),
                    sequence: s,
                }
            })
            .collect();
        d.next_seq += n as u64;
        // the order in which the batch reaches the log: in sequence order (one flusher), reversed, or the even sequences
        // before the odd ones (two flushers)
        let ts: Vec<Tombstone> = match perm {
            1 => ts.into_iter().rev().collect(),
            2 => {
                let (a, b): (Vec<Tombstone>, Vec<Tombstone>) = ts.into_iter().partition(|t| t.sequence % 2 == 0);
                a.into_iter().chain(b).collect()
            }
            _ => ts,
        };
        if each {
            for t in ts.iter() {
                log.append(std::iter::once(t)).await.unwrap();
            }
        } else if !ts.is_empty() {
            log.append(ts.iter()).await.unwrap();
        }
        format!(
            "rec={} count={} badhash={}",
            ranges(rec.iter().map(|t| t.sequence).collect()),
            rec.len(),
            bad
        )
    })
}

fn kvs(line: &str) -> BTreeMap<String, String> {
    line.split_whitespace()
        .filter_map(|t| t.split_once('=').map(|(a, b)| (a.to_string(), b.to_string())))
        .collect()
}
fn hex(b: &[u8]) -> String {
    let mut s = String::with_capacity(b.len() * 2);
    for x in b {
        s.push_str(&format!("{x:02x}"));
    }
    s
}
fn unhex(s: &str) -> Vec<u8> {
    (0..s.len() / 2)
        .map(|i| u8::from_str_radix(&s[2 * i..2 * i + 2], 16).unwrap())
        .collect()
}

macro_rules! num_enc {
    ($t:ty, $x:expr) => {{
        let v = <$t>::from_le_bytes(
            $x.to_le_bytes()[..std::mem::size_of::<$t>()].try_into().unwrap(),
        );
        let mut out = vec![];
        v.encode(&mut out).unwrap();
        debug_assert_eq!(v.estimated_size(), out.len());
        out
    }};
}
macro_rules! num_dec {
    ($t:ty, $b:expr) => {{
        let mut r: &[u8] = $b;
        match <$t>::decode(&mut r) {
            Ok(v) => {
                let mut bits = [0u8; 16];
                bits[..std::mem::size_of::<$t>()].copy_from_slice(&v.to_le_bytes());
                format!("ok x={} rest={}", u128::from_le_bytes(bits), r.len())
            }
            Err(_) => "err".to_string(),
        }
    }};
}

fn pattern(len: usize, pat: u64) -> Vec<u8> {
    // pat 0: zeros (compressible); 1: repeating text; 2: xorshift noise (incompressible); 3: 0xff
    match pat {
        0 => vec![0u8; len],
        1 => (0..len).map(|i| b"the quick brown fox "[i % 20]).collect(),
        3 => vec![0xffu8; len],
        _ => {
            let mut s = 0x9E3779B97F4A7C15u64 ^ (len as u64) ^ (pat << 32);
            (0..len)
                .map(|_| {
                    s ^= s << 13;
                    s ^= s >> 7;
                    s ^= s << 17;
                    (s >> 24) as u8
                })
                .collect()
        }
    }
}

fn comp_of(s: &str) -> Compression {
    match s {
        "zstd" => Compression::Zstd,
        "lz4" => Compression::Lz4,
        _ => Compression::None,
    }
}

fn push_entry<K: foyer_common::code::StorageKey + PartialEq + std::fmt::Debug>(
    kv: &BTreeMap<String, String>,
    key: K,
    kenc: Vec<u8>,
) -> String {
    let cap: usize = kv["cap"].parse().unwrap();
    let pre: usize = kv["pre"].parse().unwrap();
    let max: usize = kv["max"].parse().unwrap();
    let comp = comp_of(&kv["comp"]);
    let vlen: usize = kv["vlen"].parse().unwrap();
    let vpat: u64 = kv["vpat"].parse().unwrap();
    let hash: u64 = kv["hash"].parse().unwrap();
    let seq: u64 = kv["seq"].parse().unwrap();
    let value = pattern(vlen, vpat);
    let mut buffer = Buffer::new(IoSliceMut::new(cap), max, Arc::new(Metrics::noop()));
    // pre-fill with page-sized slices so that `written` = pre
    let filler = vec![0xEEu8; PAGE];
    let mut filled = 0;
    while filled < pre {
        assert!(buffer.push_slice(&filler, 0, 0));
        filled += PAGE;
    }
    let ok = buffer.push(&key, &value, hash, comp, seq);
    let (bytes, infos) = buffer.finish();
    let prefill = pre / PAGE;
    if !ok {
        // nothing may have been committed
        return format!("ok=0 infos={}", infos.len() - prefill);
    }
    let info: &BufferEntryInfo = infos.last().unwrap();
    let raw = &bytes[info.offset..info.offset + info.len];
    let hdr = &raw[..EntryHeader::serialized_len()];
    let header = EntryHeader::read(hdr).unwrap();
    let payload = &raw[EntryHeader::serialized_len()..];
    let vbytes = &payload[..header.value_len as usize];
    // read it back the way Store::load does
    let back = EntryDeserializer::deserialize::<K, Vec<u8>>(
        payload,
        header.key_len as usize,
        header.value_len as usize,
        header.compression,
        Some(header.checksum),
    );
    let rt = match back {
        Ok((k2, v2)) => (k2 == key && v2 == value) as u8,
        Err(_) => 0,
    };
    let kmatch = (payload[header.value_len as usize..] == kenc[..]) as u8;
    let show_v = if vbytes.len() <= 96 {
        hex(vbytes)
    } else {
        format!("#{}", vbytes.len())
    };
    format!(
        "ok=1 infos={} off={} len={} klen={} vlen={} hdr={} vbytes={} vx={} px={} kmatch={} rt={}",
        infos.len() - prefill,
        info.offset,
        info.len,
        header.key_len,
        header.value_len,
        hex(hdr),
        show_v,
        Checksummer::checksum64(vbytes),
        hex(&payload[..payload.len().min(0)]).len() + payload.len(),
        kmatch,
        rt
    )
}

fn main() {
    std::panic::set_hook(Box::new(|_| {}));
    let path = std::env::args().nth(1).expect("script");
    let text = std::fs::read_to_string(path).unwrap();
    let stdout = std::io::stdout();
    let mut out = stdout.lock();
    let mut ctx: Option<(usize, usize, SplitCtx)> = None;
    let rt = tokio::runtime::Builder::new_current_thread().enable_all().build().unwrap();
    let mut tomb: Option<TombDev> = None;
    let mut ndev = 0;
    for line in text.lines() {
        let line = line.trim();
        if line.is_empty() || line.starts_with('#') {
            continue;
        }
        let kv = kvs(line);
        let name = line.split_whitespace().next().unwrap();
        let res = std::panic::catch_unwind(std::panic::AssertUnwindSafe(|| -> String {
            match name {
                "enc" => {
                    let x: u128 = kv["x"].parse().unwrap();
                    let b = match kv["ty"].as_str() {
                        "u8" => num_enc!(u8, x),
                        "u16" => num_enc!(u16, x),
                        "u32" => num_enc!(u32, x),
                        "u64" => num_enc!(u64, x),
                        "u128" => num_enc!(u128, x),
                        "usize" => num_enc!(usize, x),
                        "i8" => num_enc!(i8, x),
                        "i16" => num_enc!(i16, x),
                        "i32" => num_enc!(i32, x),
                        "i64" => num_enc!(i64, x),
                        "i128" => num_enc!(i128, x),
                        "isize" => num_enc!(isize, x),
                        "f32" => num_enc!(f32, x),
                        "f64" => num_enc!(f64, x),
                        t => panic!("type {t}"),
                    };
                    format!("hex={}", hex(&b))
                }
                "dec" => {
                    let b = unhex(kv.get("hex").map(|s| s.as_str()).unwrap_or(""));
                    match kv["ty"].as_str() {
                        "u8" => num_dec!(u8, &b),
                        "u16" => num_dec!(u16, &b),
                        "u32" => num_dec!(u32, &b),
                        "u64" => num_dec!(u64, &b),
                        "u128" => num_dec!(u128, &b),
                        "usize" => num_dec!(usize, &b),
                        "i8" => num_dec!(i8, &b),
                        "i16" => num_dec!(i16, &b),
                        "i32" => num_dec!(i32, &b),
                        "i64" => num_dec!(i64, &b),
                        "i128" => num_dec!(i128, &b),
                        "isize" => num_dec!(isize, &b),
                        "f32" => num_dec!(f32, &b),
                        "f64" => num_dec!(f64, &b),
                        "bool" => {
                            let mut r: &[u8] = &b;
                            match bool::decode(&mut r) {
                                Ok(v) => format!("ok x={} rest={}", v as u8, r.len()),
                                Err(_) => "err".into(),
                            }
                        }
                        "vec" => {
                            let mut r: &[u8] = &b;
                            // guard against absurd length prefixes (the real decoder would try to allocate)
                            if b.len() >= 8 && u64::from_le_bytes(b[..8].try_into().unwrap()) > (1 << 24) {
                                return "err".into();
                            }
                            match Vec::<u8>::decode(&mut r) {
                                Ok(v) => format!("ok hex={} rest={}", hex(&v), r.len()),
                                Err(_) => "err".into(),
                            }
                        }
                        "str" => {
                            let mut r: &[u8] = &b;
                            if b.len() >= 8 && u64::from_le_bytes(b[..8].try_into().unwrap()) > (1 << 24) {
                                return "err".into();
                            }
                            match String::decode(&mut r) {
                                Ok(v) => format!("ok hex={} rest={}", hex(v.as_bytes()), r.len()),
                                Err(_) => "err".into(),
                            }
                        }
                        t => panic!("type {t}"),
                    }
                }
                "encb" => {
                    let mut o = vec![];
                    match kv["ty"].as_str() {
                        "bool" => (kv["b"] == "1").encode(&mut o).unwrap(),
                        "vec" => unhex(kv.get("hex").map(|s| s.as_str()).unwrap_or(""))
                            .encode(&mut o)
                            .unwrap(),
                        "str" => String::from_utf8(unhex(kv.get("hex").map(|s| s.as_str()).unwrap_or("")))
                            .unwrap()
                            .encode(&mut o)
                            .unwrap(),
                        t => panic!("type {t}"),
                    }
                    format!("hex={}", hex(&o))
                }
                "encsmall" => {
                    // encoding into a too-small destination reports an error instead of a partial success
                    let n: usize = kv["room"].parse().unwrap();
                    let v = unhex(kv.get("hex").map(|s| s.as_str()).unwrap_or(""));
                    let mut dst = vec![0u8; n];
                    let mut w: &mut [u8] = &mut dst[..];
                    match v.encode(&mut w) {
                        Ok(()) => "ok".to_string(),
                        Err(e) => format!("err:{:?}", e.kind()),
                    }
                }
                "push" => match kv["kty"].as_str() {
                    "u64" => {
                        let k: u64 = kv["k"].parse().unwrap();
                        let mut kenc = vec![];
                        k.encode(&mut kenc).unwrap();
                        push_entry(&kv, k, kenc)
                    }
                    "vec" => {
                        let k = unhex(&kv["k"]);
                        let mut kenc = vec![];
                        k.encode(&mut kenc).unwrap();
                        push_entry(&kv, k, kenc)
                    }
                    "str" => {
                        let k = String::from_utf8(unhex(&kv["k"])).unwrap();
                        let mut kenc = vec![];
                        k.encode(&mut kenc).unwrap();
                        push_entry(&kv, k, kenc)
                    }
                    t => panic!("kty {t}"),
                },
                "tombnew" => {
                    if let Some(d) = tomb.take() {
                        let _ = std::fs::remove_dir_all(&d.dir);
                    }
                    ndev += 1;
                    let dir = std::env::temp_dir().join(format!("verif-fmt-{}-{}", std::process::id(), ndev));
                    let _ = std::fs::remove_dir_all(&dir);
                    std::fs::create_dir_all(&dir).unwrap();
                    tomb = Some(TombDev {
                        dir,
                        pages: kv["pages"].parse().unwrap(),
                        parts: kv.get("parts").map(|s| s.parse().unwrap()).unwrap_or(1),
                        next_seq: 1,
                    });
                    "ok".into()
                }
                "tombsession" => {
                    let n: usize = kv["n"].parse().unwrap();
                    let each = kv.get("each").map(|s| s == "1").unwrap_or(false);
                    let perm: usize = kv.get("perm").map(|s| s.parse().unwrap()).unwrap_or(0);
                    tomb_session(&rt, tomb.as_mut().expect("tombnew first"), n, each, perm)
                }
                "splitnew" => {
                    let b: usize = kv["B"].parse().unwrap();
                    let i: usize = kv["I"].parse().unwrap();
                    ctx = Some((b, i, SplitCtx::new(b, i)));
                    "ok".into()
                }
                "split" => {
                    let lens: Vec<usize> = kv["lens"].split(',').filter(|s| !s.is_empty()).map(|s| s.parse().unwrap()).collect();
                    let seq0: u64 = kv.get("seq0").map(|s| s.parse().unwrap()).unwrap_or(1);
                    let (_b, _i, c) = ctx.as_mut().expect("splitnew first");
                    // viabuf=1: the batch buffer is filled by the real `Buffer::push` (u64 key, Vec<u8> value whose
                    // size makes the serialized entry exactly `len` bytes), so that the buffer's layout and the
                    // splitter's index are checked against each other: every indexed entry must deserialize, from the
                    // part's data at its indexed offset, to the key and value pushed
                    let viabuf = kv.get("viabuf").map(|s| s == "1").unwrap_or(false) && lens.iter().all(|l| *l >= 52);
                    if viabuf {
                        let total: usize = lens.iter().map(|l| l.div_ceil(PAGE) * PAGE).sum::<usize>() + 64 * PAGE;
                        let mut buffer = Buffer::new(IoSliceMut::new(total), usize::MAX / 2, Arc::new(Metrics::noop()));
                        let mut lenbad = 0;
                        for (n, l) in lens.iter().enumerate() {
                            let key: u64 = 1000 + seq0 + n as u64;
                            let value = vec![(n as u8).wrapping_add(1); l - 52];
                            if !buffer.push(&key, &value, key, Compression::None, seq0 + n as u64) {
                                lenbad += 1;
                            }
                        }
                        let (bytes, infos) = buffer.finish();
                        if infos.len() != lens.len() || infos.iter().zip(lens.iter()).any(|(i, l)| i.len != *l) {
                            lenbad += 1;
                        }
                        let batch = Splitter::split(c, bytes.into_io_slice(), infos);
                        let mut parts = vec![];
                        let mut databad = 0;
                        for (bi, block) in batch.blocks.iter().enumerate() {
                            for p in block.blob_parts.iter() {
                                let idx = BlobIndexReader::read(&p.index).expect("sealed index must parse");
                                assert!(idx.len() >= p.indices.len());
                                assert_eq!(idx[idx.len() - p.indices.len()..], p.indices[..]);
                                for i in p.indices.iter() {
                                    let rel = i.offset as usize - p.part_blob_offset;
                                    let good = (|| {
                                        let raw = p.data.get(rel..rel + i.len as usize)?;
                                        let header = EntryHeader::read(&raw[..EntryHeader::serialized_len()]).ok()?;
                                        let (k2, v2) = EntryDeserializer::deserialize::<u64, Vec<u8>>(
                                            &raw[EntryHeader::serialized_len()..],
                                            header.key_len as usize,
                                            header.value_len as usize,
                                            header.compression,
                                            Some(header.checksum),
                                        )
                                        .ok()?;
                                        let n = (i.sequence - seq0) as usize;
                                        (k2 == i.hash && v2.len() == i.len as usize - 52 && v2.iter().all(|b| *b == (n as u8).wrapping_add(1)))
                                            .then_some(())
                                    })()
                                    .is_some();
                                    if !good {
                                        databad += 1;
                                    }
                                }
                                parts.push(format!(
                                    "{}:{}:{}:{}:{}:[{}]",
                                    bi,
                                    p.blob_block_offset,
                                    p.part_blob_offset,
                                    p.data.len(),
                                    idx.len(),
                                    p.indices
                                        .iter()
                                        .map(|i| format!("{}.{}.{}.{}", i.hash, i.sequence, i.offset, i.len))
                                        .collect::<Vec<_>>()
                                        .join("/")
                                ));
                            }
                        }
                        let mut o = format!("blocks={} parts={}", batch.blocks.len(), parts.join(";"));
                        if databad > 0 || lenbad > 0 {
                            o += &format!(" databad={databad} lenbad={lenbad}");
                        }
                        return o;
                    }
                    // build the batch buffer exactly as the flusher does: entries page-aligned, back to back
                    let total: usize = lens.iter().map(|l| l.div_ceil(PAGE) * PAGE).sum();
                    let mut bytes = IoSliceMut::new(total.max(PAGE));
                    let mut infos = vec![];
                    let mut off = 0;
                    for (n, l) in lens.iter().enumerate() {
                        for b in bytes[off..off + l].iter_mut() {
                            *b = (n as u8).wrapping_add(1);
                        }
                        infos.push(BufferEntryInfo {
                            hash: 1000 + seq0 + n as u64,
                            sequence: seq0 + n as u64,
                            offset: off,
                            len: *l,
                        });
                        off += l.div_ceil(PAGE) * PAGE;
                    }
                    let batch = Splitter::split(c, bytes.into_io_slice(), infos);
                    let mut parts = vec![];
                    for (bi, block) in batch.blocks.iter().enumerate() {
                        for p in block.blob_parts.iter() {
                            let idx = BlobIndexReader::read(&p.index).expect("sealed index must parse");
                            // the sealed page lists every entry of the blob so far; this part's are the last ones
                            assert!(idx.len() >= p.indices.len());
                            assert_eq!(idx[idx.len() - p.indices.len()..], p.indices[..]);
                            parts.push(format!(
                                "{}:{}:{}:{}:{}:[{}]",
                                bi,
                                p.blob_block_offset,
                                p.part_blob_offset,
                                p.data.len(),
                                idx.len(),
                                p.indices
                                    .iter()
                                    .map(|i| format!("{}.{}.{}.{}", i.hash, i.sequence, i.offset, i.len))
                                    .collect::<Vec<_>>()
                                    .join("/")
                            ));
                        }
                    }
                    format!("blocks={} parts={}", batch.blocks.len(), parts.join(";"))
                }
                "bidx" => {
                    // the blob index page byte by byte: BlobIndex::write / seal over a reused page buffer (`fill`),
                    // BlobIndexReader::read on the sealed page and on a copy with one byte changed (`flip=pos:xor`)
                    let size: usize = kv["I"].parse().unwrap();
                    let fill: u8 = kv.get("fill").map(|s| s.parse().unwrap()).unwrap_or(0);
                    let ents: Vec<BlobEntryIndex> = kv
                        .get("ents")
                        .map(|s| s.as_str())
                        .unwrap_or("")
                        .split('/')
                        .filter(|s| !s.is_empty())
                        .map(|e| {
                            let f: Vec<u64> = e.split('.').map(|x| x.parse().unwrap()).collect();
                            BlobEntryIndex { hash: f[0], sequence: f[1], offset: f[2] as u32, len: f[3] as u32 }
                        })
                        .collect();
                    let mut bytes = IoSliceMut::new(size);
                    bytes.iter_mut().for_each(|b| *b = fill);
                    let mut bi = BlobIndex::new(bytes);
                    for e in ents.iter() {
                        bi.write(e);
                    }
                    let page = bi.seal();
                    let show = |r: Option<Vec<BlobEntryIndex>>| match r {
                        Some(v) => format!(
                            "ok:{}",
                            v.iter().map(|i| format!("{}.{}.{}.{}", i.hash, i.sequence, i.offset, i.len)).collect::<Vec<_>>().join("/")
                        ),
                        None => "reject".to_string(),
                    };
                    let read = show(BlobIndexReader::read(&page));
                    let mut dmg = page.to_vec();
                    let (pos, x) = kv["flip"].split_once(':').unwrap();
                    let (pos, x): (usize, u8) = (pos.parse().unwrap(), x.parse().unwrap());
                    dmg[pos] ^= x;
                    let ck2 = Checksummer::checksum64(&dmg[8..]);
                    let d = match std::panic::catch_unwind(|| BlobIndexReader::read(&dmg)) {
                        Ok(r) => show(r),
                        Err(_) => "panic".to_string(),
                    };
                    format!("ck={} ck2={} page={} read={} dmg={}", Checksummer::checksum64(&page[8..]), ck2, hex(&page[..]), read, d)
                }
                _ => panic!("unknown command {name}"),
            }
        }));
        match res {
            Ok(s) => writeln!(out, "{line} | {s}").unwrap(),
            Err(_) => writeln!(out, "{line} | PANIC").unwrap(),
        }
    }
    if let Some(d) = tomb.take() {
        let _ = std::fs::remove_dir_all(&d.dir);
    }
}
