//! conc: runs per-thread programs concurrently on one foyer-memory `Cache` and prints the history:
//! every operation with its invocation and response stamps (a global logical clock) and its result.
//!
//! script:  cfg algo=lru shards=2 cap=4 rounds=20 jitter=7 reent=0 timeout=20
//!          t0 ins 1        | t1 get 1 | t2 rm 1 | t0 gof 2 | t1 has 1 | t2 touch 1 | t0 clear | t1 resize 3 | t2 evictall
//! output:  cfg ...                       (echo)
//!          op r=<round> t=<tid> i=<idx> <op> k=<k> v=<v> inv=<n> ret=<n> res=<...>
//!          round r=<round> handles_bad=<n>
//!          end                            | DEADLOCK | PANIC
//!
//! Values are unique per (round, thread, index).  With reent=1 the event listener, the weighter, the filter and the
//! value's destructor call back into the same cache (C16); a watchdog reports DEADLOCK if the run does not finish.

use std::{
    cell::Cell,
    collections::BTreeMap,
    sync::{
        Arc, Barrier, OnceLock,
        atomic::{AtomicBool, AtomicU64, Ordering},
    },
    time::Duration,
};

use foyer_common::event::{Event, EventListener};
use foyer_memory::{Cache, CacheBuilder, EvictionConfig, FifoConfig, LfuConfig, LruConfig, S3FifoConfig, SieveConfig};

static CLK: AtomicU64 = AtomicU64::new(1);
static REENT: AtomicBool = AtomicBool::new(false);
static CACHE: OnceLock<parking_lot::RwLock<Option<C>>> = OnceLock::new();
static CALLBACKS: AtomicU64 = AtomicU64::new(0);

thread_local! {
    static DEPTH: Cell<u32> = const { Cell::new(0) };
}

fn tick() -> u64 {
    CLK.fetch_add(1, Ordering::SeqCst)
}

/// what a user callback does when re-entrancy is on: look up, insert and remove on the same cache
fn reenter(key: u64) {
    if !REENT.load(Ordering::Relaxed) {
        return;
    }
    let d = DEPTH.with(|d| d.get());
    if d >= 2 {
        return;
    }
    DEPTH.with(|c| c.set(d + 1));
    let cache = CACHE.get().and_then(|c| c.read().clone());
    if let Some(cache) = cache {
        CALLBACKS.fetch_add(1, Ordering::Relaxed);
        let k2 = (key + 1) % 4;
        let _ = cache.get(&k2).map(|e| e.value().v);
        let _ = cache.contains(&key);
        if d == 0 {
            // an insert from inside a callback (it may evict, and run callbacks itself, one level deeper)
            cache.insert(100 + k2, Val::new(900_000_000 + tick()));
            cache.remove(&(100 + key % 4));
        }
    }
    DEPTH.with(|c| c.set(d));
}

#[derive(Debug)]
struct Val {
    v: u64,
}
impl Val {
    fn new(v: u64) -> Self {
        Val { v }
    }
}
impl Drop for Val {
    fn drop(&mut self) {
        reenter(self.v % 4);
    }
}

struct Listener;
impl EventListener for Listener {
    type Key = u64;
    type Value = Val;
    fn on_leave(&self, _reason: Event, key: &u64, _value: &Val) {
        reenter(*key);
    }
}

type C = Cache<u64, Val>;

fn kvs(line: &str) -> BTreeMap<String, String> {
    line.split_whitespace()
        .filter_map(|t| t.split_once('=').map(|(a, b)| (a.to_string(), b.to_string())))
        .collect()
}
fn geti_d(kv: &BTreeMap<String, String>, k: &str, d: u64) -> u64 {
    kv.get(k).map(|v| v.parse().unwrap()).unwrap_or(d)
}

#[derive(Clone, Debug)]
struct Op {
    name: String,
    k: u64,
}

fn build(kv: &BTreeMap<String, String>) -> C {
    let algo = kv.get("algo").cloned().unwrap_or("fifo".into());
    let eviction: EvictionConfig = match algo.as_str() {
        "lru" => LruConfig::default().into(),
        "lfu" => LfuConfig::default().into(),
        "s3fifo" => S3FifoConfig::default().into(),
        "sieve" => SieveConfig.into(),
        _ => FifoConfig::default().into(),
    };
    let weights = geti_d(kv, "weights", 0);
    let reject = geti_d(kv, "filter", 0) == 1;
    let mut b = CacheBuilder::new(geti_d(kv, "cap", 4) as usize)
        .with_shards(geti_d(kv, "shards", 1) as usize)
        .with_eviction_config(eviction)
        .with_weighter(move |k: &u64, _v: &Val| {
            reenter(*k);
            // weights: 0 = every entry weighs 1, 1 = every entry weighs 0, 2 = even keys weigh 0
            match weights {
                1 => 0,
                2 => (*k % 2) as usize,
                _ => 1,
            }
        })
        .with_filter(move |k: &u64, v: &Val| {
            reenter(*k);
            // filter=1: every third value is rejected (its insert becomes a phantom that displaces the resident record)
            !(reject && v.v % 3 == 0)
        });
    b = b.with_event_listener(Arc::new(Listener));
    b.build()
}

fn main() {
    std::panic::set_hook(Box::new(|_| {}));
    let path = std::env::args().nth(1).expect("script");
    let text = std::fs::read_to_string(path).unwrap();
    let all: Vec<&str> = text.lines().filter(|l| !l.trim().is_empty() && !l.starts_with('#')).collect();
    let mut i = 0;
    while i < all.len() {
        let mut j = i + 1;
        while j < all.len() && !all[j].starts_with("cfg ") {
            j += 1;
        }
        run_script(&all[i..j]);
        i = j;
    }
}

fn run_script(script: &[&str]) {
    let cfgline = script[0];
    let kv = kvs(cfgline);
    println!("{cfgline}");
    let rounds = geti_d(&kv, "rounds", 1);
    let jitter = geti_d(&kv, "jitter", 0);
    let reent = geti_d(&kv, "reent", 0) == 1;
    let timeout = geti_d(&kv, "timeout", 20);
    REENT.store(reent, Ordering::SeqCst);

    let mut progs: BTreeMap<u64, Vec<Op>> = BTreeMap::new();
    for l in &script[1..] {
        let t: Vec<&str> = l.split_whitespace().collect();
        let tid: u64 = t[0][1..].parse().unwrap();
        progs.entry(tid).or_default().push(Op {
            name: t[1].to_string(),
            k: t.get(2).map(|x| x.parse().unwrap()).unwrap_or(0),
        });
    }
    let nthreads = progs.len();
    let rt = Arc::new(tokio::runtime::Builder::new_multi_thread().worker_threads(2).enable_all().build().unwrap());

    let (tx, rx) = std::sync::mpsc::channel::<Vec<String>>();
    let kvc = kv.clone();
    let worker = std::thread::spawn(move || {
        let mut out = vec![];
        for round in 0..rounds {
            let cache = build(&kvc);
            *CACHE.get_or_init(|| parking_lot::RwLock::new(None)).write() = Some(cache.clone());
            let barrier = Arc::new(Barrier::new(nthreads));
            let mut hs = vec![];
            for (tid, prog) in progs.clone() {
                let cache = cache.clone();
                let barrier = barrier.clone();
                let rt = rt.clone();
                hs.push(std::thread::spawn(move || {
                    let _g = rt.enter();
                    let mut lines = vec![];
                    let mut held: Vec<(u64, foyer_memory::CacheEntry<u64, Val>)> = vec![];
                    // xorshift for the jitter
                    let mut x = jitter.wrapping_mul(0x9E3779B97F4A7C15) ^ (round * 1315423911) ^ (tid * 2654435761) | 1;
                    barrier.wait();
                    for (idx, op) in prog.iter().enumerate() {
                        if jitter > 0 {
                            x ^= x << 13;
                            x ^= x >> 7;
                            x ^= x << 17;
                            match x % 4 {
                                0 => std::thread::yield_now(),
                                1 => {
                                    for _ in 0..(x >> 8) % 200 {
                                        std::hint::spin_loop();
                                    }
                                }
                                _ => {}
                            }
                        }
                        let v = round * 1_000_000 + tid * 1000 + idx as u64 + 1;
                        let inv = tick();
                        let res = match op.name.as_str() {
                            "ins" => {
                                let e = cache.insert(op.k, Val::new(v));
                                held.push((v, e));
                                "ok".to_string()
                            }
                            "rm" => match cache.remove(&op.k) {
                                Some(e) => {
                                    let r = format!("some:{}", e.value().v);
                                    held.push((e.value().v, e));
                                    r
                                }
                                None => "none".into(),
                            },
                            "get" => match cache.get(&op.k) {
                                Some(e) => {
                                    let r = format!("hit:{}", e.value().v);
                                    held.push((e.value().v, e));
                                    r
                                }
                                None => "miss".into(),
                            },
                            "has" => format!("{}", cache.contains(&op.k)),
                            "touch" => format!("{}", cache.touch(&op.k)),
                            "gof" => {
                                let fetched = Arc::new(AtomicBool::new(false));
                                let f2 = fetched.clone();
                                // `tread`: when the origin was read (the fetch closure is invoked): the value is as of then
                                let tread = Arc::new(AtomicU64::new(0));
                                let t2 = tread.clone();
                                let fut = cache.get_or_fetch(&op.k, move || {
                                    t2.store(tick(), Ordering::SeqCst);
                                    async move {
                                        f2.store(true, Ordering::SeqCst);
                                        Ok::<_, anyhow::Error>(Val::new(v))
                                    }
                                });
                                match rt.block_on(fut) {
                                    Ok(e) => {
                                        let r = format!(
                                            "got:{}:{}:{}",
                                            e.value().v,
                                            if fetched.load(Ordering::SeqCst) { 1 } else { 0 },
                                            tread.load(Ordering::SeqCst)
                                        );
                                        held.push((e.value().v, e));
                                        r
                                    }
                                    Err(_) => "err".into(),
                                }
                            }
                            "clear" => {
                                cache.clear();
                                "ok".into()
                            }
                            "resize" => {
                                let _ = cache.resize(op.k as usize);
                                "ok".into()
                            }
                            "evictall" => {
                                cache.evict_all();
                                "ok".into()
                            }
                            _ => "?".into(),
                        };
                        let ret = tick();
                        lines.push(format!(
                            "op r={round} t={tid} i={idx} {} k={} v={v} inv={inv} ret={ret} res={res}",
                            op.name, op.k
                        ));
                    }
                    // entry handles stay readable and unchanged
                    let bad = held.iter().filter(|(v, e)| e.value().v != *v).count();
                    drop(held);
                    (lines, bad)
                }));
            }
            let mut bad = 0;
            for h in hs {
                match h.join() {
                    Ok((l, b)) => {
                        out.extend(l);
                        bad += b;
                    }
                    Err(_) => out.push(format!("PANIC r={round}")),
                }
            }
            out.push(format!("round r={round} handles_bad={bad} callbacks={}", CALLBACKS.load(Ordering::Relaxed)));
            *CACHE.get().unwrap().write() = None;
            drop(cache);
        }
        let _ = tx.send(out);
    });
    match rx.recv_timeout(Duration::from_secs(timeout)) {
        Ok(out) => {
            for l in out {
                println!("{l}");
            }
            println!("end");
            let _ = worker.join();
        }
        Err(_) => {
            println!("DEADLOCK");
            std::process::exit(3);
        }
    }
}
