(* Driver for the extracted memory-cache models.  Reads a trace produced by the Rust
   harness (`memtrace`): a cfg line, then one line per operation
       <op tokens> | <implementation observations>
   and prints, for every operation, the model's own observation line in the same
   format.  In generic mode the victims of each eviction loop are read from the
   implementation's `ev=` field (E: entries) and only validated; in concrete mode they
   are predicted by the algorithm model. *)
open Mem_model

let rec pos_of_int i =
  if i = 1 then XH else if i land 1 = 0 then XO (pos_of_int (i lsr 1)) else XI (pos_of_int (i lsr 1))
let n_of_int i = if i = 0 then N0 else Npos (pos_of_int i)
let rec int_of_pos = function XH -> 1 | XO p -> 2 * int_of_pos p | XI p -> 2 * int_of_pos p + 1
let int_of_n = function N0 -> 0 | Npos p -> int_of_pos p
let rec nat_of_int i = if i = 0 then O else S (nat_of_int (i - 1))
let rec int_of_nat = function O -> 0 | S n -> 1 + int_of_nat n

let split_on c s = if s = "" then [] else String.split_on_char c s

(* "a=1 b=2" -> assoc *)
let kvs toks =
  List.filter_map (fun t ->
    match String.index_opt t '=' with
    | Some i -> Some (String.sub t 0 i, String.sub t (i + 1) (String.length t - i - 1))
    | None -> None) toks
let geti kv k = int_of_string (List.assoc k kv)
let geti_d kv k d = match List.assoc_opt k kv with Some v -> int_of_string v | None -> d
let gets_d kv k d = match List.assoc_opt k kv with Some v -> v | None -> d

let ev_name = function EvEvict -> "E" | EvReplace -> "R" | EvRemove -> "M" | EvClear -> "C"

let rec drop_n n l = if n = 0 then l else match l with [] -> [] | _ :: t -> drop_n (n - 1) t

(* observation of a list of shards after an op; [before] gives elog/plog lengths *)
let obs_of (before : shard list) (after : shard list) (univ : int) (ret : string) (sort_ev : bool) =
  let evs = List.concat (List.map2 (fun b a ->
      List.map (fun (e, i) -> let r = get_rec a i in
                 (ev_name e, int_of_n r.rkey, int_of_n r.rval))
        (drop_n (List.length b.elog) a.elog)) before after) in
  let evs = if sort_ev then List.sort compare evs else evs in
  let pipes = List.concat (List.map2 (fun b a ->
      List.map (fun i -> let r = get_rec a i in (int_of_n r.rkey, int_of_n r.rval))
        (drop_n (List.length b.plog) a.plog)) before after) in
  let pipes = if sort_ev then List.sort compare pipes else pipes in
  let usage = List.fold_left (fun acc s -> acc + int_of_n s.usage) 0 after in
  let entries = List.fold_left (fun acc s -> acc + int_of_n s.entries) 0 after in
  let find = List.filter (fun k ->
      List.exists (fun s -> lookup (n_of_int k) s.idx <> None) after)
      (List.init univ (fun k -> k)) in
  let hs = List.concat (List.map (fun s ->
      List.map (fun (h, i) -> let r = get_rec s i in
                 (int_of_n h, int_of_n (get_ref s i), (if indexed s i then 0 else 1),
                  int_of_n r.rval, int_of_n r.rkey, int_of_n r.rweight)) s.handles) after) in
  let hs = List.sort compare hs in
  Printf.sprintf "ret=%s ev=%s pipe=%s usage=%d entries=%d find=%s hs=%s"
    ret
    (String.concat "," (List.map (fun (e, k, v) -> Printf.sprintf "%s:%d:%d" e k v) evs))
    (String.concat "," (List.map (fun (k, v) -> Printf.sprintf "%d:%d" k v) pipes))
    usage entries
    (String.concat "," (List.map string_of_int find))
    (String.concat "," (List.map (fun (h, r, o, v, k, w) -> Printf.sprintf "%d:%d:%d:%d:%d:%d" h r o v k w) hs))

let victims_of_obs (obs : string) : n list =
  let kv = kvs (split_on ' ' obs) in
  let ev = gets_d kv "ev" "" in
  List.filter_map (fun item ->
      match split_on ':' item with
      | "E" :: k :: _ -> Some (n_of_int (int_of_string k))
      | _ -> None) (split_on ',' ev)

let run_script (cfgline : string) (lines : string list) =
  let ckv = kvs (split_on ' ' cfgline) in
  let algo = gets_d ckv "algo" "fifo" in
  let cap = geti ckv "cap" in
  let shards = geti_d ckv "shards" 1 in
  let univ = geti_d ckv "univ" 8 in
  let hdiv = geti_d ckv "hdiv" 1 and hmul = geti_d ckv "hmul" 1 in
  let mode = gets_d ckv "mode" "generic" in
  let cfg = { pins = (algo = "lru"); piped = (geti_d ckv "pipe" 0 = 1);
              bug_clear = (geti_d ckv "bug_clear" 0 = 1); bug_touch = (geti_d ckv "bug_touch" 0 = 1) } in
  let hash_int k = (k / hdiv) * hmul in
  let hash (k : n) : n = n_of_int (hash_int (int_of_n k)) in
  (* bucket table for LFU: bk=<hash>:<b0>.<b1>...,... *)
  let bk = List.filter_map (fun item ->
      match split_on ':' item with
      | [h; bs] -> Some (int_of_string h, List.map (fun b -> nat_of_int (int_of_string b)) (split_on '.' bs))
      | _ -> None) (split_on ',' (gets_d ckv "bk" "")) in
  let bucket (h : n) : nat list = match List.assoc_opt (int_of_n h) bk with Some l -> l | None -> [] in
  let derived kv = { d1 = n_of_int (geti_d kv "d1" 0); d2 = n_of_int (geti_d kv "d2" 0) } in
  let init_algo () =
    match algo with
    | "fifo" -> AFifo []
    | "lru" -> init_lru (n_of_int (geti_d ckv "d1" 0))
    | "sieve" -> init_sieve
    | "s3fifo" -> init_s3 (n_of_int (geti_d ckv "d1" 0)) (n_of_int (geti_d ckv "d2" 0)) (n_of_int (geti_d ckv "thr" 1))
    | "lfu" -> init_lfu (n_of_int (geti_d ckv "d1" 0)) (n_of_int (geti_d ckv "d2" 0))
                 (nat_of_int (geti_d ckv "rows" 1)) (nat_of_int (geti_d ckv "buckets" 3))
    | _ -> failwith "algo" in
  print_endline cfgline;
  let gstate = ref (init_cache (n_of_int cap) (nat_of_int shards)) in
  let cstate = ref { gen = init_shard (n_of_int cap); alg = init_algo () } in
  let dead = ref false in
  List.iter (fun line ->
      if String.length line > 0 && line.[0] <> '#' then begin
        let optext, implobs =
          match String.index_opt line '|' with
          | Some i -> String.trim (String.sub line 0 i), String.trim (String.sub line (i + 1) (String.length line - i - 1))
          | None -> String.trim line, "" in
        if !dead then print_endline (optext ^ " | DEAD")
        else begin
          let toks = split_on ' ' optext in
          let name = List.hd toks in
          let kv = kvs toks in
          let n k = n_of_int (geti kv k) in
          let b k = geti_d kv k 0 = 1 in
          let vs = victims_of_obs implobs in
          let find_shard_states () = if mode = "generic" then !gstate else [ (!cstate).gen ] in
          let before = find_shard_states () in
          let lookup_key k =
            List.fold_left (fun acc s -> match acc with Some _ -> acc | None ->
                (match lookup (n_of_int k) s.idx with Some i -> Some (get_rec s i) | None -> None)) None before in
          (* return value, computed on the pre-state *)
          let ret =
            match name with
            | "ins" -> "h"
            | "get" | "gof" | "remove" ->
                (match lookup_key (geti kv "k") with
                 | Some r -> Printf.sprintf "hit:%d" (int_of_n r.rval) | None -> "miss")
            | "touch" | "contains" ->
                (match lookup_key (geti kv "k") with Some _ -> "1" | None -> "0")
            | _ -> "-" in
          let gop () =
            match name with
            | "ins" -> OInsert (n "k", n "v", n "w", hash (n "k"), b "low", b "ph", n "h", vs)
            | "get" | "gof" -> OGet (n "k", n "h")
            | "touch" -> OTouch (n "k", n "h")
            | "contains" -> OContains (n "k")
            | "remove" -> ORemove (n "k", n "h")
            | "clear" | "dropcache" | "dropcache2" -> OClear
            | "resize" -> OResize (n "cap", vs)
            | "evict_all" -> OEvictAll vs
            | "flush" -> OFlush vs
            | "clone" -> OClone (n "h", n "h2")
            | "drop" -> ODrop (n "h")
            | _ -> failwith ("op " ^ name) in
          let cop () =
            match name with
            | "ins" -> CInsert (n "k", n "v", n "w", hash (n "k"), b "low", b "ph", n "h")
            | "get" | "gof" -> CGet (n "k", n "h")
            | "touch" -> CTouch (n "k", n "h")
            | "contains" -> CContains (n "k")
            | "remove" -> CRemove (n "k", n "h")
            | "clear" | "dropcache" | "dropcache2" -> CClear
            | "resize" -> CResize (n "cap", derived kv)
            | "evict_all" | "flush" -> CEvictAll
            | "clone" -> CClone (n "h", n "h2")
            | "drop" -> CDrop (n "h")
            | _ -> failwith ("op " ^ name) in
          (* dropcache2: the entry handles outlive the last cache handle - they are dropped first (each with its own
             effects), then the cache's inner goes and clears what is resident *)
          if name = "dropcache2" then begin
            if mode = "generic" then
              List.iter (fun s ->
                  List.iter (fun (h, _) ->
                      match cstep hash cfg !gstate (ODrop h) with Some s' -> gstate := s' | None -> ()) s.handles) before
            else
              List.iter (fun (h, _) ->
                  match cstep1 bucket cfg !cstate (CDrop h) with Some s' -> cstate := s' | None -> ()) (!cstate).gen.handles
          end;
          let ok =
            if mode = "generic" then
              (match cstep hash cfg !gstate (gop ()) with
               | Some s' -> gstate := s'; true
               | None -> false)
            else
              (match cstep1 bucket cfg !cstate (cop ()) with
               | Some s' -> cstate := s'; true
               | None -> false) in
          if not ok then begin
            dead := true;
            print_endline (optext ^ " | INADMISSIBLE")
          end else begin
            let after = find_shard_states () in
            print_endline (optext ^ " | " ^ obs_of before after univ ret (name = "clear" || name = "dropcache" || name = "dropcache2"))
          end
        end
      end) lines

let () =
  let all = ref [] in
  (try while true do all := input_line stdin :: !all done with End_of_file -> ());
  let all = List.rev !all in
  let is_cfg l = String.length l >= 4 && String.sub l 0 4 = "cfg " in
  let rec go cur acc = function
    | [] -> (match cur with Some c -> run_script c (List.rev acc) | None -> ())
    | l :: rest ->
        if is_cfg l then begin
          (match cur with Some c -> run_script c (List.rev acc) | None -> ());
          go (Some l) [] rest
        end else go cur (l :: acc) rest in
  go None [] all
