(* Driver for the extracted codec model (Disk/Codec.v): reads the `fmt` harness trace and prints the
   model's observation for every command. *)
open Fmt_model

let rec pos_of_int i =
  if i = 1 then XH else if i land 1 = 0 then XO (pos_of_int (i lsr 1)) else XI (pos_of_int (i lsr 1))
let n_of_int i = if i = 0 then N0 else Npos (pos_of_int i)
let rec int_of_pos = function XH -> 1 | XO p -> 2 * int_of_pos p | XI p -> 2 * int_of_pos p + 1
let int_of_n = function N0 -> 0 | Npos p -> int_of_pos p
let nat_of_int i = let rec go acc i = if i = 0 then acc else go (S acc) (i - 1) in go O i

(* arbitrary-size decimal <-> N through the extracted arithmetic *)
let ten = n_of_int 10
let n_of_dec (s : string) : n =
  let acc = ref N0 in
  String.iter (fun c -> acc := N.add (N.mul !acc ten) (n_of_int (Char.code c - 48))) s;
  !acc
let dec_of_n (x : n) : string =
  if x = N0 then "0" else begin
    let b = Buffer.create 40 in
    let rec go x acc = if x = N0 then acc else go (N.div x ten) (int_of_n (N.modulo x ten) :: acc) in
    List.iter (fun d -> Buffer.add_char b (Char.chr (48 + d))) (go x []);
    Buffer.contents b
  end

let split_on c s = if s = "" then [] else String.split_on_char c s
let kvs toks =
  List.filter_map (fun t ->
    match String.index_opt t '=' with
    | Some i -> Some (String.sub t 0 i, String.sub t (i + 1) (String.length t - i - 1))
    | None -> None) toks
let gets kv k = List.assoc k kv
let gets_d kv k d = match List.assoc_opt k kv with Some v -> v | None -> d
let geti kv k = int_of_string (gets kv k)

let unhex (s : string) : n list =
  List.init (String.length s / 2) (fun i -> n_of_int (int_of_string ("0x" ^ String.sub s (2 * i) 2)))
let hex (l : n list) : string =
  let b = Buffer.create (2 * List.length l) in
  List.iter (fun x -> Buffer.add_string b (Printf.sprintf "%02x" (int_of_n x))) l;
  Buffer.contents b

let width = function
  | "u8" | "i8" -> 1 | "u16" | "i16" -> 2 | "u32" | "i32" | "f32" -> 4
  | "u64" | "i64" | "f64" | "usize" | "isize" -> 8 | "u128" | "i128" -> 16
  | t -> failwith ("type " ^ t)

(* core::str::from_utf8 (external code, re-implemented here for the correspondence only) *)
let utf8_valid (l : n list) : bool =
  let a = Array.of_list (List.map int_of_n l) in
  let n = Array.length a in
  let cont i = i < n && a.(i) land 0xC0 = 0x80 in
  let rec go i =
    if i >= n then true else
    let b = a.(i) in
    if b < 0x80 then go (i + 1)
    else if b >= 0xC2 && b <= 0xDF then cont (i + 1) && go (i + 2)
    else if b = 0xE0 then i + 1 < n && a.(i + 1) >= 0xA0 && a.(i + 1) <= 0xBF && cont (i + 2) && go (i + 3)
    else if (b >= 0xE1 && b <= 0xEC) || b = 0xEE || b = 0xEF then cont (i + 1) && cont (i + 2) && go (i + 3)
    else if b = 0xED then i + 1 < n && a.(i + 1) >= 0x80 && a.(i + 1) <= 0x9F && cont (i + 2) && go (i + 3)
    else if b = 0xF0 then i + 1 < n && a.(i + 1) >= 0x90 && a.(i + 1) <= 0xBF && cont (i + 2) && cont (i + 3) && go (i + 4)
    else if b >= 0xF1 && b <= 0xF3 then cont (i + 1) && cont (i + 2) && cont (i + 3) && go (i + 4)
    else if b = 0xF4 then i + 1 < n && a.(i + 1) >= 0x80 && a.(i + 1) <= 0x8F && cont (i + 2) && cont (i + 3) && go (i + 4)
    else false in
  go 0

let comp_tag = function "zstd" -> 1 | "lz4" -> 2 | _ -> 0

let ranges (v : int list) : string =
  let a = Array.of_list (List.sort compare v) in
  let n = Array.length a in
  let out = ref [] in
  let i = ref 0 in
  while !i < n do
    let j = ref !i in
    while !j + 1 < n && a.(!j + 1) = a.(!j) + 1 do incr j done;
    out := (if !i = !j then string_of_int a.(!i) else Printf.sprintf "%d-%d" a.(!i) a.(!j)) :: !out;
    i := !j + 1
  done;
  String.concat "," (List.rev !out)

let split_b = ref 0
let split_i = ref 0
let split_ctx : sctx option ref = ref None

let tomb_pages = ref 1
let tomb_dev : tomb list ref = ref []
let tomb_next = ref 1
let tomb_bug = ref false

let () =
  (try
    while true do
      let line = input_line stdin in
      if String.length line > 0 && line.[0] <> '#' then begin
        let cmd = match String.index_opt line '|' with
          | Some i -> String.trim (String.sub line 0 i) | None -> String.trim line in
        let toks = split_on ' ' cmd in
        let name = List.hd toks in
        let kv = kvs toks in
        let obs =
          match name with
          | "enc" ->
              let w = width (gets kv "ty") in
              "hex=" ^ hex (encode_le (nat_of_int w) (n_of_dec (gets kv "x")))
          | "dec" ->
              let b = unhex (gets_d kv "hex" "") in
              (match gets kv "ty" with
               | "bool" ->
                   (match decode_bool b with
                    | Some (v, r) -> Printf.sprintf "ok x=%d rest=%d" (if v then 1 else 0) (List.length r)
                    | None -> "err")
               | ("vec" | "str") when
                   (* a length prefix beyond the input cannot succeed (read_exact fails); do not build the unary number *)
                   (match decode_int (nat_of_int 8) b with
                    | Some (len, r) -> N.ltb (n_of_int (List.length r)) len
                    | None -> false) -> "err"
               | "vec" ->
                   (match decode_vec b with
                    | Some (v, r) -> Printf.sprintf "ok hex=%s rest=%d" (hex v) (List.length r)
                    | None -> "err")
               | "str" ->
                   (match decode_string utf8_valid b with
                    | Some (v, r) -> Printf.sprintf "ok hex=%s rest=%d" (hex v) (List.length r)
                    | None -> "err")
               | ty ->
                   (match decode_int (nat_of_int (width ty)) b with
                    | Some (x, r) -> Printf.sprintf "ok x=%s rest=%d" (dec_of_n x) (List.length r)
                    | None -> "err"))
          | "encb" ->
              (match gets kv "ty" with
               | "bool" -> "hex=" ^ hex (encode_bool (gets kv "b" = "1"))
               | _ -> "hex=" ^ hex (encode_vec (unhex (gets_d kv "hex" ""))))
          | "encsmall" ->
              (* a Vec<u8> of n bytes needs 8 + n bytes of room *)
              let need = 8 + String.length (gets_d kv "hex" "") / 2 in
              if need <= geti kv "room" then "ok" else "err:BufferSizeLimit"
          | "push" ->
              let kenc =
                match gets kv "kty" with
                | "u64" -> encode_le (nat_of_int 8) (n_of_dec (gets kv "k"))
                | _ -> encode_vec (unhex (gets kv "k")) in
              (match List.assoc_opt "mvlen" kv with
               | None -> "ok=0 infos=0"     (* the implementation rejected and the compressed size is unknown *)
               | Some mv ->
                   let mvlen = int_of_string mv in
                   let ck = n_of_dec (gets_d kv "ck" "0") in
                   let b0 = { bf_cap = n_of_int (geti kv "cap"); bf_written = n_of_int (geti kv "pre");
                              bf_infos = []; bf_max = n_of_int (geti kv "max"); bf_data = [] } in
                   let vb = List.init mvlen (fun _ -> N0) in
                   let (b1, ok) = buffer_push (fun _ -> ck) (fun _ _ -> vb) b0 kenc [] (n_of_dec (gets kv "hash"))
                       (n_of_dec (gets kv "seq")) (n_of_int (comp_tag (gets kv "comp"))) in
                   if not ok then "ok=0 infos=0" else begin
                     let i = List.hd (List.rev b1.bf_infos) in
                     let (_, data) = List.hd (List.rev b1.bf_data) in
                     let hdr = List.filteri (fun j _ -> j < 36) data in
                     Printf.sprintf "ok=1 infos=1 off=%d len=%d klen=%d vlen=%d hdr=%s"
                       (int_of_n i.b_offset) (int_of_n i.b_len) (List.length kenc) mvlen (hex hdr)
                   end)
          | "splitnew" ->
              split_b := geti kv "B"; split_i := geti kv "I";
              split_ctx := Some (init_ctx (n_of_int !split_i)); "ok"
          | "split" ->
              let lens = List.map int_of_string (List.filter (fun x -> x <> "") (split_on ',' (gets kv "lens"))) in
              let seq0 = int_of_string (gets_d kv "seq0" "1") in
              let es = List.mapi (fun i l -> { e_hash = n_of_int (1000 + seq0 + i); e_seq = n_of_int (seq0 + i); e_len = n_of_int l }) lens in
              (match !split_ctx with
               | None -> "PANIC"
               | Some c ->
                   (match split (n_of_int !split_b) (n_of_int !split_i) c es with
                    | None -> "PANIC"
                    | Some ((c', ps), nb) ->
                        split_ctx := Some c';
                        let ps' = List.map (fun p ->
                            Printf.sprintf "%d:%d:%d:%d:%d:[%s]" (int_of_n p.p_blk) (int_of_n p.p_bbo) (int_of_n p.p_pbo) (int_of_n p.p_size) (int_of_n p.p_cnt)
                              (String.concat "/" (List.map (fun i -> Printf.sprintf "%d.%d.%d.%d" (int_of_n i.i_hash) (int_of_n i.i_seq) (int_of_n i.i_off) (int_of_n i.i_len)) p.p_inds))) ps in
                        Printf.sprintf "blocks=%d parts=%s" (int_of_n nb) (String.concat ";" ps')))
          | "recover" ->
              (* pages=off:h.s.o.l/h.s.o.l,off:...   what the block holds; the extracted scanner + regress check *)
              let b = n_of_int (geti kv "B") and i = n_of_int (geti kv "I") in
              let pages = List.map (fun pg ->
                  match split_on ':' pg with
                  | [o; es] ->
                      (n_of_int (int_of_string o),
                       List.map (fun e -> match split_on '.' e with
                           | [h; s; o2; l] -> { i_hash = n_of_dec h; i_seq = n_of_dec s; i_off = n_of_dec o2; i_len = n_of_dec l }
                           | _ -> failwith "idx") (List.filter (fun x -> x <> "") (split_on '/' es)))
                  | [o] -> (n_of_int (int_of_string o), [])
                  | _ -> failwith "page") (List.filter (fun x -> x <> "") (split_on ',' (gets_d kv "pages" ""))) in
              let stale o = List.assoc_opt o pages in
              let infos = recover_block b i (rd [] stale) in
              Printf.sprintf "infos=%s" (String.concat "/" (List.map (fun x ->
                  Printf.sprintf "%s.%s.%s.%s" (dec_of_n x.n_hash) (dec_of_n x.n_seq) (dec_of_n x.n_off) (dec_of_n x.n_len)) infos))
          | "bidx" ->
              (* the implementation's line carries the two checksums (XXH64 is external code) *)
              let all = kvs (split_on ' ' line) in
              let ck = n_of_dec (gets all "ck") and ck2 = n_of_dec (gets all "ck2") in
              let size = geti kv "I" in
              let fill = n_of_int (int_of_string (gets_d kv "fill" "0")) in
              let ents = List.map (fun e -> match split_on '.' e with
                  | [h; s; o; l] -> { be_hash = n_of_dec h; be_seq = n_of_dec s; be_off = n_of_dec o; be_len = n_of_dec l }
                  | _ -> failwith "bent") (List.filter (fun x -> x <> "") (split_on '/' (gets_d kv "ents" ""))) in
              let rest = List.init (size - 12 - 24 * List.length ents) (fun _ -> fill) in
              let page = bidx_page (fun _ -> ck) ents rest in
              let show = function
                | BOk v -> "ok:" ^ String.concat "/" (List.map (fun i ->
                    Printf.sprintf "%s.%s.%s.%s" (dec_of_n i.be_hash) (dec_of_n i.be_seq) (dec_of_n i.be_off) (dec_of_n i.be_len)) v)
                | BReject -> "reject" | BPanic -> "panic" in
              let (pos, x) = match split_on ':' (gets kv "flip") with [a; b] -> (int_of_string a, int_of_string b) | _ -> failwith "flip" in
              let dmg = List.mapi (fun j b -> if j = pos then n_of_int ((int_of_n b) lxor x) else b) page in
              Printf.sprintf "ck=%s ck2=%s page=%s read=%s dmg=%s" (dec_of_n ck) (dec_of_n ck2) (hex page)
                (show (bidx_read (fun _ -> ck) page)) (show (bidx_read (fun _ -> ck2) dmg))
          | "tombnew" ->
              tomb_pages := geti kv "pages"; tomb_next := 1;
              tomb_bug := (gets_d kv "bug_tail" "0" = "1");
              tomb_dev := fresh_device (n_of_int !tomb_pages); "ok"
          | "tombsession" ->
              let k = geti kv "n" in
              let (g, rcv) = topen !tomb_bug (n_of_int !tomb_pages) !tomb_dev in
              let ts = List.init k (fun i -> let s = !tomb_next + i in { t_hash = n_of_int (s * 7); t_seq = n_of_int s }) in
              let ts = match gets_d kv "perm" "0" with
                | "1" -> List.rev ts
                | "2" -> let (a, b) = List.partition (fun t -> (int_of_n t.t_seq) mod 2 = 0) ts in a @ b
                | _ -> ts in
              tomb_next := !tomb_next + k;
              tomb_dev := (tappend g ts).l_slots;
              let seqs = List.map (fun t -> int_of_n t.t_seq) rcv in
              Printf.sprintf "rec=%s count=%d badhash=0" (ranges seqs) (List.length rcv)
          | _ -> "skip" in
        print_endline (cmd ^ " | " ^ obs)
      end
    done
  with End_of_file -> ())
