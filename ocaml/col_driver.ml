(* Driver for the extracted collision model (Hybrid/Collide.v): all keys of one hash.
   Input: "cfg", then   enq <k> | del <k> | flush | drain | load <k> | recover
   Every "load" prints "<k> <version|->" (versions are the model's stamps: the n-th enq created version n). *)
open Col_model

let rec pos_of_int i =
  if i = 1 then XH else if i land 1 = 0 then XO (pos_of_int (i lsr 1)) else XI (pos_of_int (i lsr 1))
let n_of_int i = if i = 0 then N0 else Npos (pos_of_int i)
let rec int_of_pos = function XH -> 1 | XO p -> 2 * int_of_pos p | XI p -> 2 * int_of_pos p + 1
let int_of_n = function N0 -> 0 | Npos p -> int_of_pos p
let split_on c s = List.filter (fun t -> t <> "") (String.split_on_char c s)

let () =
  let c = { bug_keeper = false; bug_nocheck = false } in
  let st = ref init_c in
  (try
    while true do
      let line = String.trim (input_line stdin) in
      if line <> "" && line.[0] <> '#' then begin
        match split_on ' ' line with
        | "cfg" :: _ -> st := init_c; print_endline line
        | "enq" :: k :: _ -> st := c_step c !st (AEnq (n_of_int (int_of_string k)))
        | "del" :: k :: _ -> st := c_step c !st (ADel (n_of_int (int_of_string k)))
        | "flush" :: _ -> st := c_step c !st AFlush
        | "drain" :: _ -> while !st.cq <> [] do st := c_step c !st AFlush done
        | "recover" :: _ -> st := c_step c !st ARecover
        | "load" :: k :: _ ->
            let kk = n_of_int (int_of_string k) in
            (match c_load_result c !st kk with
             | Some v -> Printf.printf "%s %d\n" k (int_of_n v)
             | None -> Printf.printf "%s -\n" k)
        | _ -> ()
      end
    done
  with End_of_file -> ())
