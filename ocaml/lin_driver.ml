(* Driver for the extracted history checker (Mem/Linear.v): per-key histories, one per "h" block.
   input:   h <label>
            e <id> w <v> <inv> <ret>     a write (insert) of v
            e <id> d 0 <inv> <ret>       a delete (remove / clear)
            e <id> r <v|-> <inv> <ret>   a read returning v, or a miss
   output:  <label> ok | <label> bad <ids of the reads the checker rejects> *)
open Lin_model

let rec pos_of_int i =
  if i = 1 then XH else if i land 1 = 0 then XO (pos_of_int (i lsr 1)) else XI (pos_of_int (i lsr 1))
let n_of_int i = if i = 0 then N0 else Npos (pos_of_int i)
let rec int_of_pos = function XH -> 1 | XO p -> 2 * int_of_pos p | XI p -> 2 * int_of_pos p + 1
let int_of_n = function N0 -> 0 | Npos p -> int_of_pos p
let split_on c s = List.filter (fun t -> t <> "") (String.split_on_char c s)

let flush label evs =
  match label with
  | None -> ()
  | Some l ->
      let h = List.rev evs in
      if check h then Printf.printf "%s ok\n" l
      else begin
        let bad = List.filter (fun e -> not (read_ok h e)) h in
        Printf.printf "%s bad %s\n" l (String.concat "," (List.map (fun e -> string_of_int (int_of_n e.eid)) bad))
      end

let () =
  let label = ref None and evs = ref [] in
  (try
    while true do
      let line = String.trim (input_line stdin) in
      match split_on ' ' line with
      | "h" :: l :: _ -> flush !label !evs; label := Some l; evs := []
      | "e" :: id :: k :: v :: inv :: ret :: _ ->
          let kind = match k with
            | "w" -> KWrite (n_of_int (int_of_string v))
            | "d" -> KDelete
            | _ -> KRead (if v = "-" then None else Some (n_of_int (int_of_string v))) in
          evs := { eid = n_of_int (int_of_string id); ekind = kind; einv = n_of_int (int_of_string inv);
                   eret = n_of_int (int_of_string ret) } :: !evs
      | _ -> ()
    done
  with End_of_file -> ());
  flush !label !evs
