(* Driver for the extracted one-key hybrid model (Hybrid/Engine.v): one model instance per key.
   Input: "cfg woi=.. tomb=.. foc=.. bug_rr=..", then "key <k> accepts=.. reins=..", then one line per step:
     <k|*> ins <default|inmem|ondisk> | evict | rm | drain | restart | get | sload | subs | crash
   '*' applies the step to every key.  get / sload / subs print one observation line. *)
open Hyb_model

let rec pos_of_int i =
  if i = 1 then XH else if i land 1 = 0 then XO (pos_of_int (i lsr 1)) else XI (pos_of_int (i lsr 1))
let n_of_int i = if i = 0 then N0 else Npos (pos_of_int i)
let rec int_of_pos = function XH -> 1 | XO p -> 2 * int_of_pos p | XI p -> 2 * int_of_pos p + 1
let int_of_n = function N0 -> 0 | Npos p -> int_of_pos p
let split_on c s = List.filter (fun t -> t <> "") (String.split_on_char c s)
let kvs toks =
  List.filter_map (fun t ->
    match String.index_opt t '=' with
    | Some i -> Some (String.sub t 0 i, String.sub t (i + 1) (String.length t - i - 1))
    | None -> None) toks
let geti_d kv k d = match List.assoc_opt k kv with Some v -> int_of_string v | None -> d

let () =
  let woi = ref false and tomb = ref false and foc = ref true and bug = ref false in
  let keys : (int, hcfg * kst ref) Hashtbl.t = Hashtbl.create 8 in
  let order = ref [] in
  let next_id = ref 0 in
  let b0 = n_of_int 0 in
  let apply k f =
    let targets = if k = "*" then List.rev !order else [int_of_string k] in
    List.iter (fun k -> let (c, st) = Hashtbl.find keys k in f k c st) targets in
  (try
    while true do
      let line = String.trim (input_line stdin) in
      if line <> "" && line.[0] <> '#' then begin
        let toks = split_on ' ' line in
        match toks with
        | "cfg" :: rest ->
            let kv = kvs rest in
            woi := geti_d kv "woi" 0 = 1; tomb := geti_d kv "tomb" 0 = 1;
            foc := geti_d kv "foc" 1 = 1; bug := geti_d kv "bug_rr" 0 = 1;
            Hashtbl.reset keys; order := []; next_id := 0;
            print_endline line
        | "key" :: k :: rest ->
            let kv = kvs rest in
            let c = { woi = !woi; accepts = geti_d kv "accepts" 1 = 1; reins = geti_d kv "reins" 0 = 1;
                      tomb = !tomb; foc = !foc; bug_rr = !bug } in
            Hashtbl.replace keys (int_of_string k) (c, ref init_k);
            order := int_of_string k :: !order
        | k :: "ins" :: l :: _ ->
            let loc = match l with "inmem" -> LInMem | "ondisk" -> LOnDisk | _ -> LDefault in
            apply k (fun _ c st -> st := kstep c !st (KIns loc))
        | k :: "evict" :: _ -> apply k (fun _ c st -> st := kstep c !st KEvict)
        | k :: "rm" :: _ -> apply k (fun _ c st -> st := kstep c !st KRm)
        | k :: "drain" :: _ -> apply k (fun _ c st -> st := kstep c !st (KDrain b0))
        | k :: "flushto" :: b :: _ ->
            (* the oldest submission of the key is written to block b, indexed, and its batch completes *)
            let bn = n_of_int (int_of_string b) in
            apply k (fun _ c st -> st := kstep c (kstep c !st (KFlush bn)) KComplete)
        | k :: "reclaim" :: b :: _ ->
            let bn = n_of_int (int_of_string b) in
            apply k (fun _ c st -> st := kstep c !st (KReclaim bn))
        | k :: "restart" :: _ ->
            apply k (fun _ c st ->
              let s1 = do_close c !st b0 in
              st := do_recover c s1 s1.kdisk)
        | k :: "get" :: _ ->
            apply k (fun key c st ->
              incr next_id;
              let i = n_of_int !next_id in
              let r = lookup_now !st in
              st := kstep c (kstep c !st (KLoadStart i)) (KLoadFinish (i, Young));
              Printf.printf "%d get %s\n" key (match r with Some v -> string_of_int (int_of_n v) | None -> "-"))
        | k :: "sload" :: _ ->
            apply k (fun key _ st ->
              let (r, fromk) = disk_lookup2 !st in
              (* a trailing '*' = the key's flusher pipeline is not empty (a reinsertion is still on its way) *)
              Printf.printf "%d sload %s%s\n" key
                (match r with Some v -> (if fromk then "q" else "d") ^ string_of_int (int_of_n v) | None -> "-")
                (if !st.kq <> [] || !st.ki <> [] then "*" else ""))
        | k :: "crash" :: _ ->
            (* the process dies here; what a reopen that scans the whole device would serve (state unchanged) *)
            apply k (fun key c st ->
              let r = lookup_now (do_recover c !st !st.kdisk) in
              Printf.printf "%d crash %s\n" key (match r with Some v -> string_of_int (int_of_n v) | None -> "-"))
        | k :: "subs" :: _ ->
            apply k (fun key _ st -> Printf.printf "%d subs %d\n" key (List.length !st.ksubs))
        | _ -> ()
      end
    done
  with End_of_file -> ())
