(* Driver for the extracted block-manager model (Disk/BlockMgr.v).
   Input: "cfg n=<blocks> th=<clean threshold> conc=<reclaimers> fifo=<0|1>", then events
     get <flusher> | fin <block> | done <block>      (optional trailing "ch=<block>": a non-FIFO picker's choice)
   "dump" prints the grants (blocks in the order handed out), the reclaim order and the four sets. *)
open Blk_model

let rec pos_of_int i =
  if i = 1 then XH else if i land 1 = 0 then XO (pos_of_int (i lsr 1)) else XI (pos_of_int (i lsr 1))
let n_of_int i = if i = 0 then N0 else Npos (pos_of_int i)
let rec int_of_pos = function XH -> 1 | XO p -> 2 * int_of_pos p | XI p -> 2 * int_of_pos p + 1
let int_of_n = function N0 -> 0 | Npos p -> int_of_pos p
let rec nat_of_int i = if i <= 0 then O else S (nat_of_int (i - 1))
let split_on c s = List.filter (fun t -> t <> "") (String.split_on_char c s)
let kvs toks =
  List.filter_map (fun t ->
    match String.index_opt t '=' with
    | Some i -> Some (String.sub t 0 i, String.sub t (i + 1) (String.length t - i - 1))
    | None -> None) toks
let geti_d kv k d = match List.assoc_opt k kv with Some v -> int_of_string v | None -> d
let show l = String.concat "," (List.map (fun x -> string_of_int (int_of_n x)) l)

let () =
  let c = ref { threshold = S O; concurrency = S O; fifo = true } in
  let st = ref (init_b []) in
  (try
    while true do
      let line = String.trim (input_line stdin) in
      if line <> "" && line.[0] <> '#' then begin
        let toks = split_on ' ' line in
        let kv = kvs toks in
        let ch = n_of_int (geti_d kv "ch" 0) in
        match toks with
        | "cfg" :: _ ->
            c := { threshold = nat_of_int (geti_d kv "th" 1); concurrency = nat_of_int (geti_d kv "conc" 1);
                   fifo = geti_d kv "fifo" 1 = 1 };
            st := init_b (List.init (geti_d kv "n" 4) n_of_int);
            print_endline line
        | "get" :: f :: _ -> st := bstep !c !st (BGet (n_of_int (int_of_string f), ch))
        | "fin" :: b :: _ -> st := bstep !c !st (BFinish (n_of_int (int_of_string b), ch))
        | "done" :: b :: _ -> st := bstep !c !st (BReclaimDone (n_of_int (int_of_string b), ch))
        | "dump" :: _ ->
            let s = !st in
            Printf.printf "grants=%s rlog=%s clean=%s evictable=%s writing=%s reclaiming=%s waiters=%d\n"
              (show (List.map snd s.grants)) (show s.rlog) (show s.clean) (show s.evictable) (show s.writing)
              (show s.reclaiming) (List.length s.waiters)
        | _ -> ()
      end
    done
  with End_of_file -> ())
