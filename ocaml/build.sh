#!/bin/bash
# Extracts the models (coq/Extract/*X.v, needs the .vo files built) and compiles the drivers.
set -e
cd "$(dirname "$0")"
for fam in mem fetch fmt; do
  X=$(echo ${fam:0:1} | tr a-z A-Z)${fam:1}X
  src=../coq/Extract/$X.v
  if [ ! -f ${fam}_model.ml ] || [ -n "$(find ../coq -name '*.vo' -newer ${fam}_model.ml 2>/dev/null | head -1)" ] || [ $src -nt ${fam}_model.ml ]; then
    coqc -Q ../coq FV $src > /dev/null
    touch ${fam}_model.ml
  fi
  if [ ! -f ${fam}_driver ] || [ ${fam}_model.ml -nt ${fam}_driver ] || [ ${fam}_driver.ml -nt ${fam}_driver ]; then
    ocamlfind ocamlopt -w -a -O2 -o ${fam}_driver ${fam}_model.mli ${fam}_model.ml ${fam}_driver.ml 2>/dev/null || \
    ocamlfind ocamlopt -w -a -o ${fam}_driver ${fam}_model.mli ${fam}_model.ml ${fam}_driver.ml
  fi
done
