#!/bin/bash
# Extracts the models (coq/Extract/*X.v, needs the .vo files built) and compiles the drivers.
# Re-done only when a model source, an extraction file or a driver changed (content hash).
set -e
cd "$(dirname "$0")"
mkdir -p ../.cache
stamp=$(cat ../coq/Base/*.v ../coq/Mem/*.v ../coq/Fetch/*.v ../coq/Disk/*.v ../coq/Hybrid/*.v ../coq/Extract/*.v *_driver.ml build.sh 2>/dev/null | sha1sum | cut -d' ' -f1)
ok=1
for fam in mem fetch fmt hyb blk lin col; do [ -x ${fam}_driver ] || ok=0; done
if [ "$ok" = 1 ] && [ -f ../.cache/ocaml.stamp ] && [ "$(cat ../.cache/ocaml.stamp)" = "$stamp" ]; then exit 0; fi
for fam in mem fetch fmt hyb blk lin col; do
  X=$(echo ${fam:0:1} | tr a-z A-Z)${fam:1}X
  coqc -Q ../coq FV ../coq/Extract/$X.v > /dev/null
  # build beside the target and rename: a check that is running keeps its (old) binary
  ocamlfind ocamlopt -w -a -O2 -o ${fam}_driver.new ${fam}_model.mli ${fam}_model.ml ${fam}_driver.ml 2>/dev/null || \
  ocamlfind ocamlopt -w -a -o ${fam}_driver.new ${fam}_model.mli ${fam}_model.ml ${fam}_driver.ml
  mv -f ${fam}_driver.new ${fam}_driver
done
echo "$stamp" > ../.cache/ocaml.stamp
