(* Driver for the extracted M-FETCH model: reads fetchtrace scripts (cfg line, then one action per
   line, implementation observations after '|' are ignored) and prints the model's observation. *)
open Fetch_model

let rec pos_of_int i =
  if i = 1 then XH else if i land 1 = 0 then XO (pos_of_int (i lsr 1)) else XI (pos_of_int (i lsr 1))
let n_of_int i = if i = 0 then N0 else Npos (pos_of_int i)
let rec int_of_pos = function XH -> 1 | XO p -> 2 * int_of_pos p | XI p -> 2 * int_of_pos p + 1
let int_of_n = function N0 -> 0 | Npos p -> int_of_pos p
let split_on c s = if s = "" then [] else String.split_on_char c s
let kvs toks =
  List.filter_map (fun t ->
    match String.index_opt t '=' with
    | Some i -> Some (String.sub t 0 i, String.sub t (i + 1) (String.length t - i - 1))
    | None -> None) toks
let geti kv k = int_of_string (List.assoc k kv)
let geti_d kv k d = match List.assoc_opt k kv with Some v -> int_of_string v | None -> d
let gets_d kv k d = match List.assoc_opt k kv with Some v -> v | None -> d

let res_str = function
  | RPending -> "P" | REntry v -> "E" ^ string_of_int (int_of_n v) | RNone -> "N"
  | RErr k -> "X" ^ string_of_int (int_of_n k)

let run_script cfgline lines =
  let ckv = kvs (split_on ' ' cfgline) in
  let bug = geti_d ckv "bug_close" 0 = 1 in
  let univ = geti_d ckv "univ" 3 in
  print_endline cfgline;
  let st = ref init_f in
  let dropped = ref [] in
  List.iter (fun line ->
    if String.length line > 0 && line.[0] <> '#' then begin
      let optext = match String.index_opt line '|' with
        | Some i -> String.trim (String.sub line 0 i) | None -> String.trim line in
      let toks = split_on ' ' optext in
      let name = List.hd toks in
      let kv = kvs toks in
      let n k = n_of_int (geti kv k) in
      let act =
        match name with
        | "call" ->
            if geti_d kv "nopoll" 0 = 1
            then Some (ACallNoPoll (n "c", n "k", geti_d kv "opt" 0 = 1, geti_d kv "req" 0 = 1))
            else Some (ACall (n "c", n "k", geti_d kv "opt" 0 = 1, geti_d kv "req" 0 = 1))
        | "kill" -> Some AKillAll
        | "opt" -> Some (AOpt (n "c", (match gets_d kv "res" "miss" with
                                       | "hit" -> OHit (n "v") | "miss" -> OMiss | _ -> OErr)))
        | "req" -> Some (AReq (n "f", (match gets_d kv "res" "ok" with
                                       | "ok" -> FOk (n "v") | "err" -> FErr | _ -> FPanic)))
        | "insert" -> Some (AInsert (n "k", n "v"))
        | "remove" -> Some (ARemove (n "k"))
        | "dropc" -> dropped := geti kv "c" :: !dropped; None
        | _ -> None in
      (match act with Some a -> st := fstep bug !st a | None -> ());
      (* a disk-only insert = the insert (in-flight entry taken, waiters answered with v) whose record is not resident *)
      if name = "insertph" then begin
        st := fstep bug !st (AInsert (n "k", n "v"));
        st := fstep bug !st (ARemove (n "k"))
      end;
      let s = !st in
      let callers = List.filter_map (fun (c, r) ->
          let c = int_of_n c in
          if List.mem c !dropped then None else Some (Printf.sprintf "%d:%s" c (res_str r))) s.callers in
      let started = List.map (fun f -> string_of_int (int_of_n f)) s.started in
      let lv = List.sort compare (List.map int_of_n (live s)) in
      let memv = List.filter_map (fun k ->
          match mlookup (n_of_int k) s.mem with
          | Some v -> Some (Printf.sprintf "%d:%d" k (int_of_n v)) | None -> None)
          (List.init univ (fun k -> k)) in
      Printf.printf "%s | callers=%s started=%s live=%s mem=%s\n" optext
        (String.concat "," callers) (String.concat "," started)
        (String.concat "," (List.map string_of_int lv)) (String.concat "," memv)
    end) lines

let () =
  let all = ref [] in
  (try while true do all := input_line stdin :: !all done with End_of_file -> ());
  let all = List.rev !all in
  let is_cfg l = String.length l >= 4 && String.sub l 0 4 = "cfg " in
  let rec go cur acc = function
    | [] -> (match cur with Some c -> run_script c (List.rev acc) | None -> ())
    | l :: rest ->
        if is_cfg l then begin
          (match cur with Some c -> run_script c (List.rev acc) | None -> ());
          go (Some l) [] rest
        end else go cur (l :: acc) rest in
  go None [] all
