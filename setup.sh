#!/bin/bash
# Builds the framework offline from files on disk: Coq development (full .vo build), extracted OCaml drivers,
# Rust harness (path dependencies on /repo).
set -e
cd "$(dirname "$0")"
export CARGO_NET_OFFLINE=true
( cd coq && coq_makefile -f _CoqProject -o Makefile > /dev/null && timeout 3000 make -j16 > ../.setup-coq.log 2>&1 ) || { tail -30 .setup-coq.log; exit 1; }
( cd ocaml && bash build.sh )
( cd harness && cp /repo/Cargo.lock Cargo.lock 2>/dev/null || true; timeout 3000 cargo build --offline --bins > ../.setup-cargo.log 2>&1 ) || { tail -30 .setup-cargo.log; exit 1; }
# the codec harness once more with foyer-common's `serde` feature (C08: the bincode path of Code)
( cd harness && timeout 3000 cargo build --offline --bin fmt --features serde-path --target-dir target-serde >> ../.setup-cargo.log 2>&1 ) || { tail -30 .setup-cargo.log; exit 1; }
echo setup ok
