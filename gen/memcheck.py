"""Check flow for the memory-cache properties C05, C13, C14, C17, C18."""
import glob, json, os, random
from . import common as C
from . import mem as M

MODE = {"C05": "generic", "C13": "generic", "C17": "generic", "C18": "generic", "C14": "concrete"}

ASSUME = [
    "single-threaded execution of the API calls in script order (multi-threaded interleavings are C02's subject)",
    "hashbrown / intrusive-collections behave as finite maps / lists; the float->integer rounding of derived "
    "capacities is computed by the harness with the code's own expression and passed to the model",
    "generic streams (C05/C13/C17/C18) read each eviction loop's victims from the implementation and only "
    "validate them; C14 predicts them with the algorithm models",
]


def gen_scripts(pid, tier, seed):
    rng = random.Random(seed * 1000 + int(pid[1:]))
    thorough = tier == "thorough"
    scripts, rule = [], []
    mode = MODE[pid]
    if pid == "C05":
        L = 5 if thorough else 3
        for algo in (M.ALGOS if thorough else ["fifo", "lru"]):
            scripts += M.exhaustive_scripts(algo, L)
        rule.append(f"exhaustive: all op sequences of length <= {L} over a 10-letter alphabet (2 keys, cap 2)")
    if pid == "C14":
        per = 4000 if thorough else 260
        for algo in M.ALGOS:
            for _ in range(per):
                cfg = M.gen_cfg(rng, algo=algo, single=True, mode="concrete", hasher=rng.choice(["id", "id", "half"]))
                w = dict(ins=45, gethold=12, getdrop=14, touch=5, drop=12, clone=1, remove=5, clear=1, resize=3,
                         evict_all=1, flush=0, contains=1)
                scripts.append(M.script_text(cfg, M.gen_ops(rng, cfg, rng.choice([8, 20, 40, 80]), w)))
            for _ in range(per // 6):
                cfg = M.gen_cfg(rng, algo=algo, single=True, mode="concrete", hasher="id")
                cfg["cap"] = rng.choice([3, 4, 6, 8]); cfg["univ"] = rng.choice([8, 12, 16])
                scripts.append(M.script_text(cfg, M.gen_hot_ops(rng, cfg, rng.choice([40, 80, 150]))))
        for _ in range(per // 4):
            cfg = M.gen_cfg(rng, algo="lru", single=True, mode="concrete", hasher="id")
            cfg["cap"] = rng.choice([3, 4, 6, 8]); cfg["univ"] = rng.choice([6, 8, 12]); cfg["hp"] = rng.choice([0.3, 0.5, 0.75, 0.9])
            scripts.append(M.script_text(cfg, M.gen_lru_pin_ops(rng, cfg, rng.choice([20, 40, 80]))))
        rule.append(f"{per // 4} LRU scripts with held lookups released while the high-priority pool is full + "
                    f"{per} random scripts per algorithm (single shard, length 8..80, several ratio/threshold configs) + "
                    f"{per // 6} skewed traces per algorithm (hot keys looked up 1..8 times in a row between streams of cold keys)")
    else:
        per = 6000 if thorough else 280
        for algo in M.ALGOS:
            for _ in range(per):
                hasher = None
                if pid == "C17":
                    hasher = rng.choice(["half", "const", "same", "half"])
                cfg = M.gen_cfg(rng, algo=algo, hasher=hasher)
                scripts.append(M.script_text(cfg, M.gen_ops(rng, cfg, rng.choice([6, 15, 30, 60]))))
        rule.append(f"{per} random scripts per algorithm (caps 0..12, shards 1..4, colliding hashers, weights 0..cap+2, "
                    "hold/clone/drop, phantom, clear, resize, evict_all, flush, cache drop)")
    return scripts, "; ".join(rule)


def corpus(pid):
    out = []
    for p in sorted(glob.glob(os.path.join(C.ROOT, "corpus", pid, "*.script"))):
        out.append(open(p).read())
    return out


def evaluate(pid, res):
    """res = (impl_lines, model_lines, cfgline) -> dict(mismatch=idx|None, oracle=(idx,msg)|None)"""
    impl, model, cfgl = res
    mm = M.first_mismatch(impl, model)
    orc = None
    if pid in M.ORACLES:
        orc = M.ORACLES[pid](M.Hist(cfgl, impl))
    elif pid == "C14":
        # the algorithm model is the documented algorithm: a different victim sequence is the failure
        if mm is not None:
            a = impl[mm] if mm < len(impl) else "<end>"
            b = model[mm] if mm < len(model) else "<end>"
            orc = (mm, f"implementation: {a.split('|',1)[-1].strip()}  documented algorithm: {b.split('|',1)[-1].strip()}")
    return dict(mismatch=mm, oracle=orc)


def shrink(pid, script, budget=400):
    """greedy line removal keeping an oracle failure of this property"""
    lines = script.strip().split("\n")
    cfg, ops = lines[0], lines[1:]

    def fails(ops_):
        txt = cfg + "\n" + "\n".join(ops_) + "\n"
        r = M.run_batch([txt], mode=MODE[pid])[0]
        return evaluate(pid, r)["oracle"] is not None

    runs = 0
    changed = True
    while changed and runs < budget:
        changed = False
        i = len(ops) - 1
        while i >= 0 and runs < budget:
            cand = ops[:i] + ops[i + 1:]
            runs += 1
            if cand and fails(cand):
                ops = cand; changed = True
            i -= 1
    return cfg + "\n" + "\n".join(ops) + "\n"


def run(pid, tier, seed, gate, replay=None):
    C.build_ocaml()
    C.build_harness(["memtrace"])
    if replay:
        rp = json.load(open(replay))
        scripts, rule = [rp["script"]], "replay"
    else:
        scripts, rule = gen_scripts(pid, tier, seed)
        scripts = corpus(pid) + scripts
    results = M.run_many(scripts, mode=MODE[pid])
    evals = [evaluate(pid, r) for r in results]
    dist, nontrivial, flagcount = {}, set(), {}
    for s, r in zip(scripts, results):
        fl = M.classify(r[0])
        for f in fl:
            flagcount[f] = flagcount.get(f, 0) + 1
        algo = r[2].split("algo=")[1].split()[0]
        dist[algo] = dist.get(algo, 0) + 1
        if fl:
            nontrivial.add(C.case_hash(s))
    violations = []
    failing = [(i, e) for i, e in enumerate(evals) if e["oracle"] is not None]
    mism = [(i, e) for i, e in enumerate(evals) if e["mismatch"] is not None and e["oracle"] is None]
    n = 0
    if failing:
        # report the shortest failing script, shrunk
        i, e = min(failing, key=lambda t: len(scripts[t[0]]))
        small = shrink(pid, scripts[i])
        r = M.run_batch([small], mode=MODE[pid])[0]
        e2 = evaluate(pid, r)
        rp = C.write_replay(pid, seed, n, dict(
            property=pid, stream="memtrace/" + MODE[pid], script=small, impl_obs=r[0], model_obs=r[1],
            oracle=dict(failed_at=e2["oracle"][0], what=e2["oracle"][1]) if e2["oracle"] else
            dict(failed_at=e["oracle"][0], what=e["oracle"][1]),
            broken=None, failing_cases=len(failing)))
        violations.append(dict(replay=rp, what=(e2["oracle"] or e["oracle"])[1]))
        n += 1
    elif mism:
        i, e = min(mism, key=lambda t: len(scripts[t[0]]))
        k = e["mismatch"]
        rp = C.write_replay(pid, seed, n, dict(
            property=pid, stream="memtrace/" + MODE[pid], script=scripts[i], impl_obs=results[i][0],
            model_obs=results[i][1], oracle=None,
            broken=f"correspondence memtrace/{MODE[pid]}: model and implementation differ at op {k} "
                   f"({len(mism)} scripts); the property oracle accepts the implementation on all {len(scripts)} scripts"))
        violations.append(dict(replay=rp, nofail=True, what=f"correspondence broken at op {k}: "
                               f"impl `{results[i][0][k] if k < len(results[i][0]) else '<end>'}` "
                               f"model `{results[i][1][k] if k < len(results[i][1]) else '<end>'}`"))
        n += 1
    if gate.get("failed") and not failing:
        rp = C.write_replay(pid, seed, "gate", dict(property=pid, oracle=None,
                                                   broken=f"Coq gate for Props/{pid}.v: {gate['failed']}",
                                                   note=f"oracle search over {len(scripts)} scripts found no failing input"))
        violations.append(dict(replay=rp, nofail=True, what=gate["failed"]))
    extra_cov = {}
    if pid == "C18" and not replay and not failing:
        # multi-threaded: lookups, short holds and drops of one key from several threads while a writer keeps the single
        # LRU shard under pressure; the key is never removed or replaced, so a held handle may never become outdated
        C.build_harness(["pinrace"])
        runs, bad = [], None
        for readers, cap in ([(4, 2), (2, 2), (6, 3), (3, 1)] if tier == "thorough" else [(4, 2), (2, 2)]):
            rc, out = C.sh([os.path.join(C.BIN, "pinrace"), str(readers), str(cap), "1500" if tier == "thorough" else "400"], timeout=120)
            kvs = dict(t.split("=") for t in out.split() if "=" in t)
            runs.append(dict(readers=readers, capacity=cap, **kvs))
            if rc != 0 or int(kvs.get("violations", "1")) > 0:
                bad = bad or (readers, cap, out.strip())
        extra_cov["multi_threaded_pin_runs"] = runs
        if bad:
            rp = C.write_replay(pid, seed, "pinrace", dict(property=pid, stream="pinrace (threads)", script=f"pinrace {bad[0]} {bad[1]} 400",
                                                          impl_obs=[bad[2]], oracle=dict(failed_at=0, what="held handle became outdated"), broken=None))
            violations.append(dict(replay=rp, what=f"LRU, {bad[0]} reader threads, capacity {bad[1]}: a handle obtained by get() became outdated while "
                                                  f"it was held although the key is never removed or replaced - the entry was evicted while "
                                                  f"looked up and held ({bad[2]})"))
    if pid == "C17" and not replay:
        # the in-flight table is keyed by (hash, key) as well: colliding keys must not be coalesced
        from . import fetch as F
        C.build_harness(["fetchtrace"])
        rng = random.Random(seed + 17)
        fs = []
        for _ in range(1500 if tier == "thorough" else 250):
            algo = rng.choice(F.ALGOS)
            hd, hm, sh = rng.choice([(1000, 1, 1), (1000, 1, 2), (2, 1, 1), (1, 2, 2)])
            fs.append(F.cfg_line(algo, 3, hd, hm, sh) + "\n" + "\n".join(F.gen_random(rng, rng.choice([8, 16, 30]), 3)) + "\n")
        fres = F.run_many(fs)
        fbad = [(i, F.oracle_c06(r[0])) for i, r in enumerate(fres)]
        fbad = [(i, o) for i, o in fbad if o is not None]
        fmm = [(i, F.first_mismatch(r[0], r[1])) for i, r in enumerate(fres)]
        fmm = [(i, m) for i, m in fmm if m is not None]
        if fbad and not failing:
            i, o = min(fbad, key=lambda t: len(fs[t[0]]))
            rp = C.write_replay(pid, seed, "fetch", dict(property=pid, stream="fetchtrace/colliding-hasher", script=fs[i],
                                                        impl_obs=fres[i][0], model_obs=fres[i][1],
                                                        oracle=dict(failed_at=o[0], what=o[1]), broken=None))
            violations.append(dict(replay=rp, what=o[1]))
        elif fmm and not failing and not mism:
            i, m = fmm[0]
            rp = C.write_replay(pid, seed, "fetch", dict(property=pid, stream="fetchtrace/colliding-hasher", script=fs[i],
                                                        impl_obs=fres[i][0], model_obs=fres[i][1], oracle=None,
                                                        broken=f"correspondence fetchtrace (colliding hashers) differs at action {m}"))
            violations.append(dict(replay=rp, nofail=True, what=f"fetchtrace correspondence broken at action {m}"))
        # hybrid cache over a colliding hasher: write queue (flushers held), disk index, restarts
        from . import hybrid as H
        C.build_harness(["hybridsim"])
        hs = []
        for _ in range(300 if tier == "thorough" else 40):
            ops, ver, held = [], 1, False
            for _ in range(rng.randrange(4, 16)):
                a = rng.choices(["ins", "get", "sload", "rm", "hold", "unhold", "sync", "memevict", "restart", "gof"],
                                [30, 20, 10, 6, 8, 8, 8, 6, 4, 4])[0]
                k = rng.randrange(4)
                if a == "ins":
                    ops.append(f"ins k={k} ver={ver} size={rng.choice([64, 64, 5000])}"); ver += 1
                elif a == "gof":
                    ops.append(f"gof k={k} ver={ver} size=64"); ver += 1
                elif a in ("get", "sload", "rm"):
                    ops.append(f"{a} k={k}")
                elif a == "hold" and not held:
                    ops.append("hold"); held = True
                elif a == "unhold" and held:
                    ops.append("unhold"); held = False
                elif a == "memevict":
                    ops.append("memevict")
                elif a == "sync" and not held:
                    ops.append("wait")
                elif a == "restart" and not held:
                    ops += ["wait", "close", "reopen"]
            if held:
                ops.append("unhold")
            ops += ["wait"] + [f"get k={k}" for k in range(4)] + ["close", "reopen"] + [f"get k={k}" for k in range(4)]
            hs.append(H.cfg_line(policy=rng.choice(["woi", "woe"]), algo="fifo", mem=rng.choice([1, 2, 100]), univ=4,
                                 hashmod=rng.choice([1, 1, 2]), timeout=5) + "\n" + "\n".join(ops) + "\n")
        hbad = None
        for sc, (cfgl, lines) in zip(hs, H.run_many(hs)):
            o = None
            for n, l in enumerate(lines):
                name, kv, r, *_ = H.parse(l)
                if name in ("get", "sload", "gof") and r == "HANG":
                    o = (n, f"{name} of key {kv.get('k')} never completed"); break
            o = o or H.oracle_c01(cfgl, lines)
            if o and (hbad is None or len(sc) < len(hbad[0])):
                hbad = (sc, lines, o)
        if hbad and not failing and not fbad:
            sc, lines, o = hbad
            rp = C.write_replay(pid, seed, "hybrid", dict(property=pid, stream="hybridsim/colliding-hasher", script=sc, impl_obs=lines,
                                                         oracle=dict(failed_at=o[0], what=o[1]), broken=None))
            violations.append(dict(replay=rp, what=o[1]))
        # the collision model of the disk tier (Hybrid/Collide.v, extracted) against the real store, all keys colliding
        from . import colcorr as X
        C.build_ocaml()
        cs = [X.gen(rng) for _ in range(300 if tier == "thorough" else 40)]
        ncmp, cbad = X.check(cs)
        if cbad and not failing and not fbad and not hbad:
            sc, lines, text = cbad
            o = H.oracle_c01(sc.split("\n")[0], lines)
            rp = C.write_replay(pid, seed, "collide", dict(property=pid, stream="hybridsim/collision model", script=sc, impl_obs=lines,
                                                          oracle=(dict(failed_at=o[0], what=o[1]) if o else None),
                                                          broken=None if o else f"correspondence hybridsim/collision model: {text}"))
            violations.append(dict(replay=rp, what=(o[1] if o else text), nofail=not o))
        extra_cov = dict(fetch_scripts_with_colliding_hashers=len(fs), hybrid_scripts_with_colliding_hashers=len(hs),
                         collision_model_histories=len(cs), collision_model_loads_compared=ncmp)
    sample = results[min(len(results) - 1, 7)] if results else None
    cov = dict(
        evaluations=len(scripts), distinct_nontrivial=len(nontrivial),
        rule=rule + "; non-trivial = reached at least one of: eviction, replace, non-empty clear, phantom, "
                    "remove/get/touch hit, oversize insert; distinct = SHA-1 of the script text",
        samples=[dict(script=scripts[min(len(scripts) - 1, 7)].strip().split("\n")[:12],
                      impl_first_lines=(sample[0][:4] if sample else []))],
        traces_validated_against_impl=len(scripts) - len(mism) - len(failing),
        input_distribution=dict(per_algorithm=dist, situations=flagcount, **extra_cov),
        exhaustive=False,
    )
    return cov, violations, ASSUME
