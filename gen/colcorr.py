"""Correspondence between the collision model of the disk tier (coq/Hybrid/Collide.v, extracted) and the real store:
every key of the history hashes to the same 64-bit value (`hashmod=1`).  Deterministic histories under
write-on-insertion: `wait` after every step unless the flushers are held, store-level loads (`sload`), restarts.
Compared: what every load returns (version or miss)."""
import os, subprocess
from . import common as C
from . import hybrid as H

DRIVER = os.path.join(C.OCAML, "col_driver")


def gen(rng):
    ops, ver, held = [], 1, False
    for _ in range(rng.randrange(5, 22)):
        a = rng.choices(["ins", "sload", "rm", "hold", "unhold", "restart"], [34, 30, 12, 8, 10, 6])[0]
        k = rng.randrange(3)
        if a == "ins":
            ops.append(f"ins k={k} ver={ver} size={rng.choice([64, 64, 3000])}"); ver += 1
            if not held:
                ops.append("wait")
        elif a == "rm":
            ops.append(f"rm k={k}")
            if not held:
                ops.append("wait")
        elif a == "sload":
            ops.append(f"sload k={k}")
        elif a == "hold" and not held:
            ops.append("hold"); held = True
        elif a == "unhold" and held:
            ops += ["unhold", "wait"]; held = False
        elif a == "restart" and not held:
            ops += ["wait", "close", "reopen"]
    if held:
        ops += ["unhold", "wait"]
    ops += [f"sload k={k}" for k in range(3)] + ["wait", "close", "reopen"] + [f"sload k={k}" for k in range(3)]
    cfg = H.cfg_line(policy="woi", algo="fifo", mem=100, univ=3, hashmod=1, tomb=0, blocks=16, timeout=10)
    return cfg + "\n" + "\n".join(ops) + "\n"


def translate(lines):
    """-> (model script, expected load results in order) or None"""
    out, expect, vers, held = ["cfg"], [], [], False
    for l in lines:
        name, kv, r, nw, ew, wl = H.parse(l)
        if r in ("PANIC", "HANG") or r.startswith("err"):
            return None
        if name == "ins":
            vers.append(int(kv["ver"])); out.append(f"enq {kv['k']}")
        elif name == "rm":
            out.append(f"del {kv['k']}")
        elif name == "sload":
            out.append(f"load {kv['k']}")
            expect.append((int(kv["k"]), None if r == "-" else int(r[1:].split(":")[1])))
        elif name == "hold":
            held = True
        elif name == "unhold":
            held = False
        elif name == "wait" and not held:
            out.append("drain")
        elif name == "reopen":
            out += ["drain", "recover"]
    return "\n".join(out) + "\n", expect, vers


def check(scripts):
    """-> (compared loads, first disagreement (script, lines, text) or None)"""
    res = H.run_many(scripts)
    texts, metas = [], []
    for s, (cfgl, lines) in zip(scripts, res):
        t = translate(lines)
        if t:
            texts.append(t[0]); metas.append((s, lines, t))
    p = subprocess.run([DRIVER], input="".join(texts), capture_output=True, text=True, timeout=300)
    if p.returncode != 0:
        raise C.Broken("col_driver failed", p.stderr[-2000:])
    blocks, cur = [], None
    for line in p.stdout.split("\n"):
        if line.startswith("cfg"):
            cur = []; blocks.append(cur)
        elif line.strip() and cur is not None:
            cur.append(line.split())
    n, bad = 0, None
    for (s, lines, (_, expect, vers)), mobs in zip(metas, blocks):
        for (k, want), m in zip(expect, mobs):
            n += 1
            got = None if m[1] == "-" else (vers[int(m[1]) - 1] if 0 < int(m[1]) <= len(vers) else f"stamp{m[1]}")
            if got != want and bad is None:
                bad = (s, lines, f"load of key {k} (every key collides): implementation "
                                 f"{'miss' if want is None else 'version ' + str(want)}, model {'miss' if got is None else 'version ' + str(got)}")
    return n, bad
