"""Check flow for the concurrency properties C02 (per-key linearizability of the memory cache) and C16 (user callbacks
run outside the cache's locks).

C02: per-thread programs run concurrently on one real Cache (`conc` harness: a barrier, then the programs with
randomised yields/spins); every operation is stamped at invocation and response with a global clock.  The history is
projected on each key and given to the extracted checker of coq/Mem/Linear.v, which is proved never to reject a
linearizable history.  Entry handles are re-read at the end of each round.
C16: the same harness with the event listener, the weighter, the filter and the value destructor calling back into the
same cache; a watchdog turns a run that does not finish into DEADLOCK."""
import os, random, subprocess, tempfile
from . import common as C

CONC = os.path.join(C.BIN, "conc")
DRIVER = os.path.join(C.OCAML, "lin_driver")
ALGOS = ["fifo", "lru", "lfu", "s3fifo", "sieve"]

ASSUME = [
    "real foyer-memory Cache, OS threads released by a barrier, programs with randomised yields and spins: the schedules "
    "explored are those the OS produces, not an enumeration",
    "invocation / response stamps come from one global atomic counter incremented immediately before the call and "
    "immediately after it returned, so 'a responded before b was invoked' in the stamps implies the same in real time",
    "the history checker is extracted from Mem/Linear.v (ExtrOcamlBasic); it is sound (never rejects a linearizable "
    "history) but not complete: a non-linearizable history in which every single read is individually explainable passes",
]


def gen_c02(rng, tier):
    algo = rng.choice(ALGOS)
    shards = rng.choice([1, 2, 3, 4])
    nthreads = rng.choice([2, 3, 4])
    cap = rng.choice([2, 3, 4, 8])
    keys = [0, 1, 2, 3] if rng.random() < 0.7 else [0, 4, 8, 1]      # sharing / spanning shards
    lines = [f"cfg algo={algo} shards={shards} cap={cap} rounds={60 if tier == 'thorough' else 25} jitter={rng.randrange(1, 10**6)} reent=0 timeout=60 "
             f"weights={rng.choice([0, 0, 0, 1, 2])} filter={rng.choice([0, 0, 0, 1])}"]
    for t in range(nthreads):
        for _ in range(rng.randrange(4, 12)):
            op = rng.choices(["ins", "get", "rm", "gof", "has", "touch", "clear", "resize", "evictall"],
                             [30, 30, 12, 10, 4, 4, 3, 3, 4])[0]
            k = rng.choice(keys[:rng.choice([1, 2, 4])])
            if op == "resize":
                k = rng.choice([1, 2, 4, 8])
            lines.append(f"t{t} {op} {k}")
    return "\n".join(lines) + "\n"


def gen_c16(rng, tier):
    algo = rng.choice(ALGOS)
    if rng.random() < 0.25:
        # fill, then shrink: the evictions of a resize (listener callbacks and destructors run on the threads resize spawns)
        cap = rng.choice([2, 3, 4])
        lines = [f"cfg algo={algo} shards=1 cap={cap} rounds={20 if tier == 'thorough' else 6} jitter={rng.randrange(1, 10**6)} reent=1 timeout=30 "
                 f"weights=0 filter=0"]
        for k in range(cap):
            lines.append(f"t0 ins {k}")
        lines.append(f"t0 resize {rng.randrange(1, cap)}")
        for _ in range(rng.randrange(0, 4)):
            lines.append(f"t0 {rng.choice(['ins', 'get', 'rm'])} {rng.randrange(4)}")
        lines += [f"t0 resize {cap}"] + [f"t0 ins {k}" for k in range(cap)] + ["t0 resize 1"]
        return "\n".join(lines) + "\n"
    nthreads = rng.choice([1, 1, 2, 3])
    cap = rng.choice([1, 2, 3])
    lines = [f"cfg algo={algo} shards=1 cap={cap} rounds={20 if tier == 'thorough' else 6} jitter={rng.randrange(1, 10**6)} reent=1 timeout=30 "
             f"weights={rng.choice([0, 0, 1, 2])} filter={rng.choice([0, 1])}"]
    for t in range(nthreads):
        for _ in range(rng.randrange(3, 10)):
            op = rng.choices(["ins", "get", "rm", "gof", "has", "touch", "clear", "resize", "evictall"],
                             [35, 20, 12, 10, 3, 3, 6, 4, 7])[0]
            k = rng.randrange(4)
            if op == "resize":
                k = rng.choice([1, 2, 3])
            lines.append(f"t{t} {op} {k}")
    return "\n".join(lines) + "\n"


def run_conc(script, timeout=120):
    with tempfile.TemporaryDirectory(prefix="cc") as td:
        sp = os.path.join(td, "s.txt")
        open(sp, "w").write(script)
        try:
            p = subprocess.run([CONC, sp], capture_output=True, text=True, timeout=timeout)
            return p.stdout.split("\n")
        except subprocess.TimeoutExpired as e:
            return (e.stdout.decode() if e.stdout else "").split("\n") + ["DEADLOCK (harness killed)"]


def parse_ops(lines):
    rounds = {}
    status = dict(end=False, deadlock=False, panic=False, handles_bad=0, callbacks=0)
    for l in lines:
        if l.startswith("op "):
            t = l.split()
            kv = dict(x.split("=", 1) for x in t if "=" in x)
            rounds.setdefault(int(kv["r"]), []).append(dict(t=int(kv["t"]), i=int(kv["i"]), op=t[4], k=int(kv["k"]), v=int(kv["v"]),
                                                           inv=int(kv["inv"]), ret=int(kv["ret"]), res=kv["res"]))
        elif l.startswith("round "):
            kv = dict(x.split("=", 1) for x in l.split() if "=" in x)
            status["handles_bad"] += int(kv["handles_bad"]); status["callbacks"] = int(kv.get("callbacks", 0))
        elif l.startswith("end"):
            status["end"] = True
        elif l.startswith("DEADLOCK"):
            status["deadlock"] = True
        elif l.startswith("PANIC"):
            status["panic"] = True
    return rounds, status


def histories(rounds):
    """per (round, key): events for the checker"""
    out = []
    for r, ops in sorted(rounds.items()):
        keys = sorted({o["k"] for o in ops if o["op"] in ("ins", "get", "rm", "gof")})
        per = {k: [] for k in keys}
        eid = 0
        for o in ops:
            eid += 1
            name, res = o["op"], o["res"]
            if name == "clear":
                for k in keys:
                    per[k].append((eid, "d", 0, o["inv"], o["ret"], o)); eid += 1
                continue
            if name not in ("ins", "get", "rm", "gof") or o["k"] not in per:
                continue
            k = o["k"]
            if name == "ins":
                per[k].append((eid, "w", o["v"], o["inv"], o["ret"], o))
            elif name == "get":
                per[k].append((eid, "r", "-" if res == "miss" else int(res.split(":")[1]), o["inv"], o["ret"], o))
            elif name == "rm":
                if res.startswith("some:"):
                    per[k].append((eid, "r", int(res.split(":")[1]), o["inv"], o["ret"], o)); eid += 1
                per[k].append((eid, "d", 0, o["inv"], o["ret"], o))
            elif name == "gof" and res.startswith("got:"):
                _, v, fetched, tread = (res.split(":") + ["0"])[:4]
                if fetched == "1":
                    # its fetch ran: the fetched value (this operation's own) may have been inserted
                    per[k].append((eid, "w", o["v"], o["inv"], o["ret"], o)); eid += 1
                per[k].append((eid, "r", int(v), o["inv"], o["ret"], o))
        for k in keys:
            out.append((f"r{r}k{k}", per[k]))
    return out


def check_histories(hs):
    text = []
    for label, evs in hs:
        text.append(f"h {label}")
        for (eid, kind, v, inv, ret, _) in evs:
            text.append(f"e {eid} {kind} {v} {inv} {ret}")
    p = subprocess.run([DRIVER], input="\n".join(text) + "\n", capture_output=True, text=True, timeout=300)
    if p.returncode != 0:
        raise C.Broken("lin_driver failed", p.stderr[-2000:])
    bad = {}
    for l in p.stdout.split("\n"):
        t = l.split()
        if len(t) >= 3 and t[1] == "bad":
            bad[t[0]] = [int(x) for x in t[2].split(",") if x]
    return bad


def one(pid, script):
    """-> (violation text or None, stats)"""
    lines = run_conc(script)
    rounds, st = parse_ops(lines)
    nops = sum(len(v) for v in rounds.values())
    if st["deadlock"]:
        return "the run did not finish: operations (or callbacks re-entering the cache) are blocked - deadlock", st, nops, lines
    if st["panic"]:
        return "a thread panicked", st, nops, lines
    if not st["end"]:
        return "the harness ended abnormally", st, nops, lines
    if st["handles_bad"]:
        return f"{st['handles_bad']} entry handles changed their value after the entry was replaced / evicted / cleared", st, nops, lines
    if pid == "C11":
        # C11: a fetched value is as of the moment the origin was read (the fetch closure was invoked, `tread`).  An explicit
        # insert of the key that was invoked later is newer; once it has completed, no lookup may see the fetched value
        # (the fetch either found the insert in memory, or was registered before it and is closed by it).
        for r, ops in rounds.items():
            for g in ops:
                if g["op"] != "gof" or not g["res"].startswith("got:"):
                    continue
                p = g["res"].split(":")
                if len(p) < 4 or p[2] != "1":
                    continue
                vg, tread = g["v"], int(p[3])
                newer = [i for i in ops if i["op"] == "ins" and i["k"] == g["k"] and i["inv"] > tread]
                for rd in ops:
                    if rd["k"] != g["k"]:
                        continue
                    seen = (rd["op"] == "get" and rd["res"] == f"hit:{vg}") or (rd["op"] == "rm" and rd["res"] == f"some:{vg}") or \
                           (rd["op"] == "gof" and rd is not g and rd["res"].startswith(f"got:{vg}:"))
                    if seen and any(i["ret"] < rd["inv"] for i in newer):
                        i = [i for i in newer if i["ret"] < rd["inv"]][0]
                        return (f"history r{r}k{g['k']}: thread {rd['t']} op {rd['i']} ({rd['op']}) saw value {vg}, fetched by thread "
                                f"{g['t']} op {g['i']} from an origin read at {tread}, although insert of {i['v']} (thread {i['t']} op "
                                f"{i['i']}, invoked at {i['inv']}) had completed at {i['ret']}: an explicit insert was overwritten by "
                                f"an older fetch result"), st, nops, lines
    if pid in ("C02", "C11"):
        hs = histories(rounds)
        bad = check_histories(hs)
        if bad:
            label = sorted(bad)[0]
            evs = dict(hs)[label]
            e = [x for x in evs if x[0] in bad[label]][0]
            o = e[5]
            return (f"history {label}: thread {o['t']} op {o['i']} ({o['op']} k={o['k']}) returned value {e[2]}, which no insert "
                    f"explains: it was superseded by an insert/remove that completed before the lookup started, or never inserted"), st, nops, lines
    return None, st, nops, lines


def run(pid, tier, seed, gate, replay=None):
    C.build_harness(["conc"])
    C.build_ocaml()
    rng = random.Random(seed * 7 + (2 if pid == "C02" else 16))
    import json
    if replay:
        scripts = [json.load(open(replay))["script"]]
    else:
        n = (400 if tier == "thorough" else 40)
        scripts = [(gen_c02 if pid == "C02" else gen_c16)(rng, tier) for _ in range(n)]
    def job(s):
        v, st, nops, lines = one(pid, s)
        return (v, st, nops, lines if v else None)
    full = C.pmap(job, scripts, workers=4)
    results = [r[:3] for r in full]
    violations, total_ops, callbacks = [], 0, 0
    per_algo = {}
    for s, (v, st, nops) in zip(scripts, results):
        total_ops += nops; callbacks += st["callbacks"]
        a = s.split()[1]
        per_algo[a] = per_algo.get(a, 0) + 1
    bad = [(s, r[0], r[3]) for s, r in zip(scripts, full) if r[0]]
    if bad:
        s, v, lines = min(bad, key=lambda t: len(t[0]))
        # the history that failed (a replay runs the programs again under whatever schedule the OS then produces)
        import re
        m = re.search(r"history r(\d+)k", v)
        if m:
            lines = [l for l in lines if not l.startswith("op ") or l.startswith(f"op r={m.group(1)} ")]
        rp = C.write_replay(pid, seed, 0, dict(property=pid, stream="conc", script=s, impl_obs=lines[:400],
                                               oracle=dict(failed_at=0, what=v), broken=None, failing_cases=len(bad),
                                               note="concurrent history: replaying runs the same programs again; the schedule is the OS's"))
        violations.append(dict(replay=rp, what=v))
    keyruns = None
    if pid == "C16" and not replay and not bad:
        # user values other than cached values: a key type whose destructor re-enters the cache (the in-flight table keeps
        # a copy of a pending fetch's key), a fetch future that owns an entry handle of the same shard and is not needed
        import os
        C.build_harness(["reentkeys"])
        rc, out = C.sh([os.path.join(C.BIN, "reentkeys")], timeout=120)
        keyruns = dict(t.split("=") for t in out.split() if "=" in t)
        stuck = [k for k, v in keyruns.items() if v != "ok"]
        if rc != 0 or stuck or not keyruns:
            what = ("re-entrant destructors of user values: " + (", ".join(stuck) if stuck else out.strip()[:200]) +
                    " - the call did not return (a key copy or a fetch future was dropped inside the cache's locks)")
            rp = C.write_replay(pid, seed, "keys", dict(property=pid, stream="reentkeys", script="reentkeys", impl_obs=[out.strip()],
                                                       oracle=dict(failed_at=0, what=what), broken=None))
            violations.append(dict(replay=rp, what=what))
    if gate.get("failed") and not bad:
        rp = C.write_replay(pid, seed, "gate", dict(property=pid, oracle=None, broken=f"Coq gate for Props/{pid}.v: {gate['failed']}",
                                                   note=f"{len(scripts)} concurrent runs found no failing history"))
        violations.append(dict(replay=rp, nofail=True, what=gate["failed"]))
    cov = dict(
        evaluations=len(scripts), distinct_nontrivial=len({C.case_hash(s) for s in scripts}),
        rule=("random per-thread programs (2..4 threads, 4..11 operations each) over 1..4 keys chosen to share and to span shards, "
              "shards 1..4, all five algorithms, capacities 2..8, 25 (thorough: 60) rounds per program with randomised yields/spins; "
              "every round's history is projected on each key and checked" if pid == "C02" else
              "random programs on a single-shard cache of capacity 1..3, all five algorithms, 1..3 threads, with listener, weighter, "
              "filter and value destructor re-entering the cache (get / contains / insert / remove, nested one level); 6 (thorough: "
              "20) rounds; a run must end, without panic, with callbacks actually executed"),
        samples=[dict(script=scripts[0].strip().split("\n")[:10])],
        traces_validated_against_impl=len(scripts) - len(bad),
        input_distribution=dict(per_algorithm=per_algo, operations_executed=total_ops,
                                reentrant_callbacks_executed=(callbacks if pid == "C16" else None),
                                reentrant_key_and_future_destructors=keyruns),
        exhaustive=False)
    return cov, violations, ASSUME
