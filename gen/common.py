"""Shared machinery for the checks: Coq gate, harness build, evidence, findings, reporting."""
import hashlib, json, os, re, subprocess, sys, time, random, shutil
from concurrent.futures import ThreadPoolExecutor

ROOT = os.path.dirname(os.path.dirname(os.path.abspath(__file__)))
COQ = os.path.join(ROOT, "coq")
OCAML = os.path.join(ROOT, "ocaml")
HARNESS = os.path.join(ROOT, "harness")
CACHE = os.path.join(ROOT, ".cache")
REPLAYS = os.path.join(ROOT, "replays")
EVIDENCE = os.path.join(ROOT, "evidence")
BIN = os.path.join(HARNESS, "target", "debug")
NPROC = min(16, os.cpu_count() or 4)

ALLOWED_AXIOMS = {
    # stdlib axioms that may legitimately appear (named in the trusted base when they do)
    "functional_extensionality_dep", "FunctionalExtensionality.functional_extensionality_dep",
    "Eqdep.Eq_rect_eq.eq_rect_eq", "eq_rect_eq", "JMeq.JMeq_eq", "JMeq_eq",
    "Classical_Prop.classic", "classic", "proof_irrelevance", "ProofIrrelevance.proof_irrelevance",
}
FORBIDDEN = re.compile(
    r"\b(Admitted|admit|Axiom|Axioms|Parameter|Parameters|Conjecture|Hypothesis|Variable|Abort All|Admit Obligations)\b"
    r"|Unset Guard|bypass_check|type-in-type|impredicative-set|Unset Positivity|Unset Universe")


def sh(cmd, cwd=None, timeout=None, env=None, inp=None):
    e = dict(os.environ)
    e["CARGO_NET_OFFLINE"] = "true"
    if env:
        e.update(env)
    p = subprocess.run(cmd, cwd=cwd, shell=isinstance(cmd, str), stdout=subprocess.PIPE, stderr=subprocess.STDOUT,
                       timeout=timeout, env=e, input=inp, text=True)
    return p.returncode, p.stdout


class Broken(Exception):
    """The machinery itself could not establish the tie (build failure etc.)."""
    def __init__(self, what, log=""):
        super().__init__(what)
        self.what, self.log = what, log


def forbidden_scan():
    """Every .v file: no Admitted/Axiom/Parameter/...; Variable/Hypothesis only inside a Section."""
    bad = []
    for d, _, fs in os.walk(COQ):
        for f in fs:
            if not f.endswith(".v"):
                continue
            p = os.path.join(d, f)
            txt = open(p).read()
            # strip comments (nested)
            out, depth, i = [], 0, 0
            while i < len(txt):
                if txt.startswith("(*", i):
                    depth += 1; i += 2
                elif txt.startswith("*)", i) and depth > 0:
                    depth -= 1; i += 2
                else:
                    if depth == 0:
                        out.append(txt[i])
                    i += 1
            code = "".join(out)
            sec = 0
            for ln, line in enumerate(code.split("\n"), 1):
                if re.match(r"\s*Section\b", line):
                    sec += 1
                if re.match(r"\s*End\b", line) and sec > 0:
                    sec -= 1
                m = FORBIDDEN.search(line)
                if m:
                    tok = m.group(0)
                    if tok in ("Variable", "Hypothesis") and sec > 0:
                        continue
                    bad.append(f"{os.path.relpath(p, ROOT)}:{ln}: {tok}")
    return bad


def coq_build(targets=None, timeout=1500):
    """Full .vo build through the generated Makefile (no -vos)."""
    if not os.path.exists(os.path.join(COQ, "Makefile")) or \
       os.path.getmtime(os.path.join(COQ, "Makefile")) < os.path.getmtime(os.path.join(COQ, "_CoqProject")):
        rc, out = sh("coq_makefile -f _CoqProject -o Makefile", cwd=COQ, timeout=120)
        if rc != 0:
            raise Broken("coq_makefile failed", out)
    tgt = " ".join(targets) if targets else ""
    rc, out = sh(f"make -j{NPROC} {tgt}", cwd=COQ, timeout=timeout)
    return rc, out


def coq_gate(pid):
    """Builds Props/<pid>.vo (and everything it needs) and checks the assumptions printed under
    each property theorem.  Returns dict(obligations, discharged, axioms, theorems, failed)."""
    t0 = time.time()
    bad = forbidden_scan()
    if bad:
        return dict(obligations=1, discharged=0, axioms=[], theorems=[], failed="forbidden tokens: " + "; ".join(bad[:5]),
                    wall=time.time() - t0)
    rc, out = coq_build([f"Props/{pid}.vo"])
    if rc != 0:
        m = re.search(r'File "([^"]+)", line (\d+)[^\n]*\n(?:[^\n]*\n){0,6}?Error:([^\n]*(?:\n[^\n]+){0,3})', out)
        where = f"{m.group(1)}:{m.group(2)}: {m.group(3).strip()}" if m else out[-800:]
        return dict(obligations=1, discharged=0, axioms=[], theorems=[], failed="proof/build failure: " + where,
                    wall=time.time() - t0, log=out)
    # re-run the property file alone to capture Print Assumptions output
    os.makedirs(CACHE, exist_ok=True)
    rc, out = sh(f"coqc -Q . FV Props/{pid}.v -o {CACHE}/{pid}.vo", cwd=COQ, timeout=600)
    if rc != 0:
        return dict(obligations=1, discharged=0, axioms=[], theorems=[], failed="property file failed: " + out[-800:],
                    wall=time.time() - t0, log=out)
    src = open(os.path.join(COQ, "Props", f"{pid}.v")).read()
    theorems = re.findall(r"^\s*(?:Theorem|Lemma|Corollary)\s+([A-Za-z0-9_']+)", src, re.M)
    prints = re.findall(r"Print Assumptions\s+([A-Za-z0-9_'.]+)\s*\.", src)
    missing = [t for t in theorems if t not in prints]
    # parse output blocks
    blocks = re.split(r"(?=Closed under the global context|Axioms:)", out)
    closed = sum(1 for b in blocks if b.startswith("Closed under the global context"))
    axioms = set()
    for b in blocks:
        if b.startswith("Axioms:"):
            for line in b.split("\n")[1:]:
                m = re.match(r"^([A-Za-z_][A-Za-z0-9_'.]*)\s*:", line)
                if m:
                    axioms.add(m.group(1))
    notallowed = [a for a in axioms if a not in ALLOWED_AXIOMS and a.split(".")[-1] not in ALLOWED_AXIOMS]
    failed = None
    if missing:
        failed = "theorems without Print Assumptions: " + ",".join(missing)
    elif notallowed:
        failed = "axioms outside the allow-list: " + ",".join(notallowed)
    nblocks = closed + sum(1 for b in blocks if b.startswith("Axioms:"))
    if not failed and nblocks < len(prints):
        failed = f"only {nblocks} assumption reports for {len(prints)} Print Assumptions"
    return dict(obligations=len(theorems), discharged=0 if failed else len(theorems), axioms=sorted(axioms),
                theorems=theorems, failed=failed, wall=time.time() - t0)


def build_ocaml():
    """Extract the models and build the OCaml drivers (idempotent, make-like on mtimes)."""
    rc, out = sh("bash build.sh", cwd=OCAML, timeout=900)
    if rc != 0:
        raise Broken("ocaml build failed", out)


def build_harness(bins=None):
    """Builds the harness against /repo's current working tree (path dependencies)."""
    b = " ".join(f"--bin {x}" for x in bins) if bins else "--bins"
    rc, out = sh(f"cargo build --offline {b} 2>&1", cwd=HARNESS, timeout=3000)
    if rc != 0:
        raise Broken("harness does not build against the current tree", out)
    return out


def build_harness_serde():
    """The `fmt` binary built a second time with foyer-common's `serde` feature (the bincode blanket impl of Code)."""
    rc, out = sh("cargo build --offline --bin fmt --features serde-path --target-dir target-serde 2>&1", cwd=HARNESS, timeout=3000)
    if rc != 0:
        raise Broken("harness (serde variant) does not build against the current tree", out)
    return os.path.join(HARNESS, "target-serde", "debug", "fmt")


def pmap(fn, items, workers=NPROC):
    with ThreadPoolExecutor(max_workers=workers) as ex:
        return list(ex.map(fn, items))


def load_findings():
    p = os.path.join(ROOT, "known_findings.json")
    if not os.path.exists(p):
        return []
    return json.load(open(p))


def write_replay(pid, seed, n, payload):
    os.makedirs(REPLAYS, exist_ok=True)
    p = os.path.join(REPLAYS, f"{pid}-{seed}-{n}.json")
    json.dump(payload, open(p, "w"), indent=1)
    return p


def write_evidence(pid, tier, seed, gate, cov, assumptions, wall, violations):
    os.makedirs(EVIDENCE, exist_ok=True)
    coverage = dict(cov)
    coverage.update(dict(
        obligations=max(1, gate.get("obligations", 1)),
        discharged=gate.get("discharged", 0),
        checker_cmd=f"make -C coq Props/{pid}.vo  &&  coqc -Q coq FV coq/Props/{pid}.v   (Print Assumptions under every theorem; "
                    "token scan for Admitted/Axiom/Parameter/...)",
        trusted_base=[
            "Coq 8.16.1 kernel (coqc; vm_compute used for closed witnesses; native_compute not used)",
            "axioms reported by Print Assumptions: " + (", ".join(gate.get("axioms", [])) or "none (closed under the global context)"),
            "extraction: ExtrOcamlBasic only (bool, option, unit, list, prod, sumbool), no Extract Constant / Extract Inductive of our own; ocamlfind ocamlopt 4.13.1; hand-written OCaml drivers under ocaml/",
            "correspondence: Rust harness /verif/harness (path dependencies on /repo), Python generators/oracles under /verif/gen",
            "the Gallina models are hand-written readings of the Rust code, tied to it only by the correspondence on the inputs explored",
        ],
        theorems=gate.get("theorems", []),
        gate_failed=gate.get("failed"),
    ))
    ev = dict(property_id=pid, tier=tier, seed=seed, level="proof", coverage=coverage,
              assumptions=assumptions, wall_s=round(wall, 2), violations=violations)
    json.dump(ev, open(os.path.join(EVIDENCE, f"{pid}.json"), "w"), indent=1)


def case_hash(text):
    return hashlib.sha1(text.encode()).hexdigest()
