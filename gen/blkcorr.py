"""Correspondence between the block-manager model (coq/Disk/BlockMgr.v, extracted) and the real BlockManager, observed
through hook H2 (feature verif: the manager's events in the order they take effect under its state lock).  The model is
fed the inputs of the trace - a writer asks for a block, a block is finished, a reclaim is done - and must hand out the
same blocks in the same order (clean queue first-in first-out, waiters served last-in first-out) and start the reclaim
of the same blocks in the same order (FIFO picker: workloads without deletes)."""
import os, random, subprocess
from . import common as C
from . import hybrid as H

DRIVER = os.path.join(C.OCAML, "blk_driver")


def gen(rng):
    blocks = rng.choice([4, 4, 6, 8])
    clean = rng.choice([1, 1, 2]) if blocks >= 6 else 1
    flushers = rng.choice([1, 1, 2]) if blocks >= 6 else 1          # the engine wants flushers + threshold <= blocks / 2
    cfg = H.cfg_line(policy="woi", algo="fifo", mem=4, univ=8, blocks=blocks, clean=clean, flushers=flushers,
                     reclaimers=rng.choice([1, 1, 2]), tomb=0)
    ops, ver = [], 1
    for i in range(rng.randrange(10, 60)):
        ops.append(f"ins k={rng.randrange(8)} ver={ver} size={rng.choice([3000, 9000, 20000, 30000, 61000])}"); ver += 1
        if rng.random() < 0.5:
            ops.append("wait")
        if rng.random() < 0.1:
            ops.append("bev")
    ops += ["wait", "bev"]
    return cfg + "\n" + "\n".join(ops) + "\n"


def events(cfgl, lines):
    cfg = dict(t.split("=", 1) for t in cfgl.split()[1:])
    n = int(cfg["blocks"])
    trace = []
    for l in lines:
        name, kv, r, nw, ew, wl = H.parse(l)
        if r in ("PANIC", "HANG"):
            return None
        if name == "bev" and r.startswith("b["):
            trace += [x for x in r[2:-1].split(",") if x]
    ev, handed, starts = [], [], []
    pending, to_waiter = 0, None       # writers waiting; the block a finished reclaim is handing to one of them
    for x in trace:
        k, b = x[0], (int(x[1:]) if len(x) > 1 else None)
        if k == "W":
            ev.append("get 0"); pending += 1
        elif k == "H":
            handed.append(b)
            if to_waiter == b:
                to_waiter = None            # handed to a waiter by the reclaim that just finished: part of `done`
            else:
                ev.append("get 0")          # taken from the clean queue
        elif k == "F":
            ev.append(f"fin {b}")
        elif k == "D":
            ev.append(f"done {b}")
            if pending > 0:
                pending -= 1; to_waiter = b
        elif k == "S":
            starts.append(b)
    text = f"cfg n={n} th={cfg.get('clean', 1)} conc={cfg.get('reclaimers', 1)} fifo=1\n" + "\n".join(ev) + "\ndump\n"
    return text, handed, starts


def check(scripts):
    res = H.run_many(scripts)
    out = []
    texts, metas = [], []
    for s, (cfgl, lines) in zip(scripts, res):
        e = events(cfgl, lines)
        metas.append((s, lines, e))
        if e:
            texts.append(e[0])
    p = subprocess.run([DRIVER], input="".join(texts), capture_output=True, text=True, timeout=300)
    if p.returncode != 0:
        raise C.Broken("blk_driver failed", p.stderr[-2000:])
    dumps = [l for l in p.stdout.split("\n") if l.startswith("grants=")]
    j = 0
    for s, lines, e in metas:
        if not e:
            out.append((s, lines, None, True)); continue
        d = dict(t.split("=", 1) for t in dumps[j].split()); j += 1
        mg = [int(x) for x in d["grants"].split(",") if x]
        mr = [int(x) for x in d["rlog"].split(",") if x]
        _, grants, zeros = e
        m = None
        if mg != grants:
            m = f"blocks handed to writers: implementation {grants}, model {mg}"
        elif mr != zeros:
            m = f"reclaims started: implementation {zeros}, model {mr}"
        out.append((s, lines, m, False))
    return out
