"""Check flow for the storage / hybrid properties C01, C03, C04, C09, C12, C15."""
import glob, json, os, random
from . import common as C
from . import hybrid as H

ASSUME = [
    "real HybridCache / Store / BlockEngine on an FsDevice (tmpfs scratch directory) behind a write-logging I/O engine "
    "(hook H1); API calls are issued one at a time (sequential histories), the engine's own tasks run on a 2-worker "
    "tokio runtime; flush timing is controlled with the test_utils flush switch and storage().wait()",
    "crash images are built from prefixes of the logged device writes in issue order, the in-flight write torn at page "
    "granularity; a completed write is durable (psync issues no fsync: the property's own premise)",
    "keys are u64 under ModHasher (hash = key), values carry (key, version) and a checkable fill pattern",
]


def locs_for(rng):
    return {0: "default", 1: "default", 2: rng.choice(["default", "ondisk"]), 3: "default"}


def gen_c01(rng, n_ops):
    policy = rng.choice(["woi", "woe"])
    cfg = H.cfg_line(policy=policy, algo=rng.choice(H.ALGOS), mem=rng.choice([1, 2, 100]), univ=3,
                     tomb=rng.choice([0, 1]), blocks=16, flushers=rng.choice([1, 2]),
                     admit=rng.choice(["all", "all", "all", "size<8000", "0,1"]))
    locs = locs_for(rng)
    ops, ver, held = [], 1, False
    for _ in range(n_ops):
        a = rng.choices(["ins", "get", "gof", "rm", "hold", "unhold", "wait", "memevict", "restart", "sins", "clear"],
                        [30, 22, 10, 10, 5, 6, 8, 4, 3, 2, 2])[0]
        k = rng.randrange(3)
        # (65536-byte blocks with a 4 KiB index: an entry of more than 61440 bytes cannot be stored on disk)
        size = rng.choice([16, 64, 100, 3000, 9000, 20000, 61000, 61000, 62000, 100000])
        if a == "clear":
            if not held:
                ops.append("clear")
            continue
        if a == "ins":
            loc = locs[k]
            ops.append(f"ins k={k} ver={ver} size={size}" + (f" loc={loc}" if loc != "default" else "")); ver += 1
        elif a == "sins":
            ops.append(f"sins k={k} ver={ver} size={size}"); ver += 1
        elif a == "gof":
            ops.append(f"gof k={k} ver={ver} size={size}"); ver += 1
        elif a == "get":
            ops.append(f"get k={k}")
        elif a == "rm":
            ops.append(f"rm k={k}")
        elif a == "hold" and not held:
            ops.append("hold"); held = True
        elif a == "unhold" and held:
            ops.append("unhold"); held = False
        elif a == "wait" and not held:
            ops.append("wait")
        elif a == "memevict":
            ops.append("memevict")
        elif a == "restart" and not held:
            ops += ["close", "reopen"]
    if held:
        ops.append("unhold")
    ops.append("wait")
    for k in range(3):
        ops.append(f"get k={k}")
    return cfg + "\n" + "\n".join(ops) + "\n"


def gen_c12(rng, n_ops):
    policy = rng.choice(["woi", "woe"])
    admit = rng.choice(["all", "all", "all", "none", "0,1", "throttle"])
    cfg = H.cfg_line(policy=policy, algo=rng.choice(H.ALGOS), univ=4, foc=rng.choice([0, 1, 1]), admit=admit, blocks=16)
    locs = {0: "default", 1: rng.choice(["default", "ondisk"]), 2: "inmem", 3: "default"}
    ops, ver = [], 1
    for _ in range(n_ops):
        a = rng.choices(["ins", "get", "gof", "memevict", "restart"], [34, 24, 22, 14, 6])[0]
        k = rng.randrange(4)
        if a == "ins":
            ops.append(f"ins k={k} ver={ver} size=64" + (f" loc={locs[k]}" if locs[k] != "default" else "")); ver += 1
        elif a == "get":
            ops.append(f"get k={k}")
        elif a == "gof" and locs[k] == "default":
            ops.append(f"gof k={k} ver={ver} size=64"); ver += 1
        elif a == "memevict":
            ops.append("memevict")
        elif a == "restart":
            ops += ["close", "reopen"]
            continue
        ops.append("wait")
    ops += ["close"]
    return cfg + "\n" + "\n".join(ops) + "\n"


def gen_c15(rng):
    policy = rng.choice(["woi", "woe"])
    reinsert = rng.choice(["none", "none", "0"])
    small = reinsert != "none"
    cfg = H.cfg_line(policy=policy, algo=rng.choice(H.ALGOS), univ=6, foc=rng.choice([1, 1, 1, 0]),
                     tomb=rng.choice([0, 1]), blocks=(6 if small else 16), reinsert=reinsert)
    ops, ver = [], 1
    locs = {k: "default" for k in range(6)}
    locs[5] = "inmem"
    if small:
        # fill the device a few times so that blocks are reclaimed (and key 0 reinserted) before the close
        for i in range(rng.choice([60, 100])):
            k = 0 if i % 25 == 0 else 100 + i
            ops.append(f"ins k={k} ver={ver} size=7000"); ver += 1
            if i % 4 == 3:
                ops += ["memevict", "wait"]
    resident = []
    for _ in range(rng.randrange(2, 12)):
        k = rng.randrange(6)
        ops.append(f"ins k={k} ver={ver} size={rng.choice([64, 3000, 7000])}" + (" loc=inmem" if locs[k] == "inmem" else "")); ver += 1
        if k not in resident:
            resident.append(k)
        if rng.random() < 0.25:
            ops += ["memevict", "wait"]; resident = []
        if rng.random() < 0.15:
            r = rng.randrange(6)
            ops.append(f"rm k={r}")
            if r in resident:
                resident.remove(r)
    kept = False
    if resident and rng.random() < 0.5:
        # the application still holds entry handles of resident keys when it closes the cache
        for k in rng.sample(resident, min(len(resident), rng.choice([1, 2, 3]))):
            ops.append(f"keep k={k}")
        kept = True
    if not kept and rng.random() < 0.15:
        # drop without close: the last handle goes away, the cache closes itself in the background (and flushes)
        ops += ["dropcache", "sleep ms=700", "reopen"]
        for k in range(6):
            ops.append(f"get k={k}")
        return cfg + "\n" + "\n".join(ops) + "\n"
    ops.append("close")
    if kept and rng.random() < 0.5:
        ops.append("unkeep"); kept = False
    if rng.random() < 0.4:
        ops.append(f"ins k={rng.randrange(6)} ver={ver} size=64"); ver += 1    # ignored after close
    if rng.random() < 0.6:
        # ignored after close (aimed at a key that the close has just persisted, when there is one)
        ops.append(f"rm k={rng.choice(resident) if resident and rng.random() < 0.7 else rng.randrange(6)}")
    if rng.random() < 0.4:
        ops.append("close")
    if kept:
        ops.append("unkeep")
    ops.append("reopen")
    for k in range(6):
        ops.append(f"get k={k}")
    return cfg + "\n" + "\n".join(ops) + "\n"


def gen_c15_burst(rng):
    """close right after an insert burst whose evictions are still queued; the resident set alone fits the flush buffer"""
    memcap = rng.choice([6, 10])
    # the resident set alone (memcap entries of 8 KiB on disk) fits the flush buffer; resident + queued evictions do not
    cfg = H.cfg_line(policy="woe", algo="fifo", mem=memcap, univ=memcap * 2, foc=1, tomb=0, blocks=16,
                     buffer=(65536 if memcap == 6 else 131072))
    n = memcap * 2
    ops = [f"ins k={k} ver={k + 1} size=7000" for k in range(n)]
    ops += ["close", "reopen"] + [f"get k={k}" for k in range(n)]
    return cfg + "\n" + "\n".join(ops) + "\n"


def gen_c09_hot(rng):
    """hot keys kept by the reinsertion filter and overwritten again and again, a stream of cold keys filling the device,
    entries of one size (so that copies of different generations land at the same offsets of reused blocks): every
    superseded copy of a hot key is reinserted at every reclaim; a lookup must still return the latest version or a miss"""
    blocks = rng.choice([4, 6, 8])
    hot = list(range(rng.choice([2, 4])))
    cfg = H.cfg_line(policy="woi", algo="fifo", mem=1, univ=8, blocks=blocks, flushers=rng.choice([1, 1, 2]), clean=1,
                     reclaimers=rng.choice([1, 2]), reinsert=",".join(map(str, hot)), tomb=0, timeout=30, buffer=16777216)
    size = rng.choice([3000, 3000, 7000])
    ops, ver, cold = [], 1, 100
    for _ in range(rng.choice([40, 60, 90])):
        for _ in range(rng.choice([3, 5, 8])):
            if rng.random() < 0.35:
                k = rng.choice(hot)
            else:
                cold += 1; k = cold
            ops.append(f"ins k={k} ver={ver} size={size}"); ver += 1
        if rng.random() < 0.6:
            ops.append("wait")
        ops += [f"sload k={k}" for k in hot]
    ops.append("wait")
    ops += [f"sload k={k}" for k in hot]
    return cfg + "\n" + "\n".join(ops) + "\n"


def gen_c09(rng):
    blocks = rng.choice([4, 5, 6, 8])
    flushers = rng.choice([1, 1, 2])
    clean = 1
    reinsert = rng.choice(["none", "none", "0"])
    cfg = H.cfg_line(policy="woi", algo="fifo", mem=4, univ=8, blocks=blocks, flushers=flushers, clean=clean,
                     reclaimers=rng.choice([1, 2]), reinsert=reinsert, tomb=rng.choice([0, 1]), timeout=15,
                     probe_reinsert=1, buffer=262144)
    ops, ver = [], 1
    total = blocks * 65536
    written = 0
    k2 = 0
    while written < total * rng.choice([2, 3, 4]):
        size = rng.choice([3000, 7000, 7000, 12000, 20000])
        k = rng.randrange(8)
        ops.append(f"ins k={k} ver={ver} size={size}"); ver += 1
        written += size + 4096
        if rng.random() < 0.3:
            ops.append("wait")
        if rng.random() < 0.15:
            ops.append(f"rm k={rng.randrange(8)}")
        if rng.random() < 0.3:
            ops.append(f"get k={rng.randrange(8)}")
    ops.append("wait")
    for k in range(8):
        ops.append(f"get k={k}")
    if reinsert != "none":
        # key 0 written early, then pushed out by several device capacities of other keys
        ops2 = [f"ins k=0 ver={ver} size={rng.choice([7000, 20000, 61000])}", "wait"]; ver += 1   # 61000: a maximum-size entry
        for i in range(blocks * 8):
            ops2.append(f"ins k={100 + i} ver={ver} size=7000"); ver += 1
            if i % 3 == 2:
                ops2.append("wait")
        ops2 += ["wait", "sload k=0"]
        ops += ops2
    return cfg + "\n" + "\n".join(ops) + "\n"


def gen_c09_order(rng):
    """default pickers (invalid ratio, then FIFO), one block made invalid by deletes, then several device capacities of
    one-page entries: a key written at most `recent` inserts ago must still be on the device"""
    blocks = 8
    cfg = H.cfg_line(policy="woi", algo="fifo", mem=4, univ=4, blocks=blocks, flushers=1, clean=1, reclaimers=1, tomb=0,
                     timeout=15, recent=20)
    ops, ver, i = [], 1, 0
    def put():
        nonlocal ver, i
        ops.append(f"ins k={1000 + i} ver={ver} size=3000"); ver += 1; i += 1
        ops.append("wait")
        if i > 20:
            ops.append(f"sload k={1000 + i - 1 - 20}")
    for _ in range(5 * 15):
        put()
    victim = rng.choice([1, 2, 3])
    for j in range(15):
        ops.append(f"rm k={1000 + victim * 15 + j}")
    ops.append("wait")
    for _ in range(rng.choice([250, 330])):
        put()
    return cfg + "\n" + "\n".join(ops) + "\n"


def gen_c04_ack(rng):
    """wait() is the acknowledgement point: with the device writes held back (write gate) a wait() issued after an insert,
    an overwrite or a delete has handed its batch to the device must not return before the gate opens"""
    tomb = rng.choice([0, 1])
    cfg = H.cfg_line(policy="woi", algo="fifo", mem=100, univ=4, blocks=8, tomb=tomb)
    ops, ver = [], 1
    for k in range(rng.choice([1, 2, 3])):
        ops.append(f"ins k={k} ver={ver} size={rng.choice([64, 3000])}"); ver += 1
    ops.append("wait")
    for _ in range(rng.choice([1, 2, 3])):
        k = rng.randrange(3)
        ops.append("iogate")
        ops.append(rng.choice([f"ins k={k} ver={ver} size=64", f"ins k={k} ver={ver} size=3000", f"rm k={k}"])); ver += 1
        ops += [f"sleep ms={rng.choice([30, 60])}", "waitprobe ms=100", "ioopen", "join"]
    ops += ["wait", "crashsweep tears=0"]
    return cfg + "\n" + "\n".join(ops) + "\n"


def gen_c04(rng, wrap, tears="0,1"):
    policy = rng.choice(["woi", "woe"])
    tomb = rng.choice([0, 1])
    if wrap:
        cfg = H.cfg_line(policy="woi", algo="fifo", mem=4, univ=4, blocks=4, tomb=tomb, wrap=1, timeout=15)
        ops, ver = [], 1
        for i in range(rng.choice([30, 45])):
            ops.append(f"ins k={i % 4} ver={ver} size={rng.choice([7000, 12000, 20000])}"); ver += 1
            if i % 3 == 2:
                ops.append("wait")
        ops += ["wait", "crashsweep tears=0 step=1"]
        return cfg + "\n" + "\n".join(ops) + "\n"
    cfg = H.cfg_line(policy=policy, algo="fifo", mem=(2 if policy == "woe" else 100), univ=4, blocks=16, tomb=tomb)
    ops, ver = [], 1
    for _ in range(rng.randrange(4, 12)):
        a = rng.choices(["ins", "rm", "sync", "insrm"], [50, 15, 25, 10])[0]
        k = rng.randrange(4)
        if a == "insrm":
            # a fresh version deleted before it was flushed
            ops.append(f"ins k={k} ver={ver} size=64"); ver += 1
            ops.append(f"rm k={k}")
        elif a == "ins":
            ops.append(f"ins k={k} ver={ver} size={rng.choice([64, 3000, 9000, 30000])}"); ver += 1
        elif a == "rm":
            ops.append(f"rm k={k}")
        else:
            ops += ["memevict", "wait"]        # everything inserted so far is handed to the disk tier and acknowledged
    ops += ["memevict", "wait", f"crashsweep tears={tears}"]
    return cfg + "\n" + "\n".join(ops) + "\n"


def gen_c03(rng, n_faults, exhaustive_pages=None):
    """one script per fault: workload, close, damage one page, reopen, read everything"""
    out = []
    for _ in range(n_faults):
        tomb = rng.choice([0, 1])
        cfg = H.cfg_line(policy="woi", algo="fifo", univ=5, blocks=8, tomb=tomb)
        ops, ver = [], 1
        for i in range(rng.randrange(4, 10)):
            k = rng.randrange(5)
            ops.append(f"ins k={k} ver={ver} size={rng.choice([64, 1000, 4060, 4061, 9000, 20000])}"); ver += 1
            if rng.random() < 0.4:
                ops.append("wait")
            if rng.random() < 0.15:
                ops.append(f"rm k={rng.randrange(5)}")
        if tomb and rng.random() < 0.3:
            # a large value whose fill byte is 0xff (version 165): whole pages of 0xff that a misdirected write or a
            # page swap can put into the tombstone log
            ops.append(f"ins k=4 ver=165 size=20000")
        ops += ["wait", "close"]
        nparts = 8 + tomb
        if tomb and rng.random() < 0.25:
            ops.append(rng.choice(["fault part=0 page=0 kind=ff", "fault part=1 page=2 kind=swap:0:0",
                                   "fault part=0 page=0 kind=swap:1:2", f"fault part=0 page=0 kind=flip:{rng.randrange(4096 * 8)}"]))
        for _ in range(rng.choice([1, 1, 1, 2, 3])):
            part = rng.randrange(nparts)
            page = rng.choice([0, 0, 0, 1, 1, 2, 3, 4, 5, 6, 7, 8])
            kind = rng.choice(["zero", "ff", f"flip:{rng.randrange(4096 * 8)}", f"flip:{rng.randrange(64 * 8)}",
                               f"flip:{(rng.randrange(3, 4096)) * 8 + rng.randrange(8)}",
                               f"swap:{rng.randrange(nparts)}:{rng.choice([0, 1, 2, 3])}"])
            ops.append(f"fault part={part} page={page} kind={kind}")
        if rng.random() < 0.35:
            # targeted: the first entry of the first block (data starts behind the 4 KiB blob index) - its last value
            # byte, a byte of its length / checksum fields, or the entry count of the blob index page
            first = next((o for o in ops if o.startswith("ins ")), None)
            if first:
                size = max(16, int(first.split("size=")[1].split()[0]))
                blk = tomb      # partition of block 0
                last_val = 4096 + 36 + 8 + size - 1
                tgt = rng.choice([last_val, last_val - 1, 4096 + rng.randrange(0, 36), 8 + rng.randrange(0, 4), rng.randrange(0, 8)])
                ops.append(f"fault part={blk} page={tgt // 4096} kind=flip:{(tgt % 4096) * 8 + rng.randrange(8)}")
        ops += ["reopen", "probe"]
        for k in range(5):
            ops.append(f"get k={k}")
        out.append(cfg + "\n" + "\n".join(ops) + "\n")
    return out


def gen_c03_payload(rng, n):
    """every entry live, layout known (one batch per insert, all in block 0 behind the 4 KiB blob index; an entry takes
    36 bytes of header + 8 of value length + the value + 8 of key, page aligned): one bit of one entry's payload -
    value length, value bytes or key bytes - or of its header (the length fields, which no checksum covers, hash, sequence,
    checksum, tag) is flipped on the closed device; small (single-page) and large entries"""
    out = []
    for _ in range(n):
        tomb = rng.choice([0, 1])
        cfg = H.cfg_line(policy="woi", algo="fifo", univ=5, blocks=8, tomb=tomb)
        sizes = [rng.choice([16, 64, 500, 1000, 3000, 4000, 4044, 4045, 4060, 9000]) for _ in range(5)]
        ops, offs, off = [], [], 4096
        for k, sz in enumerate(sizes):
            ops += [f"ins k={k} ver={k + 1} size={sz}", "wait"]
            offs.append(off); off += (52 + sz + 4095) // 4096 * 4096
        ops.append("close")
        for _ in range(rng.choice([1, 1, 2])):
            j = rng.randrange(5)
            where = rng.choice(["value", "value", "value", "last", "first", "key", "vlen", "hdr_klen", "hdr_vlen", "hdr_vlen", "hdr_other"])
            lo = offs[j] + 36
            # the 36-byte header: key length (4 bytes), value length (4), hash (8), sequence (8), checksum (8), tag + magic (4)
            tgt = {"value": lo + 8 + rng.randrange(sizes[j]), "last": lo + 8 + sizes[j] - 1, "first": lo + 8,
                   "key": lo + 8 + sizes[j] + rng.randrange(8), "vlen": lo + rng.randrange(8),
                   "hdr_klen": offs[j] + rng.randrange(4), "hdr_vlen": offs[j] + 4 + rng.randrange(4),
                   "hdr_other": offs[j] + 8 + rng.randrange(28)}[where]
            ops.append(f"fault part={tomb} page={tgt // 4096} kind=flip:{(tgt % 4096) * 8 + rng.randrange(8)}")
        ops += ["reopen", "probe"] + [f"get k={k}" for k in range(5)]
        out.append(cfg + "\n" + "\n".join(ops) + "\n")
    return out


def gen_scripts(pid, tier, seed):
    rng = random.Random(seed * 1000 + int(pid[1:]))
    th = tier == "thorough"
    if pid == "C01":
        return [gen_c01(rng, rng.choice([10, 25, 50])) for _ in range(2500 if th else 260)], \
            "random histories over 3 keys with versioned values: insert / storage-writer insert / get / get_or_fetch / remove, " \
            "flush held and released, waits, memory eviction, graceful restart; both policies, five algorithms, tombstone log on/off, " \
            "memory capacity 1..100 entries, sizes 16 B..61 kB, 1..2 flushers"
    if pid == "C12":
        return [gen_c12(rng, rng.choice([4, 8, 16])) for _ in range(2500 if th else 260)], \
            "quiescent histories (wait after every step) over 4 keys with fixed placement advice (default / on-disk / in-memory), " \
            "insert, get, get_or_fetch, evict-all, close, reopen; both policies, flush_on_close on/off, admission all/none/some"
    if pid == "C15":
        return [gen_c15(rng) for _ in range(1500 if th else 160)] + [gen_c15_burst(rng) for _ in range(100 if th else 12)], \
            "histories ending in close [+ late insert] [+ second close] + reopen + read of every key; both policies, flush_on_close " \
            "on/off, in-memory-only entries, entries updated after their first disk write, reinsertion filter with a small device"
    if pid == "C09":
        return [gen_c09_order(rng) for _ in range(6 if th else 2)] + [gen_c09(rng) for _ in range(300 if th else 36)] + \
               [gen_c09_hot(rng) for _ in range(60 if th else 8)], \
            "sustained inserts of 2..4 device capacities (4..8 blocks of 64 KiB, mixed sizes, overwrites, deletes, lookups), " \
            "1..2 flushers, 1..2 reclaimers, reinsertion filter none / key 0; hot keys kept by the reinsertion filter and " \
            "overwritten repeatedly among a stream of cold keys of the same size (copies of several generations at the same " \
            "offsets of reused blocks), looked up after every burst"
    if pid == "C04":
        n = 60 if th else 8
        return [gen_c04(rng, False, "0,1,3" if th else "0,1") for _ in range(n)] + [gen_c04(rng, True) for _ in range(n // 2)] + \
               [gen_c04_ack(rng) for _ in range(n // 2)], \
            "workloads of inserts / overwrites / deletes / waits; every write boundary of the logged device writes (plus 1- and " \
            "3-page tears of the in-flight write) turned into a device image, reopened, every key read, one more write issued; " \
            "also wrap-around workloads on a 4-block device (reclaim in progress at the crash)"
    if pid == "C03":
        return gen_c03(rng, 3000 if th else 160) + gen_c03_payload(rng, 600 if th else 60), \
            "workload, graceful close, 1..3 page faults (zero page, 0xff page, single bit flips anywhere / in the header area, " \
            "page swaps within and across partitions incl. the tombstone log), reopen in quiet mode, read every key; plus " \
            "targeted payload damage: five live entries of known layout (single-page and multi-page), one bit of one entry's " \
            "value length / value bytes / key bytes flipped"
    raise ValueError(pid)


def corpus(pid):
    return [open(p).read() for p in sorted(glob.glob(os.path.join(C.ROOT, "corpus", pid, "*.script")))]


def shrink(pid, script, budget=60):
    lines = script.strip().split("\n")
    cfg, raw = lines[0], lines[1:]
    # units that must stay together: a graceful restart (close + reopen), hold ... unhold brackets stay balanced
    ops, i = [], 0
    while i < len(raw):
        if raw[i] == "close" and i + 1 < len(raw) and raw[i + 1] == "reopen":
            ops.append("close\nreopen"); i += 2
        else:
            ops.append(raw[i]); i += 1

    def fails(ops_):
        flat = "\n".join(ops_).split("\n")
        if flat.count("hold") != flat.count("unhold") or "reopen" in [x for x in flat if x == "reopen" and flat[flat.index(x) - 1] != "close"]:
            return False
        r = H.run_batch([cfg + "\n" + "\n".join(ops_) + "\n"])[0]
        return H.ORACLES[pid](r[0], r[1]) is not None

    runs, changed = 0, True
    while changed and runs < budget:
        changed = False
        i = len(ops) - 1
        while i >= 0 and runs < budget:
            cand = ops[:i] + ops[i + 1:]
            runs += 1
            if cand and fails(cand):
                ops = cand; changed = True
            i -= 1
    return cfg + "\n" + "\n".join(ops) + "\n"


def match_known(pid, script, what):
    """open findings (known_findings.json): matched by what fails, never by property id alone"""
    for f in C.load_findings():
        if f.get("status") != "open" or pid not in f.get("properties", [f.get("property")]):
            continue
        m = f.get("matcher", {})
        if all(tok in script for tok in m.get("script_contains", [])) and all(tok in what for tok in m.get("what_contains", [])):
            return f
    return None


def run(pid, tier, seed, gate, replay=None):
    C.build_harness(["hybridsim"])
    corr_replay = None
    if replay:
        rj = json.load(open(replay))
        stream = rj.get("stream", "")
        if stream.startswith("hybridsim/one-key model") or stream.startswith("hybridsim/block-manager model"):
            # a history of a correspondence stream: judged by that stream (model against implementation), not by the
            # property's own oracle, which is written for the histories of its own generators
            corr_replay = (stream, rj["script"])
            scripts, rule = [], "replay of a correspondence history"
        else:
            scripts, rule = [rj["script"]], "replay"
    else:
        scripts, rule = gen_scripts(pid, tier, seed)
        scripts = corpus(pid) + scripts
    results = H.run_many(scripts, chunk=(2 if pid in ("C04", "C09") else 10))
    failing, flags, nontrivial = [], {}, set()
    for s, (cfgl, lines) in zip(scripts, results):
        o = H.ORACLES[pid](cfgl, lines)
        if o:
            failing.append((s, lines, o))
        fl = set()
        for l in lines:
            name, kv, r, nw, ew, wl = H.parse(l)
            if ew:
                fl.add("entry-write")
            if ":Disk" in r:
                fl.add("disk-hit")
            if r.startswith("hit:") and ":Memory" in r:
                fl.add("memory-hit")
            if name == "reopen":
                fl.add("restart")
            if name == "crashprobe":
                fl.add("crash-image")
            if name == "fault":
                fl.add("fault")
            if name == "rm":
                fl.add("remove")
        for f in fl:
            flags[f] = flags.get(f, 0) + 1
        if fl & {"entry-write", "disk-hit", "crash-image", "fault"}:
            nontrivial.add(C.case_hash(s))
    violations = []
    # known (open) findings are reported once each; everything else is a violation
    unknown = []
    known_seen = {}
    for s, lines, o in failing:
        f = match_known(pid, s, o[1])
        if f:
            known_seen.setdefault(f["id"], (f, s, o))
        else:
            unknown.append((s, lines, o))
    for fid, (f, s, o) in known_seen.items():
        violations.append(dict(known=f"{f['id']}: {f['what']}", replay=None))
    if unknown:
        s, lines, o = min(unknown, key=lambda t: len(t[0]))
        small = shrink(pid, s) if pid not in ("C04",) else s
        r = H.run_batch([small])[0]
        o2 = H.ORACLES[pid](r[0], r[1]) or o
        rp = C.write_replay(pid, seed, 0, dict(property=pid, stream="hybridsim", script=small, impl_obs=r[1],
                                               oracle=dict(failed_at=o2[0], what=o2[1]), broken=None,
                                               failing_cases=len(unknown)))
        violations.append(dict(replay=rp, what=o2[1]))
    # correspondence: the extracted one-key hybrid model against the implementation on deterministic histories
    corr = None
    if pid in ("C01", "C12", "C15", "C04", "C03") and (not replay or (corr_replay and corr_replay[0].startswith("hybridsim/one-key"))):
        from . import hybcorr as X
        C.build_ocaml()
        crng = random.Random(seed * 31 + 5)
        n = 3000 if tier == "thorough" else 300
        cs = [corr_replay[1]] if corr_replay else [X.gen(crng, crng.choice([8, 16, 30, 50])) for _ in range(n)]
        cres = X.check(cs)
        cbad = [(sc, ls, m) for sc, ls, m, sk in cres if m]
        corr = dict(scripts=len(cs), skipped=sum(1 for r in cres if r[3]), mismatches=len(cbad), timing_dependent_reruns=len(X.FLAKY))
        if cbad and not unknown:
            sc, ls, m = min(cbad, key=lambda t: len(t[0]))
            # a disagreement is a broken correspondence; it is a failing input if the general freshness oracle (written
            # for arbitrary histories: admission lists, restarts, tombstone log on/off) rejects the history too
            o = H.oracle_c01(sc.split("\n")[0], ls)
            rp = C.write_replay(pid, seed, "corr", dict(property=pid, stream="hybridsim/one-key model", script=sc, impl_obs=ls,
                                                       oracle=(dict(failed_at=o[0], what=o[1]) if o else None),
                                                       broken=None if o else f"correspondence hybridsim/model: {m[1]} (op {m[0]}); "
                                                                              f"{len(cbad)} of {len(cs)} histories differ"))
            violations.append(dict(replay=rp, what=(o[1] if o else f"model and implementation differ: {m[1]}"), nofail=not o))
    if pid == "C09" and (not replay or (corr_replay and corr_replay[0].startswith("hybridsim/block-manager"))):
        from . import blkcorr as B
        C.build_ocaml()
        brng = random.Random(seed * 17 + 3)
        bs = [corr_replay[1]] if corr_replay else [B.gen(brng) for _ in range(2500 if tier == "thorough" else 250)]
        bres = B.check(bs)
        bbad = [(sc, ls, m) for sc, ls, m, sk in bres if m]
        corr = dict(block_manager_histories=len(bs), skipped=sum(1 for r in bres if r[3]), mismatches=len(bbad))
        if bbad and not unknown:
            sc, ls, m = min(bbad, key=lambda t: len(t[0]))
            o = None
            rp = C.write_replay(pid, seed, "blk", dict(property=pid, stream="hybridsim/block-manager model (hook H2)", script=sc,
                                                      impl_obs=[l for l in ls if l.startswith("bev")],
                                                      oracle=(dict(failed_at=o[0], what=o[1]) if o else None),
                                                      broken=None if o else f"correspondence block manager: {m}; {len(bbad)} of {len(bs)} histories differ"))
            violations.append(dict(replay=rp, what=(o[1] if o else f"model and implementation differ: {m}"), nofail=not o))
    if gate.get("failed") and not unknown:
        rp = C.write_replay(pid, seed, "gate", dict(property=pid, oracle=None, broken=f"Coq gate for Props/{pid}.v: {gate['failed']}",
                                                   note=f"oracle search over {len(scripts)} histories found no failing input"))
        violations.append(dict(replay=rp, nofail=True, what=gate["failed"]))
    k = min(len(results) - 1, 3)
    cov = dict(
        evaluations=(len(scripts) if pid != "C04" else sum(1 for _, ls in results for l in ls if l.startswith("crashprobe"))) or 1,
        distinct_nontrivial=(len(nontrivial) if pid != "C04" else
                             len({(C.case_hash(s), l.split("|")[0]) for s, (_, ls) in zip(scripts, results) for l in ls if l.startswith("crashprobe")}))
                            or (1 if corr_replay else 0),
        rule=rule + "; non-trivial = at least one entry write, disk hit, crash image or fault; distinct = SHA-1 of the script"
             + (" and the crash point (one case = one device image reopened)" if pid == "C04" else ""),
        samples=[dict(script=scripts[k].strip().split("\n")[:14], impl=[l[:200] for l in results[k][1][:8]])] if results else [],
        traces_validated_against_impl=len(scripts) - len(failing),
        input_distribution=dict(scripts=len(scripts), situations=flags, known_findings_hit=sorted(known_seen),
                                model_correspondence=corr),
        exhaustive=False)
    return cov, violations, ASSUME
