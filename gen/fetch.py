"""Fetch family (C06, C11; the in-flight half of C17): generators, runner, oracles."""
import itertools, os, random, tempfile
from . import common as C

FETCHTRACE = os.path.join(C.BIN, "fetchtrace")
DRIVER = os.path.join(C.OCAML, "fetch_driver")
ALGOS = ["fifo", "lru", "sieve", "s3fifo", "lfu"]


def cfg_line(algo="fifo", univ=3, hdiv=1, hmul=1, shards=1):
    return f"cfg algo={algo} univ={univ} hdiv={hdiv} hmul={hmul} shards={shards} bug_close=0"


def drain(calls):
    """resolve everything that may still be in flight, so that 'never hangs' is observable"""
    out = ["# drain"]
    for rnd in range(2):
        for c, (k, o, r) in calls.items():
            if o:
                out.append(f"opt c={c} res=miss")
        for c, (k, o, r) in calls.items():
            if r:
                out.append(f"req f={c} res=ok v={5000 + 10 * c + rnd}")
    return out


def gen_random(rng, n, univ=3):
    ops, calls, c, vins, vres = [], {}, 0, 100, 1000
    used_opt, used_req = set(), set()
    for _ in range(n):
        a = rng.choices(["call", "opt", "req", "insert", "remove", "dropc", "insertph"], [34, 18, 24, 10, 7, 7, 4])[0]
        if a == "call":
            k = rng.randrange(univ)
            o, r = rng.choice([(0, 1), (0, 1), (1, 0), (1, 1), (1, 1), (0, 0)])
            pub = 1 if (o, r) == (0, 1) and rng.random() < 0.3 else 0
            ops.append(f"call c={c} k={k} opt={o} req={r}" + (" pub=1" if pub else ""))
            calls[c] = (k, o, r); c += 1
        elif a == "opt":
            cand = [x for x, (k, o, r) in calls.items() if o and x not in used_opt]
            if cand:
                x = rng.choice(cand); used_opt.add(x)
                res = rng.choice(["hit", "miss", "miss", "err"])
                ops.append(f"opt c={x} res={res}" + (f" v={vres}" if res == "hit" else "")); vres += 1
        elif a == "req":
            cand = [x for x, (k, o, r) in calls.items() if r and x not in used_req]
            if cand:
                x = rng.choice(cand); used_req.add(x)
                res = rng.choice(["ok", "ok", "ok", "err", "panic"])
                ops.append(f"req f={x} res={res}" + (f" v={vres}" if res == "ok" else "")); vres += 1
        elif a == "insert":
            ops.append(f"insert k={rng.randrange(univ)} v={vins}"); vins += 1
        elif a == "insertph":
            ops.append(f"insertph k={rng.randrange(univ)} v={vins}"); vins += 1
        elif a == "remove":
            ops.append(f"remove k={rng.randrange(univ)}")
        elif a == "dropc" and calls:
            ops.append(f"dropc c={rng.choice(list(calls))}")
    if rng.random() < 0.2:
        # the runtime is dropped, possibly right after a task was spawned and before its first poll
        if rng.random() < 0.6:
            k = rng.randrange(univ)
            o, r = rng.choice([(0, 1), (1, 0), (1, 1)])
            ops.append(f"call c={c} k={k} opt={o} req={r} nopoll=1"); calls[c] = (k, o, r); c += 1
        ops.append("kill")
        return ops + ["# drain"]
    return ops + drain(calls)


ALPHA = ["callR", "callO", "callOR", "optHit", "optMiss", "optErr", "reqOk", "reqErr", "reqPanic", "insert", "remove"]


def exhaustive(maxlen, algo="fifo"):
    """all action sequences of length <= maxlen over one key"""
    out = []
    for n in range(1, maxlen + 1):
        for seq in itertools.product(ALPHA, repeat=n):
            ops, calls, c, vins, vres = [], {}, 0, 100, 1000
            used_opt, used_req = set(), set()
            for a in seq:
                if a.startswith("call"):
                    o, r = {"callR": (0, 1), "callO": (1, 0), "callOR": (1, 1)}[a]
                    ops.append(f"call c={c} k=1 opt={o} req={r}"); calls[c] = (1, o, r); c += 1
                elif a.startswith("opt"):
                    cand = [x for x, (k, o, r) in calls.items() if o and x not in used_opt]
                    if not cand:
                        break
                    x = cand[0]; used_opt.add(x)
                    res = a[3:].lower()
                    ops.append(f"opt c={x} res={res}" + (f" v={vres}" if res == "hit" else "")); vres += 1
                elif a.startswith("req"):
                    cand = [x for x, (k, o, r) in calls.items() if r and x not in used_req]
                    if not cand:
                        break
                    x = cand[0]; used_req.add(x)
                    res = a[3:].lower()
                    ops.append(f"req f={x} res={res}" + (f" v={vres}" if res == "ok" else "")); vres += 1
                elif a == "insert":
                    ops.append(f"insert k=1 v={vins}"); vins += 1
                elif a == "remove":
                    ops.append("remove k=1")
            else:
                out.append(cfg_line(algo) + "\n" + "\n".join(ops + drain(calls)) + "\n")
    return out


def redrain(ops):
    """drop the old drain, rebuild it for the calls that are still in the script"""
    body = []
    for l in ops:
        if l.startswith("# drain"):
            break
        body.append(l)
    if "kill" in body:
        return body, body + ["# drain"]
    calls = {}
    for l in body:
        if l.startswith("call "):
            kv = dict(t.split("=", 1) for t in l.split()[1:] if "=" in t)
            calls[int(kv["c"])] = (int(kv["k"]), kv["opt"] == "1", kv["req"] == "1")
    return body, body + drain(calls)


def split_traces(text):
    res, cur = [], None
    for line in text.split("\n"):
        if not line.strip():
            continue
        if line.startswith("cfg "):
            cur = (line, []); res.append(cur)
        elif cur is not None:
            cur[1].append(line)
    return res


def run_batch(scripts, bug=False):
    if not scripts:
        return []
    with tempfile.TemporaryDirectory(prefix="fetchv") as td:
        sp = os.path.join(td, "s.txt")
        open(sp, "w").write("".join(scripts))
        rc, out = C.sh([FETCHTRACE, sp], timeout=900)
        if rc != 0:
            raise C.Broken("fetchtrace failed", out[-2000:])
        impl = split_traces(out)
        txt = "".join(scripts)
        if bug:
            txt = txt.replace("bug_close=0", "bug_close=1")
        rc, mout = C.sh([DRIVER], inp=txt, timeout=900)
        if rc != 0:
            raise C.Broken("fetch_driver failed", mout[-2000:])
        model = split_traces(mout)
        if len(impl) != len(scripts) or len(model) != len(scripts):
            raise C.Broken(f"trace count mismatch: {len(scripts)} scripts, {len(impl)} impl, {len(model)} model")
        return [(i[1], m[1], i[0]) for i, m in zip(impl, model)]


def run_many(scripts, bug=False, chunk=150):
    chunks = [scripts[i:i + chunk] for i in range(0, len(scripts), chunk)]
    res = C.pmap(lambda ch: run_batch(ch, bug), chunks)
    return [x for r in res for x in r]


def parse(line):
    op, _, obs = line.partition("|")
    op = op.strip()
    kv = dict(t.split("=", 1) for t in op.split()[1:] if "=" in t)
    d = {}
    for t in obs.split():
        a, _, b = t.partition("=")
        d[a] = b
    callers = dict(x.split(":") for x in d.get("callers", "").split(",") if x)
    live = [x for x in d.get("live", "").split(",") if x]
    started = [x for x in d.get("started", "").split(",") if x]
    mem = dict(x.split(":") for x in d.get("mem", "").split(",") if x)
    return op.split()[0], kv, callers, live, started, mem


def first_mismatch(impl, model):
    for n, (a, b) in enumerate(zip(impl, model)):
        if a.partition("|")[2].split() != b.partition("|")[2].split():
            return n
    return None if len(impl) == len(model) else min(len(impl), len(model))


def oracle_c06(lines):
    """coalescing, everyone answered, error/cancel semantics, failure caches nothing, donation"""
    calls = {}          # c -> (k, opt, req)
    dropped = set()
    prev_callers, prev_mem = {}, {}
    fstart, ins_at = {}, {}
    values = {}         # key -> values that may legitimately be seen (inserts, fetch results, disk hits)
    errs = {}           # key -> error kinds that happened
    for n, l in enumerate(lines):
        name, kv, callers, live, started, mem = parse(l)
        if name == "call":
            calls[kv["c"]] = (kv["k"], kv["opt"] == "1", kv["req"] == "1")
        if name == "dropc":
            dropped.add(kv["c"])
        if name in ("insert", "insertph"):
            values.setdefault(kv["k"], set()).add(kv["v"])
        if name == "kill":
            for k0 in set(v[0] for v in calls.values()):
                errs.setdefault(k0, set()).add("X1")
        if name == "req" and kv["f"] in calls:
            k = calls[kv["f"]][0]
            if kv["res"] == "ok":
                values.setdefault(k, set()).add(kv["v"])
            else:
                errs.setdefault(k, set()).add("X0" if kv["res"] == "err" else "X1")
        if name == "opt" and kv["c"] in calls:
            k = calls[kv["c"]][0]
            if kv["res"] == "hit":
                values.setdefault(k, set()).add(kv["v"])
            if kv["res"] == "err":
                errs.setdefault(k, set()).add("X2")
        # results only move from pending to a final value, and the value is a legitimate one
        for c, r in callers.items():
            if c in prev_callers and prev_callers[c] != "P" and prev_callers[c] != r:
                return (n, f"caller {c} changed its answer from {prev_callers[c]} to {r}")
            if (c not in prev_callers or prev_callers[c] == "P") and r != "P":
                k = calls[c][0]
                if r.startswith("E") and r[1:] not in values.get(k, set()):
                    return (n, f"caller {c} (key {k}) received value {r[1:]} that was never inserted/fetched for that key")
                if r.startswith("X") and r not in errs.get(k, set()):
                    return (n, f"caller {c} (key {k}) received error {r} although no such failure happened for that key")
                if r == "N":
                    if calls[c][2]:
                        return (n, f"caller {c} supplied a fetch but was answered 'not found'")
                    others = [x for x, rr in prev_callers.items() if rr == "P" and x != c and calls[x][0] == k and calls[x][2]]
                    if others:
                        return (n, f"lookup-only caller {c} answered 'not found' although fetching caller {others[0]} had joined")
        # single flight per key: a second origin fetch for a key may start while an older one is still running
        # only if that older one was abandoned, i.e. an explicit insert of the key took its waiters in between
        if name in ("insert", "insertph"):
            ins_at.setdefault(kv["k"], []).append(n)
        for f in live:
            if f not in fstart:
                fstart[f] = n
        lk = [f for f in live if f in calls]
        for a in lk:
            for b in lk:
                if a != b and calls[a][0] == calls[b][0] and fstart[a] <= fstart[b] and (fstart[a], a) < (fstart[b], b):
                    k = calls[a][0]
                    if not any(fstart[a] < x <= fstart[b] for x in ins_at.get(k, [])):
                        return (n, f"origin fetches {a} and {b} for key {k} are executing at the same time")
        # a failed fetch caches nothing
        if name == "req" and kv.get("res") in ("err", "panic") and kv["f"] in calls:
            k = calls[kv["f"]][0]
            if mem.get(k) != prev_mem.get(k):
                return (n, f"failed fetch changed the cached value of key {k}: {prev_mem.get(k)} -> {mem.get(k)}")
        prev_callers, prev_mem = callers, mem
    if lines:
        stuck = [c for c, r in prev_callers.items() if r == "P"]
        # (after `kill` every task is gone, so nobody may still be waiting either)
        if stuck:
            return (len(lines) - 1, f"callers {stuck} never answered although every fetch was resolved (hang)")
    return None


def oracle_c11(lines):
    """an explicit insert answers the waiting callers with its value and is not replaced by a late fetch"""
    calls, pinned, absent_since = {}, {}, {}
    prev_callers = {}
    for n, l in enumerate(lines):
        name, kv, callers, live, started, mem = parse(l)
        if name == "call":
            calls[kv["c"]] = kv["k"]
            if mem.get(kv["k"]) is None and kv["k"] in pinned:
                pass
        if name in ("insert", "insertph"):
            k, v = kv["k"], kv["v"]
            for c, r in prev_callers.items():
                if r == "P" and calls.get(c) == k and callers.get(c, "E" + v) != "E" + v:
                    return (n, f"caller {c} was waiting for key {k} when insert({k},{v}) completed but received {callers.get(c)}")
            # a disk-only insert leaves nothing resident: the key must stay absent until the next insert, or a fetch that
            # STARTS later (a call made after this point)
            pinned[k] = v if name == "insert" else None
            if name == "insertph":
                absent_since[k] = n
        if name == "remove":
            pinned.pop(kv["k"], None); absent_since.pop(kv["k"], None)
        if name == "call" and kv["k"] in absent_since:
            pinned.pop(kv["k"], None); absent_since.pop(kv["k"], None)      # a new fetch may legitimately fill the key
        for k, v in pinned.items():
            if mem.get(k) != v:
                if v is None:
                    return (n, f"key {k}: a disk-only insert overtook the pending fetch, yet the late fetch result {mem.get(k)} "
                               f"became resident afterwards")
                return (n, f"key {k}: explicit insert of {v} was replaced by {mem.get(k)} without a later insert/remove")
        prev_callers = callers
    return None


ORACLES = {"C06": oracle_c06, "C11": oracle_c11}


def classify(lines):
    fl = set()
    prev = {}
    for l in lines:
        name, kv, callers, live, started, mem = parse(l)
        if name in ("insert", "insertph") and any(r == "P" for r in prev.values()):
            fl.add("insert-during-fetch" if name == "insert" else "disk-only-insert-during-fetch")
        if len([c for c, r in callers.items() if r == "P"]) >= 2:
            fl.add("coalesced-waiters")
        if name == "req":
            fl.add("req-" + kv.get("res", ""))
        if name == "opt":
            fl.add("opt-" + kv.get("res", ""))
        if any(r == "N" for r in callers.values()):
            fl.add("lookup-none")
        if any(r == "X1" for r in callers.values()):
            fl.add("cancelled")
        if name == "dropc":
            fl.add("dropped-caller")
        prev = callers
    return fl
