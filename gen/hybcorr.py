"""Correspondence between the one-key hybrid model (coq/Hybrid/Engine.v, extracted) and the real HybridCache.

Deterministic histories: memory large enough that only `memevict` evicts, every step that can submit work is
followed by `wait` unless the flushers are held, restarts are graceful.  The same history is run by `hybridsim`
and, projected key by key, by the extracted model; compared are
  - the version every lookup returns (get / get_or_fetch / store load),
  - the number of cache entries written for each key, at every quiescent point,
  - what is found after a restart.
"""
import os, random, subprocess
from . import common as C
from . import hybrid as H

DRIVER = os.path.join(C.OCAML, "hyb_driver")


def gen(rng, n_ops):
    policy = rng.choice(["woi", "woe"])
    admit = rng.choice(["all", "all", "all", "none", "0,1", "1,2,3"])
    tomb = rng.choice([0, 1])
    cfg = H.cfg_line(policy=policy, algo=rng.choice(H.ALGOS), mem=100, univ=4, tomb=tomb, foc=rng.choice([0, 1, 1]),
                     admit=admit, blocks=16, settle=2)
    locs = {0: "default", 1: rng.choice(["default", "default", "ondisk"]), 2: rng.choice(["default", "inmem"]), 3: "default"}
    ops, ver, held = [], 1, False

    def settle():
        if not held:
            ops.append("wait")
    for _ in range(n_ops):
        a = rng.choices(["ins", "get", "gof", "rm", "memevict", "hold", "unhold", "restart", "sload", "sins"],
                        [30, 22, 8, 8, 12, 5, 6, 5, 6, 2])[0]
        k = rng.randrange(4)
        if a == "ins":
            ops.append(f"ins k={k} ver={ver} size=64" + (f" loc={locs[k]}" if locs[k] != "default" else "")); ver += 1
            settle()
        elif a == "sins":
            ops.append(f"sins k={k} ver={ver} size=64"); ver += 1
            settle()
        elif a == "gof" and locs[k] == "default":
            ops.append(f"gof k={k} ver={ver} size=64"); ver += 1
            settle()
        elif a == "get":
            ops.append(f"get k={k}")
        elif a == "sload":
            ops.append(f"sload k={k}")
        elif a == "rm":
            ops.append(f"rm k={k}")
            settle()
        elif a == "memevict":
            ops.append("memevict")
            settle()
        elif a == "hold" and not held:
            ops.append("hold"); held = True
        elif a == "unhold" and held:
            ops.append("unhold"); held = False
            ops.append("wait")
        elif a == "restart" and not held:
            ops += ["wait", "close", "reopen"]
        if not held and rng.random() < 0.08:
            # the process dies at this quiescent point: what would a reopen of the device as it is now serve?
            ops += ["wait", "crashprobe cut=100000000"]
    if held:
        ops += ["unhold"]
    ops += ["wait"] + [f"get k={k}" for k in range(4)] + ["wait", "close", "reopen"] + [f"get k={k}" for k in range(4)]
    return cfg + "\n" + "\n".join(ops) + "\n"


def admitted(adm, k):
    if adm == "all":
        return True
    if adm in ("none", "throttle"):
        return False
    return k in set(map(int, adm.split(",")))


def translate(cfgl, lines):
    """hybridsim trace -> (model script, expectations): expectations[i] = (op index, what the implementation showed)"""
    cfg = dict(t.split("=", 1) for t in cfgl.split()[1:])
    univ = int(cfg.get("univ", 4))
    adm = cfg.get("admit", "all")
    rein = cfg.get("reinsert", "none")
    reins = set() if rein == "none" else set(map(int, rein.split(",")))
    out = [f"cfg woi={1 if cfg.get('policy') == 'woi' else 0} tomb={cfg.get('tomb', 0)} foc={cfg.get('foc', 1)}"]
    for k in range(univ):
        out.append(f"key {k} accepts={1 if admitted(adm, k) else 0} reins={1 if k in reins else 0}")
    expect = []
    vers = {k: [] for k in range(univ)}      # k -> implementation versions in insertion order (model stamp j+1 <-> vers[k][j])
    written = {k: set() for k in range(univ)}
    held = False
    for n, l in enumerate(lines):
        name, kv, r, nw, ew, wl = H.parse(l)
        for (h, sq) in ew:
            if h in written:
                written[h].add(sq)
        if r in ("PANIC", "HANG") or r.startswith("err"):
            return None
        if name in ("ins", "sins"):
            k = int(kv["k"]); vers[k].append(int(kv["ver"]))
            loc = "ondisk" if name == "sins" else kv.get("loc", "default")
            out.append(f"{k} ins {loc}")
        elif name in ("get", "gof"):
            k = int(kv["k"])
            res = H.lookup_result(r)
            got = None if res is None or res[0] == "err" else res[1]
            fetched = name == "gof" and res is not None and res[0] != "err" and res[5]
            if fetched:
                # the lookup missed and the origin value was inserted
                out.append(f"{k} get"); expect.append((n, k, "get", None))
                vers[k].append(int(kv["ver"])); out.append(f"{k} ins default")
            else:
                out.append(f"{k} get"); expect.append((n, k, "get", got))
        elif name == "sload":
            k = int(kv["k"])
            got = None if r == "-" else int(r[1:].split(":")[1])
            out.append(f"{k} sload"); expect.append((n, k, "sload", got))
        elif name == "rm":
            out.append(f"{int(kv['k'])} rm")
        elif name == "memevict":
            out.append("* evict")
        elif name == "hold":
            held = True
        elif name == "unhold":
            held = False
        elif name == "wait" and not held:
            out.append("* drain")
            for k in range(univ):
                out.append(f"{k} subs"); expect.append((n, k, "subs", len(written[k])))
        elif name == "reopen":
            out.append("* restart")
        elif name == "crashprobe":
            body = r.split(" post=")[0].split(" ", 1)[1] if " " in r else ""
            for item in body.split(","):
                if "=" not in item:
                    continue
                k, v = item.split("=", 1)
                got = None if v == "-" else int(v[1:].split(":")[1])
                out.append(f"{int(k)} crash"); expect.append((n, int(k), "crash", got))
    return "\n".join(out) + "\n", expect, vers


def run_model(texts):
    p = subprocess.run([DRIVER], input="".join(texts), capture_output=True, text=True, timeout=600)
    if p.returncode != 0:
        raise C.Broken("hyb_driver failed", p.stderr[-2000:])
    res, cur = [], None
    for line in p.stdout.split("\n"):
        if line.startswith("cfg "):
            cur = []; res.append(cur)
        elif line.strip() and cur is not None:
            cur.append(line.split())
    return res


PENDING_OK = False


def compare(expect, vers, mobs):
    """first disagreement or None"""
    if len(expect) != len(mobs):
        return (-1, f"model printed {len(mobs)} observations, expected {len(expect)}")
    for (n, k, kind, want), m in zip(expect, mobs):
        mk, mkind, mv = int(m[0]), m[1], m[2]
        if kind == "subs":
            if int(mv) != want:
                return (n, f"entries written for key {k}: implementation {want}, model {mv}")
            continue
        if mv.endswith("*"):
            if kind == "sload" and PENDING_OK:
                continue                  # the model still has work queued for the key: not a quiescent point for it
            mv = mv[:-1]
        if mv == "-":
            got = None
        else:
            j = int(mv.lstrip("qd")) - 1
            got = vers[k][j] if 0 <= j < len(vers[k]) else f"stamp{j + 1}"
        if got != want:
            return (n, f"{kind} of key {k}: implementation {'miss' if want is None else 'version ' + str(want)}, "
                       f"model {'miss' if got is None else 'version ' + str(got)}")
    return None


def check(scripts):
    """-> list of (script, impl lines, mismatch or None, skipped).  A disagreement counts only if it shows on three
    runs of the history: whether `memevict` finds an entry unreferenced can depend on when a finished fetch task drops
    its handle (about one history in two thousand on a loaded machine)."""
    out = check_once(scripts)
    for i, (s, lines, m, sk) in enumerate(out):
        if m:
            for _ in range(2):
                s2, lines2, m2, sk2 = check_once([s])[0]
                if not m2:
                    out[i] = (s, lines2, None, sk2)
                    FLAKY.append(s)
                    break
    return out


FLAKY = []


def check_once(scripts):
    results = H.run_many(scripts)
    texts, metas = [], []
    for s, (cfgl, lines) in zip(scripts, results):
        t = translate(cfgl, lines)
        metas.append((s, lines, t))
        if t is not None:
            texts.append(t[0])
    mres = run_model(texts) if texts else []
    out, j = [], 0
    for s, lines, t in metas:
        if t is None:
            out.append((s, lines, None, True)); continue
        out.append((s, lines, compare(t[1], t[2], mres[j]), False)); j += 1
    return out
