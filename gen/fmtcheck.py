"""Check flow for C08 (disk-format round trip)."""
import json, os, random
from . import common as C
from . import fmtgen as G

ASSUME = [
    "XXH64 is compared against an independent re-implementation (gen/fmtgen.py); zstd 1.5.7 / lz4 1.10 are trusted to "
    "round-trip (codec_ok hypothesis of the theorems) and are exercised through the implementation's own decoder",
    "Rust's to_le_bytes/from_le_bytes and String::from_utf8 agree with the model's encode_le and the driver's UTF-8 validator",
    "the serde feature's bincode path is not modelled",
]


def key_enc(k):
    if k["kty"] == "u64":
        return int(k["k"]).to_bytes(8, "little")
    b = bytes.fromhex(k.get("k", ""))
    return len(b).to_bytes(8, "little") + b


def run(pid, tier, seed, gate, replay=None):
    C.build_ocaml()
    C.build_harness(["fmt"])
    rng = random.Random(seed * 1000 + 8)
    thorough = tier == "thorough"
    if replay:
        rp = json.load(open(replay))
        enc, misc, push = [], rp["script"], []
        enc = [l for l in misc if l.startswith("enc ")]
        push = [l for l in misc if l.startswith("push ")]
        misc = [l for l in misc if not l.startswith(("enc ", "push "))]
    else:
        enc, misc = G.gen_codec(rng, 120 if thorough else 12)
        push = G.gen_push(rng, 4000 if thorough else 500)
    failures, mism = [], []

    # pass 1: encode, misc
    impl1 = G.run_fmt(enc + misc)
    model1 = G.run_model(impl1)
    # pass 2: decode what pass 1 encoded (the round trip through the implementation)
    dec = []
    for l in impl1[:len(enc)]:
        k = G.kv(l.partition("|")[0]); o = G.kv(G.obs(l))
        if "hex" in o:
            dec.append(f"dec ty={k['ty']} hex={o['hex']} want={k['x']}")
    impl2 = G.run_fmt(dec)
    model2 = G.run_model(impl2)
    for a, b in zip(impl1 + impl2, model1 + model2):
        if G.obs(a) != G.obs(b):
            mism.append((a, b))
    for l in impl2:
        k = G.kv(l.partition("|")[0]); o = G.obs(l)
        if o != f"ok x={k['want']} rest=0":
            failures.append((l, f"{k['ty']}: decode(encode({k['want']})) gave `{o}`"))
    for l in impl1[len(enc):]:
        cmd, o = l.partition("|")[0].strip(), G.obs(l)
        k = G.kv(cmd)
        if cmd.startswith("encsmall"):
            need = 8 + len(k.get("hex", "")) // 2
            if (o == "ok") != (need <= int(k["room"])):
                failures.append((l, f"encoding {need} bytes into {k['room']} bytes of room reported `{o}`"))
        if cmd.startswith("encb ty=vec") or cmd.startswith("encb ty=str"):
            b = bytes.fromhex(k.get("hex", ""))
            if o != "hex=" + (len(b).to_bytes(8, "little") + b).hex():
                failures.append((l, "length-prefixed encoding differs from len(8, LE) ++ bytes"))
        if o == "PANIC":
            failures.append((l, "panic"))

    # pass S: the same encodings and round trips through the build with foyer-common's `serde` feature, where the blanket
    # bincode impl of Code replaces the hand-written ones (same wire format: fixed-width little-endian, u64 length prefix)
    serde_cases = 0
    if pid == "C08":
        fs = C.build_harness_serde()
        encb = [l.partition("|")[0].strip() for l in impl1[len(enc):] if l.startswith("encb ")]
        s1 = G.run_fmt(enc + encb, binary=fs)
        m1 = G.run_model(s1)
        sdec = []
        for l in s1[:len(enc)]:
            k = G.kv(l.partition("|")[0]); o = G.kv(G.obs(l))
            if "hex" in o:
                sdec.append(f"dec ty={k['ty']} hex={o['hex']} want={k['x']}")
        s2 = G.run_fmt(sdec, binary=fs)
        serde_cases = len(s1) + len(s2)
        for a, b in zip(s1, m1):
            if G.obs(a) != G.obs(b):
                mism.append(("[serde feature] " + a, b))
        for l in s2:
            k = G.kv(l.partition("|")[0]); o = G.obs(l)
            if o != f"ok x={k['want']} rest=0":
                failures.append(("[serde feature] " + l, f"with the serde feature, {k['ty']}: decode(encode({k['want']})) gave `{o}`"))

    # pass 3: Buffer::push
    impl3 = G.run_fmt(push)
    minput, expect_extra = [], []
    for l in impl3:
        cmd, o = l.partition("|")[0].strip(), G.obs(l)
        k, ov = G.kv(cmd), G.kv(o)
        extra, chk = "", {}
        if o == "PANIC":
            failures.append((l, "Buffer::push panicked")); minput.append(cmd); expect_extra.append({}); continue
        kenc = key_enc(k)
        if k["comp"] == "none":
            v = G.pattern(int(k["vlen"]), int(k["vpat"]))
            venc = len(v).to_bytes(8, "little") + v
            payload = venc + kenc
            extra = f" mvlen={len(venc)} ck={G.xxh64(payload)}"
            chk = dict(venc=venc)
        elif ov.get("ok") == "1":
            hdr = bytes.fromhex(ov["hdr"])
            extra = f" mvlen={ov['vlen']} ck={int.from_bytes(hdr[24:32], 'big')}"
        minput.append(cmd + extra); expect_extra.append(chk)
    model3 = G.run_model(minput)
    for l, m, chk in zip(impl3, model3, expect_extra):
        o, mo = G.kv(G.obs(l)), G.kv(G.obs(m))
        cmd = l.partition("|")[0].strip()
        k = G.kv(cmd)
        if G.obs(l) == "PANIC":
            continue
        for f in ("ok", "infos", "off", "len", "klen", "vlen", "hdr"):
            if f in mo and o.get(f) != mo.get(f):
                if not (k["comp"] != "none" and o.get("ok") == "0"):
                    mism.append((l, m)); break
        if o.get("ok") == "1":
            if o.get("rt") != "1" or o.get("kmatch") != "1":
                failures.append((l, "an accepted entry does not decode to the original key/value"))
            if int(o["len"]) != 36 + int(o["klen"]) + int(o["vlen"]):
                failures.append((l, "recorded length differs from header + key + value bytes"))
            if "venc" in chk:
                venc = chk["venc"]
                if int(o["vlen"]) != len(venc) or int(o["vx"]) != G.xxh64(venc):
                    failures.append((l, "uncompressed value bytes on disk differ from len ++ bytes (or checksum routine differs from XXH64)"))
                hdr = bytes.fromhex(o["hdr"])
                if int.from_bytes(hdr[24:32], "big") != G.xxh64(venc + key_enc(k)):
                    failures.append((l, "header checksum is not XXH64 of exactly the value and key bytes written"))
        else:
            if o.get("infos") != "0":
                failures.append((l, "a rejected entry left a committed record behind (partial success)"))
            if k["comp"] == "none":
                # must really not fit
                venc_len = 8 + int(k["vlen"]); klen = len(key_enc(k))
                room = int(k["cap"]) - int(k["pre"])
                ln = 36 + venc_len + klen
                al = (ln + 4095) // 4096 * 4096
                fits = room >= 36 and venc_len + klen <= room - 36 and al <= int(k["max"])
                if fits:
                    failures.append((l, "an entry that fits the buffer and the per-entry limit was rejected"))

    total = len(impl1) + len(impl2) + len(impl3)
    violations = []
    if failures:
        l, what = failures[0]
        rp = C.write_replay(pid, seed, 0, dict(property=pid, stream="fmt", script=[l.partition("|")[0].strip()],
                                               impl_obs=[l], oracle=dict(what=what), broken=None, failing_cases=len(failures)))
        violations.append(dict(replay=rp, what=what + " :: " + l[:300]))
    elif mism:
        a, b = mism[0]
        rp = C.write_replay(pid, seed, 0, dict(property=pid, stream="fmt", script=[a.partition("|")[0].strip()],
                                               impl_obs=[a], model_obs=[b], oracle=None,
                                               broken=f"correspondence fmt: {len(mism)} commands differ between model and implementation"))
        violations.append(dict(replay=rp, nofail=True, what=f"impl `{a[:200]}` model `{b[:200]}`"))
    if gate.get("failed") and not failures:
        rp = C.write_replay(pid, seed, "gate", dict(property=pid, oracle=None, broken=f"Coq gate for Props/{pid}.v: {gate['failed']}"))
        violations.append(dict(replay=rp, nofail=True, what=gate["failed"]))
    accepted = sum(1 for l in impl3 if " ok=1 " in l)
    kinds = {}
    for l in impl3:
        k = G.kv(l.partition("|")[0])
        key = (k["comp"], "ok" if " ok=1 " in l else "rej")
        kinds[str(key)] = kinds.get(str(key), 0) + 1
    cov = dict(
        evaluations=total + serde_cases,
        distinct_nontrivial=len(set(l.partition("|")[0] for l in impl1 + impl2 + impl3 if "PANIC" not in l and (" ok=1 " in l or "dec " in l or "enc " in l))),
        rule="numeric types at boundary + random bit patterns (encode, then decode through the implementation and the model); "
             "bool / Vec<u8> / String incl. invalid UTF-8, truncated and over-long inputs; encoding into too-small destinations; "
             "Buffer::push with sizes around buffer room / page / per-entry limit under none, zstd, lz4; "
             "non-trivial = decodes, encodes and accepted pushes, distinct by command text",
        samples=[impl1[0], impl2[0] if impl2 else "", impl3[0][:400] if impl3 else ""],
        traces_validated_against_impl=total - len(mism),
        input_distribution=dict(enc=len(enc), misc=len(misc), dec=len(dec), push=len(push), push_accepted=accepted, push_kinds=kinds),
        exhaustive=False)
    return cov, violations, ASSUME
